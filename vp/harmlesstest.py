#!/usr/bin/env python3
"""harmlesstest.py <dir with patch.diff + meta.json> ... — apply a behaviour-preserving rewrite to /repo, run every
registered check (quick tier), expect silence, undo.  Results go to /verif/harmless/<name>/ (patch, meta, verdicts)."""
import sys, os, json, subprocess, shutil, time
V = os.path.dirname(os.path.dirname(os.path.abspath(__file__)))
IDS = ['C%02d' % i for i in range(1, 21)]

def sh(cmd, cwd=None, timeout=3000):
    p = subprocess.run(cmd, shell=True, cwd=cwd, stdout=subprocess.PIPE, stderr=subprocess.STDOUT, timeout=timeout)
    return p.returncode, p.stdout.decode('utf8', 'replace')

def main():
    for d in sys.argv[1:]:
        d = os.path.abspath(d); name = os.environ.get('NAME_PREFIX', 'H') + os.path.basename(d)
        st = sh('git -C /repo status --porcelain')[1].strip()
        assert st == '', '/repo not clean: ' + st
        rc, out = sh('git -C /repo apply %s/patch.diff' % d)
        res = {'name': name, 'applies': rc == 0, 'checks': {}}
        if rc != 0: res['error'] = out[-300:]
        try:
            if rc == 0:
                for c in IDS:
                    t0 = time.time()
                    rc, out = sh('VERIF_EVIDENCE_DIR=%s/.build/seed_evidence ./check %s --tier quick' % (V, c), cwd=V)
                    vl = [l for l in out.splitlines() if l.startswith('VIOLATION')]
                    res['checks'][c] = {'exit': rc, 'violation_line': vl[0] if vl else None, 'wall_s': round(time.time() - t0, 1)}
                    if rc != 0:
                        res['checks'][c]['tail'] = out[-1500:]
                        if vl and 'replay=' in vl[0]:
                            try: res['checks'][c]['replay'] = json.dumps(json.load(open(vl[0].split('replay=')[1].split()[0])), default=str)[:1500]
                            except Exception: pass
        finally:
            sh('git -C /repo checkout -- .'); sh('git -C /repo clean -fdq src')
        out = os.path.join(V, 'harmless', name); os.makedirs(out, exist_ok=True)
        if os.path.abspath(d) != os.path.abspath(out): shutil.copy(os.path.join(d, 'patch.diff'), os.path.join(out, 'patch.diff'))
        meta = json.load(open(os.path.join(d, 'meta.json'))); meta['verification'] = res
        json.dump(meta, open(os.path.join(out, 'meta.json'), 'w'), indent=1)
        alarms = [c for c, r in res['checks'].items() if r['exit'] != 0]
        print(name, 'applies' if res['applies'] else 'DOES NOT APPLY', 'alarms:', alarms or 'none')
        for c in alarms: print('   ', c, res['checks'][c]['violation_line'], '\n      ', res['checks'][c].get('replay', res['checks'][c]['tail'])[:600].replace('\n', '\n       '))

if __name__ == '__main__': main()
