"""Seeded generators: records, pipeline configurations, expressions. One PRNG per run."""
import json, random
from lib import new_cfg

KEYS_A = [0, 1, 2, 3, 1, 1, None, 'x', True, 2.5, -1]
STRS = ['x', 'y', '', 'é', 'z z', 'a,b', 'q"q', '=1+1', '-5', '+x', '@home']

EXTRAS = [('', 0), ('a b', 1), ('é', 'ü'), ('q"k', []), ('n21', 1e21), ('big', 18446744073709551615), ('neg', -9223372036854775808), ('f', 0.1), ('e7', 2.5e-7),
          ('deep', {'x': {'y': [[], {}]}}), ('s', 'line\nbreak'), ('t', 'tab\t"q"\\'), ('u', '\u2028'), ('z', None), ('del', '\x7f\x00\x1f'), ('b53', 9007199254740993),
          ('k.dot', 'v'), ('#h', [None, False]), ('long', 'x' * 300), ('neg0', -0.5), ('tiny', 5e-324), ('huge', 1.7976931348623157e308)]

def jdump(v):
    return json.dumps(v, ensure_ascii=False, separators=(',', ':')).encode('utf8')

def record(rnd):
    r = {}
    if rnd.random() < 0.85: r['a'] = rnd.choice(KEYS_A)
    if rnd.random() < 0.8: r['b'] = rnd.choice([0, 1, 2, 'x', 'y', None, [1], {'c': 1}])
    if rnd.random() < 0.8: r['k'] = rnd.choice(['x', 'y', '', 'é', 'x', 'y', 1, None, '=1+1', '-5', '@home', '+x', ' x', 'x ', ' ', 'é\u00a0', '\tx', 'X', '1.50', '1.5', '007', '7.0', '1e2', '100', '-0', '0'])
    if rnd.random() < 0.5:
        r['arr'] = [rnd.choice([{'a': rnd.randint(0, 2), 'k': rnd.choice(['x', 'y'])}, rnd.randint(0, 3), 'x', [1]])
                    for _ in range(rnd.randint(0, 3))]
    if rnd.random() < 0.3: r['flag'] = rnd.choice([True, False, 1])
    # members no expression of the generators looks at, but which travel through every stage and printer: unusual names, every
    # number shape, strings that need escaping, nested empties
    if rnd.random() < 0.3:
        for _ in range(rnd.randint(1, 2)):
            k, v = rnd.choice(EXTRAS); r[k] = v
    return r

def records(rnd, maxn=40):
    n = rnd.choice([0, 1, 2, 3, 5, 8, 12, 20, maxn])
    out = []
    for _ in range(n):
        x = rnd.random()
        if x < 0.10: out.append(rnd.choice([1, 'x', None, True, [1, 2], [{'a': 1}], 2.5, -1, -2.5, -17, 0, '', False, -0.5e-3, 1e21, 'C:\\', 'end\\"', '{"x"', '\\\\"']))      # top-level scalars of every first byte
        elif x < 0.25 and out: out.append(rnd.choice(out))     # exact repeat
        elif x < 0.33 and out:
            # the same value spelled with its members in another order (equal under =, different as text)
            v = rnd.choice(out)
            out.append(dict(reversed(list(v.items()))) if isinstance(v, dict) else v)
        else: out.append(record(rnd))
    return out

def stream(vals, rnd=None):
    seps = [b'\n', b' ', b'', b'\n\n', b'\t']
    out = b''
    for i, v in enumerate(vals):
        s = jdump(v)
        sep = rnd.choice(seps) if rnd else b'\n'
        # scalars need a separator
        if sep == b'' and not (s[:1] in b'[{"' or out[-1:] in b']}"'): sep = b' '
        if i: out += sep
        out += s
    return out

FILTERS = ['(= .a 1)', '(!= .k "x")', '(< .a 2)', '.flag', '(>= .a 1)', '(and (< .a 3) (!= .a 0))', '(not (= .b "x"))',
           '(or .flag (= .a 2))', '(= (size .arr) 2)']
SELECTS = ['.a', '.b=B', '.k', '(size .arr)=n', '.arr', '.', '(get . "a")=ga', '(? (= .a 1) "one" "other")=c',
           '(default .a .b 0)=d', '.b.c=bc', '.arr#0=first', '(map .arr .a)=as', '(filter .arr (= .k "x"))=xs', '.a=dup', '.k=dup',
           '(group_by .arr .k)=g', '(group_by .arr (stringify .a))=ga',
           # references to the values selected so far, by name (an unnamed selection is named by its text; a missing name gives nothing; of two equal names the ... the code decides, the model follows)
           '/B/=rb', '/.a/=ra', '/dup/=rd', '(default /n/ /c/ "none")=rn', '/nosuch/=rx',
           # boolean functions on arguments that are not all booleans (nothing, not false) in changing patterns from record to record
           '(stringify .a)=k', '.b=a', '(and .flag (= .a 1) .b)=an', '(or .flag .k (= .a 2))=orr', '(and (= .a 1) .flag)=an2', '(xor .flag (= .a 1))=xr', '(not .flag)=nf']
SORTS = ['.a', '.b=desc', '.k=ASC', '.a=DESC', '.k', '(size .arr)=Desc', '.b', '/B/', '/.a/=desc', '/n/']
GROUPS = ['.k', '(? (= .a 1) "one" "rest")', '.b', '(map .arr .k)']
SPLITS = ['.arr', '(filter .arr (= .k "x"))', '[10, 20]', '(? (object? .) .arr (push [] . "s"))', '(default .arr [1])']
SETS = [('x=1', ':x=vx'), ('@m=.a', '@m=vm'), ('y="s"', ':y=vy'), ('@am=(map .arr .a)', '@am=vam')]

def pipeline_cfg(rnd, want_limit=None, allow_group=True, allow_sort=True, allow_unique=True, streaming=False):
    c = new_cfg()
    if rnd.random() < 0.3:
        s, sel = rnd.choice(SETS); c['set'] = [s]
        if rnd.random() < 0.7: c['select'].append(sel)
        if rnd.random() < 0.3:
            # a second --set whose value mentions the first name: every --set value is calculated on its own (no name is in scope
            # yet), whatever the order of the two options
            extra = rnd.choice(['y2=(default :x :y "unset")', 'z2=(+ (default :x 1) 1)', '@m2=(default :x @m .a)'])
            c['set'] = [s, extra] if rnd.random() < 0.5 else [extra, s]
            c['select'].append({'y': ':y2=vy2', 'z': ':z2=vz2', '@': '@m2=vm2'}[extra[0]])
    if rnd.random() < 0.25: c['split'] = rnd.choice(SPLITS)
    # variables and macros are visible in --split-by as in every other option
    if c['set'] == ['x=1'] and rnd.random() < 0.4: c['split'] = '(filter .arr (!= .a :x))'
    if c['set'] == ['@am=(map .arr .a)'] and rnd.random() < 0.4: c['split'] = '@am'
    if rnd.random() < 0.4: c['filter'] = rnd.choice(FILTERS)
    for _ in range(rnd.choice([0, 0, 1, 2, 3])):
        s = rnd.choice(SELECTS)
        if s not in c['select']: c['select'].append(s)
    if c['split'] is not None and rnd.random() < 0.5:
        # below --split-by every later stage still sees the enclosing record through ^
        c['select'].append(rnd.choice(['^.k=pk', '^.a=pa', '(size ^.arr)=pn']))
    if allow_unique and rnd.random() < 0.3: c['unique'] = True
    if allow_sort and not streaming:
        for _ in range(rnd.choice([0, 0, 1, 1, 2, 3])):
            s = rnd.choice(SORTS)
            if s.split('=')[0] not in [x.split('=')[0] for x in c['sort']]: c['sort'].append(s)
        if c['split'] is not None and rnd.random() < 0.3: c['sort'].append(rnd.choice(['^.a', '^.k=DESC']))
    lim = want_limit if want_limit is not None else (rnd.random() < 0.5)
    if lim:
        c['skip'] = rnd.choice([0, 0, 1, 2, 3, 6])
        c['take'] = rnd.choice([None, 0, 1, 2, 3, 4, 6])
        if c['skip'] == 0 and c['take'] is None: c['take'] = 2
    if allow_group and not streaming and rnd.random() < 0.35:
        c['group'] = rnd.choice(GROUPS + [True, True] + (['^.k'] if c['split'] is not None else []))
    if rnd.random() < 0.15: c['only_objs'] = True
    return c
