"""Python mirror of Spec/Render.v: random spelling trees of the RFC 8259 grammar, their bytes and value.
Values: None/bool/str/list/dict(ordered)/('int', n)/('flt', text) ."""
import random

WS = [b' ', b'\t', b'\n', b'\r']
CHAR_POOL = [0x20, 0x21, 0x41, 0x7e, 0x7f, 0x80, 0xe9, 0x7ff, 0x800, 0x2028, 0x2029, 0xd7ff, 0xe000, 0xfffd, 0xffff, 0x10000, 0x1f603, 0x10ffff,
             0x22, 0x5c, 0x2f, 0x08, 0x0c, 0x0a, 0x0d, 0x09, 0x00, 0x01, 0x1f, 0x61, 0x62, 0x63, 0x30,
             0x0b, 0x07, 0x1b, 0x0e, 0x02, 0x03, 0x04, 0x05, 0x06, 0x10, 0x11, 0x12, 0x13, 0x14, 0x15, 0x16, 0x17, 0x18, 0x19, 0x1a, 0x1c, 0x1d, 0x1e, 0x0f, 0x85, 0xa0, 0xad, 0x300, 0xfeff, 0xfffe]      # every C0 control, NEL, NBSP, soft hyphen, a combining mark, BOM
ESC = {0x22: b'"', 0x5c: b'\\', 0x2f: b'/', 0x08: b'b', 0x0c: b'f', 0x0a: b'n', 0x0d: b'r', 0x09: b't'}
INT_POOL = [0, 1, 7, 10, 255, 2**31, 2**32, 2**53 - 1, 2**53, 2**53 + 1, 2**63 - 1, 2**63, 2**63 + 1, 2**64 - 1, 2**64, 2**64 + 1, 10**19, 10**20, 10**30]

def ws(rnd, allow_empty=True):
    n = rnd.choice([0, 0, 0, 1, 1, 2, 3]) if allow_empty else rnd.choice([1, 1, 2, 3])
    return b''.join(rnd.choice(WS) for _ in range(n))

ASTRAL = True
def gen_char(rnd, stats):
    c = rnd.choice(CHAR_POOL) if rnd.random() < 0.6 else rnd.choice([rnd.randint(0x20, 0x7e), rnd.randint(0xa0, 0xd7ff), rnd.randint(0xe000, 0xffff), rnd.randint(0x10000, 0x10ffff)])
    if not ASTRAL and c >= 0x10000: c = rnd.choice([0xe9, 0xffff, 0x2028, 0x41])
    forms = []
    if c >= 0x20 and c not in (0x22, 0x5c): forms.append('lit')
    if c in ESC: forms.append('esc')
    if c < 0x10000: forms.append('uni')
    f = rnd.choice(forms); stats['char_' + f] = stats.get('char_' + f, 0) + 1
    if f == 'lit': b = chr(c).encode('utf8')
    elif f == 'esc': b = b'\\' + ESC[c]
    else:
        h = '%04x' % c
        h = ''.join(ch.upper() if rnd.random() < 0.5 else ch for ch in h)
        b = b'\\u' + h.encode()
    return c, b

def gen_string(rnd, stats):
    n = rnd.choice([0, 1, 1, 2, 3, 5, 8])
    cs = [gen_char(rnd, stats) for _ in range(n)]
    return ''.join(chr(c) for c, _ in cs), b'"' + b''.join(b for _, b in cs) + b'"'

def gen_number(rnd, stats):
    neg = rnd.random() < 0.35
    x = rnd.random()
    if x < 0.45: ip = str(rnd.choice(INT_POOL))
    elif x < 0.7: ip = str(rnd.randint(0, 999))
    else: ip = str(rnd.randint(0, 10 ** rnd.choice([5, 17, 19, 20, 25])))
    frac = None; exp = None
    if rnd.random() < 0.4: frac = ''.join(rnd.choice('0123456789') for _ in range(rnd.choice([1, 1, 2, 3, 17, 25])))
    if rnd.random() < 0.4:
        exp = (rnd.choice('eE'), rnd.choice(['', '+', '-']), str(rnd.choice([0, 1, 2, 5, 10, 22, 23, 100, 300, 308, 323, 324])) if rnd.random() < 0.8 else '00' + str(rnd.randint(0, 20)))
    text = ('-' if neg else '') + ip + ('.' + frac if frac is not None else '') + (exp[0] + exp[1] + exp[2] if exp else '')
    kind = 'int' if frac is None and exp is None else 'dbl'
    stats['num_' + kind] = stats.get('num_' + kind, 0) + 1
    if exp and exp[0] == 'E': stats['num_upperE'] = stats.get('num_upperE', 0) + 1
    if kind == 'int':
        n = -int(ip) if neg else int(ip)
        if -2**63 <= n < 2**64 and not (neg and n == 0 and False): val = ('int', n)
        else: val = ('flt', text)
    else: val = ('flt', text)
    try:
        f = float(text)
        if f in (float('inf'), float('-inf')): return None       # not representable: outside the quantifier
    except Exception: return None
    return val, text.encode()

def gen_value(rnd, depth, stats):
    x = rnd.random()
    if depth <= 0 or x < 0.45:
        y = rnd.random()
        if y < 0.12: return None, b'null'
        if y < 0.2: return True, b'true'
        if y < 0.28: return False, b'false'
        if y < 0.6:
            while True:
                r = gen_number(rnd, stats)
                if r is not None: return r
        return gen_string(rnd, stats)
    if x < 0.75:
        n = rnd.choice([0, 0, 1, 2, 3, 4])
        if n == 0: return [], b'[' + ws(rnd) + b']'
        items = [gen_value(rnd, depth - 1, stats) for _ in range(n)]
        return [v for v, _ in items], b'[' + b','.join(ws(rnd) + b + ws(rnd) for _, b in items) + b']'
    n = rnd.choice([0, 0, 1, 2, 3])
    if n == 0: return {}, b'{' + ws(rnd) + b'}'
    out = {}; parts = []
    while len(out) < n:
        k, kb = gen_string(rnd, stats)
        if k in out: continue
        v, vb = gen_value(rnd, depth - 1, stats)
        out[k] = v; parts.append(ws(rnd) + kb + ws(rnd) + b':' + ws(rnd) + vb + ws(rnd))
    return out, b'{' + b','.join(parts) + b'}'

def bare(b):
    return not (b[:1] in b'[{"')

def gen_stream(rnd, stats, maxn=12, depth=4):
    n = rnd.choice([0, 1, 2, 3, 5, maxn])
    items = [gen_value(rnd, rnd.choice([0, 1, 2, depth]), stats) for _ in range(n)]
    vals = []; out = ws(rnd)
    for i, (v, b) in enumerate(items):
        vals.append(v); out += b
        last = i == n - 1
        # two tokens may touch when the second one announces itself: a number or a literal name directly followed by [ { or "
        # needs no whitespace; followed by another number or name it does
        if bare(b) and not last and bare(items[i + 1][1]): out += ws(rnd, allow_empty=False)
        else: out += ws(rnd)
    return vals, out

def deep(rnd, depth):
    v = ('int', 1); b = b'1'
    for i in range(depth):
        if rnd.random() < 0.5: v = [v]; b = b'[' + b + b']'
        else: v = {'k': v}; b = b'{"k":' + b + b'}'
    return v, b
