"""Random expressions over the modelled functions of jawk (names, aliases and arities from the table
generated from the source)."""
import json, os, random
V = os.path.dirname(os.path.dirname(os.path.abspath(__file__)))

UNMODELLED = {'exec', 'trigger', 'now', 'env', 'match', 'extract_regex_group', 'format_time', 'parse_time', 'parse_time_with_zone',
              'parse_selection', '"/"', '"%"', '"sort_by"', 'range'}
BINDERS = {'map', 'filter', 'flat_map', 'fold', 'group_by', 'sort_by', 'filter_keys', 'filter_values', 'map_keys', 'map_values', 'sort_by_values_by'}
SPECIAL = {'set', 'define', ':', '@', '|'}

def table():
    return json.load(open(os.path.join(V, 'coq', 'Gen', 'fn_table.json')))

LITS = ['0', '1', '2', '3', '-1', '2.5', '10', '"a"', '"b"', '"héllo"', '""', '"k"', 'true', 'false', 'null', '[]', '[1, 2, 3]', '["a", "b"]', '{}', '{"a": 1, "k": "x"}',
        '18446744073709551615', '9007199254740993', '-9223372036854775808', '[[1], [2, 3]]', '[{"a": 1}, {"a": 2}]', '"12.50"', '"-3"', '"1e2"']
PATHS = ['.', '.a', '.b', '.k', '.arr', '.arr#0', '#0', '#1', '.a.b', '^', '^.a', '^^', '.nothing']

class Gen:
    def __init__(self, rnd, nas=False):
        self.rnd = rnd; self.usage = {}
        self.fns = [f for f in table() if f['name'] not in UNMODELLED and f['name'] not in SPECIAL]
        if not nas: self.fns = [f for f in self.fns if not f['name'].startswith('"')]
    def name(self, f):
        n = self.rnd.choice([f['name']] + f['aliases']) if self.rnd.random() < 0.4 else f['name']
        return n
    def atom(self):
        r = self.rnd.random()
        if r < 0.5: return self.rnd.choice(PATHS)
        return self.rnd.choice(LITS)
    def expr(self, depth):
        rnd = self.rnd
        if depth <= 0 or rnd.random() < 0.25: return self.atom()
        f = rnd.choice(self.fns)
        self.usage[f['name']] = self.usage.get(f['name'], 0) + 1
        mx = f['max'] if f['max'] is not None else f['min'] + rnd.choice([0, 1, 2])
        n = rnd.randint(f['min'], mx)
        if rnd.random() < 0.03: n = max(0, n + rnd.choice([-1, 1]))        # arity faults are rejected by both sides
        args = [self.expr(depth - 1) for _ in range(n)]
        sep = rnd.choice([' ', ' ', ', ', ',', '  '])
        nm = self.name(f)
        if args and args[0] == '.' and rnd.random() < 0.3 and not nm.startswith('"'):
            return '(.%s%s%s)' % (nm, sep if len(args) > 1 else '', sep.join(args[1:]))
        return '(%s%s%s)' % (nm, ' ' if args else '', sep.join(args))

INPUTS = ['null', 'true', '5', '-2.5', '"héllo wörld"', '""', '[]', '[1, 2, 3]', '[3, "a", null, [1], {"a": 1}]', '{}', '{"a": 1, "b": {"a": 2, "b": 3}, "k": "x", "arr": [1, {"a": 5}, "s"]}',
          '{"a": "x", "arr": []}', '[{"a": 1, "k": "x"}, {"a": 2, "k": "y"}, {"a": 1, "k": "x"}]', '18446744073709551615', '"12.5"', '["a", "b", "a"]', '[1.5, 2, -3]', '"a,b,c"']
