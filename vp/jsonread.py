"""An independent strict reader for output rows: Python's json with raw number texts kept, duplicate keys
and NaN/Infinity rejected. Values: None/bool/str/list/dict/('int', n)/('flt', text)."""
import json

class Bad(Exception): pass

def _pairs(p):
    d = {}
    for k, v in p:
        if k in d: raise Bad('duplicate key %r' % k)
        d[k] = v
    return d
def _const(c): raise Bad('constant ' + c)

def loads(b):
    if isinstance(b, bytes): b = b.decode('utf8')     # strict UTF-8
    return json.loads(b, parse_int=lambda s: ('num', s), parse_float=lambda s: ('num', s), parse_constant=_const, object_pairs_hook=_pairs)

def canon_num(text):
    """('int', n) for integer texts in [-2^63, 2^64) ; else ('flt', repr of nearest double)"""
    t = text
    if all(ch in '-0123456789' for ch in t):
        n = int(t)
        if -2**63 <= n < 2**64: return ('int', n)
    return ('flt', float(t))

def canon(v):
    if isinstance(v, tuple):
        if v[0] == 'num': return canon_num(v[1])
        if v[0] == 'int': return ('int', v[1])
        if v[0] == 'flt':
            f = float(v[1])
            # impl From<f64>: integral doubles in range are integers
            if f == int(f) and -2**63 < f < 2**64: return ('int', int(f))
            return ('flt', f)
    if isinstance(v, list): return [canon(x) for x in v]
    if isinstance(v, dict): return [(k, canon(x)) for k, x in v.items()]     # ordered
    return v
