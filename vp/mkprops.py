#!/usr/bin/env python3
"""mkprops.py Cnn 'imports' name=lemma[:comment] ... — writes coq/Props/Cnn.v with one pinned theorem per
lemma: the statement is printed by Coq (Check) with the same imports, then closed by `exact lemma`."""
import sys, os, re, subprocess
COQ = os.path.join(os.path.dirname(os.path.dirname(os.path.abspath(__file__))), 'coq')
def main():
    prop, header, imports = sys.argv[1], sys.argv[2], sys.argv[3]
    items = [a.split('=', 1) for a in sys.argv[4:]]
    q = '/tmp/mkprops_%s.v' % prop
    with open(q, 'w') as f:
        f.write(imports + '\nSet Printing Width 110.\n')
        for n, l in items:
            l = l.split('::')[0]
            f.write('Goal True. idtac "@@%s". Abort.\nCheck %s.\n' % (n, l))
        f.write('Goal True. idtac "@@END". Abort.\n')
    out = subprocess.run(['coqc', '-Q', COQ, 'Jawk', q], capture_output=True, text=True).stdout
    body = ['(* %s *)' % header, imports, '']
    for n, l in items:
        comment = l.split('::')[1] if '::' in l else ''
        l = l.split('::')[0]
        m = re.search(r'@@%s\n(.*?)\n@@' % re.escape(n), out, re.S)
        ty = m.group(1)
        ty = ty[ty.index(':') + 1:].strip('\n')
        ty = '\n'.join(x[5:] if x.startswith('       ') else x.strip() for x in ty.split('\n'))
        if comment: body.append('(* %s *)' % comment)
        body.append('Theorem %s :\n  %s.\nProof. exact %s. Qed.\nPrint Assumptions %s.\n' % (n, ty.replace('\n', '\n  '), l, n))
    path = os.path.join(COQ, 'Props', prop + '.v')
    if os.environ.get('APPEND'):       # add to an existing Props file: a titled block with its own imports
        open(path, 'a').write('\n' + '\n'.join(body))
    else:
        open(path, 'w').write('\n'.join(body))
if __name__ == '__main__': main()
