"""Behavioural determination of the small tables the model is parameterised by, used when the translator does not
recognise their shape in the source (a rewritten function).  Each table has a finite domain and is determined
exhaustively over it from the code built from /repo's working tree: every byte value for the byte tables, every
Unicode scalar value for the printer's string rendering, the six JSON types for the ranks.  The result is what
gen_tables.py writes into coq/Gen/*.v (marked PROBED), so the same Coq obligations are checked against it."""
import json, os, subprocess, hashlib
import lib

PANIC = ['--on-error=panic']

def _case(i, args, data):
    return {'id': str(i), 'cfg': lib.new_cfg(), 'args': args or ['--on-error=ignore'], 'inputs': [{'data': data}]}

def _ok(r, expect):
    return r is not None and r['result'] == 'ok' and r['stdout'] == expect

def probe_bytes():
    """ws_bytes, digit_bytes, dispatch, exponent_markers, parser_escapes: one run per byte value and question"""
    cases = []
    for b in range(256):
        B = bytes([b])
        cases.append(_case('ws%d' % b, PANIC, B + b'"x"'))
        cases.append(_case('dg%d' % b, PANIC, b'1' + B))
        cases.append(_case('ex%d' % b, PANIC, b'1' + B + b'2'))
        for k, tail in ((1, b'rue'), (2, b'alse'), (3, b'ull'), (4, b'x"'), (6, b']'), (7, b'}')):
            cases.append(_case('k%d_%d' % (k, b), PANIC, B + tail))
        cases.append(_case('n0_%d' % b, PANIC, B))
        cases.append(_case('n1_%d' % b, PANIC, B + b'1'))
        if b != 117: cases.append(_case('es%d' % b, PANIC + ['--output-style=text'], b'"\\' + B + b'"'))
    R = lib.run_harness(cases)
    g = lambda i: R.get(i)
    ws = [b for b in range(256) if _ok(g('ws%d' % b), b'"x"\n')]
    dg = [b for b in range(256) if _ok(g('dg%d' % b), b'1' + bytes([b]) + b'\n')]
    ex = [b for b in range(256) if _ok(g('ex%d' % b), b'100\n')]
    expect = {1: b'true\n', 2: b'false\n', 3: b'null\n', 4: b'"x"\n', 6: b'[]\n', 7: b'{}\n'}
    disp = []
    for k in (1, 2, 3, 4):
        disp.append([[b for b in range(256) if _ok(g('k%d_%d' % (k, b)), expect[k])], k])
    num = [b for b in range(256) if b not in ws and (_ok(g('n0_%d' % b), bytes([b]) + b'\n') or _ok(g('n1_%d' % b), bytes([b]) + b'1\n'))]
    disp.append([num, 5])
    for k in (6, 7):
        disp.append([[b for b in range(256) if _ok(g('k%d_%d' % (k, b)), expect[k])], k])
    esc = []
    for b in range(256):
        r = g('es%d' % b)
        if b == 117 or r is None or r['result'] != 'ok': continue
        o = r['stdout']
        if len(o) == 2 and o.endswith(b'\n'): esc.append([b, o[0]])
        else: esc = None; break
    complete = all(c['id'] in R and R[c['id']]['result'] not in ('hang', 'abort', 'not-run') for c in cases)
    if not complete: return {}
    return {'ws_bytes': ws or None, 'digit_bytes': dg or None, 'dispatch': disp if all(bs for bs, _ in disp) else None,
            'exponent_markers': ex or None, 'parser_escapes': esc or None}

def _scalars():
    return [c for c in range(0x110000) if not (0xD800 <= c <= 0xDFFF)]

def probe_printer():
    """how a string made of one code point is written as JSON, for every scalar value, with and without --utf8-strings"""
    cps = _scalars()
    def lit(c):
        if c < 0x20 or c in (0x22, 0x5c): return b'"\\u%04x"' % c
        return b'"' + chr(c).encode('utf8') + b'"'
    shards = 16
    cases = []
    for u in (0, 1):
        for k in range(shards):
            part = cps[k::shards]
            cases.append(_case('p%d_%d' % (u, k), PANIC + (['--utf8-strings'] if u else []), b'\n'.join(lit(c) for c in part) + b'\n'))
    R = lib.run_harness(cases, timeout=600)
    escapes = {}; literal_ok = True; fmt_ok = True
    for u in (0, 1):
        for k in range(shards):
            r = R.get('p%d_%d' % (u, k)); part = cps[k::shards]
            if r is None or r['result'] != 'ok': return {}
            rows = r['stdout'].split(b'\n')[:-1]
            if len(rows) != len(part): return {}
            for c, row in zip(part, rows):
                if len(row) < 2 or row[:1] != b'"' or row[-1:] != b'"': return {}
                inner = row[1:-1]
                if len(inner) == 2 and inner[:1] == b'\\' and inner[1:] != b'u':
                    if escapes.setdefault(c, inner[1]) != inner[1]: return {}
                    continue
                if c in escapes: return {}            # a letter escape in one mode only
                should_be_literal = (u == 1 and c >= 0x20) or 0x20 <= c <= 0x7e
                is_literal = inner == chr(c).encode('utf8')
                if is_literal != should_be_literal: literal_ok = False
                if not is_literal and inner != b'\\u%04x' % c: fmt_ok = False
    return {'printer_escapes': [[c, l] for c, l in sorted(escapes.items())] or None,
            'literal_condition': 1 if literal_ok else None, 'unicode_escape_format': 1 if fmt_ok else None}

def probe_ranks():
    vals = [b'null', b'true', b'""', b'0', b'{}', b'[]']          # Null Boolean String Number Object Array
    R = lib.run_harness([_case('r', PANIC + ['--sort-by=.'], b'\n'.join(reversed(vals)) + b'\n'),
                         _case('s', PANIC + ['--sort-by=.'], b'\n'.join(vals) + b'\n')])
    r, s = R.get('r'), R.get('s')
    if r is None or s is None or r['result'] != 'ok' or r['stdout'] != s['stdout']: return {}
    rows = r['stdout'].split(b'\n')[:-1]
    if sorted(rows) != sorted(vals): return {}
    return {'type_ranks': [rows.index(v) for v in vals]}

def probe_main():
    """the real executable: where rows and diagnostics go, and how a failing run ends"""
    def run(args, data):
        p = subprocess.run([lib.JAWK_BIN] + args, input=data, stdout=subprocess.PIPE, stderr=subprocess.PIPE, timeout=30)
        return p.returncode, p.stdout, p.stderr
    out = {}
    rc, so, se = run([], b'1\n')
    if rc == 0 and so == b'1\n' and se == b'': out['rows_stream'] = 1
    elif rc == 0 and se == b'1\n' and so == b'': out['rows_stream'] = 2
    rc, so, se = run(['--on-error=stderr'], b'} \n')
    if rc == 0 and b'error:' in se and so == b'': out['diagnostics_stream'] = 2
    elif rc == 0 and b'error:' in so and se == b'': out['diagnostics_stream'] = 1
    rc, so, se = run(['--select=(nope .)'], b'1\n')
    if rc > 0 and se.strip() and so == b'': out['exit_code'] = rc
    return out

def probe_fntable(missing=None):
    """functions whose definition the translator could not read: does every known name / alias of them resolve, and
    with which arity (0..5 arguments tried; 4 and 5 accepted = unbounded)"""
    if missing is None:
        st = json.load(open(os.path.join(lib.COQ, 'Gen', 'tables_status.json')))
        missing = st['source_reading'].get('fn_table_missing') or []
    missing = set(missing)
    known = [k for k in json.load(open(os.path.join(lib.VERIF, 'extractor', 'fn_table_known.json'))) if k['name'] in missing]
    cases = []; idx = {}
    for fi, k in enumerate(known):
        for ni, nm in enumerate([k['name']] + k['aliases']):
            for n in range(6):
                i = 'f%d_%d_%d' % (fi, ni, n); idx[i] = (fi, ni, n)
                cases.append(_case(i, ['--select=(%s%s)' % (nm, ' 1' * n)], b''))
    R = lib.run_harness(cases)
    out = []
    for fi, k in enumerate(known):
        ar = None; aliases = []
        for ni, nm in enumerate([k['name']] + k['aliases']):
            acc = [n for n in range(6) if R.get('f%d_%d_%d' % (fi, ni, n), {}).get('result') == 'ok']
            if not acc or acc != list(range(acc[0], acc[-1] + 1)): acc = None
            if ni == 0:
                if acc is None: break
                ar = acc
            elif acc == ar: aliases.append(nm)
        if ar is None: continue
        out.append({'name': k['name'], 'min': ar[0], 'max': None if ar[-1] == 5 else ar[-1], 'aliases': aliases})
    return {'fn_table': out or None}

GROUPS = {'fn_table': 'fntable', 'type_ranks': 'ranks', 'ws_bytes': 'bytes', 'digit_bytes': 'bytes', 'dispatch': 'bytes', 'exponent_markers': 'bytes', 'parser_escapes': 'bytes',
          'printer_escapes': 'printer', 'literal_condition': 'printer', 'unicode_escape_format': 'printer',
          'rows_stream': 'main', 'diagnostics_stream': 'main', 'exit_code': 'main'}

def src_digest():
    h = hashlib.sha256()
    for root, dirs, files in sorted(os.walk('/repo/src')):
        dirs.sort()
        for f in sorted(files):
            p = os.path.join(root, f); h.update(p.encode()); h.update(open(p, 'rb').read())
    for f in ('/repo/Cargo.toml', '/repo/Cargo.lock'):
        if os.path.exists(f): h.update(open(f, 'rb').read())
    return h.hexdigest()[:24]

def cache_path():
    d = os.path.join(lib.BUILD, 'probe_cache'); os.makedirs(d, exist_ok=True)
    return os.path.join(d, src_digest() + '.json')

def run(unrecognised):
    """probe the groups the unrecognised tables belong to; results are cached per content of /repo/src"""
    cp = cache_path()
    have = json.load(open(cp)) if os.path.exists(cp) else {}
    groups = sorted(set(GROUPS[t] for t in unrecognised if t in GROUPS and t not in have))
    if groups:
        ok, out = lib.build_harness()
        if not ok: return have, cp
        for g in groups:
            if g == 'main':
                ok, out = lib.build_jawk_bin()
                if not ok: continue
            res = {'ranks': probe_ranks, 'bytes': probe_bytes, 'printer': probe_printer, 'main': probe_main, 'fntable': probe_fntable}[g]()
            have.update({k: v for k, v in res.items() if v is not None})
        json.dump(have, open(cp, 'w'))
    return have, cp
