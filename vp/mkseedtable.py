#!/usr/bin/env python3
"""Regenerates the table of seeded changes in DESIGN.md (between the markers SEEDTABLE-BEGIN / SEEDTABLE-END) from
seeded/*/meta.json, and the list of behaviour-preserving rewrites from harmless/*/meta.json."""
import json, os, re
V = os.path.dirname(os.path.dirname(os.path.abspath(__file__)))

def clip(s, n): s = ' '.join(str(s).split()).replace('|', '/'); return s if len(s) <= n else s[:n - 1] + '…'

rows = ['| change | what | needs | caught by |', '|---|---|---|---|']
n = caught = 0
for name in sorted(os.listdir(os.path.join(V, 'seeded'))):
    m = json.load(open(os.path.join(V, 'seeded', name, 'meta.json')))
    v = m.get('verification') or {}
    cs = [(c, r) for c, r in (v.get('checks') or {}).items() if r.get('exit') == 1]
    own = [c for c, r in cs if c == m['property']]
    if m.get('obsolete'):
        rows.append('| %s | %s | %s | obsolete: %s |' % (name, clip(m.get('what', ''), 170), clip(m.get('needs', ''), 150), clip(m['obsolete'], 200))); continue
    n += 1; caught += 1 if own else 0
    rel = ''
    for c, r in cs:
        if c == m['property']:
            rel = (r.get('replay') or {}).get('relation') or ('model/implementation correspondence' if 'no-failing-input-found' in (r.get('violation_line') or '') else '')
    rows.append('| %s | %s | %s | %s — %s |' % (name, clip(m.get('what', ''), 170), clip(m.get('needs', ''), 150), ', '.join(sorted(c for c, _ in cs)) or 'MISSED', clip(rel, 100)))
hrows = ['| rewrite | what | alarms |', '|---|---|---|']
for name in sorted(os.listdir(os.path.join(V, 'harmless'))):
    m = json.load(open(os.path.join(V, 'harmless', name, 'meta.json')))
    al = [c for c, r in ((m.get('verification') or {}).get('checks') or {}).items() if r.get('exit') != 0]
    hrows.append('| %s | %s | %s |' % (name, clip(m.get('what', ''), 260), ', '.join(al) or 'none'))
p = os.path.join(V, 'DESIGN.md'); s = open(p).read()
def put(s, tag, body):
    a, b = '<!-- %s-BEGIN -->' % tag, '<!-- %s-END -->' % tag
    if a in s: return s[:s.index(a) + len(a)] + '\n' + body + '\n' + s[s.index(b):]
    return s
s = put(s, 'SEEDTABLE', '\n'.join(rows)); s = put(s, 'HARMLESSTABLE', '\n'.join(hrows))
open(p, 'w').write(s)
print('seeded', n, 'caught by the check of their own property', caught, '; harmless', len(hrows) - 2)
