#!/usr/bin/env python3
"""seedtest.py <mutation dir> [check ids...] — confirm a seeded change (compiles, 158 tests pass, its demonstration
fails with it and passes without it) in a scratch worktree, then run the registered checks against /repo with the
change applied (and undo it straight afterwards). Writes /verif/seeded/<name>/."""
import sys, os, json, subprocess, shutil, time
V = os.path.dirname(os.path.dirname(os.path.abspath(__file__)))

def sh(cmd, cwd=None, timeout=3000):
    p = subprocess.run(cmd, shell=True, cwd=cwd, stdout=subprocess.PIPE, stderr=subprocess.STDOUT, timeout=timeout)
    return p.returncode, p.stdout.decode('utf8', 'replace')

def main():
    d = os.path.abspath(sys.argv[1]); checks = sys.argv[2:]
    meta = json.load(open(os.path.join(d, 'meta.json')))
    prop = meta['property']; base = os.path.basename(d)
    name = base if base.startswith(prop) else '%s_%s' % (prop, base)
    if not checks: checks = [prop]
    wt = '/tmp/seedwt_%s' % name
    if os.environ.get('DETECT_ONLY') and (meta.get('verification') or {}).get('confirmed'):
        # the change was confirmed before (tests pass, demonstration fails with it): only re-run the checks against it
        res = {k: v for k, v in meta['verification'].items() if k != 'checks'}
        return detect(res, d, name, checks)
    sh('git -C /repo worktree remove --force %s' % wt); shutil.rmtree(wt, ignore_errors=True)
    rc, out = sh('git -C /repo worktree add --detach %s HEAD' % wt)
    res = {'property': prop, 'name': name, 'confirmed': False}
    tgt = os.path.join(wt, 'target')
    try:
        rc, out = sh('git apply %s/patch.diff' % d, cwd=wt)
        if rc != 0: res['error'] = 'patch does not apply: ' + out[-300:]; return finish(res, d, wt, name)
        rc, out = sh('CARGO_TARGET_DIR=%s cargo test --offline 2>&1 | grep -E "^test result|error(\\[|:)" ' % tgt, cwd=wt)
        passed = sum(int(x.split(' passed')[0].split()[-1]) for x in out.splitlines() if ' passed' in x)
        failed = sum(int(x.split(' failed')[0].split()[-1]) for x in out.splitlines() if ' failed' in x)
        res['tests_with_change'] = {'passed': passed, 'failed': failed}
        rc, out = sh('CARGO_TARGET_DIR=%s cargo build --offline 2>&1 | tail -3' % tgt, cwd=wt)
        darg = wt if meta.get('demo_arg') == 'worktree' else '%s/debug/jawk' % tgt
        rc1, o1 = sh('CARGO_TARGET_DIR=%s bash %s/demo.sh %s' % (tgt, d, darg), cwd=wt, timeout=900)
        sh('git checkout -- .', cwd=wt)
        rc, out = sh('CARGO_TARGET_DIR=%s cargo build --offline 2>&1 | tail -3' % tgt, cwd=wt)
        rc0, o0 = sh('CARGO_TARGET_DIR=%s bash %s/demo.sh %s' % (tgt, d, darg), cwd=wt, timeout=900)
        res['demo_with_change'] = rc1; res['demo_without_change'] = rc0
        res['confirmed'] = passed == 158 and failed == 0 and rc1 != 0 and rc0 == 0
    finally:
        sh('git -C /repo worktree remove --force %s' % wt); shutil.rmtree(wt, ignore_errors=True)
    return detect(res, d, name, checks)

def detect(res, d, name, checks):
    res['checks'] = {}
    if res['confirmed']:
        st = sh('git -C /repo status --porcelain')[1].strip()
        assert st == '', '/repo not clean: ' + st
        rc, out = sh('git -C /repo apply %s/patch.diff' % d)
        try:
            for c in checks:
                t0 = time.time()
                rc, out = sh('VERIF_SKIP_DEMOS=1 VERIF_EVIDENCE_DIR=%s/.build/seed_evidence ./check %s --tier quick' % (V, c), cwd=V)
                vl = [l for l in out.splitlines() if l.startswith('VIOLATION')]
                res['checks'][c] = {'exit': rc, 'violation_line': vl[0] if vl else None, 'wall_s': round(time.time() - t0, 1)}
                if vl and 'replay=' in vl[0]:
                    rp = vl[0].split('replay=')[1].split()[0]
                    try:
                        r = json.load(open(rp)); res['checks'][c]['replay'] = {k: r.get(k) for k in ('relation', 'args', 'stdin', 'observed', 'expected', 'broken') if k in r}
                        if 'broken' in res['checks'][c]['replay']: res['checks'][c]['replay']['broken'] = [b[:400] for b in (r.get('broken') or [])][:3]
                    except Exception: pass
        finally:
            sh('git -C /repo checkout -- .')
    return finish(res, d, None, name)

def finish(res, d, wt, name):
    out = os.path.join(V, 'seeded', name); os.makedirs(out, exist_ok=True)
    for f in ('patch.diff', 'demo.sh', 'demo.rs'):
        if os.path.exists(os.path.join(d, f)) and os.path.abspath(d) != os.path.abspath(out): shutil.copy(os.path.join(d, f), os.path.join(out, f))
    meta = json.load(open(os.path.join(d, 'meta.json')))
    prev = (meta.get('verification') or {}).get('checks', {})
    for c, r in prev.items(): res.setdefault('checks', {}).setdefault(c, r)      # keep the results of checks not re-run now
    meta['verification'] = res
    json.dump(meta, open(os.path.join(out, 'meta.json'), 'w'), indent=1)
    print(json.dumps({k: res.get(k) for k in ('name', 'confirmed', 'tests_with_change', 'demo_with_change', 'demo_without_change', 'error')}))
    for c, r in res.get('checks', {}).items(): print('  ', c, 'exit', r['exit'], r['violation_line'], (r.get('replay') or {}).get('relation', ''))

if __name__ == '__main__': main()
