#!/usr/bin/env python3
"""Regenerates MANIFEST.json from the list of claimed properties (those with Props/Cnn.v and vp/props/Cnn.py)."""
import json, os, subprocess
V = os.path.dirname(os.path.dirname(os.path.abspath(__file__)))
props = [json.loads(l) for l in open(os.path.join(V, 'properties.jsonl'))]
TEXT = {
 'C01': ('the parser model is proved to read every rendering of every RFC 8259 spelling tree as exactly the denoted values, for all streams; the model is tied to the code by differential execution on generated spelling trees', 'values_of_stream / parse_value_render (axiom free); "nearest double" is the model\'s dec2flt, validated against Rust and Python float()'),
 'C02': ('the printer model is proved to emit, for every printable value in every style, the rendering of a well-formed spelling tree with that value, plus the whitespace shape of each style; tied to the code by differential execution', 'printable excludes known findings K1/K2; floats carry the decidable side condition flt_okb, evaluated on the floats of each run'),
 'C03': ('the chain of stage processes is proved to refine the documented composition of pure list stages for every expression semantics, every well-shaped pipeline and every input; tied to the code by differential execution of whole runs', 'run_spec over an abstract get; wfp (shape of pipelines Master::go builds) is checked per generated configuration; clap argument order is checked on the implementation only'),
 'C07': ('the order is proved to be a total preorder with the documented ranks and per-type rules, the bucket sorter is proved equal to a stable insertion sort characterised by permutation/sortedness/stability (which determine it), multi-key = lexicographic; tied to the code by differential execution and an independent Python oracle', 'std sort stability and BTreeMap order are trusted contracts'),
 'C08': ('proved: the limiter is firstn.skipn; a capped sorter flushes the first n rows of the full stable sort (ties included); capped sorter + limiter = uncapped sorter + limiter; slices commute with the surrounding pipeline; tied to the code by differential execution and the with/without metamorphic test', 'cap arithmetic assumes skip+take < 2^64'),
 'C11': ('proved: for stateless pipelines the output of a sequence is the concatenation of per-record outputs, for every expression semantics; tied to the code by runs on A, B, A.B, permutations and duplications', 'expressions that read the input position or have side effects are excluded by the property'),
 'C14': ('proved: after the chain answers Break the rest of the input is irrelevant, and a streaming prefix forwards the limiter\'s Break as soon as S+max(T,1) rows reached it; tied to the code with an endless instrumented reader whose pulled-byte count must equal the model\'s', 'BufReader read-ahead for files is outside the model'),
}
claimed = [p['id'] for p in props if os.path.exists(os.path.join(V, 'coq', 'Props', p['id'] + '.v')) and os.path.exists(os.path.join(V, 'vp', 'props', p['id'] + '.py')) and p['id'] in TEXT]
m = {"version": 1, "setup_cmd": "./setup.sh",
     "hooks": {"guard": "jawk_verif", "enable": "no hooks are needed: every property is observable through jawk::go or the binary; RUSTFLAGS=\"--cfg jawk_verif\" is reserved and unused",
               "baseline_off_cmd": "cd /repo && (cargo nextest run --workspace --no-fail-fast --tool-config-file pb:/w/lib/nextest.toml --profile pb --test-threads 8 --offline || cargo test --workspace --no-fail-fast --offline)",
               "source_commits": [], "add_only": True},
     "engines": [{"name": "coq-model", "path": "coq/", "serves_properties": claimed,
                  "kind_free_text": "hand-written executable Gallina model of jawk + theorems (Coq 8.16.1, axiom free); tied to /repo on every run by tables regenerated from the source and by a correspondence check (extracted model vs jawk::go on generated cases)"}],
     "checks": [], "notes": "see DESIGN.md; known findings in known_findings.json", "not_applicable": []}
for p in props:
    i = p['id']
    if i in claimed:
        m['checks'].append({"property_id": i, "quick_cmd": "./check %s --tier quick" % i, "thorough_cmd": "./check %s --tier thorough" % i,
                            "evidence_file": "/verif/evidence/%s.json" % i, "replay_cmd_template": "./check %s --replay {path}" % i, "engine": "coq-model",
                            "level_claimed": {"category": "proof", "text": TEXT[i][0], "design_ref": "DESIGN.md section 8 (%s)" % i},
                            "level_note": TEXT[i][1] + "; trusted base: Coq kernel, extraction (ExtrOcamlBasic), translator for tables, correspondence harness",
                            "technique": "Coq proof about an executable model + model/implementation correspondence"})
    else:
        m['not_applicable'].append({"property_id": i, "reason": "not yet claimed: its check is under construction (no technique switch intended; see DESIGN.md build order)"})
json.dump(m, open(os.path.join(V, 'MANIFEST.json'), 'w'), indent=1)
print('claimed', claimed)
