"""Correspondence runner: implementation vs model on a projection; helpers for direct tests."""
import json, copy
import lib

def clone_cfg(c, **kw):
    d = copy.deepcopy(c); d.update(kw); return d

def mkcase(i, cfg, data, **kw):
    c = {'id': str(i), 'cfg': cfg, 'inputs': [{'data': data}]}
    c.update(kw); return c

def default_projection(case, res, side):
    out = res['stdout']
    if side == 'impl': out = lib.canon_errlines(out)
    return (lib.kind(res), out)

LAST_MISMATCHES = []

def correspond(cases, projection=default_projection):
    """run both sides, return (impl_results, model_results, mismatches[list of dict])"""
    impl = lib.run_harness(cases)
    model = lib.run_model(cases)
    mism = []
    for c in cases:
        a = impl.get(c['id']); b = model.get(c['id'])
        if a is None or b is None:
            mism.append({'case': describe(c), 'impl': str(a and a['result']), 'model': str(b and b['result']), 'why': 'missing result'})
            continue
        pa = projection(c, a, 'impl'); pb = projection(c, b, 'model')
        if pa != pb:
            mism.append({'case': describe(c), 'impl': repr(pa)[:600], 'model': repr(pb)[:600], 'why': 'projection differs'})
    LAST_MISMATCHES.extend(mism[:5])
    return impl, model, mism

def describe(c):
    d = {'id': c['id'], 'args': lib.cfg_args(c['cfg']) + c.get('extra_args', []),
         'inputs': [{'hex': i['data'].hex(), 'text': i['data'].decode('utf8', 'replace')[:400],
                     **{k: i[k] for k in ('fail_at', 'name', 'chunking') if k in i}} for i in c['inputs']]}
    for k in ('out_room', 'err_room', 'files'):
        if c.get(k) is not None: d[k] = c[k]
    return d

def rows(out, sep=b'\n'):
    if not out: return []
    parts = out.split(sep)
    if parts and parts[-1] == b'': parts = parts[:-1]
    return parts

def nontrivial_count(cases, impl):
    seen = set()
    for c in cases:
        r = impl.get(c['id'])
        if r is None: continue
        if r['stdout'] or r['stderr']:
            seen.add((tuple(lib.cfg_args(c['cfg'])), tuple(i['data'] for i in c['inputs']), c.get('out_room'), tuple(i.get('fail_at') for i in c['inputs'])))
    return len(seen)
