"""Shared machinery: case format, running the implementation (Rust harness on /repo) and the
Coq model (extracted OCaml driver), building, evidence and the VIOLATION protocol."""
import json, os, subprocess, sys, time, random, hashlib, re, shutil

VERIF = os.path.dirname(os.path.dirname(os.path.abspath(__file__)))
BUILD = os.path.join(VERIF, '.build')
COQ = os.path.join(VERIF, 'coq')
HARNESS_BIN = os.path.join(BUILD, 'cargo', 'debug', 'jawk-harness')
MODEL_BIN = os.path.join(BUILD, 'extract', 'model_driver')
JAWK_BIN = os.path.join(BUILD, 'jawk-target', 'debug', 'jawk')
NPROC = min(16, os.cpu_count() or 4)

def log(*a):
    print(*a, file=sys.stderr, flush=True)

# ---------------------------------------------------------------- cases
def hexs(b):
    if isinstance(b, str): b = b.encode('utf8')
    return b.hex()

def new_cfg(**kw):
    c = dict(on_error='ignore', select=[], filter=None, split=None, group=None, sort=[], skip=0, take=None,
             unique=False, set=[], only_objs=False, style='json', rowsep=None, json_opts=None, text_opts=None,
             cache=None)
    c.update(kw); return c

def cfg_args(c):
    a = []
    if c['on_error'] != 'ignore': a.append('--on-error=' + c['on_error'])
    for s in c['set']: a.append('--set=' + s)
    if c['split'] is not None: a.append('--split-by=' + c['split'])
    if c['filter'] is not None: a.append('--filter=' + c['filter'])
    for s in c['select']: a.append('--select=' + s)
    if c['unique']: a.append('--unique')
    for s in c['sort']: a.append('--sort-by=' + s)
    if c['skip']: a.append('--skip=%d' % c['skip'])
    if c['take'] is not None: a.append('--take=%d' % c['take'])
    if c['group'] is True: a.append('--group-by')
    elif c['group'] is not None: a.append('--group-by=' + c['group'])
    if c['only_objs']: a.append('--only-objects-and-arrays')
    if c['style'] != 'json': a.append('--output-style=' + c['style'])
    if c['rowsep'] is not None: a.append('--row-seperator=' + c['rowsep'])
    if c['json_opts'] is not None:
        st, u = c['json_opts']
        if st is not None: a.append('--style=' + {'oneline': 'one-line', 'consise': 'consise', 'pretty': 'pretty'}[st])
        if u: a.append('--utf8-strings')
    if c['text_opts'] is not None:
        t = c['text_opts']
        m = {'items_sep': '--items-seperator', 'prefix': '--string-prefix', 'postfix': '--string-postfix',
             'null': '--null-keyword', 'true': '--true-keyword', 'false': '--false-keyword',
             'missing': '--missing-value-keyword'}
        for k, opt in m.items():
            if k in t: a.append(opt + '=' + t[k])
        if t.get('headers'): a.append('--headers')
        for e in t.get('escape', []): a.append('--escape-sequance=' + e)
    if c.get('cache') is not None: a.append('--regular-expression-cache-size=%d' % c['cache'])
    return a

def permute_args(args, rnd):
    a = list(args)
    # keep relative order of repeated --select / --sort-by; shuffle everything else around them
    keyed = [(x.split('=')[0], x) for x in a]
    order = list(range(len(a))); rnd.shuffle(order)
    out = [a[i] for i in order]
    for k in ('--select', '--sort-by', '--set'):
        orig = [x for x in a if x.split('=')[0] == k]
        it = iter(orig)
        out = [next(it) if x.split('=')[0] == k else x for x in out]
    return out

OPTION_SPELLINGS = {'--select': ['--select', '--choose', '-c'], '--filter': ['--filter', '--where', '-f'], '--split-by': ['--split-by', '--break-by', '-b'],
                    '--group-by': ['--group-by', '--combine', '--merge', '-g'], '--sort-by': ['--sort-by', '--order-by', '-s'], '--skip': ['--skip', '-k'],
                    '--take': ['--take', '--limit', '-t'], '--unique': ['--unique', '-u'], '--set': ['--set', '-e'], '--output-style': ['--output-style', '-o']}
def spell_args(args, rnd):
    """the same command line with option aliases, short forms and `--opt value` / `--opt=value` / `-ovalue` spellings chosen at random"""
    out = []
    for a in args:
        name, eq, val = a.partition('=')
        if name not in OPTION_SPELLINGS: out.append(a); continue
        alt = rnd.choice(OPTION_SPELLINGS[name])
        if not eq: out.append(alt); continue                       # a flag (or the bare --group-by = --merge)
        if name == '--group-by': out.append(alt + '=' + val); continue         # optional value: only the = form binds it
        form = rnd.choice(['eq', 'sep']) if not val.startswith('-') and val != '' else 'eq'
        if alt.startswith('--'): out += [alt + '=' + val] if form == 'eq' else [alt, val]
        else: out += [alt + '=' + val] if form == 'eq' else [alt, val]
    return out

def model_text(case):
    c = case['cfg']; L = ['CASE %s' % case['id']]
    L.append('on_error ' + c['on_error'])
    for s in c['set']: L.append('set ' + hexs(s))
    if c['split'] is not None: L.append('split ' + hexs(c['split']))
    if c['filter'] is not None: L.append('filter ' + hexs(c['filter']))
    for s in c['select']: L.append('select ' + hexs(s))
    if c['unique']: L.append('unique')
    for s in c['sort']: L.append('sort ' + hexs(s))
    L.append('skip %d' % c['skip'])
    if c['take'] is not None: L.append('take %d' % c['take'])
    if c['group'] is True: L.append('merge')
    elif c['group'] is not None: L.append('group ' + hexs(c['group']))
    if c['only_objs']: L.append('only_objs')
    L.append('style ' + c['style'])
    if c['rowsep'] is not None: L.append('rowsep ' + hexs(c['rowsep']))
    if c['json_opts'] is not None:
        st, u = c['json_opts']; L.append('json_opts %s %d' % (st or 'oneline', 1 if u else 0))
    if c['text_opts'] is not None:
        t = c['text_opts']; parts = []
        for k in ('items_sep', 'prefix', 'postfix', 'null', 'true', 'false', 'missing'):
            if k in t: parts.append('%s=%s' % (k, hexs(t[k])))
        if t.get('headers'): parts.append('headers=1')
        for e in t.get('escape', []): parts.append('escape=' + hexs(e))
        L.append('text_opts ' + ' '.join(parts))
    files = case.get('files', False)
    for i, inp in enumerate(case['inputs']):
        data = inp['data'] + inp.get('model_tail', b'')
        nm = '-'
        if files: nm = hexs(os.path.join(case.get('_tmp', ''), inp.get('name', 'f%d.json' % i)))
        l = 'input %s x%s' % (nm, data.hex())
        if inp.get('fail_at') is not None: l += ' %d' % inp['fail_at']
        L.append(l)
    L.append('stdin %d' % (0 if files else 1))
    if case.get('out_room') is not None: L.append('out_room %d' % case['out_room'])
    if case.get('err_room') is not None: L.append('err_room %d' % case['err_room'])
    L.append('END')
    return '\n'.join(L) + '\n'

def harness_json(case):
    inputs = []
    for i, inp in enumerate(case['inputs']):
        d = {'chunks': [x.hex() for x in chunk(inp['data'], inp.get('chunking'))]}
        if 'name' in inp: d['name'] = inp['name']
        for k in ('fail_at', 'fail_kind', 'fail_once', 'interrupts', 'budget'):
            if inp.get(k) is not None: d[k] = inp[k]
        if inp.get('endless'): d['endless'] = inp['endless'].hex()
        inputs.append(d)
    j = {'id': case['id'], 'args': case.get('args') or cfg_args(case['cfg']) + case.get('extra_args', []),
         'inputs': inputs, 'files': case.get('files', False)}
    for k in ('out_room', 'err_room', 'out_chunk', 'out_fail_kind', 'dir', 'links'):
        if case.get(k) is not None: j[k] = case[k]
    return json.dumps(j)

def chunk(data, spec):
    if not spec: return [data] if data else []
    out = []; i = 0
    for n in spec:
        if i >= len(data): break
        out.append(data[i:i+n]); i += n
    if i < len(data): out.append(data[i:])
    return out

# ---------------------------------------------------------------- running
def _shards(items, n):
    n = max(1, min(n, len(items)))
    return [items[i::n] for i in range(n)]

def run_harness(cases, timeout=40, shards=NPROC, max_hangs=3):
    """returns {id: {result, msg, stdout(bytes), stderr(bytes), pulled, stdin_opened, budget_hit}}.
    The harness works through its cases in order, one result line per case.  When a shard hangs or dies, the first
    case without a result is the suspect: it is re-run alone (result 'hang' / 'abort' when it fails again) and the
    rest of the shard is run again; shards recover in parallel.  After `max_hangs` confirmed hangs/aborts in one call
    the remaining cases are reported 'not-run' (the check has its failing input; a change that hangs on many inputs
    must not make the check itself run for an hour)."""
    import threading
    ids = [c['id'] for c in cases]
    if len(set(ids)) != len(ids): raise ValueError('duplicate case ids: %s' % sorted(i for i, n in __import__('collections').Counter(ids).items() if n > 1)[:5])
    tmp = os.path.join(BUILD, 'tmp'); os.makedirs(tmp, exist_ok=True)
    per = len(cases) // max(1, min(shards, max(1, len(cases)))) + 1
    t0 = max(timeout, 20 + per // 20)
    out = {}; lock = threading.Lock(); confirmed = [0]
    def launch(cs, tag):
        d = os.path.join(tmp, 'h%d_%s' % (os.getpid(), tag)); os.makedirs(d, exist_ok=True)
        for c in cs: c['_tmp'] = d
        p = subprocess.Popen([HARNESS_BIN, d], stdin=subprocess.PIPE, stdout=subprocess.PIPE, stderr=subprocess.DEVNULL)
        return p, d
    def collect(p, cs, d, tmo):
        data = ''.join(harness_json(c) + '\n' for c in cs).encode()
        try:
            so, _ = p.communicate(data, timeout=tmo); st = p.returncode
        except subprocess.TimeoutExpired:
            p.kill(); so, _ = p.communicate(); st = 'hang'
        res = {}
        for l in so.split(b'\n'):        # not splitlines(): messages may contain U+0085 / U+2028
            try: r = json.loads(l.decode('utf8', 'replace'))
            except Exception: continue
            r['stdout'] = bytes.fromhex(r['stdout']); r['stderr'] = bytes.fromhex(r['stderr'])
            res[r['id']] = r
        shutil.rmtree(d, ignore_errors=True)
        return res, st
    def blank(c, result, msg):
        return {'id': c['id'], 'result': result, 'msg': msg, 'stdout': b'', 'stderr': b'', 'pulled': 0, 'stdin_opened': 0, 'budget_hit': False}
    def work(k, g):
        p, d = launch(g, '%d' % k)
        res, st = collect(p, g, d, t0)
        mine = dict(res)
        missing = [c for c in g if c['id'] not in mine]
        rounds = 0
        while missing and rounds < 8:
            with lock:
                if confirmed[0] >= max_hangs: break
            rounds += 1
            c = missing[0]
            p, d = launch([c], '%d_s%d' % (k, rounds))
            r1, st1 = collect(p, [c], d, 8)
            if c['id'] in r1: mine[c['id']] = r1[c['id']]
            else:
                mine[c['id']] = blank(c, 'hang' if st1 == 'hang' else 'abort', str(st1))
                with lock: confirmed[0] += 1
            rest = missing[1:]
            if rest:
                p, d = launch(rest, '%d_r%d' % (k, rounds))
                r2, st2 = collect(p, rest, d, max(15, 10 + len(rest) // 20))
                mine.update(r2)
            missing = [c for c in rest if c['id'] not in mine]
        for c in missing:
            mine[c['id']] = blank(c, 'not-run', 'not run: earlier cases of this call already hung or aborted')
        with lock: out.update(mine)
    groups = _shards(cases, shards)
    ths = [threading.Thread(target=work, args=(k, g)) for k, g in enumerate(groups)]
    for t in ths: t.start()
    for t in ths: t.join()
    return out

def run_model(cases, timeout=120, shards=NPROC):
    timeout = max(timeout, 60 + len(cases) // max(1, shards) // 10)      # ~0.1 s per case per shard at worst
    ids = [c['id'] for c in cases]
    if len(set(ids)) != len(ids): raise ValueError('duplicate case ids: %s' % sorted(i for i, n in __import__('collections').Counter(ids).items() if n > 1)[:5])
    out = {}
    groups = _shards(cases, shards)
    procs = []
    for g in groups:
        p = subprocess.Popen(['bash', '-c', 'ulimit -s unlimited 2>/dev/null; exec "%s"' % MODEL_BIN],
                             stdin=subprocess.PIPE, stdout=subprocess.PIPE, stderr=subprocess.PIPE)
        procs.append(p)
    import threading
    results = [None] * len(groups)
    def work(i):
        data = ''.join(model_text(c) for c in groups[i]).encode()
        try:
            so, se = procs[i].communicate(data, timeout=timeout)
        except subprocess.TimeoutExpired:
            procs[i].kill(); so, se = procs[i].communicate()
        results[i] = so
    ths = [threading.Thread(target=work, args=(i,)) for i in range(len(groups))]
    for t in ths: t.start()
    for t in ths: t.join()
    for so in results:
        for l in so.decode().splitlines():
            w = l.split(' ')
            if w[0] != 'RESULT' or len(w) < 7: continue
            out[w[1]] = {'id': w[1], 'result': w[2], 'stdout': bytes.fromhex(w[3][1:]), 'stderr': bytes.fromhex(w[4][1:]),
                         'pulled': [int(x) for x in w[5].split(',')[1:] if x], 'stdin_opened': int(w[6])}
    return out

ERRLINE = re.compile(rb'error:[^\n]*\n')    # not anchored: with a row separator that has no line break the diagnostic follows a row on the same line
def canon_errlines(b):
    return ERRLINE.sub(b'error:\n', b)

def kind(res):
    """small enum of result kinds shared by both sides"""
    r = res['result']
    if r == 'ok': return 'ok'
    if r in ('err:config', 'err:selection', 'err:sorter', 'err:preset', 'err:style'): return 'err:config'
    if r in ('err:start', 'err:processor'): return 'err:start'
    if r == 'err:json': return 'err:json'
    if r in ('err:io', 'err:format'): return 'err:io'
    return r

# ---------------------------------------------------------------- build steps
def sh(cmd, timeout=1800, cwd=None, env=None):
    e = dict(os.environ); e.update({'CARGO_NET_OFFLINE': 'true'}); e.update(env or {})
    p = subprocess.run(cmd, shell=True, cwd=cwd, env=e, stdout=subprocess.PIPE, stderr=subprocess.STDOUT, timeout=timeout)
    return p.returncode, p.stdout.decode('utf8', 'replace')

def build_harness():
    rc, out = sh('cp /repo/Cargo.lock %s/harness/Cargo.lock && cd %s/harness && CARGO_TARGET_DIR=%s/cargo cargo build --offline 2>&1 | tail -30'
                 % (VERIF, VERIF, BUILD))
    if not os.path.exists(HARNESS_BIN) or 'error' in out.lower() and 'could not compile' in out.lower():
        return False, out
    return True, out

def build_jawk_bin():
    rc, out = sh('cd /repo && CARGO_TARGET_DIR=%s/jawk-target cargo build --offline 2>&1 | tail -30' % BUILD)
    return os.path.exists(JAWK_BIN) and 'could not compile' not in out, out

def gen_tables():
    """regenerate coq/Gen/*.v from /repo/src; tables whose shape the translator does not recognise in the source are
    determined from the behaviour of the code built from /repo (vp/probe.py) and written as PROBED"""
    import probe
    base = 'python3 %s/extractor/gen_tables.py /repo/src %s/Gen' % (VERIF, COQ)
    cp = probe.cache_path()
    rc, out = sh(base + (' --probed=%s' % cp if os.path.exists(cp) else ''))
    if rc != 0: return rc, out
    unrec = [t for t, st in tables_status().items() if st == 'unrecognised']
    if unrec:
        have, cp = probe.run(unrec)
        rc, out = sh(base + ' --probed=%s' % cp)
    return rc, out

def tables_status():
    try: return json.load(open(os.path.join(COQ, 'Gen', 'tables_status.json')))['status']
    except Exception: return {}

class build_lock:
    """one check at a time regenerates tables and builds (.vo files and Gen/ are shared between checks)"""
    def __enter__(self):
        import fcntl
        os.makedirs(BUILD, exist_ok=True)
        self.f = open(os.path.join(BUILD, 'build.lock'), 'w'); fcntl.flock(self.f, fcntl.LOCK_EX); return self
    def __exit__(self, *a):
        import fcntl
        fcntl.flock(self.f, fcntl.LOCK_UN); self.f.close()

def coq_make(targets, timeout=3000):
    """full .vo build of the given targets (relative to coq/); returns (ok, log)"""
    rc, out = sh('cd %s && ( [ -f Makefile ] || coq_makefile -f _CoqProject -o Makefile >/dev/null ) && timeout %d make -j%d %s 2>&1 | tail -60'
                 % (COQ, timeout, NPROC, ' '.join(targets)), timeout=timeout + 60)
    ok = all(os.path.exists(os.path.join(COQ, t)) for t in targets) and 'Error' not in out
    return ok, out

def build_model():
    ok, out = coq_make(['Model/Go.vo'])
    if not ok: return False, out
    ex = os.path.join(BUILD, 'extract'); os.makedirs(ex, exist_ok=True)
    stamp = os.path.join(ex, 'stamp')
    srcs = [os.path.join(COQ, 'Model', f) for f in sorted(os.listdir(os.path.join(COQ, 'Model'))) if f.endswith('.v')]
    srcs += [os.path.join(COQ, 'Gen', 'FnTable.v'), os.path.join(COQ, 'Extract', 'Extract.v'), os.path.join(COQ, 'Extract', 'driver.ml')]
    h = hashlib.sha256()
    for s in srcs: h.update(open(s, 'rb').read())
    dig = h.hexdigest()
    if os.path.exists(stamp) and open(stamp).read() == dig and os.path.exists(MODEL_BIN):
        return True, 'cached'
    rc, out = sh('cd %s && coqc -Q %s Jawk %s/Extract/Extract.v 2>&1 | tail -5 && cp %s/Extract/driver.ml . && '
                 'ocamlfind ocamlopt -package str model.mli model.ml driver.ml -o model_driver 2>&1 | tail -20'
                 % (ex, COQ, COQ, COQ))
    if rc != 0 or not os.path.exists(MODEL_BIN): return False, out
    open(stamp, 'w').write(dig)
    return True, out
