#!/usr/bin/env python3
"""./check Cnn [--tier quick|thorough] [--replay file]

One run: regenerate tables from /repo/src, build the Coq cone of the property (full .vo build) and
collect `Print Assumptions`, build the harness against /repo's working tree and the extracted model,
run corpus + generated cases on both, compare the property's projection, run the property's direct
tests on the implementation, write evidence, print VIOLATION / KNOWN-FINDING lines."""
import sys, os, json, time, random, importlib, re, traceback
sys.path.insert(0, os.path.dirname(os.path.abspath(__file__)))
import lib
from lib import log

ALLOWED_AXIOMS = set()   # the development is intended to be axiom free

# which generated tables each property rests on
TABLES_OF = {
    'C01': ['BytesOk', 'EscapesOk'], 'C02': ['EscapesOk'], 'C03': ['StageOrderOk'], 'C04': ['FnTableOk'], 'C05': ['BytesOk', 'FnTableOk'],
    'C06': ['BytesOk'], 'C07': ['RankOk'], 'C08': ['StageOrderOk'], 'C09': ['StageOrderOk'], 'C10': ['StageOrderOk'], 'C11': ['StageOrderOk'],
    'C12': ['FnTableOk'], 'C13': ['FnTableOk'], 'C14': ['StageOrderOk'], 'C15': ['StageOrderOk'], 'C16': ['StageOrderOk'], 'C17': ['StageOrderOk'],
    'C18': ['StageOrderOk', 'FnTableOk'], 'C19': ['BytesOk'], 'C20': ['MainWiringOk'],
}

def hygiene():
    """no Admitted / Axiom / Parameter ... anywhere in the development"""
    bad = []
    pat = re.compile(r'\b(Admitted|admit|Axiom|Axioms|Parameter|Parameters|Conjecture|Hypothesis|Hypotheses|Variable|Variables)\b|Unset\s+Guard|bypass_check|type-in-type|Admit Obligations')
    for root, _, files in os.walk(lib.COQ):
        for f in files:
            if not f.endswith('.v'): continue
            p = os.path.join(root, f); depth = 0
            txt = open(p).read()
            txt = re.sub(r'\(\*.*?\*\)', lambda m: ' ' * len(m.group(0)), txt, flags=re.S)
            sec = 0
            for ln, line in enumerate(txt.splitlines(), 1):
                if re.match(r'\s*Section\b', line): sec += 1
                if re.match(r'\s*End\b', line) and sec > 0: sec -= 1
                m = pat.search(line)
                if m:
                    w = m.group(1)
                    if w in ('Variable', 'Variables', 'Hypothesis', 'Hypotheses') and sec > 0: continue
                    bad.append('%s:%d: %s' % (os.path.relpath(p, lib.COQ), ln, line.strip()[:80]))
    return bad

def assumptions(prop, theorems):
    """Compile a scratch file that prints the assumptions of each pinned theorem; returns {thm: [axioms] or None}"""
    d = os.path.join(lib.BUILD, 'assume'); os.makedirs(d, exist_ok=True)
    f = os.path.join(d, 'A_%s.v' % prop)
    with open(f, 'w') as o:
        o.write('From Jawk Require Import Props.%s.\n' % prop)
        for t in theorems:
            o.write('Goal True. idtac "@@BEGIN %s". Abort.\nPrint Assumptions %s.\nGoal True. idtac "@@END". Abort.\n' % (t, t))
    rc, out = lib.sh('cd %s && timeout 600 coqc -Q %s Jawk %s 2>&1' % (d, lib.COQ, f), timeout=700)
    res = {}
    for t in theorems:
        m = re.search(r'@@BEGIN %s\n(.*?)@@END' % re.escape(t), out, re.S)
        if not m: res[t] = None; continue
        body = m.group(1)
        if 'Closed under the global context' in body: res[t] = []
        else:
            ax = re.findall(r'^([A-Za-z_][\w.\']*)\s*:', body, re.M)
            res[t] = ax
    return res, out

def pinned_theorems(prop):
    p = os.path.join(lib.COQ, 'Props', prop + '.v')
    if not os.path.exists(p): return []
    txt = open(p).read()
    return re.findall(r'^\s*Theorem\s+([\w\']+)', txt, re.M)

def load_known():
    p = os.path.join(lib.VERIF, 'known_findings.json')
    if os.path.exists(p): return json.load(open(p))
    return {'findings': [], 'fixed': []}

def _mm():
    try:
        import common
        return common.LAST_MISMATCHES[:5]
    except Exception:
        return []

def main():
    argv = sys.argv[1:]
    prop = argv[0]
    tier = os.environ.get('VERIF_TIER', 'quick')
    replay = None
    i = 1
    while i < len(argv):
        if argv[i] == '--tier': tier = argv[i+1]; i += 2
        elif argv[i] == '--replay': replay = argv[i+1]; i += 2
        else: i += 1
    seed = int(os.environ.get('VERIF_SEED', '20260930'))
    t0 = time.time()
    mod = importlib.import_module('props.' + prop)
    ev = {'property_id': prop, 'tier': tier, 'seed': seed, 'level': 'proof', 'coverage': {}, 'assumptions': [], 'wall_s': 0, 'violations': 0}
    cov = ev['coverage']
    violations = []      # (replay dict, found_input: bool)
    broken = []          # names of obligations / correspondences that no longer check

    # 1. tables + proofs
    lock = lib.build_lock(); lock.__enter__()
    rc, out = lib.gen_tables()
    if rc != 0: broken.append('translator: gen_tables failed: ' + out[-300:])
    theorems = pinned_theorems(prop)
    # table obligations of this property: one file per table regenerated from the source
    tables = getattr(mod, 'TABLES', None) or TABLES_OF.get(prop, [])
    table_lemmas = []
    for t in tables:
        table_lemmas += ['%s.%s' % (t, x) for x in re.findall(r'^Lemma\s+([\w\']+)', open(os.path.join(lib.COQ, 'Tables', t + '.v')).read(), re.M)]
    ok, out = lib.coq_make(['Tables/%s.vo' % t for t in tables] + ['Props/%s.vo' % prop])
    cov['checker_cmd'] = 'coq_makefile -f _CoqProject -o Makefile && make Props/%s.vo (coqc 8.16.1, full .vo build) ; coqc Print Assumptions per pinned theorem' % prop
    discharged = 0
    obligations = list(theorems) + table_lemmas
    ass_log = ''
    if not ok:
        m = re.search(r'File "([^"]+)", line (\d+).*?\n(Error.*?)(\n\n|$)', out, re.S)
        broken.append('proof: make Props/%s.vo failed: %s' % (prop, (m.group(0)[:400] if m else out[-400:])))
    else:
        res, ass_log = assumptions(prop, theorems)
        for t in theorems:
            if res.get(t) is None: broken.append('proof: theorem %s not found / Print Assumptions failed' % t)
            elif set(res[t]) - ALLOWED_AXIOMS: broken.append('proof: theorem %s depends on axioms %s' % (t, res[t]))
            else: discharged += 1
        discharged += len(table_lemmas)          # TableProofs.vo was produced by this run: every table lemma checked
    if ok and tier == 'thorough':
        # independent re-check of the compiled development (every Props file and everything they depend on) with coqchk, and the
        # axioms it relies on.  One coqchk run covers all properties; its verdict is cached under the digest of every compiled file
        # it read, so the next thorough check re-runs it only if some .vo changed (a fresh sandbox pays it once: ~15 min)
        import hashlib, glob
        h = hashlib.sha256()
        vos = sorted(glob.glob(os.path.join(lib.COQ, '*', '*.vo')))
        for f in vos: h.update(f.encode()); h.update(open(f, 'rb').read())
        dig = h.hexdigest()[:32]
        cpath = os.path.join(lib.BUILD, 'coqchk_cache.json')
        try: cache = json.load(open(cpath))
        except Exception: cache = {}
        if dig not in cache:
            ok_all, out_all = lib.coq_make(['Props/C%02d.vo' % i for i in range(1, 21)])
            mods = ' '.join('Jawk.Props.C%02d' % i for i in range(1, 21) if os.path.exists(os.path.join(lib.COQ, 'Props', 'C%02d.vo' % i)))
            t1 = time.time()
            rc, chk = lib.sh('cd %s && timeout 5400 coqchk -o -silent -Q . Jawk %s 2>&1 | tail -15' % (lib.COQ, mods), timeout=5500)
            m = re.search(r'\* Axioms:\s*(.*?)\n\s*\n', chk, re.S)
            # the digest is taken again: the build above may have produced further .vo files
            h = hashlib.sha256()
            for f in sorted(glob.glob(os.path.join(lib.COQ, '*', '*.vo'))): h.update(f.encode()); h.update(open(f, 'rb').read())
            dig = h.hexdigest()[:32]
            cache = {dig: {'axioms': (m.group(1).strip() if m else 'coqchk did not finish: ' + chk[-200:]), 'wall_s': round(time.time() - t1), 'modules': mods}}
            json.dump(cache, open(cpath, 'w'))
            cov['coqchk_cached'] = False
        else: cov['coqchk_cached'] = True
        cov['coqchk_axioms'] = cache[dig]['axioms']; cov['coqchk_wall_s'] = cache[dig]['wall_s']; cov['coqchk_digest_of_vo_files'] = dig
        if cache[dig]['axioms'] != '<none>': broken.append('coqchk: ' + cov['coqchk_axioms'][:300])
    bad = hygiene()
    if bad: broken.append('hygiene: ' + '; '.join(bad[:5]))
    cov['tables'] = lib.tables_status()      # per table: read in the source / probed from behaviour / not recognised
    cov['obligations'] = len(obligations); cov['discharged'] = discharged
    cov['theorems'] = obligations
    cov['samples_obligations'] = obligations[:3]
    cov['trusted_base'] = [
        'Coq 8.16.1 kernel (coqc; vm_compute in closed computations; no native_compute)',
        'axioms: none (every pinned theorem is Closed under the global context)',
        'translator extractor/gen_tables.py (tables Gen/*.v regenerated from /repo/src on every run)',
        'extraction to OCaml with ExtrOcamlBasic only (bool option list prod unit sumbool); hand-written driver.ml',
        'correspondence harness (Rust, path dependency on /repo; jawk::go under catch_unwind) and Python projections',
    ] + getattr(mod, 'TRUSTED', [])
    ev['assumptions'] = getattr(mod, 'ASSUMPTIONS', [])

    # 2. implementation + model builds
    ok, out = lib.build_harness()
    if not ok:
        log(out); print('harness build failed'); sys.exit(2)
    # the demonstrations of the failure classes found so far for this property (seeded/<prop>_*/demo.sh: written from the property
    # text, each fails on the change it was made for and passes on the repaired tree) run against the real binary on every check
    import glob
    demos = []
    for d in sorted(glob.glob(os.path.join(lib.VERIF, 'seeded', prop + '_*', 'demo.sh'))):
        try: meta = json.load(open(os.path.join(os.path.dirname(d), 'meta.json')))
        except Exception: meta = {}
        if meta.get('demo_arg') != 'worktree' and not os.environ.get('VERIF_SKIP_DEMOS'): demos.append(d)      # the self test of a seeded change measures the generic machinery, not the change's own demonstration
    if getattr(mod, 'NEEDS_BIN', False) or demos:
        ok, out = lib.build_jawk_bin()
        if not ok: log(out); print('jawk build failed'); sys.exit(2)
    ok, out = lib.build_model()
    if not ok:
        log(out); print('model build failed'); sys.exit(2)
    lock.__exit__()

    # 3. cases
    rnd = random.Random(seed)
    known = load_known()
    ctx = {'tier': tier, 'rnd': rnd, 'seed': seed if isinstance(seed, int) else 1, 'known': [k for k in known['findings'] if k['property'] == prop], 'prop': prop}
    if replay:
        r = json.load(open(replay))
        if r.get('demo'):
            rc, out = lib.sh('timeout 300 bash %s %s 2>&1' % (r['demo'], lib.JAWK_BIN), timeout=330)
            print(json.dumps({'observed': out[-1200:], 'exit': rc, 'fails': rc == 1}, indent=1)); sys.exit(1 if rc == 1 else 0)
        result = mod.replay(ctx, r)
        print(json.dumps(result, indent=1, default=str))
        sys.exit(1 if result.get('fails') else 0)
    try:
        result = mod.run(ctx)
    except Exception:
        traceback.print_exc(); print('check crashed'); sys.exit(2)
    cov.update(result['coverage'])
    if demos and not replay:
        import threading
        dres = {}
        def rundemo(d):
            try: dres[d] = lib.sh('timeout 300 bash %s %s 2>&1' % (d, lib.JAWK_BIN), timeout=330)
            except Exception as e: dres[d] = (124, 'timeout: %s' % e)
        ths = [threading.Thread(target=rundemo, args=(d,)) for d in demos]
        for t in ths: t.start()
        for t in ths: t.join()
        for d in demos:
            rc, out = dres[d]
            if rc == 1:      # 1 = the property is violated on the demo's inputs; other codes = the demo could not run here
                result.setdefault('violations', []).append({'property': prop, 'relation': 'regression: the demonstration of a failure class found earlier (%s) passes' % os.path.relpath(d, lib.VERIF),
                                                            'demo': d, 'observed': out[-1200:], 'expected': 'exit 0'})
        cov['regression_demos'] = len(demos); cov['regression_demos_not_runnable'] = sum(1 for d in demos if dres[d][0] not in (0, 1))
    for v in result.get('violations', []): violations.append(v)
    for b in result.get('broken', []): broken.append(b)
    for k in result.get('known', []): print('KNOWN-FINDING: property=%s %s' % (prop, k))

    # 4. verdict
    vdir = os.path.join(lib.BUILD, 'violations'); os.makedirs(vdir, exist_ok=True)
    rc = 0
    if violations:
        v = violations[0]
        p = os.path.join(vdir, '%s_%d.json' % (prop, int(time.time())))
        v['broken'] = broken
        v['model_mismatches'] = _mm()
        json.dump(v, open(p, 'w'), indent=1, default=str)
        print('VIOLATION property=%s replay=%s' % (prop, p)); rc = 1
    elif broken:
        p = os.path.join(vdir, '%s_%d.json' % (prop, int(time.time())))
        json.dump({'property': prop, 'no_failing_input': True, 'broken': broken, 'model_mismatches': _mm()}, open(p, 'w'), indent=1)
        log('\n'.join(broken))
        print('VIOLATION property=%s replay=%s no-failing-input-found' % (prop, p)); rc = 1
    ev['violations'] = len(violations) + (1 if broken and not violations else 0)
    ev['wall_s'] = round(time.time() - t0, 2)
    evdir = os.environ.get('VERIF_EVIDENCE_DIR') or os.path.join(lib.VERIF, 'evidence')     # seeded-change self tests redirect the evidence
    os.makedirs(evdir, exist_ok=True)
    json.dump(ev, open(os.path.join(evdir, prop + '.json'), 'w'), indent=1, default=str)
    log('%s %s: obligations %d/%d, evaluations %s, mismatches %s, %.1fs' % (prop, tier, discharged, len(obligations),
        cov.get('evaluations'), cov.get('model_mismatches'), ev['wall_s']))
    sys.exit(rc)

if __name__ == '__main__':
    main()
