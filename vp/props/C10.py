"""C10 — --unique removes exactly the later duplicates, by the same equality as `=`."""
import json
import lib, gen, common
from common import clone_cfg, mkcase, rows

ASSUMPTIONS = ['numbers in the interoperable range; -0 and member-order permutations are INCLUDED since the repairs aaa3975 and 5580b4e; what stays outside are the doubles 2^64 and -2^63, for which the = function itself is not transitive (C10_edge_not_transitive)',
               'HashSet is modelled as a list searched with Eq (ideal hasher); justified by C10_hash_any_order / C10_key_hash for canonical keys and by C10_unique_parsed for every parsed input without those two doubles']
TRUSTED = ['SipHash collisions are outside the model']

SPELL = [b'1', b'1.0', b'1e0', b'10e-1', b'2', b'2.50', b'2.5', b'"a"', b'"\\u0061"', '"é"'.encode('utf8'), b'"\\u00e9"', b'null', b'true', b'[1,2]', b'[1.0, 2]', b'[]',
         b'{"a":1}', b'{"a":1.0}', b'{"a":1,"b":[2]}', b'{"a": 1, "b": [2.0]}', b'""', b'[[]]', b'0', b'0.0', b'0e0', b'[0]', b'[0.0]', b'{"a":{"b":1}}', b'{"a":{},"b":1}', b'{"a":{"b":{"c":2}}}', b'{"a":{"b":{}},"c":2}', b'{"a":{"b":{},"c":2}}', b'[[1],[2]]', b'[[1,2]]', b'["ab"]', b'["a","b"]', b'{"k":"x","a":1}', b'{"k":"x","a":1e0}', b'-0', b'-0.0', b'-0e0', b'[-0]', b'{"a":-0}', b'{"a":0}',
         b'{"a":1,"b":[2]}', b'{"b":[2],"a":1}', b'{"a":{"x":1,"y":[{"p":1,"q":2}]},"b":2}', b'{"b":2.0,"a":{"y":[{"q":2,"p":1}],"x":1}}', b'[{"k":"x","a":1}]', b'[{"a":1,"k":"x"}]',
         b'1e15', b'1000000000000000', b'1.0e15', b'9007199254740991', b'9007199254740991.0', b'9.007199254740991e15', b'1e18', b'1000000000000000000', b'123456789012345680', b'1.2345678901234568e17', b'-1e15', b'-1000000000000000', b'[1e16]', b'[10000000000000000]',
         b'0.3', b'0.30000000000000004', b'0.1', b'0.10000000000000002', b'1e300', b'1.0000000000000002e300', b'[0.3]', b'[0.30000000000000004]', b'{"a":0.1}', b'{"a":0.10000000000000002}']

def run(ctx):
    rnd = ctx['rnd']; n = 600 if ctx['tier'] == 'quick' else 12000
    cases = []; meta = []
    for i in range(n):
        m = rnd.choice([0, 1, 3, 8, 20, 40])
        pool = rnd.sample(SPELL, rnd.choice([2, 4, 8]))
        data = b'\n'.join(rnd.choice(pool) for _ in range(m))
        sel = rnd.choice([[], [], ['.a'], ['.a', '.b'], ['.k=K', '.a'], ['(size .)=n'], ['.', '.a']])
        cfg = lib.new_cfg(select=sel, unique=True)
        if rnd.random() < 0.3: cfg['filter'] = rnd.choice(['(!= . null)', '(!= .a 2)'])
        cases.append(mkcase('Q%d' % i, cfg, data)); cases.append(mkcase('N%d' % i, clone_cfg(cfg, unique=False), data))
        meta.append((cfg, data))
    # selections that are absent in complementary columns: [1, absent] vs [absent, 1] are different rows
    COMP = [b'{"a":1}', b'{"b":1}', b'{"a":1,"b":1}', b'{"a":2}', b'{"b":2}', b'{}', b'{"c":1}', b'{"a":1,"c":1}', b'{"b":1,"c":1}', b'{"a":null}', b'{"b":null}']
    for i in range(n // 3):
        m = rnd.choice([2, 4, 8, 16])
        data = b'\n'.join(rnd.choice(COMP) for _ in range(m))
        sel = rnd.choice([['.a', '.b'], ['.a=x', '.b=y', '.c=z'], ['.b', '.a'], ['.a', '.c'], ['.a', '.b', '.c', '.d']])
        cfg = lib.new_cfg(select=sel, unique=True)
        if rnd.random() < 0.3: cfg['group'] = True
        cases.append(mkcase('Q%d' % (n + i), cfg, data)); cases.append(mkcase('N%d' % (n + i), clone_cfg(cfg, unique=False), data))
        if cfg['group'] is None: meta.append((cfg, data))
        else: meta.append(None)
    # pipelines from the common generator too
    for i in range(n // 3):
        cfg = gen.pipeline_cfg(rnd, allow_unique=False); cfg['unique'] = True
        data = gen.stream(gen.records(rnd, 20), rnd)
        cases.append(mkcase('q%d' % i, cfg, data))
    # rows are compared on their selected VALUES: the names of the selections play no part (two selections may share a name)
    nmeta = []
    for i in range(n // 6):
        m = rnd.choice([2, 4, 8, 16])
        data = b'\n'.join(rnd.choice(COMP) for _ in range(m))
        cols = rnd.choice([['.a', '.b'], ['.a', '.b', '.c'], ['.b', '.a'], ['.c', '.a']])
        same = lib.new_cfg(select=['%s=n' % c for c in cols], unique=True, style='text')
        dist = lib.new_cfg(select=['%s=n%d' % (c, t) for t, c in enumerate(cols)], unique=True, style='text')
        cases.append(mkcase('S%d' % i, same, data)); cases.append(mkcase('T%d' % i, dist, data)); nmeta.append((same, dist, data))
    # the statement ties --unique to the = function itself: for pairs of values, b is dropped after a exactly when (= a b) is true
    pmeta = []
    for i in range(n // 3):
        a, b = rnd.choice(SPELL), rnd.choice(SPELL)
        if rnd.random() < 0.3:           # near pairs: neighbours in the list (spellings of the same or of adjacent values)
            j = rnd.randrange(len(SPELL) - 1); a, b = SPELL[j], SPELL[j + 1]
        eqc = mkcase('PE%d' % i, lib.new_cfg(select=['(= (get . 0) (get . 1))=eq']), b'[' + a + b',' + b + b']')
        unc = mkcase('PU%d' % i, lib.new_cfg(unique=True), a + b'\n' + b)
        cases += [eqc, unc]; pmeta.append((a, b, eqc, unc))
    impl, model, mism = common.correspond(cases)
    violations = []; checked = 0
    for a, b, eqc, unc in pmeta:
        e, u = impl[eqc['id']], impl[unc['id']]
        if e['result'] != 'ok' or u['result'] != 'ok' or not rows(e['stdout']): continue
        eq = json.loads(rows(e['stdout'])[0]).get('eq'); kept = len(rows(u['stdout'])); checked += 1
        if (eq is True) != (kept == 1):
            violations.append(viol(unc['cfg'], unc['inputs'][0]['data'], 'two values are duplicates for --unique exactly when the = function says they are equal', '(= a b) is %s, --unique keeps %d rows' % (json.dumps(eq), kept), '= true <-> one row'))
    for i, (same, dist, data) in enumerate(nmeta):
        a, b = impl['S%d' % i], impl['T%d' % i]; checked += 1
        if (a['result'], a['stdout']) != (b['result'], b['stdout']):
            violations.append(viol(same, data, 'rows are compared on their selected values: giving the selections the same name changes nothing',
                                   a['stdout'].decode('utf8', 'replace')[:400], b['stdout'].decode('utf8', 'replace')[:400]))
    for i, md in enumerate(meta):
        if md is None: continue
        cfg, data = md
        q = impl['Q%d' % i]; nn = impl['N%d' % i]
        if q['result'] != 'ok' or nn['result'] != 'ok':
            if q['result'] in ('panic', 'hang', 'abort'): violations.append(viol(cfg, data, 'run completes', q['result'], 'ok'))
            continue
        allr = rows(nn['stdout']); exp = []; seen = []
        for r in allr:
            v = json.loads(r)
            if not any(jeq(v, s) for s in seen): seen.append(v); exp.append(r)
        checked += 1
        if rows(q['stdout']) != exp:
            violations.append(viol(cfg, data, 'output with --unique == output without it minus every row equal to an earlier row (first occurrences, order kept)',
                                   [r.decode() for r in rows(q['stdout'])][:12], [r.decode() for r in exp][:12]))
    cov = {'evaluations': len(cases), 'distinct_nontrivial': common.nontrivial_count(cases, impl),
           'rule': 'sequences of 0..40 values over samples of %d spellings with many repeats (1, 1.0, 1e0, 10e-1; "a" vs \\u0061; nested equal collections) x with/without selections incl. absent ones; paired with the run without --unique' % len(SPELL),
           'samples': [common.describe(c) for c in cases[:2]],
           'traces_validated_against_impl': len(cases) - len(mism), 'model_mismatches': len(mism), 'direct_relations_checked': checked}
    broken = ['correspondence: model and implementation differ on %d cases, e.g. %s' % (len(mism), json.dumps(mism[0])[:1500])] if mism else []
    return {'coverage': cov, 'violations': violations, 'broken': broken}

def jeq(a, b):
    """jawk's = : like Python's == on parsed JSON, except that booleans are not numbers"""
    if isinstance(a, bool) or isinstance(b, bool): return isinstance(a, bool) and isinstance(b, bool) and a == b
    if isinstance(a, (int, float)) and isinstance(b, (int, float)): return a == b
    if type(a) != type(b): return False
    if isinstance(a, list): return len(a) == len(b) and all(jeq(x, y) for x, y in zip(a, b))
    if isinstance(a, dict): return a.keys() == b.keys() and all(jeq(a[k], b[k]) for k in a)
    return a == b

def viol(cfg, data, rel, obs, exp):
    return {'property': 'C10', 'relation': rel, 'args': lib.cfg_args(cfg), 'stdin_hex': data.hex(), 'stdin': data.decode('utf8', 'replace')[:600], 'observed': obs, 'expected': exp}

def replay(ctx, r):
    c = {'id': 'r', 'cfg': lib.new_cfg(), 'args': r['args'], 'inputs': [{'data': bytes.fromhex(r['stdin_hex'])}]}
    res = lib.run_harness([c])['r']
    obs = [x.decode() for x in rows(res['stdout'])][:12]
    return {'observed': obs, 'expected': r.get('expected'), 'fails': obs != r.get('expected')}
