"""C04 — expressions evaluate to what the function documentation prescribes."""
import json, itertools
import lib, gen, common, exprgen
from common import clone_cfg, mkcase, rows

ASSUMPTIONS = ['the laws (Proofs/FunLaws.v) are laws of the model; that the model is the implementation is established by this correspondence on generated expressions of depth <= 5, every alias, and the documentation examples harvested from the source',
               'not modelled (opaque): exec trigger now env match extract_regex_group format_time parse_time parse_time_with_zone parse_selection "/" "%" "sort_by"; range is modelled but kept out of random expressions (sizes)']
TRUSTED = ['bigdecimal parsing/arithmetic/Display, Rust f64 arithmetic (modelled by FunsNas / F64Arith, validated by corpora of 4k / 12k cases)']

def run(ctx):
    rnd = ctx['rnd']; n = 1200 if ctx['tier'] == 'quick' else 100000
    g = exprgen.Gen(rnd, nas=True)
    cases = []
    for i in range(n):
        e = g.expr(rnd.choice([1, 2, 3, 4, 5]))
        inp = rnd.choice(exprgen.INPUTS)
        cases.append(mkcase('E%d' % i, lib.new_cfg(select=[e + '=x']), inp.encode('utf8')))
    # compositions: numeric results used as counts / indices / keys by other functions (integral results must be integers)
    producers = ['(round %s)', '(floor %s)', '(ceil %s)', '(abs %s)', '(+ %s 1)', '(- %s 1)', '(* %s 2)', '(/ %s 2)', '(%% %s 3)', '(sum [%s, 1])', '(size [%s, %s])', '(- %s)']
    consumers = ['(take . %s)', '(take_last . %s)', '(sub . 0 %s)', '(sub . %s 2)', '(get . %s)', '(head "abcdef" %s)', '(tail "abcdef" %s)', '(range %s)', '(stringify %s)', '(= %s 2)', '(sort [%s, 2, 1.5])', '(sort_unique [%s, 2, 3])', '(push [] %s)', '(as_number %s)']
    nums = ['1.6', '2.4', '2.5', '2', '-1.5', '4', '0.4', '3.0', '1e0', '6']
    k = 0
    for pr in producers:
        for co in consumers:
            for _ in range(2 if ctx['tier'] == 'quick' else 8):
                x = rnd.choice(nums); e = co % (pr.replace('%s', x))
                cases.append(mkcase('P%d' % k, lib.new_cfg(select=[e + '=x']), b'[10, 20, 30, 40, 50]')); k += 1
    # corpora of the function models run first (minimised / curated cases)
    corpus = []
    for f in ('funs_coll.txt', 'funs_num.txt', 'funs_nas.txt'):
        p = lib.VERIF + '/vp/corpus/' + f
        try: lines = [l.rstrip('\n') for l in open(p, encoding='utf8') if l.strip() and not l.startswith('#')]
        except Exception: lines = []
        if ctx['tier'] == 'quick': lines = rnd.sample(lines, min(len(lines), 600))
        for j, l in enumerate(lines):
            e, inp = (l.split('\t', 1) + ['null'])[:2]
            corpus.append(mkcase('K%s%d' % (f[5:8], j), lib.new_cfg(select=[e + '=x']), inp.encode('utf8')))
    # every variadic function with 2..4 arguments, every pattern of absent (`.nothing`) arguments, four kinds of present ones:
    # what an absent argument does (skipped, stops the evaluation, makes the result nothing) is part of each function's meaning
    variadic = []
    pools = {'num': ['1', '2.5', '-3', '.n'], 'str': ['"a"', '"é"', '""', '.s'], 'list': ['[1]', '[]', '["x", 2]', '.l'], 'mixed': ['1', '"a"', '[1]', 'true', 'null', '{"k": 1}']}
    data = b'{"n": 7, "s": "str", "l": [3, 4], "o": {"a": 1}}'
    k = 0
    for f in exprgen.table():
        if f['max'] is not None or f['name'] in ('exec', 'trigger', '|', 'define', ':', 'set'): continue
        for n in range(max(2, f['min']), 5):
            for mask in range(2 ** n):
                for pn, pool in sorted(pools.items()):
                    if ctx['tier'] == 'quick' and pn == 'mixed' and n == 4: continue
                    args = ['.nothing' if (mask >> i) & 1 else pool[(k + i) % len(pool)] for i in range(n)]; k += 1
                    variadic.append(mkcase('V%d' % k, lib.new_cfg(select=['(%s %s)=x' % (f['name'], ' '.join(args))]), data))
    corpus += variadic
    # object functions on objects with many members: which members are kept and in WHICH ORDER (member order is part of a value)
    objs = [b'{"a": 1, "b": 2, "c": 3, "d": 4, "e": 5, "f": 6}', b'{"k3": "z", "k1": "x", "k2": "y", "k0": "x", "k4": null, "k5": [1]}', b'{"b": 2, "a": 1}', b'{}']
    keys = ['"a"', '"b"', '"c"', '"f"', '"k1"', '"k4"', '"zz"']
    oexprs = []
    for kx in keys:
        oexprs += ['(filter_keys . (!= . %s))' % kx, '(filter_keys . (= . %s))' % kx, '(put . %s 9)' % kx, '(insert_if_absent . %s 9)' % kx, '(replace_if_exists . %s 9)' % kx,
                   '(map_keys . (? (= . %s) "new" .))' % kx, '(filter_keys (put . "g" 7) (!= . %s))' % kx]
    for v in ['1', '2', '3', '"x"', 'null']:
        oexprs += ['(filter_values . (!= . %s))' % v, '(filter_values . (= . %s))' % v, '(map_values . (? (= . %s) "new" .))' % v]
    oexprs += ['(filter_keys . (or (= . "b") (= . "e")))', '(filter_keys . (and (!= . "b") (!= . "c")))', '(filter_keys . (and (!= . "a") (!= . "d")))', '(filter_values . (> . 2))', '(filter_values . (< . 5))',
               '(keys .)', '(values .)', '(entries .)', '(sort_by_keys .)', '(sort_by_values .)', '(sort_by_values_by . (- 0 .))', '(keys (filter_keys . (!= . "b")))', '(values (filter_values . (!= . 3)))',
               '(stringify (filter_keys . (!= . "c")))', '(keys (put (filter_keys . (!= . "a")) "a" 0))']
    # every modelled function on boundary arguments: each position ranges over values of every type, empty and negative and fractional and
    # huge numbers, absent: sampled per function in the quick tier, all combinations (arity <= 2) in the thorough tier
    first = ['[1, 2, 3]', '[]', '"héllo"', '""', '{"a": 1, "b": 2}', '{}', '5', '-1', '2.5', '0', 'null', 'true', '.nothing', '[[1], [2, 3], []]', '["b", "a", "b"]', '[3, 1, 2, 1]', '"a,b,,c"', '[{"k": "x", "v": 1}, {"k": 1, "v": 2}, {"v": 3}]']
    other = ['0', '1', '-1', '2', '99', '2.5', '-0.5', '1e3', '18446744073709551615', '""', '"a"', '","', '"é"', '[]', '[1]', '{}', 'null', 'true', '.nothing', '.', '(+ . 1)', '.k', '.v']
    skipf = set(['exec', 'trigger', 'now', 'env', 'range', 'parse_selection', '|', 'define', ':', 'set', '@', 'format_time', 'parse_time', 'parse_time_with_zone', 'match', 'extract_regex_group'])
    bcount = 0
    for f in exprgen.table():
        if f['name'] in skipf or f['name'].startswith('"'): continue
        ar = [n for n in range(f['min'], (f['max'] if f['max'] is not None else f['min'] + 1) + 1) if n <= 3]
        combos = []
        for n in ar:
            if n == 0: combos.append([])
            elif ctx['tier'] == 'thorough' and n <= 2: combos += [[a] + list(o) for a in first for o in itertools.product(other, repeat=n - 1)]
            else: combos += [[rnd.choice(first)] + [rnd.choice(other) for _ in range(n - 1)] for _ in range(24)]
        for args in combos:
            bcount += 1
            corpus.append(mkcase('BF%d' % bcount, lib.new_cfg(select=['(%s %s)=x' % (f['name'], ' '.join(args))]), b'{"k": "x", "v": 7}'))
    # extractors and JSON literals as expressions: indices at and beyond both ends, parent chains, keys that need quoting,
    # number / string / nested literals in every spelling the JSON reader accepts
    xin = b'{"a": {"b": [10, 20, 30], "c c": 1, "\u00e9": 2}, "arr": [[1, 2], [3], []], "": 5, "n": null}'
    xexprs = ['.a.b', '.a.b#0', '.a.b#2', '.a.b#3', '.a.b#-1', '.a.b#-3', '.a.b#-4', '.arr#0#1', '.arr#2#0', '.arr#9#9', '#0', '.a#0', '.n.x', '.zz.y', '.a."c c"', '.a.é', '."".x', '.""',
              '(| .a.b ^)', '(| .a (| .b ^^))', '(| .a (| .b ^^^))', '(| .a (| .b ^^^^))', '(map .a.b ^^)', '(map .arr (map . ^^^.n))', '^', '^^',
              '1e2', '-0.5E-3', '1E+2', '0', '-0', '12345678901234567890', '1.0', '"a\\u00e9\\n\\"q\\"\\\\"', '""', '[1, [2, {"k": [ ] }], "x"]', '{ "a" : 1 , "b":[ ] }', '[]', '{}', 'null', 'true', 'false',
              '(size [1, 2, 3])', '(get {"k": {"j": 7}} "k")', '(get [5, 6] 1)', '(= [1, 2.0] [1.0, 2])', '(= {"a": 1, "b": 2} {"b": 2, "a": 1})', '(size "a\\u00e9")', '(+ 1e2 -0.5E-3)',
              '(take [1,2,3] 2)', '(take\t[1,2,3]\t2)', '( take [1,2,3] 2 )', '(concat "a" "b" "c")']
    for ei, e in enumerate(xexprs):
        corpus.append(mkcase('X%d' % ei, lib.new_cfg(select=[e + '=x']), xin))
    # strings with combining marks, ZWJ sequences, astral characters; separators that are prefixes of each other; keys spelled with escapes;
    # number/string conversions with exponents and escapes; mixed types in aggregates
    yin = '{"s": "e\\u0301a\\u200d\U0001F469\\u200d\U0001F4BBz", "t": "a,,b,;c", "o": {"a": 1, "\\u0061": 2, "\\u00e9": 3, "Z": 4, "aa": 5}, "l": [3, "x", null, 2.5, [1], true, -1], "n": ["1e2", "0x10", "1_000", " 7", "7 ", "-0", "1e400", ".5", "5."], "f": [0.1, 0.2, 0.3, 1e-20, 1e20, -1e20]}'.encode('utf8')
    yexprs = ['(size .s)', '(head .s 2)', '(tail .s 2)', '(sub .s 1 3)', '(take .s 2)', '(take_last .s 1)', '(split .s "")', '(split .t ",")', '(split .t ",,")', '(split .t ";")', '(join (split .t ",") ",")', '(join (split .t ",,") ",,")',
              '(keys .o)', '(values .o)', '(sort_by_keys .o)', '(get .o "a")', '(get .o "\\u0061")', '(get .l 1.0)', '(get .l 1.5)', '(get .l "1")', '(get .o 0)', '.l#1', '.s#0', '.o.a', '.l.a',
              '(sort .l)', '(min .l)', '(max .l)', '(sum .l)', '(sum .f)', '(avg .f)', '(sum [])', '(avg [])', '(min [])', '(concat "a" 1)', '(concat [1] [2] "x")', '(concat "a" null "b")',
              '(map .n (as_number .))', '(map .n (parse .))', '(map .l (as_string .))', '(map .l (stringify .))', '(map .l (parse (stringify .)))', '(stringify .s)', '(parse (stringify .s))', '(parse (stringify .o))',
              '(zip [1, 2, 3] ["a", "b"])', '(zip [] [1])', '(cross [1, 2] ["a"])', '(cross [] [1])', '(flat_map .l (? (array? .) . null))', '(flat_map [[1], 2, [3, [4]]] .)', '(range 0)', '(range 3)', '(range 2.0)',
              '(group_by .l (as_string (array? .)))', '(sort_by .l (? (number? .) . 0))', '(first [])', '(last [])', '(reverese .s)', '(uppercase .s)', '(lowercase "ÀÉ\u0130")', '(trim "\u00a0 x \t")']
    yexprs += ['(sum (range 1000))', '(size (range 9999))']
    if ctx['tier'] == 'thorough': yexprs += ['(size (range 70000))', '(last (range 65536))']      # sizes past 2^16: half a minute in the extracted model
    for ei, e in enumerate(yexprs):
        corpus.append(mkcase('Y%d' % ei, lib.new_cfg(select=[e + '=x']), yin))
    for oi, ob in enumerate(objs):
        for ei, e in enumerate(oexprs):
            corpus.append(mkcase('O%d_%d' % (oi, ei), lib.new_cfg(select=[e + '=x']), ob))
    # documentation examples
    docs = []; dmeta = {}
    for f in exprgen.table():
        for k, ex in enumerate(f['examples']):
            if f['name'] in ('exec', 'trigger', 'now', 'env'): continue
            if len(ex['args']) < f['min'] or (f['max'] is not None and len(ex['args']) > f['max']): continue     # example not recognised completely
            e = '(%s %s)' % (f['name'], ' '.join(ex['args']))
            c = mkcase('D%s_%d' % (len(docs), k), lib.new_cfg(select=[e + '=x']), (ex['input'] or 'null').encode('utf8'))
            docs.append(c); dmeta[c['id']] = (f['name'], ex)
    impl, model, mism = common.correspond(cases + corpus)
    dimpl = lib.run_harness(docs)
    # parse_selection is not modelled; its meaning is stated by a relation instead: (parse_selection "<text of e>") is e, on every row
    # (several different rows per run: a value frozen at parse time would show)
    pscases = []; psmeta = []
    rowsets = [b'null\n{"a":1,"b":[1,2]}\n"str"\n[3,4,5]\n7\n', b'{"a":{"b":2}}\n{"a":"x","arr":[{"k":1}]}\ntrue\n']
    for i in range(60 if ctx['tier'] == 'quick' else 1500):
        e = g.expr(rnd.choice([1, 2, 3])) if i % 3 else rnd.choice(['.', '(default .a 0)', '(string? .)', '(number? .)', '.a', '(size .)', '(? (array? .) (take . 1) .)'])
        lit = '"' + e.replace('\\', '\\\\').replace('"', '\\"') + '"'
        data = rowsets[i % 2]
        a = mkcase('PSa%d' % i, lib.new_cfg(select=['(parse_selection %s)=x' % lit]), data); b = mkcase('PSb%d' % i, lib.new_cfg(select=[e + '=x']), data)
        pscases += [a, b]; psmeta.append((e, a, b))
    psimpl = lib.run_harness(pscases)
    violations = []; checked = 0
    for c in cases + corpus:
        a = impl[c['id']]
        if a['result'] in ('panic', 'hang', 'abort'):
            violations.append(viol(c, 'evaluation gives a value or nothing, never a failure', a['result'] + ': ' + a['msg'], ''))
    for c in docs:
        name, ex = dmeta[c['id']]; a = dimpl[c['id']]
        if a['result'] != 'ok':
            violations.append(viol(c, 'documentation example of %s evaluates' % name, a['result'] + ' ' + a['msg'], ex['output'])); continue
        if ex['output'] == '?' or ex['approx']: continue
        checked += 1
        got = json.loads(rows(a['stdout'])[0]).get('x', None) if rows(a['stdout']) else None
        has = 'x' in json.loads(rows(a['stdout'])[0])
        if ex['output'] is None:
            if has: violations.append(viol(c, 'documentation example of %s: nothing' % name, json.dumps(got), 'nothing'))
        else:
            try: exp = json.loads(ex['output'])
            except Exception: continue
            if not has or not jeq(got, exp):
                violations.append(viol(c, 'documentation example of %s' % name, json.dumps(got) if has else 'nothing', ex['output']))
    for e, a, b in psmeta:
        ra, rb = psimpl[a['id']], psimpl[b['id']]
        if rb['result'] != 'ok': continue
        checked += 1
        if (ra['result'], ra['stdout']) != (rb['result'], rb['stdout']):
            v = viol(a, '(parse_selection "e") evaluates as e on every row', ra['result'] + ' ' + ra['stdout'].decode('utf8', 'replace')[:300], rb['stdout'].decode('utf8', 'replace')[:300]); violations.append(v)
    # parse_time is not modelled; its documentation says "seconds since epoch": an independent computation (Python datetime, naive
    # = UTC) for the numeric formats, down to the microsecond, before and after 1970
    import datetime
    tcases = []; tmeta = []
    ep = datetime.datetime(1970, 1, 1)
    for i in range(40 if ctx['tier'] == 'quick' else 2000):
        dt = datetime.datetime(rnd.choice([1969, 1970, 1970, 1999, 2000, 2024, 2038, 2100, 1900]), rnd.randint(1, 12), rnd.randint(1, 28), rnd.randint(0, 23), rnd.randint(0, 59), rnd.randint(0, 59),
                               rnd.choice([0, 0, 1, 250, 1000, 360000, 500000, 999999, 123456]))
        if i == 0: dt = datetime.datetime(1970, 1, 1, 0, 0, 1, 250)
        frac = ('.%06d' % dt.microsecond).rstrip('0').rstrip('.') if rnd.random() < 0.7 else '.%06d' % dt.microsecond
        txt = dt.strftime('%Y-%m-%d %H:%M:%S') + frac
        micros = (dt - ep).days * 86400 * 10 ** 6 + (dt - ep).seconds * 10 ** 6 + (dt - ep).microseconds
        c = mkcase('TM%d' % i, lib.new_cfg(select=['(parse_time "%s" "%%Y-%%m-%%d %%H:%%M:%%S%%.f")=x' % txt]), b'null'); tcases.append(c); tmeta.append((c, micros / 1000000.0, txt))
    timpl = lib.run_harness(tcases)
    for c, expv, txt in tmeta:
        a = timpl[c['id']]
        if a['result'] != 'ok': violations.append(viol(c, 'parse_time evaluates', a['result'] + ' ' + a['msg'], str(expv))); continue
        row = json.loads(rows(a['stdout'])[0]) if rows(a['stdout']) else {}
        checked += 1
        if 'x' not in row or float(row['x']) != expv:
            violations.append(viol(c, 'parse_time: seconds since the epoch of %s, to the microsecond' % txt, json.dumps(row.get('x', 'nothing')), repr(expv)))
    cov = {'evaluations': len(cases) + len(corpus) + len(docs) + len(pscases) + len(tcases), 'distinct_nontrivial': common.nontrivial_count(cases + corpus, impl),
           'rule': 'random expressions of depth <= 5 over the modelled functions with random aliases, comma/space separators and the leading-dot sugar x inputs of all six types; the curated corpora of the function models; the %d documentation examples harvested from the source (run on the implementation against their documented output)' % len(docs),
           'samples': [common.describe(c) for c in cases[:3]], 'function_usage': g.usage,
           'functions_exercised': len(g.usage),
           'traces_validated_against_impl': len(cases) + len(corpus) - len(mism), 'model_mismatches': len(mism), 'direct_relations_checked': checked}
    broken = ['correspondence: model and implementation differ on %d cases, e.g. %s' % (len(mism), json.dumps(mism[0])[:1500])] if mism else []
    # the function models satisfy the documented laws (Proofs/FunLaws.v): a disagreement is an input on which the
    # implementation does not evaluate to the documented value
    byid = {c['id']: c for c in cases + corpus}
    for m in mism[:5]:
        c = byid.get(m['case']['id'])
        if c is not None: violations.append(viol(c, 'the expression evaluates to the value the documented semantics (the Coq model, Proofs/FunLaws.v) prescribes', m.get('impl'), m.get('model')))
    return {'coverage': cov, 'violations': violations, 'broken': broken}

def jeq(a, b):
    if isinstance(a, bool) or isinstance(b, bool): return isinstance(a, bool) and isinstance(b, bool) and a == b
    if isinstance(a, (int, float)) and isinstance(b, (int, float)): return a == b
    if type(a) != type(b): return False
    if isinstance(a, list): return len(a) == len(b) and all(jeq(x, y) for x, y in zip(a, b))
    if isinstance(a, dict): return a.keys() == b.keys() and all(jeq(a[k], b[k]) for k in a)
    return a == b

def viol(c, rel, obs, exp):
    d = c['inputs'][0]['data']
    return {'property': 'C04', 'relation': rel, 'args': lib.cfg_args(c['cfg']), 'stdin_hex': d.hex(), 'stdin': d.decode('utf8', 'replace')[:300], 'observed': obs, 'expected': exp}

def replay(ctx, r):
    c = {'id': 'r', 'cfg': lib.new_cfg(), 'args': r['args'], 'inputs': [{'data': bytes.fromhex(r['stdin_hex'])}]}
    a = lib.run_harness([c])['r']
    return {'observed': a['result'] + ' ' + a['stdout'].decode('utf8', 'replace')[:300], 'expected': r.get('expected'), 'fails': True}
