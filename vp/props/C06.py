"""C06 — noise between values never changes them; --on-error policies do what they say."""
import json
import lib, gen, common, render
from common import clone_cfg, mkcase, rows

ASSUMPTIONS = ['garbage tokens are whitespace-delimited and made of bytes that cannot start a JSON value',
               'error lines are compared by presence, count and stream, not by their wording']
TRUSTED = []

STARTERS = set(b'ntf"-[{0123456789')
GARB = [b for b in range(256) if b not in STARTERS and b not in b' \t\n\r']

def weave(rnd, vals, stats):
    """returns clean bytes, noisy bytes, regions (#garbage tokens per gap), position info"""
    clean = b''; noisy = b''; regions = []
    def noise():
        k = rnd.choice([0, 0, 1, 1, 2, 3])
        toks = []
        for _ in range(k):
            t = bytes(rnd.choice(GARB if rnd.random() < 0.5 else list(b'}],:.eE+xyzNTF\\/')) for _ in range(rnd.choice([1, 1, 2, 4])))
            toks.append(t)
        return toks
    toks = noise(); regions.append(len(toks))
    noisy += b''.join(t + rnd.choice([b' ', b'\n']) for t in toks)
    for i, v in enumerate(vals):
        s = gen.jdump(v)
        clean += s + b'\n'; noisy += s + b'\n'
        toks = noise(); regions.append(len(toks))
        noisy += b''.join(t + rnd.choice([b' ', b'\n', b'\t \n']) for t in toks)
        stats['tokens'] = stats.get('tokens', 0) + len(toks)
    return clean, noisy, regions

def run(ctx):
    rnd = ctx['rnd']; n = 150 if ctx['tier'] == 'quick' else 6000
    stats = {}
    cases = []; meta = []
    for i in range(n):
        vals = gen.records(rnd, 12)
        clean, noisy, regions = weave(rnd, vals, stats)
        cfg0 = rnd.choice([lib.new_cfg(), lib.new_cfg(select=['.a', '.k=K']), lib.new_cfg(select=['&index=i', '&index-in-file=f', '.a']), lib.new_cfg(filter='(< &index 3)'), lib.new_cfg(filter='(!= .a 1)'), lib.new_cfg(sort=['.a']), lib.new_cfg(unique=True), lib.new_cfg(group='.k'),
                           lib.new_cfg(only_objs=True), lib.new_cfg(only_objs=True, select=['&index=i', '.a']), lib.new_cfg(split='.arr'), lib.new_cfg(set=['v=1'], select=[':v', '.a'])])
        for pol in ('ignore', 'stdout', 'stderr', 'panic'):
            cfg = clone_cfg(cfg0, on_error=pol)
            cases.append(mkcase('N%d%s' % (i, pol), cfg, noisy)); cases.append(mkcase('C%d%s' % (i, pol), cfg, clean))
        meta.append((cfg0, clean, noisy, regions, vals))
    # very many malformed regions in one input: every one is reported, the 1200th like the first
    big_n = 1200 if ctx['tier'] == 'quick' else 5000
    clean = b''.join(b'%d\n' % j for j in range(big_n)); noisy = b''.join(b'%d\n%s \n' % (j, [b'}', b']x', b':', b'\xff'][j % 4]) for j in range(big_n))
    i = n
    for pol in ('ignore', 'stdout', 'stderr', 'panic'):
        cfg = lib.new_cfg(on_error=pol)
        cases.append(mkcase('N%d%s' % (i, pol), cfg, noisy)); cases.append(mkcase('C%d%s' % (i, pol), cfg, clean))
    meta.append((lib.new_cfg(), clean, noisy, [0] + [1] * big_n, list(range(big_n))))
    def proj(c, r, side):
        out = r['stdout']; err = r['stderr']
        if side == 'impl': out = lib.canon_errlines(out); err = lib.canon_errlines(err)
        return (lib.kind(r), out, err)
    impl, model, mism = common.correspond(cases, proj)
    violations = []; checked = 0
    for i, (cfg0, clean, noisy, regions, vals) in enumerate(meta):
        base = impl['C%dignore' % i]
        ntok = sum(regions); nreg = sum(1 for r in regions if r)
        for pol in ('ignore', 'stdout', 'stderr', 'panic'):
            a = impl['N%d%s' % (i, pol)]; c = impl['C%d%s' % (i, pol)]
            cfg = clone_cfg(cfg0, on_error=pol)
            checked += 1
            if a['result'] in ('panic', 'hang', 'abort'):
                violations.append(viol(cfg, noisy, 'run completes', a['result'], '')); continue
            # a clean stream produces no error report under any policy
            if c['stdout'] != base['stdout'] or c['stderr'] or c['result'] != 'ok':
                violations.append(viol(cfg, clean, 'a clean stream produces no error report under any policy', c['stdout'].decode('utf8', 'replace')[:300] + ' | ' + c['stderr'].decode('utf8', 'replace')[:200], base['stdout'].decode('utf8', 'replace')[:300]))
            out_lines = a['stdout'].split(b'\n'); err_lines = a['stderr'].split(b'\n')
            eo = [l for l in out_lines if l.startswith(b'error:')]; ee = [l for l in err_lines if l.startswith(b'error:')]
            data_rows = b'\n'.join(l for l in out_lines if not l.startswith(b'error:'))
            if pol == 'ignore':
                if a['stdout'] != base['stdout'] or a['stderr']:
                    violations.append(viol(cfg, noisy, 'ignore: noise is skipped silently and the rows are unchanged', a['stdout'].decode('utf8', 'replace')[:400], base['stdout'].decode('utf8', 'replace')[:400]))
            elif pol in ('stdout', 'stderr'):
                mine, other = (eo, ee) if pol == 'stdout' else (ee, eo)
                if data_rows != base['stdout'] or other or len(mine) < nreg or (ntok == 0 and mine) or (pol == 'stderr' and a['stderr'] != b''.join(l + b'\n' for l in ee)):
                    violations.append(viol(cfg, noisy, '%s: rows unchanged, at least one error: line per malformed region on the chosen stream and nowhere else' % pol,
                                           {'rows_same': data_rows == base['stdout'], 'errors_on_stream': len(mine), 'errors_elsewhere': len(other), 'regions': nreg}, ''))
            else:
                if ntok == 0:
                    if a['stdout'] != base['stdout'] or a['result'] != 'ok':
                        violations.append(viol(cfg, noisy, 'panic: a clean stream succeeds', a['result'], 'ok'))
                else:
                    if a['result'] != 'err:json':
                        violations.append(viol(cfg, noisy, 'panic: the run fails at the first malformed byte', a['result'], 'err:json'))
                    elif streaming(cfg0):
                        # rows of the values that precede the first garbage token
                        k = 0
                        for r in regions:
                            if r: break
                            k += 1
                        pre = lib.run_harness([mkcase('p', cfg, b'\n'.join(gen.jdump(v) for v in vals[:max(0, k - 0) if regions[0] == 0 else 0]))])['p'] if True else None
                        nvals = 0 if regions[0] else next((j for j, r in enumerate(regions[1:]) if r), len(vals)) + 1
                        pre = lib.run_harness([mkcase('p', clone_cfg(cfg0), b'\n'.join(gen.jdump(v) for v in vals[:nvals]))])['p']
                        if a['stdout'] != pre['stdout']:
                            violations.append(viol(cfg, noisy, 'panic: a streaming pipeline has emitted exactly the rows of the values that precede the first malformed byte', a['stdout'].decode('utf8', 'replace')[:400], pre['stdout'].decode('utf8', 'replace')[:400]))
    cov = {'evaluations': len(cases), 'distinct_nontrivial': common.nontrivial_count(cases, impl),
           'rule': 'clean streams of 0..12 records woven at every gap with 0..3 whitespace-delimited garbage tokens (all 233 byte values that cannot start a value, incl. } ] , : . e E + and bytes >= 128) x the four --on-error policies x representative pipelines; each paired with the clean stream',
           'samples': [common.describe(c) for c in cases[:2]], 'garbage_tokens': stats.get('tokens', 0),
           'traces_validated_against_impl': len(cases) - len(mism), 'model_mismatches': len(mism), 'direct_relations_checked': checked}
    broken = ['correspondence: model and implementation differ on %d cases, e.g. %s' % (len(mism), json.dumps(mism[0])[:1500])] if mism else []
    return {'coverage': cov, 'violations': violations, 'broken': broken}

def streaming(cfg):
    return not cfg['sort'] and cfg['group'] is None

def viol(cfg, data, rel, obs, exp):
    return {'property': 'C06', 'relation': rel, 'args': lib.cfg_args(cfg), 'stdin_hex': data.hex(), 'stdin': data.decode('utf8', 'replace')[:600], 'observed': obs, 'expected': exp}

def replay(ctx, r):
    c = {'id': 'r', 'cfg': lib.new_cfg(), 'args': r['args'], 'inputs': [{'data': bytes.fromhex(r['stdin_hex'])}]}
    a = lib.run_harness([c])['r']
    return {'observed': {'result': a['result'], 'stdout': a['stdout'].decode('utf8', 'replace')[:500], 'stderr': a['stderr'].decode('utf8', 'replace')[:300]}, 'fails': True}
