"""C11 — stateless pipelines are record-local: out(A.B) = out(A).out(B)."""
import json
import lib, gen, common
from common import clone_cfg, mkcase, rows

ASSUMPTIONS = ['expressions do not read the input position (& selectors) and use no exec/trigger/now',
               'regex cache transparency is exercised in C13']
TRUSTED = []

def stateless_cfg(rnd):
    c = gen.pipeline_cfg(rnd, want_limit=False, allow_group=False, allow_sort=False, allow_unique=False)
    c['skip'] = 0; c['take'] = None
    if rnd.random() < 0.3: c['json_opts'] = (rnd.choice(['oneline', 'consise', 'pretty']), rnd.random() < 0.5)
    if rnd.random() < 0.35:
        # split with selections that look at the enclosing record
        c['split'] = '.arr'; c['select'] = rnd.sample(['^.k=pk', '^.a=pa', '.=item', '(size ^.arr)=n', '^=parent'], rnd.randint(1, 3))
    if rnd.random() < 0.25:
        # the regular-expression cache is the only shared mutable state
        # both regex functions, often on the same pattern in one run: a shared cache entry must mean the same for both
        c['cache'] = rnd.choice([1, 2, 64]); c['select'] = c['select'] + rnd.choice([['(match .s .p)=m'], ['(extract_regex_group .s .p 0)=g'], ['(match .s .p)=m', '(extract_regex_group .s .p 0)=g'], ['(extract_regex_group .s .p 0)=g', '(match .s .p)=m'],
                                                                                        # which of the two functions meets a pattern first depends on the record
                                                                                        ['(? .flag (match .s .p) (extract_regex_group .s .p 0))=r'], ['(? (= .a 1) (extract_regex_group .s .p 0) (match .s .p))=r', '(match .k .p)=mk']])
    return c

# patterns incl. strings that collide under weak string hashes (h*31+c)
# ... and patterns that a normalised cache key (trimmed, case-folded, whitespace-collapsed) would identify although they mean
# different things (round 12, C11_12)
PATS = ['Aa', 'BB', 'AaAa', 'BBBB', 'AaBB', 'BBAa', 'a.', '^x', 'b+', 'C#', 'Bb', 'x$', '[', 'B', 'A', 'a.b', '^b', 'x.$', '(?i)a.b', 'A.B',
        ' Aa', 'Aa ', 'aa', 'AA', ' b+', 'b+ ', '\tB', 'B\n', 'a  b', 'a b', ' ', '']
SUBJ = ['xBBx', 'xAax', 'AaBB', 'abc', 'xbz', '', 'C#Bb', 'a\nb', 'x\n', 'A\nB\nb', 'x Aa', 'Aa x', 'xaax', 'xbb y', 'a b', 'a  b', 'B']
def regex_record(rnd):
    r = gen.record(rnd); r['s'] = rnd.choice(SUBJ); r['p'] = rnd.choice(PATS); return r

def run(ctx):
    rnd = ctx['rnd']; n = 250 if ctx['tier'] == 'quick' else 10000
    cases = []; meta = []
    for i in range(n):
        cfg = stateless_cfg(rnd)
        A = gen.records(rnd, 20); B = gen.records(rnd, 20)
        if cfg.get('cache'):
            A = [regex_record(rnd) for _ in range(rnd.randint(0, 12))]; B = [regex_record(rnd) for _ in range(rnd.randint(0, 12))]
        elif cfg['split'] == '.arr' and any('^' in x for x in cfg['select']):
            # equal elements under different parents, next to each other
            A = [{'k': rnd.choice(['x', 'y', 1]), 'a': rnd.randint(0, 3), 'arr': [rnd.choice([5, 'e', {'a': 1}]) for _ in range(rnd.randint(0, 3))]} for _ in range(rnd.randint(0, 8))]
            B = [{'k': rnd.choice(['x', 'z', 2]), 'a': rnd.randint(0, 3), 'arr': [rnd.choice([5, 'e', {'a': 1}]) for _ in range(rnd.randint(0, 3))]} for _ in range(rnd.randint(0, 8))]
        if i % 12 == 5:
            # long histories: a macro / variable / function that yields nothing (or fails to match) for many records in a row must
            # behave on the next record as on the first (no counter, cache or guard may build up)
            cfg = lib.new_cfg(set=['@city=.address.city', '@deep=(get (get . "x") "y")', 'zero=0'], select=['@city=c', '@deep=d', '(+ .a :zero)=a', '(take .arr 1)=t'])
            A = [rnd.choice([{'a': j}, {'a': j, 'arr': []}, {'name': 'n%d' % j}, j, 'x']) for j in range(rnd.choice([70, 130, 260]))]
            B = [{'a': 1, 'address': {'city': 'c%d' % j}, 'x': {'y': j}, 'arr': [j, 2]} for j in range(3)]
        if i % 12 == 7:
            # the two regex functions on one literal pattern, chosen per record, subjects with line breaks, cache on: the meaning of
            # the pattern for one function must not depend on which function met it first
            pat = rnd.choice(['^a.b$', 'a.b', '(?s)a.b', 'x.$', '^.$', 'A.B', '[^x]b'])
            cfg = lib.new_cfg(cache=rnd.choice([1, 8, 64]), select=['.f=f', '(? (= .f "m") (match .s "%s") (extract_regex_group .s "%s" 0))=r' % (pat, pat)])
            mk = lambda f: {'f': f, 's': rnd.choice(['a\nb', 'a-b', 'x\n', 'A\nB', '\n', 'ab', 'a\r\nb'])}
            A = [mk(rnd.choice('mme')) for _ in range(rnd.randint(1, 4))]; B = [mk(rnd.choice('eem')) for _ in range(rnd.randint(1, 4))]
            if rnd.random() < 0.5: A = [mk('m') for _ in A]; B = [mk('e') for _ in B]
        nomodel = False
        if i % 12 == 9:
            # time formatting with a format that comes from the record (the time functions are not modelled: relations only)
            cfg = lib.new_cfg(select=['(format_time .t .f)=ft', '(parse_time .s .f)=pt', '(format_time .t "%Y")=y']); nomodel = True
            mk = lambda: {'t': rnd.choice([0, 1, 86400, 1000000000, -1, 1.5, 1700000000]), 'f': rnd.choice(['%Y-%m-%d', '%H:%M:%S', '%Y', '%s', '%A %B', '%Y-%m-%dT%H:%M:%S%.f']),
                          's': rnd.choice(['2020-01-02', '12:34:56', '1999', '2020-01-02T03:04:05.25', 'x'])}
            A = [mk() for _ in range(rnd.randint(1, 5))]; B = [mk() for _ in range(rnd.randint(1, 5))]
        if i % 12 == 1:
            # local bindings (define / set) whose body yields nothing for some records, next to --set bindings of the same names: a
            # local binding ends with its body, whatever the body yields
            cfg = lib.new_cfg(set=['@m=.a', 'v=1'], select=['(set "w" .a (+ :w 10))=sw', '(set "w" .k (concat :w "!"))=sk', '(define "mm" .a (+ @mm 1))=dm', '(define "m" .k (get .o @m))=d', '@m=vm', '(set "v" 2 (get .o (? (= .a 1) "x" "zz")))=s', ':v=vv', '(define "m" .b (? (= .a 2) @m null))=d2', '(@ "m")=vm2'])
            mk = lambda: dict([('a', rnd.choice([1, 2, 3])), ('o', {'x': 1, 'y': 2})] + ([('k', rnd.choice(['x', 'y', 'nokey', 5]))] if rnd.random() < 0.7 else []) + ([('b', rnd.choice(['B', 7]))] if rnd.random() < 0.6 else []))
            A = [mk() for _ in range(rnd.randint(2, 8))]; B = [mk() for _ in range(rnd.randint(2, 8))]
        if i % 12 == 3:
            # boolean functions whose arguments change type from record to record (true / false / not a boolean / absent): the value
            # for one record must not depend on which argument decided for the record before
            cfg = lib.new_cfg(select=['(and .flag (= .a 1))=an', '(or .flag (= .a 1))=orr', '(and (= .a 1) .k .flag)=an3', '(or (= .a 1) .k .flag)=or3', '(xor .flag .k)=xr', '(? .flag 1 2)=q', '(default .flag .k 0)=d'])
            mk = lambda: dict([('a', rnd.choice([1, 2]))] + ([('flag', rnd.choice([True, False, 1, 's', None]))] if rnd.random() < 0.8 else []) + ([('k', rnd.choice([True, False, 'x']))] if rnd.random() < 0.7 else []))
            A = [mk() for _ in range(rnd.randint(2, 8))]; B = [mk() for _ in range(rnd.randint(2, 8))]
        if i % 12 == 11:
            # very many small values first: nothing counted per value (depth, index, buffers) may leak into later records
            cfg = lib.new_cfg(select=rnd.choice([['.'], ['(size .)=n', '.'], []]))
            A = [rnd.choice([[], {}, [[]], {'e': {}}]) for _ in range(1100)]; B = [[1, [2]], {'a': {'b': [3]}}, [], 7]
        perm = list(A + B); rnd.shuffle(perm)
        if nomodel: cfg = dict(cfg); cfg['nomodel'] = True
        da, db, dab = gen.stream(A), gen.stream(B), gen.stream(A + B)
        cases += [mkcase('A%d' % i, cfg, da), mkcase('B%d' % i, cfg, db), mkcase('C%d' % i, cfg, dab)]
        # per-record runs of the permuted sequence are compared through the multiset of per-record outputs
        meta.append((cfg, A, B, perm))
        cases.append(mkcase('D%d' % i, cfg, gen.stream(perm)))
        # duplication
        dup = [x for v in A for x in (v, v)]
        cases.append(mkcase('E%d' % i, cfg, gen.stream(dup)))
    # the regex engine is not modelled: cases that use it run on the implementation only
    modelled = [c for c in cases if not c['cfg'].get('cache') and not c['cfg'].get('nomodel')]
    impl, model, mism = common.correspond(modelled)
    impl.update(lib.run_harness([c for c in cases if c['cfg'].get('cache') or c['cfg'].get('nomodel')]))
    # per-record outputs for the permutation / duplication relations
    singles = {}
    sc = []
    for i, (cfg, A, B, perm) in enumerate(meta):
        for j, v in enumerate(A + B):
            sc.append(mkcase('S%d_%d' % (i, j), cfg, gen.stream([v])))
    impls = lib.run_harness(sc)
    violations = []; checked = 0
    for i, (cfg, A, B, perm) in enumerate(meta):
        a, b, c = impl['A%d' % i], impl['B%d' % i], impl['C%d' % i]
        if any(x['result'] in ('panic', 'hang', 'abort') for x in (a, b, c)):
            violations.append({'property': 'C11', 'relation': 'run completes', 'args': lib.cfg_args(cfg), 'stdin_hex': gen.stream(A + B).hex()}); continue
        if not all(x['result'] == 'ok' for x in (a, b, c)): continue
        checked += 1
        if c['stdout'] != a['stdout'] + b['stdout']:
            violations.append({'property': 'C11', 'relation': 'out(A.B) == out(A).out(B)', 'args': lib.cfg_args(cfg),
                               'stdin_hex': gen.stream(A + B).hex(), 'A_hex': gen.stream(A).hex(), 'B_hex': gen.stream(B).hex(),
                               'observed': c['stdout'].decode('utf8', 'replace'), 'expected': (a['stdout'] + b['stdout']).decode('utf8', 'replace')})
        per = [impls['S%d_%d' % (i, j)]['stdout'] for j in range(len(A + B))]
        if b''.join(per) != c['stdout']:
            violations.append({'property': 'C11', 'relation': 'out(sequence) == concatenation of per-record outputs', 'args': lib.cfg_args(cfg),
                               'stdin_hex': gen.stream(A + B).hex(), 'observed': c['stdout'].decode('utf8', 'replace'), 'expected': b''.join(per).decode('utf8', 'replace')})
        # permutation: same per-record outputs, permuted
        idx = {}
        exp = b''
        pool = list(zip([gen.jdump(v) for v in A + B], per))
        for v in perm:
            k = gen.jdump(v)
            for t, (kk, o) in enumerate(pool):
                if kk == k: exp += o; pool.pop(t); break
        d = impl['D%d' % i]
        if d['result'] == 'ok' and d['stdout'] != exp:
            violations.append({'property': 'C11', 'relation': 'permuting input values permutes the corresponding rows', 'args': lib.cfg_args(cfg),
                               'stdin_hex': gen.stream(perm).hex(), 'observed': d['stdout'].decode('utf8', 'replace'), 'expected': exp.decode('utf8', 'replace')})
        e = impl['E%d' % i]
        expd = b''.join(o + o for o in per[:len(A)])
        if e['result'] == 'ok' and e['stdout'] != expd:
            violations.append({'property': 'C11', 'relation': 'repeating input values repeats the corresponding rows', 'args': lib.cfg_args(cfg),
                               'stdin_hex': gen.stream([x for v in A for x in (v, v)]).hex(), 'observed': e['stdout'].decode('utf8', 'replace'), 'expected': expd.decode('utf8', 'replace')})
    cov = {'evaluations': len(cases) + len(sc), 'distinct_nontrivial': common.nontrivial_count(cases, impl),
           'rule': 'pairs (A,B) of 0..20 records x stateless pipelines (set/split/filter/select) x styles; runs on A, B, A.B, a permutation, a duplication and every record alone',
           'samples': [common.describe(c) for c in cases[:2]],
           'traces_validated_against_impl': len(modelled) - len(mism), 'model_mismatches': len(mism), 'direct_relations_checked': checked}
    broken = ['correspondence: model and implementation differ on %d cases, e.g. %s' % (len(mism), json.dumps(mism[0])[:1500])] if mism else []
    return {'coverage': cov, 'violations': violations, 'broken': broken}

def replay(ctx, r):
    data = bytes.fromhex(r['stdin_hex'])
    c = {'id': 'r', 'cfg': lib.new_cfg(), 'args': r['args'], 'inputs': [{'data': data}]}
    res = lib.run_harness([c])['r']
    obs = res['stdout'].decode('utf8', 'replace')
    return {'observed': obs, 'expected': r.get('expected'), 'fails': obs != r.get('expected')}
