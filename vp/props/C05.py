"""C05 — no input data and no parsable expression can make jawk panic or hang."""
import json, itertools
import lib, gen, common
from common import clone_cfg, mkcase, rows

ASSUMPTIONS = ['bounded by nesting depth <= 64, collection sizes <= 10^4 and decimal exponents <= 10^3 (resource exhaustion is out of scope)',
               'known finding K3 (self-referential macros overflow the stack) excluded from the main comparison']
TRUSTED = ['Rust stack depth and allocation are outside the model']

ALPHABET = [b'{', b'}', b'[', b']', b',', b':', b'"', b'\\', b'-', b'0', b'1', b'.', b'e', b'E', b'+', b't', b'r', b'u', b'n', b'f', b' ', b'\n', b'a', b'\xc3']
EXPRS = ['(take . %s)', '(take_last . %s)', '(sub . %s %s)', '(head . %s)', '(tail . %s)', '(get . %s)', '(size .)', '(join . %s)', '(split . %s)', '(range %s)',
         '(push . %s)', '(pop .)', '(first .)', '(last .)', '(sort .)', '(sort_unique .)', '(reverese .)', '(keys .)', '(values .)', '(entries .)', '(put . %s %s)',
         '(+ . %s)', '(- . %s)', '(* . %s)', '(/ . %s)', '(%% . %s)', '(abs .)', '(round .)', '(floor .)', '(ceil .)', '(sum .)', '(parse .)', '(stringify .)',
         '(concat . %s)', '(map . (take . %s))', '(filter . (= . %s))', '(fold . (+ .value %s))', '(zip . %s)', '(cross . %s)', '(indexed .)', '(as_string .)',
         '(format_time . %s)', '(parse_time . %s)', '(match . %s)', '(extract_regex_group . %s %s)', '(base63_decode .)', '(all .)', '(any .)', '(sort_by . %s)',
         '(group_by . %s)', '(map_keys . (head . %s))', '(map_values . (tail . %s))', '(? . %s %s)', '(| . (take . %s))', '("+" . %s)', '("*" . %s)', '("round" .)', '("||" .)']
ARGS = ['0', '1', '2', '3', '5', '18446744073709551615', '9223372036854775807', '-1', '2.5', '"é"', '"ab"', '"%Q"', '"%Y-%m-%d"', '"("', '"[a"', 'null', 'true', '[]', '[1,2]', '{"a":1}', '.', '.a', '.nothing', '"héllo wörld"', '""']
INPUTS = ['"héllo wörld ñ"', '"é"', '"日本語のテキスト"', '"😃😃"', '""', '"abc"', '[1,2,3]', '[]', '{"a":1,"é":[2]}', '{}', '0', '-5', '2.5', '18446744073709551615', 'null', 'true',
          '["a","é",""]', '[[1],[2,3]]', '[{"a":1},{"a":"x"}]', '"1e5"', '"12345678901234567890.5"', '"2020-01-01T00:00:00Z"', '1e300', '[1e308,1e308]', '"aGVsbG8="', '"%"']

def run(ctx):
    rnd = ctx['rnd']; tier = ctx['tier']
    cases = []
    # exhaustive byte strings over the 24-byte alphabet
    maxlen = 3 if tier == 'quick' else 4
    k = 0
    for L in range(0, maxlen + 1):
        for t in itertools.product(ALPHABET, repeat=L):
            pol = ('ignore', 'stdout', 'stderr', 'panic')[k % 4]
            cases.append(mkcase('X%d' % k, lib.new_cfg(on_error=pol), b''.join(t))); k += 1
    nx = len(cases)
    # random byte strings up to 4 KiB
    for i in range(300 if tier == 'quick' else 20000):
        n = rnd.choice([1, 5, 20, 100, 500, 4096])
        mode = rnd.random()
        if mode < 0.4: data = bytes(rnd.getrandbits(8) for _ in range(n))
        elif mode < 0.8: data = b''.join(rnd.choice(ALPHABET) for _ in range(n))
        else:
            base = gen.stream(gen.records(rnd, 8)); data = bytearray(base)
            for _ in range(rnd.randint(1, 5)):
                if data: data[rnd.randrange(len(data))] = rnd.getrandbits(8)
            data = bytes(data)
        cases.append(mkcase('R%d' % i, lib.new_cfg(on_error=rnd.choice(['ignore', 'stdout', 'stderr', 'panic'])), data))
    # strings made of \\u escapes: surrogate halves and pairs (valid, reversed, out of range), BMP edges
    frags = ['\\ud83d\\ude00', '\\udbff\\uffff', '\\udbff\\udfff', '\\ud800', '\\udc00', '\\udc00\\ud800', '\\ud800\\ud800', '\\ud800x', '\\uffff', '\\u0000', '\\ud7ff', '\\ue000',
             '\\udbf8\\ufc00', '\\uDBFF\\uFFFF', '\\ud83d', 'a', '\\n', '\\ud83d\\u0041', '\\u00e9', '\\ud8']
    for i in range(150 if tier == 'quick' else 5000):
        body = ''.join(rnd.choice(frags) for _ in range(rnd.randint(1, 4)))
        data = ('"%s"' % body).encode() if rnd.random() < 0.7 else ('{"k%s": ["%s"]}' % (rnd.choice(frags), body)).encode()
        cases.append(mkcase('U%d' % i, lib.new_cfg(on_error=rnd.choice(['ignore', 'panic'])), data))
    # deep nesting
    for d in (10, 64):
        cases.append(mkcase('N%d' % d, lib.new_cfg(), b'[' * d + b']' * d)); cases.append(mkcase('M%d' % d, lib.new_cfg(), b'{"a":' * d + b'1' + b'}' * d))
        cases.append(mkcase('O%d' % d, lib.new_cfg(), b'[' * d))
    # arithmetic on boundary numbers, every ordered pair, as literals and as data: i64::MIN % -1, u64::MAX + 1, 0 / 0, ...
    BN = ['0', '-0.0', '1', '-1', '2', '3', '9223372036854775807', '-9223372036854775808', '9223372036854775808', '18446744073709551615',
          '18446744073709551616', '-9223372036854775809', '4503599627370496.5', '9007199254740993', '1e308', '-1e308', '5e-324', '0.5', '-2.5']
    BIN = ['+', '-', '*', '/', '%', 'mod', '=', '<', 'max', 'min'] if tier == 'quick' else ['+', '-', '*', '/', '%', 'mod', '=', '!=', '<', '<=', '>', '>=', 'max', 'min', 'pow', '"+"', '"-"', '"*"', '"/"', '"%"', '"="', '"<"']
    k = 0
    for f in BIN:
        for a in BN:
            for b in BN:
                lit = (k % 2 == 0); k += 1
                x, y = (a, b) if lit else ('.a', '.b')
                if f.startswith('"'): x, y = ('"%s"' % a, '"%s"' % b) if lit else ('(stringify .a)', '(stringify .b)')
                cases.append(mkcase('E_b%d' % k, lib.new_cfg(select=['(%s %s %s)=x' % (f, x, y)]), ('{"a":%s,"b":%s}' % (a, b)).encode()))
    for f in ['abs', 'round', 'floor', 'ceil', 'sqrt', 'stringify', 'as_string', '"abs"', '"round"'] + ([] if tier == 'quick' else ['"floor"', '"ceil"', 'sum', 'size', 'not']):
        for a in BN:
            k += 1
            cases.append(mkcase('E_b%d' % k, lib.new_cfg(select=['(%s %s)=x' % (f, ('"%s"' % a) if f.startswith('"') else a)]), b'null'))
    # ill-typed expressions, multi-byte characters at every offset of the expression text
    ne = 500 if tier == 'quick' else 30000
    for i in range(ne):
        tmpl = rnd.choice(EXPRS)
        e = tmpl % tuple(rnd.choice(ARGS) for _ in range(tmpl.count('%s')))
        if tmpl.startswith('(range'): e = '(range %s)' % rnd.choice(['0', '1', '5', '100', '-1', '2.5', '"x"', '.', 'null'])   # sizes <= 10^4
        if rnd.random() < 0.3:
            pad = 'é' * rnd.randint(0, 3); off = rnd.randint(0, 40)
            e = '(default (? false "%s%s" null) %s)' % ('x' * off, pad, e)
        cfg = lib.new_cfg(select=[e + '=x'])
        if rnd.random() < 0.2: cfg = lib.new_cfg(filter=e)
        inp = rnd.choice(INPUTS)
        if '(range .)' in e and inp in ('18446744073709551615', '1e300'): inp = '7'        # collection sizes <= 10^4 (resource exhaustion is out of scope)
        cases.append(mkcase('E%d' % i, cfg, inp.encode('utf8')))
    # counts, indices and lengths at the numeric extremes, on small collections: nothing may be allocated or looped by the number given
    HUGE = ['18446744073709551615', '9223372036854775807', '9223372036854775808', '1e19', '1e300', '4294967296', '-9223372036854775808', '-1', '1.5']
    IDX = ['(take %s N)', '(take_last %s N)', '(sub %s 0 N)', '(sub %s N 1)', '(sub %s N N)', '(head "abc" N)', '(tail "abc" N)', '(get %s N)', '(%s#0)'.replace('(%s#0)', '(get %s N)'), '(pad "ab" N)', '(repeat "ab" N)']
    k = 0
    for tmpl in IDX:
        for coll in ('[1, 2, 3]', '{"a": 1, "b": 2}', '"héllo"', '.'):
            for nn in HUGE:
                if '%s' not in tmpl and coll != '.': continue
                k += 1
                e = (tmpl % coll if '%s' in tmpl else tmpl).replace('N', nn)
                cases.append(mkcase('E_h%d' % k, lib.new_cfg(select=[e + '=x']), b'[1, 2, 3]'))
    # recursion that ends because `or` / `and` / `?` / `default` do not evaluate the argument they do not need (a recursive macro that
    # never ends is the known finding K3; these do end)
    LAZY = ['(define "down" (or (<= . 0) (| (- . 1) @down)) @down)', '(define "down" (and (> . 0) (| (- . 1) @down)) @down)', '(define "down" (? (<= . 0) "end" (| (- . 1) @down)) @down)',
            '(define "cnt" (default (? (<= . 0) 0 null) (+ 1 (| (- . 1) @cnt))) @cnt)']      # (tree recursion such as fibonacci is beyond the model's strict evaluation of macro fuel: linear recursions only)
    k = 0
    for e in LAZY:
        for n in (0, 1, 2, 5, 12):
            k += 1; cases.append(mkcase('E_l%d' % k, lib.new_cfg(select=[e + '=x']), b'%d' % n))
            k += 1; cases.append(mkcase('E_l%d' % k, lib.new_cfg(set=['@' + e[9:e.index('"', 9)] + '=' + e[e.index('" ', 9) + 2:e.rindex(' @')]], select=['@' + e[9:e.index('"', 9)] + '=x']), b'%d' % n))
    # non-finite numbers arise from finite literals through arithmetic; everything that consumes a number must cope with them
    NONFIN = ['(- (* 1e308 10) (* 1e308 10))', '(% (* 1e308 10) 2)', '(/ 0 0)', '(* 1e308 10)', '(- 0 (* 1e308 10))', '(/ 1 0)']
    CONS = ['(< %s 1)', '(<= 1 %s)', '(> %s %s)', '(= %s %s)', '(sort [%s, 1, %s, -1])', '(sort_unique [%s, %s])', '(sort_by [{"v": %s}, {"v": 1}, {"v": %s}] .v)', '(stringify %s)', '(round %s)', '(floor %s)',
            '(take [1, 2] %s)', '(sub "abc" %s 2)', '(range %s)', '(get [1] %s)', '(+ %s 1)', '(abs %s)', '(max [%s, 1])', '(min [1, %s])', '(as_string %s)', '(group_by [%s, 1] (stringify .))', '("+" (stringify %s) "1")']
    k = 0
    for cns in CONS:
        for x in NONFIN:
            for y in NONFIN[:2]:
                k += 1
                cases.append(mkcase('E_n%d' % k, lib.new_cfg(select=[(cns.replace('%s', x, 1).replace('%s', y)) + '=x']), b'null'))
    for x in NONFIN:
        k += 1
        cases.append(mkcase('E_n%d' % k, lib.new_cfg(select=['%s=v' % x], sort=[x, '(? (= .a 1) %s 1)' % x], unique=True), b'{"a":1} {"a":2} {"a":1} {"a":3}'))
        k += 1
        cases.append(mkcase('E_n%d' % k, lib.new_cfg(sort=['(? (= .a 1) %s .a)' % x], group='(stringify %s)' % x), b'{"a":1} {"a":2} {"a":1} {"a":3}'))
    # regular expressions whose groups may not take part in a match (alternation, optional and repeated groups), every group index
    RX = ['(a)|(b)', 'a(b)?c', '(x)?(y)?z', '(?:a)(b)*', '(a)(?P<n>b)?', '((a)|(b))+', '(a*)(b*)', '^(?:(é)|(e))$', '(', 'a{2,1}', '']
    SUBJ = ['ac', 'abc', 'a', 'b', 'z', 'yz', 'é', 'e', '', 'bbb']
    k = 0
    for rx in RX:
        for sj in SUBJ:
            for gi in range(0, 4):
                k += 1
                cases.append(mkcase('E_r%d' % k, lib.new_cfg(select=['(extract_regex_group %s %s %d)=g' % (json.dumps(sj, ensure_ascii=False), json.dumps(rx, ensure_ascii=False), gi), '(match %s %s)=m' % (json.dumps(sj, ensure_ascii=False), json.dumps(rx, ensure_ascii=False))]), b'null'))
    # time functions: every format string (unknown, truncated and padded specifiers included) x every kind of time value (round 13, C05_13)
    TFMT = ['%Q', 'abc %', '%-', '%', '%Y-%m-%d', '%5', '%:', '%.3', '%#', '%3f', 'é%é', '', '%Y%', '%+', '%s%!', '%::::z', '%_', '%0']
    TVAL = ['0', '-5', '2.5', '1700000000', '1e300', '-1e300', '253402300800', '"2020-01-01"', '"1700000000"', 'null']
    k = 0
    for f in TFMT:
        for v in TVAL:
            k += 1
            fj = json.dumps(f, ensure_ascii=False)
            cases.append(mkcase('E_t%d' % k, lib.new_cfg(select=['(format_time . %s)=f' % fj, '(parse_time . %s)=p' % fj, '(parse_time_with_zone . %s)=z' % fj,
                                                                     '(format_time . .)=ff', '(parse_time %s .)=pp' % fj]), v.encode('utf8')))
    def proj(c, r, side):
        if c['id'].startswith('E'): return ('done' if r['result'] not in ('panic', 'hang', 'abort', 'stackoverflow') else r['result'],)
        # error messages quote the offending byte, which may itself be a line break: compare the rows only
        # under the policies that print no diagnostics
        if c['cfg']['on_error'] in ('stdout', 'stderr'): return (lib.kind(r),)
        return (lib.kind(r), r['stdout'])
    impl, model, mism = common.correspond(cases, proj)
    violations = []; checked = 0
    for c in cases:
        a = impl[c['id']]; checked += 1
        if a['result'] in ('panic', 'hang', 'abort'):
            d = c['inputs'][0]['data']
            violations.append({'property': 'C05', 'relation': 'jawk terminates and either succeeds or returns an error: no panic, abort or endless loop',
                               'args': lib.cfg_args(c['cfg']), 'stdin_hex': d.hex(), 'stdin': d.decode('utf8', 'replace')[:300], 'observed': a['result'] + ': ' + a['msg'], 'expected': 'ok or err'})
    known = []
    for k in ctx['known']:
        w = k['witness']
        rc, out = lib.sh('cd %s && printf 1 | timeout 20 %s %s >/dev/null 2>&1; echo rc=$?' % (lib.BUILD, lib.JAWK_BIN, ' '.join("'%s'" % x for x in w['args'])))
        if 'rc=0' not in out: known.append('%s %s: %s' % (k['id'], k['class'], k['what']))
    cov = {'evaluations': len(cases), 'distinct_nontrivial': len(set(c['inputs'][0]['data'] for c in cases[:nx])) + len(set(tuple(lib.cfg_args(c['cfg'])) for c in cases[nx:])),
           'rule': 'exhaustive byte strings of length <= %d over a 24-byte alphabet of JSON-significant bytes (x the four policies, round robin), random byte strings up to 4 KiB (uniform, alphabet, mutated valid streams), nesting to 64, %d ill-typed expressions over %d templates incl. unmodelled functions (regex, time) with multi-byte characters at varying offsets' % (maxlen, ne, len(EXPRS)),
           'samples': [common.describe(c) for c in (cases[100], cases[-1])], 'exhaustive': True, 'exhaustive_part': 'byte strings of length <= %d over the alphabet (%d strings)' % (maxlen, nx),
           'traces_validated_against_impl': len(cases) - len(mism), 'model_mismatches': len(mism), 'direct_relations_checked': checked}
    broken = ['correspondence: model and implementation differ on %d cases, e.g. %s' % (len(mism), json.dumps(mism[0])[:1500])] if mism else []
    return {'coverage': cov, 'violations': violations, 'broken': broken, 'known': known}

NEEDS_BIN = True

def replay(ctx, r):
    c = {'id': 'r', 'cfg': lib.new_cfg(), 'args': r['args'], 'inputs': [{'data': bytes.fromhex(r['stdin_hex'])}]}
    a = lib.run_harness([c], timeout=30)['r']
    return {'observed': a['result'] + ': ' + a.get('msg', ''), 'fails': a['result'] in ('panic', 'hang', 'abort')}
