"""C17 — delivery-independent input; files stay separate; input-context is exact."""
import json, os
import lib, gen, common
from common import clone_cfg, mkcase, rows

ASSUMPTIONS = ['known finding K4 excluded from the main comparison: a value that starts at the byte which was the previous value\'s lookahead (touching values such as ][ or }{ ) reports a start column one past its first byte',
               'directory traversal order is the operating system\'s: explicit file lists are used']
TRUSTED = ['BufReader/File deliver the bytes of the file; std::io::Bytes retries Interrupted']

CTXSEL = ['&index=i', '&index-in-file=f', '&started-at-line-number=sl', '&started-at-char-number=sc', '&ended-at-line-number=el', '&ended-at-char-number=ec']

def offsets(data):
    """(line, col) -> byte offset, jawk's convention: the position after consuming the first k bytes"""
    pos = {}; line, col = 1, 1
    pos[(1, 1)] = 0
    for k, b in enumerate(data):
        if b == 10: line += 1; col = 1
        else: col += 1
        pos[(line, col)] = k + 1
    return pos

def fname(i, t):
    """file names whose alphabetical order is not the order on the command line (z, b, y, a ...)"""
    return 'in%d_%s%d.json' % (i, 'zbyaxc'[t % 6], t)

def run(ctx):
    rnd = ctx['rnd']; n = 120 if ctx['tier'] == 'quick' else 4000
    cases = []; meta = {}
    for i in range(n):
        vals = gen.records(rnd, 10)
        noisy = rnd.random() < 0.25
        # values are always separated by whitespace (touching values: known finding K4)
        # long tokens too (numbers, strings, literals of several bytes): a delivery boundary may fall inside any of them
        for _ in range(rnd.randint(0, 3)):
            vals.insert(rnd.randint(0, len(vals)), rnd.choice([1234567, 0.12345, -98765.4321, 1e21, 12345678901234567890, 'a long string with \u00e9 and "quotes"', True, False, None,
                                                             {'n': 314159, 'f': 2.71828, 's': 'xyzzy', 't': True, 'z': None}, [100, 200.5, -300]]))
        parts = [gen.jdump(v) for v in vals]
        # jawk also accepts a line break written raw inside a string: it counts as a line break for the positions like any other
        if rnd.random() < 0.15: parts.insert(rnd.randint(0, len(parts)), rnd.choice([b'"raw\nline"', b'{"k": "two\nraw\nbreaks", "a": 1}', b'["\r\n", 7]']))
        if noisy and parts: parts.insert(rnd.randint(0, len(parts)), b'} x')
        data = b''
        # a byte order mark or other bytes that are not JSON at the very start are noise like any other, on standard input and in a file alike
        if rnd.random() < 0.15: data = rnd.choice([b'\xef\xbb\xbf', b'\xef\xbb\xbf\n', b'\xff\xfe', b'\xef\xbb', b'#!x\n']); noisy = True
        for p in parts: data += p + rnd.choice([b'\n', b' ', b'\n\n', b'\t', b' \n ', b'\r\n', b'\r', b'\t\t\n'])
        cfg = lib.new_cfg(select=['.a'] + rnd.sample(CTXSEL, rnd.randint(2, 6))) if rnd.random() < 0.7 else gen.pipeline_cfg(rnd)
        if rnd.random() < 0.2: cfg['only_objs'] = True
        # chunkings
        for j, ch in enumerate([None, [1] * len(data), [rnd.randint(1, 9) for _ in range(len(data))]]):
            c = mkcase('K%d_%d' % (i, j), cfg, data); c['inputs'][0]['chunking'] = ch
            cases.append(c); meta[c['id']] = ('chunk', cfg, data, i)
        # files: partition at value boundaries, or cutting inside a value
        k = rnd.randint(1, 4)
        if rnd.random() < 0.7:
            cuts = sorted(rnd.sample(range(len(parts) + 1), min(k - 1, len(parts) + 1))) if parts else []
            groups = []; prev = 0
            for cpos in cuts + [len(parts)]:
                groups.append(b''.join(p + b'\n' for p in parts[prev:cpos])); prev = cpos
            inside = False
        else:
            cuts = sorted(rnd.sample(range(len(data) + 1), min(k - 1, len(data) + 1)))
            groups = []; prev = 0
            for cpos in cuts + [len(data)]: groups.append(data[prev:cpos]); prev = cpos
            inside = True
        fc = {'id': 'F%d' % i, 'cfg': clone_cfg(cfg, select=cfg['select'] + (['&file-name=fn'] if rnd.random() < 0.5 else [])), 'files': True,
              'inputs': [{'data': g, 'name': fname(i, t)} for t, g in enumerate(groups)]}
        cases.append(fc); meta[fc['id']] = ('files', fc['cfg'], groups, inside)
        for t, g in enumerate(groups):
            sc = {'id': 'S%d_%d' % (i, t), 'cfg': fc['cfg'], 'files': True, 'inputs': [{'data': g, 'name': fname(i, t)}]}
            cases.append(sc); meta[sc['id']] = ('single', fc['cfg'], g, t)
            if not any('&file-name' in x for x in fc['cfg']['select']):
                ic = mkcase('I%d_%d' % (i, t), fc['cfg'], g); cases.append(ic); meta[ic['id']] = ('asstdin', fc['cfg'], g, sc['id'])
    # inputs larger than any internal buffer (8 KiB, 64 KiB), whole and in large uneven reads: tokens straddle every block boundary.
    # The extracted model is too slow for these sizes; the oracle is locality (C11): the output of the whole input is the
    # concatenation of the outputs of its pieces, each piece (cut between tokens) small enough to fit in any buffer
    bigcases = []; bigmeta = []
    for i in range(2 if ctx['tier'] == 'quick' else 12):
        toks = [rnd.choice([b'%d' % rnd.randint(10 ** 5, 10 ** 9), b'%d.%d' % (rnd.randint(0, 999), rnd.randint(10 ** 3, 10 ** 6)), b'"%s"' % (b'w' * rnd.randint(3, 40)), b'[true,false,null]'])
                + rnd.choice([b' ', b'\n']) for _ in range(rnd.choice([2500, 9000]))]
        big = b''.join(toks)
        ids = []
        for j, ch in enumerate([None, [rnd.choice([4096, 8191, 8192, 8193, 5000, 65536]) for _ in range(64)]]):
            c = mkcase('KB%d_%d' % (i, j), lib.new_cfg(), big); c['inputs'][0]['chunking'] = ch; bigcases.append(c); ids.append(c['id'])
        pieces = []
        for t in range(0, len(toks), 100):
            c = mkcase('KP%d_%d' % (i, t), lib.new_cfg(), b''.join(toks[t:t + 100])); bigcases.append(c); pieces.append(c['id'])
        bigmeta.append((big, ids, pieces))
    def proj(c, r, side):
        out = r['stdout']
        if side == 'impl':
            out = lib.canon_errlines(out)
            tmp = c.get('_tmp')
        # file names contain the scratch directory of the shard: keep the base name only
        import re
        out = re.sub(rb'"fn": "[^"]*?(in\d+_\d+\.json)"', rb'"fn": "\1"', out)
        return (lib.kind(r), out)
    impl, model, mism = common.correspond(cases, proj)
    violations = []; checked = 0
    byi = {}
    for c in cases:
        m = meta[c['id']]; a = impl[c['id']]
        if a['result'] in ('panic', 'hang', 'abort'):
            violations.append(viol(c, 'run completes', a['result'] + ' ' + a['msg'], '')); continue
        if m[0] == 'chunk':
            byi.setdefault(m[3], []).append((c, a))
    for i, lst in byi.items():
        c0, a0 = lst[0]
        for c, a in lst[1:]:
            checked += 1
            if (a['result'], a['stdout']) != (a0['result'], a0['stdout']):
                violations.append(viol(c, 'the output does not depend on how the input bytes are delivered (chunking %s)' % str(c['inputs'][0].get('chunking'))[:60], a['stdout'].decode('utf8', 'replace')[:300], a0['stdout'].decode('utf8', 'replace')[:300]))
        # exactness of the input context (whole delivery)
        cfg = c0['cfg']; data = c0['inputs'][0]['data']
        names = [s.split('=')[1] for s in cfg['select'] if s.startswith('&')]
        if a0['result'] == 'ok' and names and cfg['group'] is None and not cfg['sort'] and not cfg['unique'] and cfg['filter'] is None and cfg['split'] is None and not cfg['skip'] and cfg['take'] is None:
            rws = [json.loads(r) for r in rows(a0['stdout'])]
            pos = offsets(data); prev_end = None
            for t, r in enumerate(rws):
                checked += 1
                bad = None
                if 'i' in r and r['i'] != t: bad = '&index is the 0-based ordinal among the values processed'
                if 'f' in r and r['f'] != t: bad = '&index-in-file restarts at 0 in every file'
                # with --only-objects-and-arrays the skipped scalars lie between the ranges: only the ordinals are judged (round 12, C17_12)
                if not cfg['only_objs'] and all(k in r for k in ('sl', 'sc', 'el', 'ec')):
                    s = pos.get((r['sl'], r['sc'])); e = pos.get((r['el'], r['ec']))
                    if s is None or e is None or not s <= e: bad = 'start/end delimit a byte range'
                    else:
                        txt = data[s:e]
                        try:
                            core = txt.strip()
                            # the range holds the value's text (plus surrounding whitespace / the lookahead byte)
                            if prev_end is not None and s != prev_end and b'}' not in data[prev_end:s]: bad = 'consecutive ranges are contiguous'
                            prev_end = e
                            if r['el'] != 1 + data[:e].count(b'\n'): bad = 'lines are counted by newlines'
                        except Exception: bad = 'range'
                if bad: violations.append(viol(c0, bad, json.dumps(r), 'row %d' % t)); break
    for c in cases:
        m = meta[c['id']]; a = impl[c['id']]
        if m[0] == 'asstdin':
            f = impl[m[3]]; checked += 1
            if (lib.kind(a), lib.canon_errlines(a['stdout'])) != (lib.kind(f), lib.canon_errlines(f['stdout'])):
                v = viol(c, 'the same bytes given as a file argument and on standard input give the same output (positions, indices, rows)', f['stdout'].decode('utf8', 'replace')[:400], a['stdout'].decode('utf8', 'replace')[:400])
                v['as_file_vs_stdin'] = True; violations.append(v)
            continue
        if m[0] != 'files' or a['result'] != 'ok': continue
        i = c['id'][1:]
        singles = [impl['S%s_%d' % (i, t)] for t in range(len(m[2]))]
        if any(s['result'] != 'ok' for s in singles): continue
        cfg = m[1]
        if any(x for x in (cfg['sort'], cfg['unique'], cfg['skip'], cfg['take'] is not None, cfg['group'] is not None)) or any('&index=' in s for s in cfg['select']): continue
        checked += 1
        import re
        norm = lambda b: re.sub(rb'"fn": "[^"]*?(in\d+_[a-z]\d+\.json)"', rb'"fn": "\1"', b)
        exp = b''.join(norm(s['stdout']) for s in singles)
        if norm(a['stdout']) != exp:
            violations.append(viol(c, 'reading files f1..fn processes the values of f1, then f2, ..., no value spanning two files (output == concatenation of per-file outputs)', norm(a['stdout']).decode('utf8', 'replace')[:400], exp.decode('utf8', 'replace')[:400]))
    # a DIRECTORY as the file argument: every file in it is one input of its own (the order of the files is the file system's):
    # &index-in-file restarts at 0 in every file, &file-name is that file, &index counts over all of them, values in order per file
    dcases = []
    for i in range(12 if ctx['tier'] == 'quick' else 150):
        nf = rnd.randint(2, 4)
        files = [[rnd.randint(0, 99) for _ in range(rnd.randint(0, 4))] for _ in range(nf)]
        if sum(len(f) for f in files) == 0: files[0] = [1]
        dcases.append({'id': 'D%d' % i, 'cfg': lib.new_cfg(select=['&file-name=fn', '&index-in-file=i', '&index=g', '.=v'], only_objs=False), 'files': True, 'dir': True,
                       'inputs': [{'data': ''.join('%d\n' % x for x in f).encode(), 'name': 'd%d_%d.json' % (i, t)} for t, f in enumerate(files)], '_files': files})
    dimpl = lib.run_harness(dcases)
    for c in dcases:
        a = dimpl[c['id']]; checked += 1
        bad = None
        if a['result'] != 'ok': bad = 'the run succeeds: ' + a['result'] + ' ' + a.get('msg', '')
        else:
            rws = [json.loads(r) for r in rows(a['stdout'])]
            per = {}
            for r in rws: per.setdefault(os.path.basename(r.get('fn') or '?'), []).append(r)
            exp = {'d%s_%d.json' % (c['id'][1:], t): f for t, f in enumerate(c['_files']) if f}
            if [r.get('g') for r in rws] != list(range(len(rws))): bad = '&index counts the values of all files 0,1,2,...'
            elif set(per) != set(exp): bad = 'every file of the directory is read, and &file-name names it'
            else:
                for fn, rs in per.items():
                    if [r.get('i') for r in rs] != list(range(len(rs))): bad = '&index-in-file restarts at 0 in every file of a directory'
                    elif [r.get('v') for r in rs] != exp[fn]: bad = 'the values of a file come out in order under its own name'
                    # the rows of one file are consecutive
                    gs = [r.get('g') for r in rs]
                    if not bad and gs != list(range(gs[0], gs[0] + len(gs))): bad = 'files stay separate: the rows of one file are consecutive'
        if bad:
            v = viol(c, 'directory argument: ' + bad, a['stdout'].decode('utf8', 'replace')[:500], json.dumps(c['_files'])); v['dir'] = True
            v['names'] = [x['name'] for x in c['inputs']]; violations.append(v)
    bimpl = lib.run_harness(bigcases)
    for big, ids, pieces in bigmeta:
        exp = b''.join(bimpl[p]['stdout'] for p in pieces)
        for cid in ids:
            a = bimpl[cid]; checked += 1
            if a['result'] != 'ok' or a['stdout'] != exp:
                c = [x for x in bigcases if x['id'] == cid][0]
                # first differing row, for the report
                ra, re_ = a['stdout'].split(b'\n'), exp.split(b'\n'); k = next((t for t in range(min(len(ra), len(re_))) if ra[t] != re_[t]), min(len(ra), len(re_)))
                v = viol(c, 'a large input (%d bytes) gives the concatenation of the outputs of its pieces, however it is delivered' % len(big),
                         'row %d: %s' % (k, ra[k:k + 2]), 'row %d: %s' % (k, re_[k:k + 2])); v['stdin'] = '(%d bytes, see inputs_hex)' % len(big)
                violations.append(v)
    known = []
    for k in ctx['known']:
        w = k['witness']; kc = {'id': 'k', 'cfg': lib.new_cfg(), 'args': w['args'], 'inputs': [{'data': bytes.fromhex(w['stdin_hex'])}]}
        res = lib.run_harness([kc])['k']
        rws = [json.loads(r) for r in rows(res['stdout'])]
        if len(rws) == 2 and rws[1].get('s') != rws[0].get('e') - 0 or (len(rws) == 2 and rws[1].get('s') == 5):
            known.append('%s %s: %s' % (k['id'], k['class'], k['what']))
    cov = {'evaluations': len(cases) + len(dcases) + len(bigcases), 'large_input_runs': sum(len(x[1]) for x in bigmeta), 'directory_runs': len(dcases), 'distinct_nontrivial': common.nontrivial_count(cases, impl),
           'rule': 'clean and noisy streams x chunkings (whole, 1-byte reads, random sizes) x partitions into 1..4 files at value boundaries or cutting inside a value, and directories of 2..4 files given as one argument x --only-objects-and-arrays on/off; input-context selectors checked against byte offsets computed independently',
           'samples': [common.describe(c) for c in cases[:2]],
           'traces_validated_against_impl': len(cases) - len(mism), 'model_mismatches': len(mism), 'direct_relations_checked': checked}
    broken = ['correspondence: model and implementation differ on %d cases, e.g. %s' % (len(mism), json.dumps(mism[0])[:1500])] if mism else []
    return {'coverage': cov, 'violations': violations, 'broken': broken, 'known': known}

def viol(c, rel, obs, exp):
    return {'property': 'C17', 'relation': rel, 'args': lib.cfg_args(c['cfg']), 'files': c.get('files', False),
            'inputs_hex': [i['data'].hex() for i in c['inputs']], 'stdin': c['inputs'][0]['data'].decode('utf8', 'replace')[:400], 'chunking': c['inputs'][0].get('chunking'),
            'observed': obs, 'expected': exp}

def replay(ctx, r):
    c = {'id': 'r', 'cfg': lib.new_cfg(), 'args': r['args'], 'files': r.get('files', False),
         'inputs': [{'data': bytes.fromhex(h), 'name': fname(0, t)} for t, h in enumerate(r['inputs_hex'])]}
    if r.get('dir'):
        c['dir'] = True
        for x, nm in zip(c['inputs'], r.get('names', [])): x['name'] = nm
    if r.get('chunking'): c['inputs'][0]['chunking'] = r['chunking']
    a = lib.run_harness([c])['r']
    return {'observed': a['stdout'].decode('utf8', 'replace')[:400], 'expected': r.get('expected'), 'fails': True}
