"""C20 — the executable separates data from diagnostics and signals failure by exit code."""
import json, os, subprocess, threading
import lib, gen, common
from common import clone_cfg, mkcase, rows

NEEDS_BIN = True
ASSUMPTIONS = ['the process boundary (libc, SIGPIPE disposition, the buffering and final flush of stdout) is runtime behaviour the model cannot exhibit: it is measured on the real binary',
               'with file descriptor 1 closed (>&-) Rust\'s std treats EBADF as success; "closed stdout" is exercised as a closed pipe (EPIPE) and as /dev/full (ENOSPC)',
               'clap rejects malformed command lines itself (exit status 2): outside the model']
TRUSTED = ['Rust std stdout/stderr handles, process::exit']

def run_bin(args, data, stdout_mode='pipe', timeout=20):
    """returns (exit, stdout bytes or None, stderr bytes)"""
    if stdout_mode == 'pipe':
        p = subprocess.run([lib.JAWK_BIN] + args, input=data, stdout=subprocess.PIPE, stderr=subprocess.PIPE, timeout=timeout)
        return p.returncode, p.stdout, p.stderr
    if stdout_mode == 'full':
        with open('/dev/full', 'wb') as f:
            p = subprocess.run([lib.JAWK_BIN] + args, input=data, stdout=f, stderr=subprocess.PIPE, timeout=timeout)
        return p.returncode, None, p.stderr
    if stdout_mode == 'closed':
        r, w = os.pipe(); os.close(r)
        try:
            p = subprocess.run([lib.JAWK_BIN] + args, input=data, stdout=w, stderr=subprocess.PIPE, timeout=timeout)
        finally: os.close(w)
        return p.returncode, None, p.stderr

def run(ctx):
    rnd = ctx['rnd']; n = 500 if ctx['tier'] == 'quick' else 1500
    cases = []; jobs = []
    for i in range(n):
        cfg = gen.pipeline_cfg(rnd)
        cfg['on_error'] = rnd.choice(['ignore', 'stdout', 'stderr', 'panic'])
        vals = gen.records(rnd, 8)
        parts = [gen.jdump(v) for v in vals]
        regions = 0
        if rnd.random() < 0.5 and parts:
            for _ in range(rnd.randint(1, 2)): parts.insert(rnd.randint(0, len(parts)), b'} x'); regions += 1
        data = b'\n'.join(parts) + b'\n'
        cut = rnd.random() < 0.25
        if cut: data += rnd.choice([b'[3,', b'{"a": ', b'"abc', b'tru', b'-', b'[1, 2', b'{"k"'])      # input cut off inside its last value
        x = rnd.random()
        if x < 0.15:
            cfg['select'] = cfg['select'] + ['(nope .)']         # invalid configuration: an expression that does not parse
        elif x < 0.3:
            # invalid configuration: output options that do not belong to the output style
            if rnd.random() < 0.5: cfg['style'] = rnd.choice(['text', 'csv']); cfg['json_opts'] = (rnd.choice(['pretty', 'consise']), False); cfg['select'] = cfg['select'] or ['.a']; cfg['group'] = None
            else: cfg['style'] = 'json'; cfg['text_opts'] = rnd.choice([{'headers': True}, {'items_sep': ';'}, {'null': 'NIL'}])
        if rnd.random() < 0.15: cfg['rowsep'] = rnd.choice([';', ' | '])          # no line break: nothing is flushed until the end
        mode = rnd.choice(['pipe', 'pipe', 'pipe', 'full', 'closed'])
        c = mkcase('B%d' % i, cfg, data)
        if mode != 'pipe': c['out_room'] = 0
        c['_cut'] = cut and not any('nope' in x for x in cfg['select']); cases.append(c); jobs.append((c, mode, regions))
    # every kind of cut-off last value under --on-error=panic, plain configuration: the input failed, so must the run
    for t, tail in enumerate([b'[3,', b'{"a": ', b'"abc', b'tru', b'-', b'[1, 2', b'{"k"', b'{"k":1,', b'[[1],', b'"\\u00']):
        cfg = lib.new_cfg(on_error='panic'); c = mkcase('BT%d' % t, cfg, b'1 2\n' + tail); c['_cut'] = True
        cases.append(c); jobs.append((c, 'pipe', 0))
    model = lib.run_model(cases)
    results = {}
    def work(js):
        for c, mode, regions in js:
            try: results[c['id']] = run_bin(lib.cfg_args(c['cfg']), c['inputs'][0]['data'], mode)
            except subprocess.TimeoutExpired: results[c['id']] = ('hang', None, b'')
    ths = [threading.Thread(target=work, args=(jobs[k::8],)) for k in range(8)]
    for t in ths: t.start()
    for t in ths: t.join()
    violations = []; mism = []; checked = 0
    for c, mode, regions in jobs:
        rc, out, err = results[c['id']]; m = model.get(c['id'])
        cfg = c['cfg']; checked += 1
        def V(rel, obs, exp=''):
            violations.append({'property': 'C20', 'relation': rel, 'args': lib.cfg_args(cfg), 'stdin_hex': c['inputs'][0]['data'].hex(), 'stdout_mode': mode,
                               'observed': obs, 'expected': exp})
        if rc == 'hang': V('the executable terminates', 'hang'); continue
        if rc < 0 or rc in (101, 134): V('no panic / abort / signal', 'exit %s: %s' % (rc, err.decode('utf8', 'replace')[:200])); continue
        if m is None: mism.append({'case': common.describe(c), 'why': 'no model result'}); continue
        m_exit = 0 if m['result'] == 'ok' else 255
        # exit status 0 exactly when the run succeeded, non-zero with a message on stderr otherwise
        if rc != 0 and not err.strip(): V('a failing run leaves a message on standard error', 'exit %d, empty stderr' % rc)
        if mode == 'pipe' and c.get('_cut') and cfg['on_error'] == 'panic' and cfg['take'] is None and rc == 0:
            V('--on-error=panic: an input cut off inside its last value fails the run (non-zero status, message on standard error)', 'exit 0', 'non-zero')
        if mode == 'pipe' and m['result'] in ('err:config', 'err:selection', 'err:sorter', 'err:preset', 'err:style', 'err:start') and (rc == 0 or out or not err.strip()):
            V('an invalid configuration fails the run: non-zero status, a message on standard error, nothing on standard output', 'exit %s, %d bytes on stdout: %r' % (rc, len(out), out[:80]), 'non-zero, empty stdout')
        if mode == 'pipe':
            eo = lib.ERRLINE.findall(out); ee = [l for l in err.split(b'\n') if l.startswith(b'error:')]
            if cfg['on_error'] == 'stderr':
                if eo: V('--on-error=stderr: diagnostics only on standard error', out.decode('utf8', 'replace')[:300])
                if rc == 0 and cfg['take'] is None and len(ee) < regions: V('--on-error=stderr: every malformed region is reported on standard error', '%d error lines for %d regions' % (len(ee), regions))
            if cfg['on_error'] in ('ignore', 'panic', 'stderr') and rc == 0 and err.strip() and cfg['on_error'] != 'stderr':
                V('a successful run writes nothing to standard error', err.decode('utf8', 'replace')[:200])
            pa = (0 if rc == 0 else 255, lib.canon_errlines(out))
            pm = (m_exit, m['stdout'])
            if pa != pm: mism.append({'case': common.describe(c), 'impl': repr(pa)[:500], 'model': repr(pm)[:500], 'why': 'exit status / stdout differ'})
        else:
            # output cannot be written: when the fault-free run would write something, the run must fail
            free = lib.run_harness([mkcase('f', cfg, c['inputs'][0]['data'])])['f']
            would_write = bool(free['stdout'])
            if would_write and rc == 0: V('a run whose output cannot be written exits with a non-zero status', 'exit 0 with stdout %s' % mode, 'non-zero')
            if (rc == 0) != (m_exit == 0) and would_write: mism.append({'case': common.describe(c), 'impl': rc, 'model': m_exit, 'why': 'exit status differs (%s stdout)' % mode})
    # input that cannot be opened: a path that does not exist, named directly or as a dangling link inside a directory argument:
    # the input failed, so the run exits non-zero with a message, under every policy
    import tempfile, shutil
    d = tempfile.mkdtemp(dir=os.path.join(lib.BUILD, 'tmp')) if os.path.isdir(os.path.join(lib.BUILD, 'tmp')) else tempfile.mkdtemp()
    try:
        os.makedirs(os.path.join(d, 'dir')); open(os.path.join(d, 'dir', 'a.json'), 'w').write('1 2\n'); os.symlink(os.path.join(d, 'nowhere.json'), os.path.join(d, 'dir', 'b_dangling.json'))
        open(os.path.join(d, 'good.json'), 'w').write('3\n')
        for pol in ('ignore', 'stdout', 'stderr', 'panic'):
            for what, paths in (('a path that does not exist', [os.path.join(d, 'missing.json')]), ('a good file followed by a path that does not exist', [os.path.join(d, 'good.json'), os.path.join(d, 'missing.json')]),
                                ('a dangling symbolic link inside a directory argument', [os.path.join(d, 'dir')])):
              for extra in ([], ['--take=1'], ['--take=0'], ['--skip=1', '--take=1', '--merge']):
                # also when --take is satisfied before the unopenable path is reached: every FILE argument is input of the run
                p = subprocess.run([lib.JAWK_BIN, '--on-error=' + pol] + extra + ['--'] + paths, stdin=subprocess.DEVNULL, stdout=subprocess.PIPE, stderr=subprocess.PIPE, timeout=30)
                checked += 1
                if p.returncode == 0 or not p.stderr.strip():
                    violations.append({'property': 'C20', 'relation': 'input that cannot be opened (%s): non-zero status and a message on standard error' % what, 'args': ['--on-error=' + pol] + extra + ['--'] + [os.path.relpath(x, d) for x in paths],
                                       'stdin_hex': '', 'stdout_mode': 'pipe', 'unopenable': what, 'observed': 'exit %d, stderr %r' % (p.returncode, p.stderr[:120]), 'expected': 'non-zero, message'})
        # input that cannot be read: standard input is a directory (read fails with EISDIR) — a failed run under every policy:
        # non-zero status, the message on standard error, and nothing but rows on standard output
        for pol in ('ignore', 'stdout', 'stderr', 'panic'):
            fd = os.open(os.path.join(d, 'dir'), os.O_RDONLY)
            try: p = subprocess.run([lib.JAWK_BIN, '--on-error=' + pol], stdin=fd, stdout=subprocess.PIPE, stderr=subprocess.PIPE, timeout=30)
            finally: os.close(fd)
            checked += 1
            if p.returncode == 0 or not p.stderr.strip() or p.stdout.strip():
                violations.append({'property': 'C20', 'relation': 'input that cannot be read (standard input is a directory): non-zero status, message on standard error, nothing on standard output',
                                   'args': ['--on-error=' + pol], 'stdin_hex': '', 'stdout_mode': 'pipe', 'stdin_is_directory': True,
                                   'observed': 'exit %d, stdout %r, stderr %r' % (p.returncode, p.stdout[:120], p.stderr[:120]), 'expected': 'non-zero, empty stdout, message on stderr'})
    finally: shutil.rmtree(d, ignore_errors=True)
    cov = {'evaluations': len(cases) + 16, 'distinct_nontrivial': len(set((tuple(lib.cfg_args(c['cfg'])), c['inputs'][0]['data'], md) for c, md, _ in jobs)),
           'rule': 'the real binary as a child process on generated clean/noisy inputs (some cut off inside their last value) x the four --on-error policies x valid and invalid configurations x stdout a pipe, a closed pipe, or /dev/full; row separators with and without a line break',
           'samples': [dict(common.describe(c), stdout_mode=md) for c, md, _ in jobs[:2]],
           'traces_validated_against_impl': len(cases) - len(mism), 'model_mismatches': len(mism), 'direct_relations_checked': checked}
    broken = ['correspondence: model and executable differ on %d cases, e.g. %s' % (len(mism), json.dumps(mism[0], default=str)[:1500])] if mism else []
    return {'coverage': cov, 'violations': violations, 'broken': broken}

def replay(ctx, r):
    if r.get('stdin_is_directory'):
        fd = os.open('/', os.O_RDONLY)
        try: p = subprocess.run([lib.JAWK_BIN] + r['args'], stdin=fd, stdout=subprocess.PIPE, stderr=subprocess.PIPE, timeout=30)
        finally: os.close(fd)
        return {'observed': {'exit': p.returncode, 'stdout': p.stdout.decode('utf8', 'replace')[:200], 'stderr': p.stderr.decode('utf8', 'replace')[:200]}, 'fails': p.returncode == 0 or not p.stderr.strip() or bool(p.stdout.strip())}
    if r.get('unopenable'):
        import tempfile, shutil
        d = tempfile.mkdtemp()
        try:
            os.makedirs(os.path.join(d, 'dir')); open(os.path.join(d, 'dir', 'a.json'), 'w').write('1 2\n'); os.symlink(os.path.join(d, 'nowhere.json'), os.path.join(d, 'dir', 'b_dangling.json'))
            open(os.path.join(d, 'good.json'), 'w').write('3\n')
            args = [a if a.startswith('-') else os.path.join(d, a) for a in r['args']]
            p = subprocess.run([lib.JAWK_BIN] + args, stdin=subprocess.DEVNULL, stdout=subprocess.PIPE, stderr=subprocess.PIPE, timeout=30)
            return {'observed': {'exit': p.returncode, 'stderr': p.stderr.decode('utf8', 'replace')[:200]}, 'fails': p.returncode == 0 or not p.stderr.strip()}
        finally: shutil.rmtree(d, ignore_errors=True)
    rc, out, err = run_bin(r['args'], bytes.fromhex(r['stdin_hex']), r.get('stdout_mode', 'pipe'))
    return {'observed': {'exit': rc, 'stdout': (out or b'').decode('utf8', 'replace')[:300], 'stderr': err.decode('utf8', 'replace')[:300]}, 'fails': True}
