"""C02 — every JSON output row is valid JSON for its value in all styles; a fixpoint."""
import json, struct
import lib, common, render, jsonread
from common import mkcase, rows, clone_cfg

ASSUMPTIONS = ['known findings excluded from the main comparison: K1 (code points >= U+10000 with --utf8-strings off), K2 (non-finite results of arithmetic)',
               'floats: the theorem carries the decidable side condition flt_okb (printed digits read back as the same double); it is evaluated by the model on every float this run prints (flt_okb_checked)']
TRUSTED = ['Rust Display for u64/i64/f64 (modelled by digits_of_N / flt2dec: shortest round-trip digits, positional notation)']

NUMS = ['0', '-0', '-0.0', '-0e2', '-0.0e-5', '0.0', '1', '-1', '9223372036854775807', '-9223372036854775808', '18446744073709551615', '18446744073709551616', '-9223372036854775809',
        '5e-324', '1.797e308', '1.7976931348623157e308', '0.1', '0.2', '0.30000000000000004', '1e21', '1e-7', '123456.789', '2.5', '-2.5', '1e22', '1e23', '4.35', '0.000001', '1e-5', '9007199254740993', '1.5e300', '2.2250738585072014e-308', '3.0', '1E2']

def gen_value(rnd, depth, astral):
    x = rnd.random()
    if depth <= 0 or x < 0.5:
        y = rnd.random()
        if y < 0.1: return None
        if y < 0.2: return rnd.random() < 0.5
        if y < 0.55:
            if rnd.random() < 0.6: return ('raw', rnd.choice(NUMS))
            f = struct.unpack('<d', struct.pack('<Q', rnd.getrandbits(64)))[0]
            if f != f or f in (float('inf'), float('-inf')): return ('raw', '1')
            return ('raw', repr(f))
        n = rnd.choice([0, 1, 2, 3, 6])
        s = ''
        for _ in range(n):
            c = rnd.choice(render.CHAR_POOL) if rnd.random() < 0.7 else rnd.randint(0x20, 0xd7ff)
            if c >= 0x10000 and not astral: c = 0xffff
            s += chr(c)
        return s
    if x < 0.78: return [gen_value(rnd, depth - 1, astral) for _ in range(rnd.choice([0, 1, 2, 3]))]
    d = {}
    for _ in range(rnd.choice([0, 1, 2, 3])):
        k = gen_value(rnd, 0, astral)
        if not isinstance(k, str): k = 'k%d' % len(d)
        d[k] = gen_value(rnd, depth - 1, astral)
    return d

def dump(v):
    if isinstance(v, tuple): return v[1]
    if isinstance(v, list): return '[' + ','.join(dump(x) for x in v) + ']'
    if isinstance(v, dict): return '{' + ','.join(json.dumps(k, ensure_ascii=False) + ':' + dump(x) for k, x in v.items()) + '}'
    return json.dumps(v, ensure_ascii=False)

def conv(v):
    """plain Python value -> the generator's representation (numbers as raw texts)"""
    if isinstance(v, bool) or v is None or isinstance(v, str): return v
    if isinstance(v, (int, float)): return ('raw', json.dumps(v))
    if isinstance(v, list): return [conv(x) for x in v]
    return {k: conv(x) for k, x in v.items()}

def expected(v):
    if isinstance(v, tuple): return jsonread.canon(('flt', v[1])) if any(ch in v[1] for ch in '.eE') else jsonread.canon_num(v[1])
    if isinstance(v, list): return [expected(x) for x in v]
    if isinstance(v, dict): return [(k, expected(x)) for k, x in v.items()]
    return v

def run(ctx):
    rnd = ctx['rnd']; n = 300 if ctx['tier'] == 'quick' else 15000
    cases = []; exp = {}
    for i in range(n):
        utf8 = rnd.random() < 0.5
        st = rnd.choice(['oneline', 'consise', 'pretty'])
        sep = rnd.choice([None, None, '\n', '\n---\n', ';\n', '\\n\n', ';\\t;\n', 'C:\\temp\\new,\n', '\\\\\n'])      # the separator is used as given: a backslash in it is a backslash
        vals = [gen_value(rnd, rnd.choice([0, 1, 2, 3]), astral=utf8) for _ in range(rnd.choice([1, 2, 3]))]
        cfg = lib.new_cfg(json_opts=(st, utf8), rowsep=sep)
        data = '\n'.join(dump(v) for v in vals).encode('utf8')
        cases.append(mkcase('V%d' % i, cfg, data)); exp['V%d' % i] = [expected(v) for v in vals]
    # deep nesting (the property bounds nothing here; C01 bounds input nesting by 64): indentation is proportional at every depth
    for d in (5, 24, 25, 26, 30, 40, 60):
        for st in ('pretty', 'oneline', 'consise'):
            v = 1
            for j in range(d): v = [v, 'x'] if j % 2 else {'k': v, 'e': []}
            i = len(cases)
            cases.append(mkcase('V%d' % i, lib.new_cfg(json_opts=(st, False)), json.dumps(v).encode())); exp['V%d' % i] = [expected(conv(v))]
    # member names and strings made of each character that needs care, one at a time: every C0 control, DEL, quote, backslash, slash,
    # NEL, line and paragraph separators, the last BMP character
    for cp in list(range(0, 0x21)) + [0x22, 0x2f, 0x5c, 0x7e, 0x7f, 0x80, 0x85, 0x9f, 0xa0, 0x2028, 0x2029, 0xfffe, 0xffff]:
        for st in ('oneline', 'pretty'):
            for utf8 in (False, True):
                v = {chr(cp): [chr(cp) + 'x', {'a' + chr(cp): chr(cp)}]}
                i = len(cases)
                cases.append(mkcase('V%d' % i, lib.new_cfg(json_opts=(st, utf8)), json.dumps(v).encode())); exp['V%d' % i] = [expected(conv(v))]
    # long collections (one element or member per line however many there are)
    for ln in (16, 17, 32, 33, 48, 64, 100, 257):
        for st in ('pretty', 'oneline', 'consise'):
            for v in ([j for j in range(ln)], {'k%d' % j: [j] for j in range(ln)}, [[j, 'x'] for j in range(ln)], ['s%d' % j for j in range(ln)]):
                i = len(cases)
                cases.append(mkcase('V%d' % i, lib.new_cfg(json_opts=(st, False)), json.dumps(v).encode())); exp['V%d' % i] = [expected(conv(v))]
    impl, model, mism = common.correspond(cases)
    # rows larger than any internal buffer, followed and preceded by small ones (the model is too slow for these sizes: the strict
    # reader and the fixpoint relation below are the oracle)
    bigc = []
    for k, big in enumerate(['x' * 70000, ['y' * 30000, 'z' * 40000], {'k' * 300: ['w' * 66000]}, list(range(15000))]):
        for st in ('oneline', 'pretty', 'consise'):
            vals = [1, big, 'small', big, [2, 3], {'a': None}]
            i = len(cases) + len(bigc)
            c = mkcase('V%d' % i, lib.new_cfg(json_opts=(st, False)), '\n'.join(json.dumps(v) for v in vals).encode()); bigc.append(c); exp['V%d' % i] = [expected(conv(v)) for v in vals]
    impl.update(lib.run_harness(bigc)); cases += bigc
    # second pass: feed the output back with the same options
    second = []
    for c in cases:
        a = impl[c['id']]
        if a['result'] == 'ok' and c['cfg']['rowsep'] in (None, '\n'):
            second.append(mkcase('W' + c['id'], c['cfg'], a['stdout']))
    impl2 = lib.run_harness(second)
    violations = []; checked = 0
    for c in cases:
        a = impl[c['id']]
        if a['result'] != 'ok':
            violations.append(viol(c, 'run succeeds', a['result'] + ' ' + a['msg'], 'ok')); continue
        sep = (c['cfg']['rowsep'] or '\n').encode()
        st = c['cfg']['json_opts'][0]
        try:
            if st == 'pretty' and sep == b'\n':
                got = read_concatenated(a['stdout'])
            else:
                got = [jsonread.canon(jsonread.loads(r)) for r in rows(a['stdout'], sep)]
        except Exception as e:
            violations.append(viol(c, 'every row is a well-formed RFC 8259 text (independent strict reader)', repr(e) + ' in ' + repr(a['stdout'][:300]), '')); continue
        checked += 1
        if got != exp[c['id']]:
            violations.append(viol(c, 'the row reads back as exactly the value being output', repr(got)[:600], repr(exp[c['id']])[:600])); continue
        out = a['stdout']
        body_ws = strip_strings(out)
        if st == 'consise' and sep == b'\n' and any(ch in body_ws.replace(b'\n', b'') for ch in b' \t\r'):
            violations.append(viol(c, 'concise style has no insignificant whitespace', repr(out[:300]), ''))
        if st in ('oneline', 'consise') and sep == b'\n' and len(rows(out)) != len(exp[c['id']]):
            violations.append(viol(c, 'one-line/concise rows contain no line break (rows framed by the separator)', repr(out[:300]), ''))
        if st == 'pretty' and sep == b'\n':
            # one element or member per line, indented by two blanks per nesting level (closing brackets one level out)
            depth = 0; bad = None
            for ln in strip_strings(out).split(b'\n'):
                if not ln.strip(): continue
                body = ln.lstrip(b' '); ind = len(ln) - len(body)
                d_here = depth - (1 if body[:1] in (b']', b'}') else 0)
                if ind != 2 * d_here: bad = (ln[:60], ind, 2 * d_here); break
                if b',' in body.rstrip()[:-1]: bad = (ln[:60], -1, 'one element or member per line'); break
                depth += sum(1 for ch in body if ch in b'[{') - sum(1 for ch in body if ch in b']}')
            if bad: violations.append(viol(c, 'pretty style: one element or member per line, nesting-proportional indentation (two blanks per level)', 'line %r is indented by %d' % (bad[0], bad[1]), '%s' % bad[2]))
        b = impl2.get('W' + c['id'])
        if b is not None and (b['result'] != 'ok' or b['stdout'] != a['stdout']):
            violations.append(viol(c, 'feeding the output back with the same options reproduces it byte for byte', repr(b['stdout'][:300]), repr(a['stdout'][:300])))
    known = []
    for k in ctx['known']:
        w = k['witness']; kc = {'id': 'k', 'cfg': lib.new_cfg(), 'args': w['args'], 'inputs': [{'data': bytes.fromhex(w['stdin_hex'])}]}
        res = lib.run_harness([kc])['k']
        try:
            got = [jsonread.loads(x) for x in rows(res['stdout'])]; ok = True
            if k['class'] == 'astral_codepoint_ascii_escape': ok = got == [jsonread.loads(bytes.fromhex(w['stdin_hex']))]
        except Exception: ok = False
        if not ok: known.append('%s %s: %s' % (k['id'], k['class'], k['what']))
    cov = {'evaluations': len(cases) + len(second), 'distinct_nontrivial': len(set((tuple(lib.cfg_args(c['cfg'])), c['inputs'][0]['data']) for c in cases)),
           'rule': 'values (strings over C0 controls, DEL, U+00E9, U+2028/9, U+FFFF, astral planes when --utf8-strings; numbers from a boundary pool and random 64-bit patterns; nested) x 3 styles x utf8 on/off x row separators; second pass feeds the output back',
           'samples': [common.describe(c) for c in cases[:2]],
           'traces_validated_against_impl': len(cases) - len(mism), 'model_mismatches': len(mism), 'direct_relations_checked': checked}
    broken = ['correspondence: model and implementation differ on %d cases, e.g. %s' % (len(mism), json.dumps(mism[0])[:1500])] if mism else []
    return {'coverage': cov, 'violations': violations, 'broken': broken, 'known': known}

def read_concatenated(b):
    """pretty rows contain line breaks: read the stream as concatenated JSON texts"""
    s = b.decode('utf8'); dec = json.JSONDecoder(parse_int=lambda x: ('num', x), parse_float=lambda x: ('num', x), parse_constant=jsonread._const, object_pairs_hook=jsonread._pairs)
    out = []; i = 0
    while True:
        while i < len(s) and s[i] in ' \t\r\n': i += 1
        if i >= len(s): break
        v, i = dec.raw_decode(s, i); out.append(jsonread.canon(v))
    return out

def strip_strings(b):
    out = bytearray(); ins = False; i = 0
    while i < len(b):
        ch = b[i]
        if ins:
            if ch == 0x5c: i += 2; continue
            if ch == 0x22: ins = False
        else:
            if ch == 0x22: ins = True
            else: out.append(ch)
        i += 1
    return bytes(out)

def viol(c, rel, obs, exp):
    d = c['inputs'][0]['data']
    return {'property': 'C02', 'relation': rel, 'args': lib.cfg_args(c['cfg']), 'stdin_hex': d.hex(), 'stdin': d.decode('utf8', 'replace')[:600], 'observed': obs, 'expected': exp}

def replay(ctx, r):
    c = {'id': 'r', 'cfg': lib.new_cfg(), 'args': r['args'], 'inputs': [{'data': bytes.fromhex(r['stdin_hex'])}]}
    res = lib.run_harness([c])['r']
    return {'observed': res['stdout'].decode('utf8', 'replace'), 'note': 'compare with the relation recorded in the replay file', 'fails': True}
