"""C12 — bindings are lexical and transparent; pipes and later selects keep their inputs."""
import json, re
import lib, gen, common, exprgen
from common import clone_cfg, mkcase, rows

ASSUMPTIONS = ['known finding K5 excluded from the main comparison: macro bodies are expanded in the context of the use site, so a macro that mentions a name sees a later rebinding of that name (dynamic scope)',
               'binder names are string literals (dynamic names cannot be substituted syntactically)']
TRUSTED = []

BODIES = ['(+ :x 1)', '(map .arr (+ . :x))', '(map .arr ^.name)', '(map .arr (set "y" . (+ :y :x)))', '(filter .arr (< . :x))', '(| .arr (map . ^^.name))',
          '(| .name (concat . :s))', '(map .arr (| . (+ . :x)))', '(fold .arr (+ (default .so_far 0) .value :x))', '(? (= :x 1) ^ .name)', '[:x]'.replace('[:x]', '(push [] :x)'),
          '(map .arr (set "x" 7 (+ :x .)))', '(set "x" 9 :x)', '(map (keys .) (concat . :s))', '(map_values .obj (+ . :x))', '(group_by .arr (? (< . :x) "lo" "hi"))',
          '(sort_by .arr (- :x .))', '(get . :s)', '(: "x")', '(map .arr (: "x"))']
VALS = {'x': ['1', '2', '10', '"v"', '[1]'], 's': ['"name"', '"arr"', '"z"']}
MACROS = ['(+ .a 1)', '.name', '(map .arr (+ . 1))', '^.name', '(size .arr)', '(| .arr (first .))', '(concat .name "!")']
MBODIES = ['@m', '(map .arr @m)', '(map .arr (| . ^ @m))', '(+ 1 (default @m 0))', '(? true @m 0)', '(@ "m")', '(push [] @m @m)', '(map .arr (define "k" 5 @m))', '(push [] (: "m") @m)', '(default (: "m") @m)', '(push [] :m @m)']
INPUT = {'name': 'N', 'a': 4, 'arr': [1, 2, 3], 'obj': {'p': 1, 'q': 2}}

def subst_var(body, name, val):
    out = body.replace('(: "%s")' % name, val)
    # stop at a shadowing (set "name" ...) : do not substitute inside its body (third argument)
    m = re.search(r'\(set "%s" ' % name, out)
    if m:
        # substitute before the shadowing form only (bodies are written so that nothing follows it that needs substitution)
        return re.sub(r':%s\b' % name, val, out[:m.start()]) + out[m.start():]
    return re.sub(r':%s\b' % name, val, out)

def run(ctx):
    rnd = ctx['rnd']; n = 6000 if ctx['tier'] == 'quick' else 30000
    cases = []; pairs = []
    data = gen.jdump(INPUT)
    for i in range(n):
        kind = rnd.choice(['set', 'set', 'preset', 'define', 'premacro', 'select_pos', 'pipe', 'pipe3', 'shadow', 'selref'])
        if kind in ('set', 'preset'):
            body = rnd.choice(BODIES); name = 's' if ':s' in body else 'x'
            val = rnd.choice(VALS[name])
            sub = subst_var(body, name, val)
            # the name itself is arbitrary text without blanks, parentheses, comma or '=': dots, '#', '-' and letters outside ASCII are part of it
            nn = rnd.choice([name, name, 'v.1', 'a#b', 'x-y', 'é', '_n', 'N2', 'v.name', 'x#0', 'index', 'value', 'key', 'so_far', 'item', 'input', 'm'])      # also names a binder might be tempted to use itself
            rbody = re.sub(r':%s\b' % name, ':' + nn, body).replace('"%s"' % name, '"%s"' % nn) if name == 'x' else body
            rn = nn if name == 'x' else name
            if kind == 'set': a = lib.new_cfg(select=['(set "%s" %s %s)=r' % (rn, val, rbody)])
            else:
                a = lib.new_cfg(set=['%s=%s' % (rn, val)], select=['%s=r' % rbody])
                # a macro of the same name lives in another namespace: defining it changes nothing for the variable
                if rnd.random() < 0.3: a['set'] = rnd.choice([a['set'] + ['@%s=(+ .a 1)' % rn], ['@%s=.name' % rn] + a['set']])
            b = lib.new_cfg(select=['%s=r' % sub])
        elif kind in ('define', 'premacro'):
            mac = rnd.choice(MACROS); body = rnd.choice(MBODIES)
            sub = body.replace('(@ "m")', mac).replace('@m', mac)
            mn = rnd.choice(['m', 'm', 'mac.1', 'm#2', 'm-x', 'µ'])
            rbody = body.replace('(@ "m")', '(@ "%s")' % mn).replace('@m', '@' + mn)
            if kind == 'define': a = lib.new_cfg(select=['(define "%s" %s %s)=r' % (mn, mac, rbody)])
            else: a = lib.new_cfg(set=['@%s=%s' % (mn, mac)], select=['%s=r' % rbody])
            b = lib.new_cfg(select=['%s=r' % sub])
        elif kind == 'select_pos':
            e = rnd.choice(['^.name', '.name', '(map .arr ^.name)', '^', '(size .arr)', '(| .arr ^.name)'])
            k = rnd.randint(0, 3); others = rnd.sample(['.a=o1', '(size .)=o2', '.arr=o3', ':zz=o4'], k)
            pos = rnd.randint(0, k)
            sels = others[:pos] + ['%s=r' % e] + others[pos:]
            split = rnd.random() < 0.5
            a = lib.new_cfg(select=sels, split='.arr' if split else None)
            b = lib.new_cfg(select=['%s=r' % e], split='.arr' if split else None)
        elif kind == 'pipe3':
            # a stage that returns its input unchanged still makes that value the parent of the next stage
            mid = rnd.choice(['.', '(filter . (> . 0))', '(default . 1)', '(? true . 0)', '(map . .)', '(take . 10)'])
            last = rnd.choice(['(size ^)', '^', '^#0', '(push [] ^ ^^)', '^^.name', '(first ^)'])
            first = rnd.choice(['.arr', '(values .obj)'])
            a = lib.new_cfg(select=['(| %s %s %s)=r' % (first, mid, last)])
            # expected: after the middle stage, ^ is the first stage's value and ^^ the original input
            sub = last.replace('^^.name', '§N').replace('^^', '§I').replace('^', first).replace('§N', '.name').replace('§I', '.')
            b = lib.new_cfg(select=['%s=r' % sub])
        elif kind == 'selref':
            # bindings are transparent for everything else an expression can see: the rows selected so far (/name/), the input, its parents
            inner = rnd.choice(['/first/', '(concat /first/ "!")', '(push [] /first/ /second/ .a)', '(map .arr (+ . (default /second/ 0)))', '(| .arr (size ^))', '(default /nosuch/ /second/)'])
            wrap = rnd.choice(['(set "x" 5 %s)', '(set "x" /first/ (push [] :x %s))'.replace('(push [] :x %s)', '%s'), '(define "m" .a %s)', '(set "x" 1 (set "y" 2 %s))', '(define "m" /first/ (set "z" 0 %s))'])
            a = lib.new_cfg(select=['.name=first', '.a=second', (wrap % inner) + '=r'])
            b = lib.new_cfg(select=['.name=first', '.a=second', inner + '=r'])
        elif kind == 'shadow':
            m1, m2 = rnd.sample(MACROS, 2)
            if rnd.random() < 0.5: a = lib.new_cfg(select=['(define "m" %s (push [] @m (define "m" %s @m) @m))=r' % (m1, m2)])
            else: a = lib.new_cfg(set=['@m=%s' % m1], select=['(push [] @m (define "m" %s @m) @m)=r' % m2])
            b = lib.new_cfg(select=['(push [] %s %s %s)=r' % (m1, m2, m1)])
        else:
            ea, eb = rnd.choice(['.arr', '.name', '.obj', '(first .arr)']), rnd.choice(['^.name', '^', '.', '(size .)', '(? true ^^ 0)', '^^.name'])
            a = lib.new_cfg(select=['(| %s %s)=r' % (ea, eb)])
            b = None
        ca = mkcase('A%d' % i, a, data); cases.append(ca)
        if b is not None:
            cb = mkcase('B%d' % i, b, data); cases.append(cb); pairs.append((kind, ca, cb))
    impl, model, mism = common.correspond(cases)
    violations = []; checked = 0
    for kind, ca, cb in pairs:
        a = impl[ca['id']]; b = impl[cb['id']]
        if a['result'] != 'ok' or b['result'] != 'ok':
            if a['result'] in ('panic', 'hang', 'abort'): violations.append(viol(ca, cb, 'run completes', a['result'], 'ok'))
            elif b['result'] == 'ok' and a['result'].startswith('err') and model.get(ca['id'], {}).get('result') == 'ok':
                violations.append(viol(ca, cb, 'the bound form is a valid configuration whenever the substituted form is (and the model accepts it)', a['result'] + ' ' + a.get('msg', '')[:200], 'ok'))
            continue
        checked += 1
        ra = [json.loads(r).get('r', '<nothing>') for r in rows(a['stdout'])]; rb = [json.loads(r).get('r', '<nothing>') for r in rows(b['stdout'])]
        if ra != rb:
            rel = {'set': '(set n v e) evaluates e as if every :n in scope were replaced by v', 'preset': '--set n=v evaluates e as if every :n were replaced by v',
                   'define': '(define n m e) evaluates e as if every @n in scope were replaced by the macro body', 'premacro': '--set @n=m evaluates e as if every @n were replaced by the macro body',
                   'select_pos': 'every --select sees the same input and parents as the first one', 'pipe3': '(| a b c): c sees b\'s value as input and a\'s value as its parent, also when b returns its input unchanged',
                   'shadow': 'an inner (define n ..) shadows an outer binding of n inside its body only',
                   'selref': 'a binding that is not used changes nothing: the body sees the same selected rows (/name/), input and parents'}[kind]
            violations.append(viol(ca, cb, rel, json.dumps(ra)[:400], json.dumps(rb)[:400]))
    known = []
    for k in ctx['known']:
        w = k['witness']; kc = {'id': 'k', 'cfg': lib.new_cfg(), 'args': w['args'], 'inputs': [{'data': bytes.fromhex(w['stdin_hex'])}]}
        res = lib.run_harness([kc])['k']
        try: r = json.loads(rows(res['stdout'])[0]).get('x')
        except Exception: r = None
        if r != w.get('lexical_result'): known.append('%s %s: %s' % (k['id'], k['class'], k['what']))
    cov = {'evaluations': len(cases), 'distinct_nontrivial': len(set(tuple(lib.cfg_args(c['cfg'])) for c in cases)),
           'rule': 'paired runs (bound, textually substituted) for (set ..), --set n=v, (define ..), --set @n=m over bodies that use :n/@n under map, filter, fold, pipe, group_by, sort_by, with ^ and ^^, nested and shadowing binders; an expression at every position among 1..4 --select options with and without --split-by; pipes',
           'samples': [common.describe(c) for c in cases[:3]],
           'traces_validated_against_impl': len(cases) - len(mism), 'model_mismatches': len(mism), 'direct_relations_checked': checked}
    broken = ['correspondence: model and implementation differ on %d cases, e.g. %s' % (len(mism), json.dumps(mism[0])[:1500])] if mism else []
    return {'coverage': cov, 'violations': violations, 'broken': broken, 'known': known}

def viol(ca, cb, rel, obs, exp):
    d = ca['inputs'][0]['data']
    return {'property': 'C12', 'relation': rel, 'args': lib.cfg_args(ca['cfg']), 'args_substituted': lib.cfg_args(cb['cfg']), 'stdin_hex': d.hex(), 'stdin': d.decode('utf8', 'replace'), 'observed': obs, 'expected': exp}

def replay(ctx, r):
    d = bytes.fromhex(r['stdin_hex'])
    cs = [{'id': 'a', 'cfg': lib.new_cfg(), 'args': r['args'], 'inputs': [{'data': d}]}, {'id': 'b', 'cfg': lib.new_cfg(), 'args': r['args_substituted'], 'inputs': [{'data': d}]}]
    res = lib.run_harness(cs)
    return {'observed': res['a']['stdout'].decode('utf8', 'replace')[:300], 'expected': res['b']['stdout'].decode('utf8', 'replace')[:300], 'fails': res['a']['stdout'] != res['b']['stdout']}
