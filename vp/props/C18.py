"""C18 — invalid configurations are rejected before any input is read or output written."""
import json
import lib, gen, common
from common import clone_cfg, mkcase, rows

ASSUMPTIONS = ['faults that clap itself rejects (unknown option, non-numeric --take) are outside the model and not generated']
TRUSTED = []

def corrupt_expr(rnd, e):
    k = rnd.choice(['trunc', 'unbalanced', 'unknown', 'arity-', 'arity+', 'trailing', 'empty', 'dotdot', 'dotname', 'dangling', 'dotarity'])
    if k == 'dotarity': return rnd.choice(['(.size 1)', '(.get "a" 1)', '(.now)', '(.take 1 2)', '(.keys .)', '(.? 1 2 3)']), k       # the dot spelling supplies the first argument: one written argument too many is an arity error
    if k == 'dangling': return rnd.choice(['.a.', '.arr#', '.a.b.', '(= .a. "x")', '(size .arr#)', '.a..b', '.#', '^.']), k      # a path that ends in (or doubles) its separator names no key / index
    if k == 'dotdot': return rnd.choice(['(..size)', '(..take 1)', '(...keys)', '(..get "a")']), k           # the dot sugar takes ONE dot: `..size` is the unknown function `.size`
    if k == 'dotname': return '(.no_such_function %s)' % e, k
    if k == 'trunc' and len(e) > 2 and e.startswith('('): return e[:rnd.randint(1, len(e) - 1)].rstrip(')') , k
    if k == 'unbalanced': return '(' + e, k
    if k == 'unknown': return '(no_such_function %s)' % e, k
    if k == 'arity-': return '(size)', k
    if k == 'arity+': return '(size %s %s)' % (e, e), k
    if k == 'trailing': return e + ' junk', k
    return '', 'empty'

def run(ctx):
    rnd = ctx['rnd']; n = 4000 if ctx['tier'] == 'quick' else 20000
    cases = []; meta = {}
    data = gen.stream(gen.records(rnd, 5)) or b'{"a":1}'
    for i in range(n):
        cfg = gen.pipeline_cfg(rnd)
        cfg['style'] = rnd.choice(['json', 'json', 'csv', 'text'])
        if cfg['style'] == 'csv' and (not cfg['select'] or cfg['group'] is not None):
            cfg['select'] = cfg['select'] or ['.a']; cfg['group'] = None
        valid = mkcase('V%d' % i, cfg, data); cases.append(valid); meta[valid['id']] = ('valid', None)
        c2 = clone_cfg(cfg)
        pos = rnd.choice(['select', 'filter', 'split', 'group', 'sort', 'set', 'direction', 'set_noeq', 'set_dup', 'style_json', 'style_text', 'csv_nosel', 'csv_group'])
        fault = pos
        if pos == 'select': e, fault = corrupt_expr(rnd, rnd.choice(gen.SELECTS).split('=')[0]); c2['select'] = c2['select'] + [e]; fault = 'select:' + fault
        elif pos == 'filter': e, fault = corrupt_expr(rnd, rnd.choice(gen.FILTERS)); c2['filter'] = e; fault = 'filter:' + fault
        elif pos == 'split': e, fault = corrupt_expr(rnd, '.arr'); c2['split'] = e; fault = 'split:' + fault
        elif pos == 'group': e, fault = corrupt_expr(rnd, '.k'); c2['group'] = e; fault = 'group:' + fault; c2['style'] = 'json' if c2['style'] == 'csv' else c2['style']
        elif pos == 'sort': e, fault = corrupt_expr(rnd, '.a'); c2['sort'] = c2['sort'] + [e]; fault = 'sort:' + fault
        elif pos == 'set': e, fault = corrupt_expr(rnd, '(size "x")'); c2['set'] = c2['set'] + ['zz=' + e]; fault = 'set:' + fault
        elif pos == 'direction': c2['sort'] = c2['sort'] + ['.b=' + rnd.choice(['up', 'descending', 'a sc', 'DESC x'])]
        elif pos == 'set_noeq': c2['set'] = c2['set'] + ['novalue']
        elif pos == 'set_dup': c2['set'] = [s for s in c2['set'] if not s.startswith('x=')] + ['x=1', 'x=2']
        elif pos == 'style_json': c2['style'] = rnd.choice(['csv', 'text']); c2['json_opts'] = ('pretty', False); c2['select'] = c2['select'] or ['.a']; c2['group'] = None
        elif pos == 'style_text':
            # one, two or three options that belong to the text style, given with another style
            allo = [('items_sep', ';'), ('prefix', '<'), ('postfix', '>'), ('null', 'NIL'), ('true', 'yes'), ('false', 'no'), ('missing', 'NA'), ('headers', True), ('escape', ['ab'])]
            c2['style'] = rnd.choice(['json', 'csv']); c2['text_opts'] = dict(rnd.sample(allo, rnd.choice([1, 1, 2, 3]))); c2['select'] = c2['select'] or ['.a']; c2['group'] = None
        elif pos == 'csv_nosel': c2['style'] = 'csv'; c2['select'] = []; c2['set'] = []; c2['group'] = None
        elif pos == 'csv_group': c2['style'] = 'csv'; c2['select'] = c2['select'] or ['.a']; c2['group'] = rnd.choice(['.k', True])
        bad = mkcase('B%d' % i, c2, data); cases.append(bad); meta[bad['id']] = ('bad', fault)
    def proj(c, r, side):
        # bytes pulled are compared for rejected configurations only (must be none); how far a valid run reads ahead is C14's business
        pulled = (r['pulled'] if side == 'impl' else sum(r['pulled'])) if lib.kind(r).startswith('err') else None
        return (lib.kind(r), r['stdout'], r['stdin_opened'], pulled)
    impl, model, mism = common.correspond(cases, proj)
    violations = []; checked = 0; faults = {}
    for c in cases:
        a = impl[c['id']]; kind, fault = meta[c['id']]
        if kind == 'bad':
            faults[fault] = faults.get(fault, 0) + 1
            m = model.get(c['id'])
            # the corruption happened to be valid (e.g. truncation to a valid prefix): not a C18 case. Validity is judged by the
            # model's reader (proved to accept every spelling of every expression and tied to the registry by Gen.FnTable), not by the
            # implementation under test: an invalid configuration that the implementation accepts is a violation
            if a['result'] == 'cli' or (a['result'] == 'ok' and (m is None or lib.kind(m) == 'ok')): continue
            checked += 1
            if not a['result'].startswith('err:') or a['stdout'] or a['stdin_opened'] or a['pulled']:
                violations.append({'property': 'C18', 'relation': 'an invalid configuration is reported before any input is read and before anything is written',
                                   'fault': fault, 'args': lib.cfg_args(c['cfg']), 'stdin_hex': data.hex(),
                                   'observed': {'result': a['result'], 'stdout': a['stdout'].decode('utf8', 'replace')[:200], 'stdin_opened': a['stdin_opened'], 'pulled': a['pulled']},
                                   'expected': {'result': 'err:*', 'stdout': '', 'stdin_opened': 0, 'pulled': 0}})
    cov = {'evaluations': len(cases), 'distinct_nontrivial': len(set(tuple(lib.cfg_args(c['cfg'])) for c in cases if meta[c['id']][0] == 'bad')),
           'rule': 'valid generated configurations and single-fault corruptions (truncation, unbalanced parenthesis, unknown name, arity -1/+1, trailing text, empty, bad direction, missing =, duplicate --set, options foreign to the style, csv without selections / with grouping) in every option position x styles, on a non-empty input',
           'samples': [common.describe(c) for c in cases[:4] if meta[c['id']][0] == 'bad'][:2], 'fault_kinds': faults,
           'traces_validated_against_impl': len(cases) - len(mism), 'model_mismatches': len(mism), 'direct_relations_checked': checked}
    broken = ['correspondence: model and implementation differ on %d cases, e.g. %s' % (len(mism), json.dumps(mism[0])[:1500])] if mism else []
    return {'coverage': cov, 'violations': violations, 'broken': broken}

def replay(ctx, r):
    c = {'id': 'r', 'cfg': lib.new_cfg(), 'args': r['args'], 'inputs': [{'data': bytes.fromhex(r['stdin_hex'])}]}
    a = lib.run_harness([c])['r']
    obs = {'result': a['result'], 'stdout': a['stdout'].decode('utf8', 'replace')[:200], 'stdin_opened': a['stdin_opened'], 'pulled': a['pulled']}
    return {'observed': obs, 'fails': not a['result'].startswith('err:') or bool(a['stdout']) or bool(a['stdin_opened']) or bool(a['pulled'])}
