"""C08 — --skip S --take T pick exactly rows S..S+T-1 of the unlimited result."""
import json, itertools
import lib, gen, common
from common import clone_cfg, mkcase, rows

ASSUMPTIONS = ['expressions in the generated configurations use only functions present in the Coq evaluator',
               'clap option syntax is outside the model (args are built as --opt=value)']
TRUSTED = ['std BTreeMap iterates in key order; VecDeque push_front/pop_back/pop_front (modelled as lists)']

def gen_cases(ctx):
    rnd = ctx['rnd']; tier = ctx['tier']
    n = 2000 if tier == 'quick' else 8000
    triples = []
    for i in range(n):
        cfg = gen.pipeline_cfg(rnd, want_limit=True)
        vals = gen.records(rnd, 40 if rnd.random() < 0.2 else 12)
        # many ties straddling the cap
        if cfg['sort'] and rnd.random() < 0.5:
            vals = [dict(v, a=rnd.choice([1, 1, 2])) if isinstance(v, dict) else v for v in vals]
        data = gen.stream(vals, rnd)
        triples.append((cfg, data))
    if tier == 'thorough':
        # exhaustive: all streams of length <= 5 over 4 keys x S 0..3 x T {None,0..3} x {0,1,2} sort keys x {none,group,merge}
        keys = [1, 2, 2, 'x']
        for L in range(0, 6):
            for ks in itertools.product(range(3), repeat=L):
                vals = [{'a': [1, 2, 'x'][k], 'b': i % 2, 'k': 'g%d' % (i % 2)} for i, k in enumerate(ks)]
                data = gen.stream(vals)
                for S, T in ((0, 1), (1, 2), (0, 0), (2, None), (1, 1)):
                    for sort in ([], ['.a'], ['.a=desc'], ['.b', '.a']):
                        for grp in (None, '.k', True):
                            triples.append((lib.new_cfg(sort=sort, skip=S, take=T, group=grp), data))
    return triples

def run(ctx):
    triples = gen_cases(ctx)
    cases = []
    for i, (cfg, data) in enumerate(triples):
        cases.append(mkcase('L%d' % i, cfg, data))                                    # as given
        cases.append(mkcase('U%d' % i, clone_cfg(cfg, skip=0, take=None), data))      # without skip/take
        if cfg['group'] is not None:
            cases.append(mkcase('N%d' % i, clone_cfg(cfg, group=None), data))         # limit, no group
            cases.append(mkcase('B%d' % i, clone_cfg(cfg, group=None, skip=0, take=None), data))
    impl, model, mism = common.correspond(cases)
    violations = []
    checked = 0
    for i, (cfg, data) in enumerate(triples):
        S, T = cfg['skip'], cfg['take']
        if cfg['group'] is None:
            L = impl['L%d' % i]; U = impl['U%d' % i]
        else:
            L = impl['N%d' % i]; U = impl['B%d' % i]
        if L['result'] != 'ok' or U['result'] != 'ok':
            if L['result'] in ('panic', 'hang', 'abort') :
                violations.append({'property': 'C08', 'relation': 'run failed', 'case': common.describe(cases[0]), 'observed': L['result']})
            continue
        ru = rows(U['stdout']); rl = rows(L['stdout'])
        exp = ru[S:] if T is None else ru[S:S+T]
        checked += 1
        if rl != exp:
            violations.append({'property': 'C08', 'relation': 'rows(with skip/take) == rows(without)[S:S+T]',
                               'args': lib.cfg_args(clone_cfg(cfg, group=None)), 'stdin_hex': data.hex(), 'stdin': data.decode('utf8', 'replace'),
                               'observed': [r.decode('utf8', 'replace') for r in rl], 'expected': [r.decode('utf8', 'replace') for r in exp]})
        if cfg['group'] is not None:
            G = impl['L%d' % i]
            # the collection is still emitted: exactly one row
            if G['result'] == 'ok' and len(rows(G['stdout'])) != 1:
                violations.append({'property': 'C08', 'relation': 'group/merge with skip/take emits exactly one collection',
                                   'args': lib.cfg_args(cfg), 'stdin_hex': data.hex(), 'stdin': data.decode('utf8', 'replace'),
                                   'observed': [r.decode('utf8', 'replace') for r in rows(G['stdout'])]})
            elif G['result'] == 'ok' and cfg['group'] is True:
                got = json.loads(rows(G['stdout'])[0]); exp_rows = [json.loads(r) for r in exp]
                if got != exp_rows:
                    violations.append({'property': 'C08', 'relation': 'merge holds exactly the retained rows',
                                       'args': lib.cfg_args(cfg), 'stdin_hex': data.hex(), 'stdin': data.decode('utf8', 'replace'),
                                       'observed': got, 'expected': exp_rows})
    cov = {'evaluations': len(cases), 'distinct_nontrivial': common.nontrivial_count(cases, impl),
           'rule': 'seeded pipeline configurations with --skip/--take (+ the same without them, and without group); distinct = distinct (args, input); non-trivial = produced output',
           'samples': [common.describe(c) for c in cases[:3]],
           'traces_validated_against_impl': len(cases) - len(mism), 'model_mismatches': len(mism),
           'direct_relations_checked': checked, 'exhaustive': ctx['tier'] == 'thorough'}
    broken = ['correspondence: model and implementation differ on %d cases, e.g. %s' % (len(mism), json.dumps(mism[0])[:1500])] if mism else []
    return {'coverage': cov, 'violations': violations, 'broken': broken}

def replay(ctx, r):
    cfgargs = r['args']; data = bytes.fromhex(r['stdin_hex'])
    c = {'id': 'r', 'cfg': lib.new_cfg(), 'args': cfgargs, 'inputs': [{'data': data}]}
    res = lib.run_harness([c])['r']
    obs = [x.decode('utf8', 'replace') for x in rows(res['stdout'])]
    return {'observed': obs, 'expected': r.get('expected'), 'fails': obs != r.get('expected')}
