"""C14 — --take stops reading: jawk terminates on unbounded input when it can."""
import json, os, subprocess, threading, time
import lib, gen, common
from common import clone_cfg, mkcase, rows

ASSUMPTIONS = ['stdin is delivered by an unbuffered instrumented reader, so bytes pulled are counted exactly; BufReader read-ahead for files is outside the model: for file arguments the bound is the stdin count plus 2 MiB (pipe capacity + read-ahead)',
               'an unbounded stream is represented by every finite prefix: the endless tail repeats one qualifying value']
TRUSTED = ['std::io::Bytes pulls one byte per call from an unbuffered reader']

REPS = 60
READ_AHEAD = 64 * 1024 + 4096      # the largest read-ahead accepted as "a bounded number of bytes": a 64 KiB buffer plus one delivery
NEEDS_BIN = True
FILE_CAP = 24 * 1024 * 1024        # the writer gives up after this many bytes: the reader is then unbounded
FILE_SLACK = 2 * 1024 * 1024       # pipe capacity (<= 1 MiB) + BufReader read-ahead + margin

def run_fifo(args, prefix, unit, timeout=40, cap=None):
    """the real binary reading a named pipe given as a FILE argument; an endless writer on the other side.
    Returns (exit status or 'hang', stdout, bytes the writer got rid of before the reader went away)"""
    d = os.path.join(lib.BUILD, 'tmp', 'fifo%d_%d' % (os.getpid(), threading.get_ident())); os.makedirs(d, exist_ok=True)
    path = os.path.join(d, 'in.json'); os.mkfifo(path)
    written = [0]; stop = [False]; cap = cap or FILE_CAP
    def writer():
        try:
            fd = os.open(path, os.O_WRONLY)
        except OSError: return
        try:
            buf = prefix
            block = unit * max(1, 65536 // max(1, len(unit)))
            while not stop[0] and written[0] < cap:
                n = os.write(fd, buf[:65536]); written[0] += n; buf = buf[n:] or block
        except OSError: pass             # EPIPE: the reader closed the file
        finally:
            try: os.close(fd)
            except OSError: pass
    p = subprocess.Popen([lib.JAWK_BIN] + args + ['--', path], stdin=subprocess.DEVNULL, stdout=subprocess.PIPE, stderr=subprocess.PIPE)
    t = threading.Thread(target=writer); t.start()
    try:
        so, se = p.communicate(timeout=timeout); rc = p.returncode
    except subprocess.TimeoutExpired:
        p.kill(); so, se = p.communicate(); rc = 'hang'
    stop[0] = True
    try:                                  # unblock a writer still waiting in open()
        fd = os.open(path, os.O_RDONLY | os.O_NONBLOCK); os.close(fd)
    except OSError: pass
    t.join(5)
    try: os.unlink(path); os.rmdir(d)
    except OSError: pass
    return rc, so, written[0]

def run(ctx):
    rnd = ctx['rnd']; n = 800 if ctx['tier'] == 'quick' else 2000
    cases = []
    for i in range(n):
        cfg = gen.pipeline_cfg(rnd, want_limit=True, streaming=True)
        cfg['take'] = rnd.choice([0, 1, 2, 3, 5]); cfg['skip'] = rnd.choice([0, 0, 1, 3])
        vals = gen.records(rnd, 12)
        unit = gen.record(rnd); unit.update({'a': 1, 'k': 'y', 'arr': [{'a': 1, 'k': 'x'}, {'a': 2, 'k': 'x'}], 'flag': True})
        data = gen.stream(vals, rnd) + rnd.choice([b'\n', b' ', b'\t'])
        ub = gen.jdump(unit) + rnd.choice([b'\n', b'\n', b' ', b'\t', b'', b'\r\n', b'  '])      # the stream need not be line oriented
        c = mkcase('E%d' % i, cfg, data)
        c['inputs'][0]['endless'] = ub; c['inputs'][0]['budget'] = 400000; c['inputs'][0]['model_tail'] = ub * REPS
        cases.append(c)
    impl = lib.run_harness(cases, timeout=240)
    model = lib.run_model(cases)
    mism = []; violations = []; checked = 0; qualifying = 0
    for c in cases:
        a = impl[c['id']]; b = model.get(c['id'])
        if b is None: mism.append({'case': common.describe(c), 'why': 'no model result'}); continue
        total = len(c['inputs'][0]['data']) + len(c['inputs'][0]['model_tail'])
        model_stopped = b['pulled'] and b['pulled'][0] < total
        if not model_stopped:
            continue          # the pipeline cannot emit T rows from this stream (e.g. --unique over a repeating tail)
        qualifying += 1
        # the implementation must stop, without exhausting the byte budget
        if a['result'] in ('hang', 'abort', 'panic') or a['budget_hit']:
            violations.append({'property': 'C14', 'relation': 'terminates on unbounded input after T rows, reading a bounded number of bytes',
                               'args': lib.cfg_args(c['cfg']), 'stdin_hex': c['inputs'][0]['data'].hex(), 'endless_hex': c['inputs'][0]['endless'].hex(),
                               'observed': {'result': a['result'], 'pulled': a['pulled'], 'budget_hit': a['budget_hit']},
                               'expected': {'pulled': b['pulled'][0]}})
            continue
        checked += 1
        # the property allows a bounded read-ahead (the model reads none: one byte of lookahead): the rows must be the model's, the
        # bytes pulled at least the model's and at most READ_AHEAD more (an internal buffer in front of stdin is not a violation)
        if (lib.kind(a), a['stdout']) != (lib.kind(b), b['stdout']) or not (b['pulled'][0] <= a['pulled'] <= b['pulled'][0] + READ_AHEAD):
            mism.append({'case': common.describe(c), 'impl': repr((lib.kind(a), a['stdout'][:200], a['pulled'])), 'model': repr((lib.kind(b), b['stdout'][:200], b['pulled'])), 'why': 'projection differs'})
            if a['pulled'] > b['pulled'][0] + READ_AHEAD:
                violations.append({'property': 'C14', 'relation': 'bytes read past the value that produced the T-th row are bounded',
                                   'args': lib.cfg_args(c['cfg']), 'stdin_hex': c['inputs'][0]['data'].hex(), 'endless_hex': c['inputs'][0]['endless'].hex(),
                                   'observed': {'pulled': a['pulled']}, 'expected': {'pulled': b['pulled'][0]}})
    # the same through a FILE argument (a named pipe with an endless writer), on the real binary
    nf = 6 if ctx['tier'] == 'quick' else 40
    fifo_cases = [c for c in cases if model.get(c['id']) and model[c['id']]['pulled'] and model[c['id']]['pulled'][0] < len(c['inputs'][0]['data']) + len(c['inputs'][0]['model_tail'])
                  and impl[c['id']]['result'] == 'ok'][:nf]
    fifo_checked = 0
    def one(c):
        return run_fifo(lib.cfg_args(c['cfg']), c['inputs'][0]['data'], c['inputs'][0]['endless'])
    res = {}
    ths = [threading.Thread(target=lambda c=c: res.__setitem__(c['id'], one(c))) for c in fifo_cases]
    for t in ths: t.start()
    for t in ths: t.join()
    for c in fifo_cases:
        rc, so, written = res[c['id']]; a = impl[c['id']]; fifo_checked += 1
        bound = a['pulled'] + FILE_SLACK
        if rc == 'hang' or written > bound or rc != 0 or so != a['stdout']:
            violations.append({'property': 'C14', 'relation': 'file argument: terminates on an unbounded file (named pipe) after T rows with the rows of the stdin run, reading a bounded number of bytes',
                               'args': lib.cfg_args(c['cfg']), 'stdin_hex': c['inputs'][0]['data'].hex(), 'endless_hex': c['inputs'][0]['endless'].hex(), 'input': 'fifo',
                               'observed': {'exit': rc, 'bytes_taken_from_the_writer': written, 'stdout_equal_to_stdin_run': so == a['stdout']},
                               'expected': {'pulled': a['pulled'], 'bytes_taken_from_the_writer_at_most': bound}})
    cov = {'evaluations': len(cases) + fifo_checked, 'file_argument_runs': fifo_checked, 'distinct_nontrivial': qualifying,
           'rule': 'streaming pipelines (set/split/filter/select/unique/only-objects) with T in {0,1,2,3,5}, S in {0,1,3}; input = generated prefix + endless repetition of a qualifying record through an instrumented stdin reader with a 400 kB budget, and for a few of them the real binary reading a named pipe given as a file argument from an endless writer; non-trivial = the model predicts the pipeline can emit T rows',
           'samples': [common.describe(c) for c in cases[:2]],
           'traces_validated_against_impl': checked - len(mism), 'model_mismatches': len(mism), 'direct_relations_checked': checked}
    broken = ['correspondence: model and implementation differ on %d cases, e.g. %s' % (len(mism), json.dumps(mism[0])[:1500])] if mism else []
    return {'coverage': cov, 'violations': violations, 'broken': broken, 'known': known_k6(ctx)}

def known_k6(ctx):
    """K6: the T-th row comes from the first file argument; the second one (a named pipe fed with values the filter rejects) must not be
    consumed any more.  The unchanged tree reads it until the writer gives up: reported as the known finding, not as a violation."""
    out = []
    for k in ctx['known']:
        if k['id'] != 'K6': continue
        d = os.path.join(lib.BUILD, 'tmp', 'k6_%d' % os.getpid()); os.makedirs(d, exist_ok=True)
        f1 = os.path.join(d, 'first.json'); open(f1, 'wb').write(b'{"a":1}\n')
        rc, so, written = run_fifo(k['witness']['args'] + [f1], b'', b'{"a":0}\n', timeout=60, cap=4 * 1024 * 1024)
        try: os.unlink(f1); os.rmdir(d)
        except OSError: pass
        if so.strip() == b'{"a": 1}' and (rc == 'hang' or written > FILE_SLACK):
            out.append('%s %s: %s (the writer of the second file got rid of %d bytes after the only row had been written)' % (k['id'], k['class'], k['what'], written))
    return out

def replay(ctx, r):
    if r.get('input') == 'fifo':
        rc, so, written = run_fifo(r['args'], bytes.fromhex(r['stdin_hex']), bytes.fromhex(r['endless_hex']))
        return {'observed': {'exit': rc, 'bytes_taken_from_the_writer': written}, 'expected': r['expected'],
                'fails': rc == 'hang' or rc != 0 or written > r['expected']['bytes_taken_from_the_writer_at_most']}
    c = {'id': 'r', 'cfg': lib.new_cfg(), 'args': r['args'], 'inputs': [{'data': bytes.fromhex(r['stdin_hex']), 'endless': bytes.fromhex(r['endless_hex']), 'budget': 400000}]}
    res = lib.run_harness([c], timeout=60)['r']
    fails = res['result'] in ('hang', 'abort', 'panic') or res['budget_hit'] or res['pulled'] > r['expected']['pulled'] + READ_AHEAD
    return {'observed': {'result': res['result'], 'pulled': res['pulled'], 'budget_hit': res['budget_hit']}, 'expected': r['expected'], 'fails': fails}
