"""C16 — read and write failures stop the run with an error, never a panic or silent loss."""
import json
import lib, gen, common
from common import clone_cfg, mkcase, rows

ASSUMPTIONS = ['the failing reader returns any number of Interrupted results and short reads before the failure; the failing writer accepts a byte budget and then fails',
               'std::io::Bytes retrying Interrupted, and write! -> write_all, are std behaviour exercised (not modelled) by the harness']
TRUSTED = ['std::io::Bytes, write_all']

def run(ctx):
    rnd = ctx['rnd']; n = 45 if ctx['tier'] == 'quick' else 300
    cases = []; meta = {}
    for i in range(n):
        cfg0 = gen.pipeline_cfg(rnd, want_limit=False); cfg0['skip'] = 0; cfg0['take'] = None
        vals = gen.records(rnd, 6)
        if rnd.random() < 0.3: vals.insert(rnd.randint(0, len(vals)), 'NOISE')
        data = gen.stream(vals, rnd).replace(b'"NOISE"', b'} x')
        offs = list(range(0, len(data) + 1)) if len(data) <= 200 else sorted(rnd.sample(range(len(data) + 1), 200))
        if ctx['tier'] == 'quick' and len(offs) > 40: offs = sorted(rnd.sample(offs, 40))
        pol = rnd.choice(['ignore', 'stdout', 'stderr', 'panic'])
        cfg = clone_cfg(cfg0, on_error=pol)
        base = mkcase('F%d' % i, cfg, data); cases.append(base); meta[base['id']] = ('free', cfg, data, None)
        for o in offs:
            c = mkcase('R%d_%d' % (i, o), cfg, data)
            c['inputs'][0]['fail_at'] = o; c['inputs'][0]['interrupts'] = rnd.choice([0, 0, 1, 3])
            # whatever the kind of the error: only Interrupted is retried, every other kind is a failed read
            c['inputs'][0]['fail_kind'] = rnd.choice(['other', 'other', 'wouldblock', 'timedout', 'brokenpipe', 'unexpectedeof', 'connectionreset', 'invaliddata'])
            # half of the failures are reported once only: the reads after it see the end of the input (the error must not be forgotten)
            if rnd.random() < 0.5: c['inputs'][0]['fail_once'] = True
            c['inputs'][0]['chunking'] = [rnd.randint(1, 7) for _ in range(40)]
            cases.append(c); meta[c['id']] = ('read', cfg, data, o)
    # write failures inside the last record admitted by --take (the limiter must not drop the error)
    for i in range(n):
        cfg = gen.pipeline_cfg(rnd, want_limit=True, allow_group=rnd.random() < 0.3); cfg['take'] = rnd.choice([1, 2, 3]); cfg['on_error'] = 'ignore'
        vals = [gen.record(rnd) for _ in range(6)]
        c = mkcase('F%d' % (n + i), cfg, gen.stream(vals, rnd)); cases.append(c); meta[c['id']] = ('free', cfg, c['inputs'][0]['data'], None)
    def proj(c, r, side):
        out = r['stdout']; err = r['stderr']
        if side == 'impl': out = lib.canon_errlines(out); err = lib.canon_errlines(err)
        return (lib.kind(r), out, err)
    impl, model, mism = common.correspond(cases, proj)
    # write failures: every offset of the fault-free output
    wcases = []
    for c in list(cases):
        kind, cfg, data, o = meta[c['id']]
        if kind != 'free' or cfg['on_error'] == 'stdout': continue     # error lines on stdout have model-abstract lengths
        out = impl[c['id']]['stdout']
        offs = list(range(0, len(out))) if len(out) <= 120 else sorted(rnd.sample(range(len(out)), 120))
        if ctx['tier'] == 'quick' and len(offs) > 30: offs = sorted(rnd.sample(offs, 30))
        for w in offs:
            wc = mkcase('W%s_%d' % (c['id'], w), cfg, data); wc['out_room'] = w
            wc['out_fail_kind'] = rnd.choice(['other', 'brokenpipe', 'brokenpipe', 'wouldblock', 'storagefull', 'connectionreset'])      # every kind of failed write fails the run
            wcases.append(wc); meta[wc['id']] = ('write', cfg, data, w)
    impl2, model2, mism2 = common.correspond(wcases, proj)
    mism += mism2; impl.update(impl2)
    violations = []; checked = 0
    free = {c['id']: impl[c['id']] for c in cases if meta[c['id']][0] == 'free'}
    for c in cases + wcases:
        kind, cfg, data, o = meta[c['id']]
        a = impl[c['id']]
        if kind == 'free': continue
        base = free['F' + c['id'].split('_')[0][1:]] if kind == 'read' else free[c['id'][1:].rsplit('_', 1)[0]]
        checked += 1
        if a['result'] in ('panic', 'hang', 'abort'):
            violations.append(viol(cfg, data, kind, o, 'the failure is reported as an error, never a panic', a['result'] + ' ' + a['msg'], 'err:io')); continue
        if kind == 'read':
            # never mistaken for end of input, never skipped: the run cannot succeed
            if a['result'] == 'ok':
                violations.append(viol(cfg, data, kind, o, 'a read error is not end of input and is not skipped like a malformed value', 'ok', 'err:io', c['inputs'][0].get('fail_kind'))); continue
            if a['result'] != 'err:io' and not (cfg['on_error'] == 'panic' and a['result'] == 'err:json'):
                violations.append(viol(cfg, data, kind, o, 'a read error stops the run with an I/O error', a['result'], 'err:io', c['inputs'][0].get('fail_kind'))); continue
            if not cfg['sort'] and cfg['group'] is None and not lib.canon_errlines(base['stdout']).startswith(lib.canon_errlines(a['stdout'])):
                violations.append(viol(cfg, data, kind, o, 'streaming: what reached the output before the failure is a prefix of the fault-free output', a['stdout'].decode('utf8', 'replace')[:300], base['stdout'].decode('utf8', 'replace')[:300]))
        else:
            if a['result'] != 'err:io':
                violations.append(viol(cfg, data, kind, o, 'a write failure stops the run with an I/O error', a['result'], 'err:io')); continue
            if a['stdout'] != base['stdout'][:o]:
                violations.append(viol(cfg, data, kind, o, 'what reached the output before the write failure is a prefix of the fault-free output', a['stdout'].decode('utf8', 'replace')[:300], base['stdout'][:o].decode('utf8', 'replace')[:300]))
    # a writer that accepts fewer bytes than it is offered (pipes and terminals do): nothing may be lost or repeated
    pcases = []
    for c in list(cases):
        kind, cfg, data, o = meta[c['id']]
        if kind != 'free': continue
        for k in (1, 7):
            pc = mkcase('P%s_%d' % (c['id'], k), cfg, data); pc['out_chunk'] = k; pcases.append(pc)
    pimpl = lib.run_harness(pcases)
    for pc in pcases:
        base = impl[pc['id'][1:].rsplit('_', 1)[0]]; a = pimpl[pc['id']]; checked += 1
        if (a['result'], a['stdout'], a['stderr']) != (base['result'], base['stdout'], base['stderr']):
            v = viol(pc['cfg'], pc['inputs'][0]['data'], 'write', pc['out_chunk'], 'a writer that accepts at most %d bytes per call receives the same bytes (partial writes are completed, nothing lost or repeated)' % pc['out_chunk'],
                     a['result'] + ' ' + a['stdout'].decode('utf8', 'replace')[:300], base['result'] + ' ' + base['stdout'].decode('utf8', 'replace')[:300])
            v['partial_writes'] = pc['out_chunk']; violations.append(v)
    # a FILE argument that fails on read (a symbolic link to /proc/self/mem: the first read returns EIO), named directly or
    # found inside a directory argument, between two good files: the run stops with an error under every policy
    fcases = []
    probe = lib.sh('head -c1 /proc/self/mem >/dev/null 2>&1; echo rc=$?')[1]
    file_faults = 'rc=1' in probe
    if file_faults:
        for pol in ('ignore', 'stdout', 'stderr', 'panic'):
            for dirmode in (False, True):
                fcases.append({'id': 'L%s%d' % (pol, dirmode), 'cfg': lib.new_cfg(on_error=pol), 'files': True, 'dir': dirmode,
                               'inputs': [{'data': b'1 2\n', 'name': 'a_first.json'}], 'links': [['b_bad.json', '/proc/self/mem']]})
        fimpl = lib.run_harness(fcases)
        for c in fcases:
            a = fimpl[c['id']]; checked += 1
            if a['result'] in ('ok', 'panic', 'hang', 'abort') or not a['result'].startswith('err:'):
                v = viol(c['cfg'], b'', 'read', 0, 'a file argument that fails on read (%s) stops the run with an error under every policy' % ('inside a directory' if c['dir'] else 'named directly'),
                         a['result'] + ' ' + a['stdout'].decode('utf8', 'replace')[:200], 'err:io')
                v['file_fault'] = {'dir': c['dir']}; violations.append(v)
    allc = cases + wcases + fcases
    cov = {'evaluations': len(allc), 'failing_file_runs': len(fcases), 'distinct_nontrivial': len(set((tuple(lib.cfg_args(meta[c['id']][1])), meta[c['id']][2], meta[c['id']][0], meta[c['id']][3]) for c in cases + wcases)) + len(fcases),
           'rule': 'generated inputs (some with a malformed region) x every byte offset (sampled above 200) for a failing read after random Interrupted results and short reads x every byte offset of the fault-free output for a failing write x --on-error policies x streaming and buffering pipelines',
           'samples': [common.describe(c) for c in cases[1:3]],
           'traces_validated_against_impl': len(cases + wcases) - len(mism), 'model_mismatches': len(mism), 'direct_relations_checked': checked}
    broken = ['correspondence: model and implementation differ on %d cases, e.g. %s' % (len(mism), json.dumps(mism[0])[:1500])] if mism else []
    return {'coverage': cov, 'violations': violations, 'broken': broken}

def viol(cfg, data, kind, o, rel, obs, exp, fail_kind=None):
    return {'property': 'C16', 'relation': rel, 'fault': kind, 'offset': o, 'fail_kind': fail_kind, 'args': lib.cfg_args(cfg), 'stdin_hex': data.hex(), 'stdin': data.decode('utf8', 'replace')[:400], 'observed': obs, 'expected': exp}

def replay(ctx, r):
    c = {'id': 'r', 'cfg': lib.new_cfg(), 'args': r['args'], 'inputs': [{'data': bytes.fromhex(r['stdin_hex'])}]}
    if r.get('file_fault'):
        c = {'id': 'r', 'cfg': lib.new_cfg(), 'args': r['args'], 'files': True, 'dir': r['file_fault']['dir'], 'inputs': [{'data': b'1 2\n', 'name': 'a_first.json'}], 'links': [['b_bad.json', '/proc/self/mem']]}
    elif r.get('partial_writes'): c['out_chunk'] = r['partial_writes']
    elif r['fault'] == 'read':
        c['inputs'][0]['fail_at'] = r['offset']
        if r.get('fail_kind'): c['inputs'][0]['fail_kind'] = r['fail_kind']
        c['inputs'][0]['fail_once'] = True      # the stricter of the two deliveries
    else: c['out_room'] = r['offset']; c['out_fail_kind'] = 'brokenpipe'
    a = lib.run_harness([c])['r']
    return {'observed': {'result': a['result'], 'stdout': a['stdout'].decode('utf8', 'replace')[:300]}, 'expected': r.get('expected'), 'fails': a['result'] != 'err:io'}
