"""C09 — --group-by / --merge emit exactly one complete collection at end of input."""
import json
import lib, gen, common
from common import clone_cfg, mkcase, rows

ASSUMPTIONS = ['group keys over strings incl. "" and non-ASCII, numbers, null, absent']
TRUSTED = ['IndexMap keeps insertion order (modelled as an association list)']

def run(ctx):
    rnd = ctx['rnd']; n = 2000 if ctx['tier'] == 'quick' else 10000
    cases = []; meta = []; filed = []
    for i in range(n):
        cfg = gen.pipeline_cfg(rnd, allow_group=False)
        g = rnd.choice(gen.GROUPS + [True])
        vals = gen.records(rnd, 40 if rnd.random() < 0.2 else 12)
        if rnd.random() < 0.1: vals = []
        data = gen.stream(vals, rnd)
        gc = clone_cfg(cfg, group=g)
        cases.append(mkcase('G%d' % i, gc, data))
        # the ungrouped pipeline, with the group key (and the value) exposed as extra selections
        direct_ok = not (cfg['unique'] and (cfg['select'] or cfg['split']))
        if g is True: uc = clone_cfg(cfg)
        elif cfg['select']: uc = clone_cfg(cfg, select=cfg['select'] + ['%s=__gk' % g])
        else: uc = clone_cfg(cfg, select=['.=__v', '%s=__gk' % g])
        cases.append(mkcase('U%d' % i, uc, data))
        meta.append((gc, uc, g, data, direct_ok))
        # the same values delivered as 1..3 FILE arguments (cut between values): one collection at the end of the last file
        if i % 3 == 0:
            k = rnd.randint(1, 3); cuts = sorted(rnd.randint(0, len(vals)) for _ in range(k - 1))
            parts = [vals[a:b] for a, b in zip([0] + cuts, cuts + [len(vals)])]
            pdata = [gen.stream(p, rnd) for p in parts]
            whole = b'\n'.join(pdata)
            cases.append(mkcase('W%d' % i, gc, whole))
            cases.append({'id': 'F%d' % i, 'cfg': gc, 'files': True, 'inputs': [{'data': d, 'name': 'g%d_%s%d.json' % (i, 'zbya'[t % 4], t)} for t, d in enumerate(pdata)]})
            filed.append(i)
    impl, model, mism = common.correspond(cases)
    violations = []; checked = 0
    for i, (gc, uc, g, data, direct_ok) in enumerate(meta):
        G = impl['G%d' % i]; U = impl['U%d' % i]
        if G['result'] != 'ok' or U['result'] != 'ok':
            if G['result'] in ('panic', 'hang', 'abort'): violations.append(viol(gc, data, 'run completes', G['result'], 'ok'))
            continue
        gr = rows(G['stdout'])
        if len(gr) != 1:
            violations.append(viol(gc, data, 'exactly one collection is emitted, also when no row survives', [r.decode('utf8', 'replace') for r in gr][:5], 'one row')); continue
        got = json.loads(gr[0], object_pairs_hook=lambda p: ('obj', p))
        checked += 1
        if not direct_ok: continue
        urows = [json.loads(r, object_pairs_hook=lambda p: ('obj', p)) for r in rows(U['stdout'])]
        if g is True:
            exp = urows
        else:
            groups = []
            for r in urows:
                d = dict(r[1]) if isinstance(r, tuple) else {}
                k = d.get('__gk')
                if not isinstance(k, str): continue
                if gc['select']: v = ('obj', [(a, b) for a, b in r[1] if a != '__gk'])
                else: v = d.get('__v')
                for e in groups:
                    if e[0] == k: e[1].append(v); break
                else: groups.append((k, [v]))
            exp = ('obj', [(k, l) for k, l in groups])
        if got != exp:
            violations.append(viol(gc, data, 'the collection holds exactly the rows the ungrouped pipeline prints: distinct string keys in first-seen order, rows in arrival order', json.dumps(got)[:600], json.dumps(exp)[:600]))
    for i in filed:
        W = impl['W%d' % i]; F = impl['F%d' % i]; gc = meta[i][0]; checked += 1
        if (lib.kind(W), W['stdout']) != (lib.kind(F), F['stdout']):
            c = [x for x in cases if x['id'] == 'F%d' % i][0]
            violations.append({'property': 'C09', 'relation': 'the same values given as file arguments produce the same single collection as on standard input',
                               'args': lib.cfg_args(gc), 'files': True, 'file_hex': [x['data'].hex() for x in c['inputs']],
                               'stdin_hex': b'\n'.join(x['data'] for x in c['inputs']).hex(),
                               'observed': F['result'] + ' ' + F['stdout'].decode('utf8', 'replace')[:400], 'expected': W['result'] + ' ' + W['stdout'].decode('utf8', 'replace')[:400]})
    cov = {'evaluations': len(cases), 'file_argument_runs': len(filed), 'distinct_nontrivial': common.nontrivial_count(cases, impl),
           'rule': 'pipelines (select, filter, unique, sort, skip/take, split) ending in --group-by <expr> or --merge over 0..40 records with keys over strings incl. "" and non-ASCII, numbers, null, absent; also delivered as 1..3 file arguments; each paired with the ungrouped pipeline exposing the key',
           'samples': [common.describe(c) for c in cases[:2]],
           'traces_validated_against_impl': len(cases) - len(mism), 'model_mismatches': len(mism), 'direct_relations_checked': checked}
    broken = ['correspondence: model and implementation differ on %d cases, e.g. %s' % (len(mism), json.dumps(mism[0])[:1500])] if mism else []
    return {'coverage': cov, 'violations': violations, 'broken': broken}

def viol(cfg, data, rel, obs, exp):
    return {'property': 'C09', 'relation': rel, 'args': lib.cfg_args(cfg), 'stdin_hex': data.hex(), 'stdin': data.decode('utf8', 'replace')[:600], 'observed': obs, 'expected': exp}

def replay(ctx, r):
    c = {'id': 'r', 'cfg': lib.new_cfg(), 'args': r['args'], 'inputs': [{'data': bytes.fromhex(r['stdin_hex'])}]}
    if r.get('files'): c = {'id': 'r', 'cfg': lib.new_cfg(), 'args': r['args'], 'files': True, 'inputs': [{'data': bytes.fromhex(h), 'name': 'r%s%d.json' % ('zbya'[t % 4], t)} for t, h in enumerate(r['file_hex'])]}
    res = lib.run_harness([c])['r']
    return {'observed': res['stdout'].decode('utf8', 'replace'), 'expected': r.get('expected'), 'fails': True}
