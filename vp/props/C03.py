"""C03 — the pipeline is the documented stage composition in the documented order."""
import json, itertools
import lib, gen, common
from common import clone_cfg, mkcase, rows

ASSUMPTIONS = ['clap option syntax is outside the model: order independence on the command line is checked on the implementation only (metamorphic)',
               'expressions in generated configurations use only functions present in the Coq evaluator']
TRUSTED = ['std collections (BTreeMap order, VecDeque, HashSet with an ideal hasher, IndexMap insertion order) modelled as lists']

FILEPARTS = {}
def gen_cases(ctx):
    FILEPARTS.clear()
    rnd = ctx['rnd']; tier = ctx['tier']
    n = 2500 if tier == 'quick' else 12000
    out = []
    for i in range(n):
        cfg = gen.pipeline_cfg(rnd)
        vals = gen.records(rnd, 40 if rnd.random() < 0.2 else 12)
        # the position of a value in the input is part of what the stages see: a selection, a filter or a sort key may read it,
        # with and without --only-objects-and-arrays (scalars that are dropped do not count)
        x = rnd.random()
        if x < 0.12: cfg['select'] = cfg['select'] + ['&index=ix']
        elif x < 0.2: cfg['filter'] = rnd.choice(['(< &index 4)', '(= (% &index 2) 0)'])
        elif x < 0.25: cfg['sort'] = ['(- 0 &index)'] + cfg['sort']
        if x < 0.25 and rnd.random() < 0.5:
            cfg['only_objs'] = True; vals = [v for pair in zip(vals, [rnd.choice([1, 'x', None, -2, True, 'C:\\', 'q"', 'a\\"b', '\\', '{not an object}', '[', '']) for _ in vals]) for v in pair]
        out.append((cfg, gen.stream(vals, rnd)))
        # every fifth configuration also reads the same values from 2..3 file arguments (C03_program_files: the rows are the
        # composition applied to the values of all inputs in order); own generator state, so the other cases do not move
        if i % 5 == 2 and len(vals) >= 2:
            import random
            r2 = random.Random(ctx.get('seed', 1) * 100003 + i)
            cuts = sorted(r2.sample(range(0, len(vals) + 1), r2.choice([1, 2])))
            FILEPARTS[len(out) - 1] = [gen.stream(vals[a:b], r2) for a, b in zip([0] + cuts, cuts + [len(vals)])]
    # selections absent in complementary columns, with --unique / sort / group on top
    COMP = [{'a': 1}, {'b': 1}, {'a': 1, 'b': 1}, {'a': 2}, {'b': 2}, {}, {'c': 1}, {'a': 1, 'c': 1}, {'a': None}]
    for i in range(n // 6):
        vals = [rnd.choice(COMP) for _ in range(rnd.choice([3, 6, 12]))]
        cfg = lib.new_cfg(select=rnd.choice([['.a', '.b'], ['.a=x', '.b=y', '.c=z'], ['.b', '.a']]), unique=rnd.random() < 0.7)
        if rnd.random() < 0.4: cfg['sort'] = [rnd.choice(['.a', '.b=desc'])]
        if rnd.random() < 0.3: cfg['group'] = True
        out.append((cfg, gen.stream(vals, rnd)))
    if tier == 'thorough':
        canned = [gen.stream(gen.records(rnd, 12)) for _ in range(3)]
        opts = [('set', ['x=1']), ('split', '.arr'), ('filter', '(!= .a 0)'), ('select', ['.a', '.k=K']), ('unique', True),
                ('sort', ['.a=desc', '.b']), ('limit', None), ('group', '.k')]
        for mask in range(256):
            cfg = lib.new_cfg()
            for b, (k, v) in enumerate(opts):
                if mask >> b & 1:
                    if k == 'limit': cfg['skip'] = 1; cfg['take'] = 3
                    else: cfg[k] = v
            for d in canned: out.append((cfg, d))
    return out

def run(ctx):
    rnd = ctx['rnd']
    pairs = gen_cases(ctx)
    cases = []
    for i, (cfg, data) in enumerate(pairs):
        cases.append(mkcase('A%d' % i, cfg, data))
        # same configuration, options in another order on the command line
        c2 = mkcase('P%d' % i, cfg, data); c2['args'] = lib.spell_args(lib.permute_args(lib.cfg_args(cfg), rnd), rnd); cases.append(c2)
        if i in FILEPARTS:
            cases.append({'id': 'M%d' % i, 'cfg': cfg, 'files': True, 'inputs': [{'data': d, 'name': 'm%d_%s%d.json' % (i, 'abcd'[t], t)} for t, d in enumerate(FILEPARTS[i])]})
        if cfg['filter'] is not None and cfg['split'] is None and not cfg['set'] and not cfg['only_objs']:
            cases.append(mkcase('F%d' % i, lib.new_cfg(filter=cfg['filter']), data))     # filter alone
    impl, model, mism = common.correspond(cases)
    # second stage of the decomposition: feed the filtered rows to the rest of the pipeline
    second = []
    for i, (cfg, data) in enumerate(pairs):
        r = impl.get('F%d' % i)
        if r is not None and r['result'] == 'ok':
            second.append(mkcase('G%d' % i, clone_cfg(cfg, filter=None), r['stdout']))
    impl2 = lib.run_harness(second) if second else {}
    violations = []; checked = 0
    for i, (cfg, data) in enumerate(pairs):
        a = impl['A%d' % i]; p = impl['P%d' % i]
        if a['result'] in ('panic', 'hang', 'abort'):
            violations.append({'property': 'C03', 'relation': 'run completes', 'args': lib.cfg_args(cfg), 'stdin_hex': data.hex(), 'observed': a['result'] + ' ' + a['msg']}); continue
        checked += 1
        if (a['result'], a['stdout']) != (p['result'], p['stdout']):
            violations.append({'property': 'C03', 'relation': 'output independent of option order and option spelling (aliases, short forms, = or blank) on the command line',
                               'args': lib.cfg_args(cfg), 'args2': cases[[c['id'] for c in cases].index('P%d' % i)]['args'],
                               'stdin_hex': data.hex(), 'stdin': data.decode('utf8', 'replace'),
                               'observed': p['stdout'].decode('utf8', 'replace'), 'expected': a['stdout'].decode('utf8', 'replace')})
        # the model's rows ARE the documented composition (C03_refines / C03_program): a run whose rows differ from them is a
        # concrete input on which the pipeline is not that composition
        m = model.get('A%d' % i)
        if m is not None and a['result'] == 'ok' and m['result'] == 'ok' and a['stdout'] != m['stdout'] and len(violations) < 5:
            violations.append({'property': 'C03', 'relation': 'rows == rows of the documented composition of stages (computed by the model, proved equal to the composition by C03_program)',
                               'args': lib.cfg_args(cfg), 'stdin_hex': data.hex(), 'stdin': data.decode('utf8', 'replace'),
                               'observed': a['stdout'].decode('utf8', 'replace'), 'expected': m['stdout'].decode('utf8', 'replace')})
        mi, mm = impl.get('M%d' % i), model.get('M%d' % i)
        if mi is not None and mm is not None and mi['result'] == 'ok' and mm['result'] == 'ok':
            checked += 1
            if mi['stdout'] != mm['stdout'] and len(violations) < 5:
                violations.append({'property': 'C03', 'relation': 'several file arguments: rows == rows of the documented composition over the values of all files in order (computed by the model, C03_program_files)',
                                   'args': lib.cfg_args(cfg), 'files': True, 'file_hex': [d.hex() for d in FILEPARTS[i]], 'stdin_hex': b''.join(FILEPARTS[i]).hex(),
                                   'observed': mi['stdout'].decode('utf8', 'replace'), 'expected': mm['stdout'].decode('utf8', 'replace')})
        g = impl2.get('G%d' % i)
        if g is not None and a['result'] == 'ok' and g['result'] == 'ok' and not uses_ictx(cfg):
            checked += 1
            if g['stdout'] != a['stdout']:
                violations.append({'property': 'C03', 'relation': 'filter then rest == whole pipeline (filter runs before select/unique/sort/limit/group)',
                                   'args': lib.cfg_args(cfg), 'stdin_hex': data.hex(), 'stdin': data.decode('utf8', 'replace'),
                                   'observed': a['stdout'].decode('utf8', 'replace'), 'expected': g['stdout'].decode('utf8', 'replace')})
    cov = {'evaluations': len(cases) + len(second), 'distinct_nontrivial': common.nontrivial_count(cases, impl),
           'rule': 'seeded option subsets x generated expressions x 0..40 records; each also with permuted argument order and, when a filter is present, decomposed into filter | rest; distinct = distinct (args, input); non-trivial = produced output',
           'samples': [common.describe(c) for c in cases[:3]],
           'traces_validated_against_impl': len(cases) - len(mism), 'model_mismatches': len(mism),
           'direct_relations_checked': checked, 'exhaustive': ctx['tier'] == 'thorough'}
    broken = ['correspondence: model and implementation differ on %d cases, e.g. %s' % (len(mism), json.dumps(mism[0])[:1500])] if mism else []
    return {'coverage': cov, 'violations': violations, 'broken': broken}

def uses_ictx(cfg):
    txt = ' '.join(cfg['select'] + cfg['sort'] + [str(cfg['group']), str(cfg['filter'])])
    return '&' in txt

def replay(ctx, r):
    data = bytes.fromhex(r['stdin_hex'])
    c = {'id': 'r', 'cfg': lib.new_cfg(), 'args': r.get('args2') or r['args'], 'inputs': [{'data': data}]}
    if r.get('files'): c = {'id': 'r', 'cfg': lib.new_cfg(), 'args': r['args'], 'files': True, 'inputs': [{'data': bytes.fromhex(h), 'name': 'm0_%s%d.json' % ('abcd'[t], t)} for t, h in enumerate(r['file_hex'])]}
    res = lib.run_harness([c])['r']
    obs = res['stdout'].decode('utf8', 'replace')
    return {'observed': obs, 'expected': r.get('expected'), 'fails': obs != r.get('expected')}
