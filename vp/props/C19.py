"""C19 — 64-bit integers survive untouched; number-as-string arithmetic is exact."""
import json, re
from fractions import Fraction
import lib, gen, common
from common import clone_cfg, mkcase, rows

ASSUMPTIONS = ['decimal strings of up to 60 digits with scale up to 40 and exponent up to +-100',
               'the oracle of the direct test is Python fractions.Fraction (exact rationals), independent of the Coq model']
TRUSTED = ['bigdecimal from_str / exact + - * / normalized / Display (modelled text-exactly by FunsNas.v, validated by a 4369-case corpus)']

def ints(rnd):
    pool = [0, 1, -1, 2**63 - 1, 2**63, 2**63 + 1, 2**64 - 1, -2**63, -2**63 + 1]
    for k in range(0, 65): pool += [2**k, 2**k - 1, 2**k + 1, -(2**min(k, 63)) + (1 if k == 63 else 0)]
    for j in range(-4, 5): pool += [2**53 + j, -(2**53) + j]
    return [p for p in pool if -2**63 <= p < 2**64]

PIPES = [dict(), dict(select=['.v']), dict(select=['.v=a', '.i']), dict(select=['(get . "v")=g']), dict(sort=['.i']), dict(sort=['.v']), dict(unique=True),
         dict(group='.k'), dict(group=True), dict(select=['(first .l)=f', '(last .l)=t']), dict(select=['(sort .l)=s']), dict(select=['(reverese .l)=r']),
         dict(select=['(take .l 1)=t']), dict(select=['(push .l .v)=p']), dict(select=['(values .)=vs']), dict(select=['(? true .v 0)=c']), dict(select=['(default .zz .v)=d']),
         dict(split='.l'), dict(filter='(= .v .v)'), dict(select=['(map .l .)=m']), dict(select=['(stringify .v)=s']), dict(select=['(put . "n" .v)=o']),
         dict(style='csv', select=['.v']), dict(style='text', select=['.v', '.i']), dict(json_opts=('pretty', False)), dict(skip=1, take=5)]

def dec(rnd):
    nd = rnd.choice([1, 2, 5, 18, 19, 20, 40, 60])
    digits = ''.join(rnd.choice('0123456789') for _ in range(nd)).lstrip('0') or '0'
    scale = rnd.choice([0, 0, 1, 2, 5, 20, 40])
    s = digits
    if scale:
        s = digits.rjust(scale + 1, '0'); s = s[:-scale] + '.' + s[-scale:]
    if rnd.random() < 0.3: s = '0' * rnd.randint(1, 3) + s
    if rnd.random() < 0.3 and '.' in s: s = s + '0' * rnd.randint(1, 3)
    if rnd.random() < 0.3: s = s + rnd.choice('eE') + rnd.choice(['', '+', '-']) + str(rnd.choice([0, 1, 2, 5, 30, 100]))
    if rnd.random() < 0.4: s = '-' + s
    return s

def frac(s):
    m = re.fullmatch(r'([+-]?)(\d*)\.?(\d*)(?:[eE]([+-]?\d+))?', s)
    if not m or not (m.group(2) or m.group(3)): return None
    v = Fraction(int((m.group(2) or '0') + (m.group(3) or '')), 10 ** len(m.group(3) or ''))
    if m.group(4): v *= Fraction(10) ** int(m.group(4))
    return -v if m.group(1) == '-' else v

def run(ctx):
    rnd = ctx['rnd']; tier = ctx['tier']
    cases = []; meta = {}
    pool = ints(rnd)
    npipe = 250 if tier == 'quick' else 6000
    for i in range(npipe):
        vs = rnd.sample(pool, 6)
        recs = [{'v': v, 'i': j, 'k': 'g%d' % (j % 2), 'l': [v, vs[(j + 1) % 6]]} for j, v in enumerate(vs)]
        cfg = lib.new_cfg(**rnd.choice(PIPES))
        c = mkcase('I%d' % i, cfg, gen.stream(recs)); cases.append(c); meta[c['id']] = ('ints', vs)
    # equality-based operations on neighbouring integers that share a double (2^53.., 2^63.., 2^64-2..)
    NEIGH = [(2**53, 2**53 + 1), (2**64 - 2, 2**64 - 1), (-2**63, -2**63 + 1), (2**60, 2**60 + 1), (10**17 * 9, 10**17 * 9 + 1), (-2**53 - 1, -2**53)]
    for i in range(40 if tier == 'quick' else 600):
        a, b = rnd.choice(NEIGH)
        if rnd.random() < 0.5: a, b = b, a
        rec = {'a': a, 'b': b, 'l': [a, b, a, 7]}
        sel = ['(= .a .b)=eq', '(!= .a .b)=ne', '(sort_unique .l)=su', '(= .a .a)=same', '(filter .l (= . ^.a))=fa', '(any (map .l (= . ^.b)))=anyb']
        c = mkcase('Q%d' % i, lib.new_cfg(select=sel), gen.jdump(rec)); cases.append(c); meta[c['id']] = ('neigh', a, b)
        c = mkcase('QU%d' % i, lib.new_cfg(unique=True, select=['.v']), gen.stream([{'v': a}, {'v': b}, {'v': a}])); cases.append(c); meta[c['id']] = ('neigh_unique', a, b)
    nnas = 400 if tier == 'quick' else 30000
    for i in range(nnas):
        a, b = dec(rnd), dec(rnd)
        if rnd.random() < 0.2: b = a if rnd.random() < 0.5 else re.sub(r'^(-?)', r'\g<1>0', a) + ('' if ('e' in a.lower()) else ('.0' if '.' not in a else '0'))
        op = rnd.choice(['"+"', '"-"', '"*"', '"abs"', '"||"', '"="', '"!="', '"<"', '"<="', '">"', '">="', '"round"'])
        if op == '"round"' and rnd.random() < 0.5: a = rnd.choice(['-', '']) + str(rnd.randint(0, 30)) + rnd.choice(['.5', '.50', '.49999999999999999999', '.50000000000000000001', '.0', ''])
        e = '(%s .a)' % op if op in ('"abs"', '"||"', '"round"') else '(%s .a .b)' % op
        c = mkcase('N%d' % i, lib.new_cfg(select=[e + '=x']), gen.jdump({'a': a, 'b': b})); cases.append(c); meta[c['id']] = ('nas', op, a, b)
    # digit-only and signed spellings with leading zeros, every ordered pair, every comparison (a shortcut by length or by text is wrong here)
    ZS = ['7', '007', '12', '0012', '0', '00', '000', '100', '0100', '99', '099', '-7', '-007', '-0', '-00', '7.0', '07.50', '7.5', '1e1', '010e-1']
    k = 0
    for op in ['"="', '"!="', '"<"', '"<="', '">"', '">="']:
        for x in ZS:
            for y in ZS:
                k += 1
                c = mkcase('Z%d' % k, lib.new_cfg(select=['(%s .a .b)=x' % op]), gen.jdump({'a': x, 'b': y})); cases.append(c); meta[c['id']] = ('nas', op, x, y)
    impl, model, mism = common.correspond(cases)
    violations = []; checked = 0
    for c in cases:
        a = impl[c['id']]; m = meta[c['id']]
        if a['result'] != 'ok':
            violations.append(viol(c, 'run succeeds', a['result'] + ' ' + a['msg'], 'ok')); continue
        if m[0] == 'neigh':
            r = json.loads(rows(a['stdout'])[0]); x, y = m[1], m[2]; checked += 1
            su = r.pop('su', None)     # ordering compares through doubles (C07's domain is the interoperable range): only membership is checked
            if not isinstance(su, list) or sorted(set(su)) != sorted({x, y, 7}):
                violations.append(viol(c, '(sort_unique l) keeps every distinct integer of l (neighbours above 2^53 are distinct)', json.dumps(su), json.dumps(sorted({x, y, 7}))))
            exp = {'eq': False, 'ne': True, 'same': True, 'fa': [x, x], 'anyb': True}
            if r != exp: violations.append(viol(c, 'neighbouring integers above 2^53 stay distinct in =, != and filter', json.dumps(r), json.dumps(exp)))
            continue
        if m[0] == 'neigh_unique':
            got = [json.loads(r)['.v'] for r in rows(a['stdout'])]; checked += 1
            if got != [m[1], m[2]]: violations.append(viol(c, '--unique keeps neighbouring integers above 2^53 apart', json.dumps(got), json.dumps([m[1], m[2]])))
            continue
        if m[0] == 'ints':
            # every integer that appears in the output must be one of the input integers, digit for digit
            allowed = set(str(v) for v in m[1]) | set(str(j) for j in range(0, 10))
            toks = set(re.findall(rb'-?\d+(?:\.\d+)?(?:[eE][+-]?\d+)?', a['stdout']))
            bad = [t.decode() for t in toks if t.decode() not in allowed]
            checked += 1
            if bad: violations.append(viol(c, 'integers in [-2^63, 2^64) pass through parsing, selection, sorting, grouping and printing without any change of value', bad[:5], sorted(allowed)[:12]))
        else:
            _, op, sa, sb = m
            fa, fb = frac(sa), frac(sb)
            r = json.loads(rows(a['stdout'])[0]); got = r.get('x')
            checked += 1
            if op == '"round"':
                gv = frac(got) if isinstance(got, str) else None
                # nearest integer; on an exact tie the documentation does not say which way: both neighbours are accepted, the model decides
                if gv is None or gv.denominator != 1 or abs(gv - fa) > Fraction(1, 2): violations.append(viol(c, '"round" is a nearest integer', repr(got), str(fa)))
            elif op in ('"+"', '"-"', '"*"', '"abs"', '"||"'):
                exp = {'"+"': lambda: fa + fb, '"-"': lambda: fa - fb, '"*"': lambda: fa * fb, '"abs"': lambda: abs(fa), '"||"': lambda: fa}[op]()
                gv = frac(got) if isinstance(got, str) else None
                if gv is None or gv != exp:
                    violations.append(viol(c, '%s agrees with exact rational arithmetic' % op, repr(got), str(exp)))
            else:
                exp = {'"="': fa == fb, '"!="': fa != fb, '"<"': fa < fb, '"<="': fa <= fb, '">"': fa > fb, '">="': fa >= fb}[op]
                if got is not exp:
                    violations.append(viol(c, '%s agrees with exact rational comparison, independent of spelling' % op, repr(got), repr(exp)))
    cov = {'evaluations': len(cases), 'distinct_nontrivial': common.nontrivial_count(cases, impl),
           'rule': 'boundary integers (2^k, 2^k+-1 for k <= 64, +-2^53+-j, i64/u64 limits) through %d non-arithmetic pipelines and collection functions x styles; pairs of decimal strings (<= 60 digits, scale <= 40, exponent <= +-100, leading/trailing zeros, equal values in different spellings) through every exact number-as-string function' % len(PIPES),
           'samples': [common.describe(c) for c in (cases[0], cases[-1])],
           'traces_validated_against_impl': len(cases) - len(mism), 'model_mismatches': len(mism), 'direct_relations_checked': checked}
    broken = ['correspondence: model and implementation differ on %d cases, e.g. %s' % (len(mism), json.dumps(mism[0])[:1500])] if mism else []
    return {'coverage': cov, 'violations': violations, 'broken': broken}

def viol(c, rel, obs, exp):
    d = c['inputs'][0]['data']
    return {'property': 'C19', 'relation': rel, 'args': lib.cfg_args(c['cfg']), 'stdin_hex': d.hex(), 'stdin': d.decode('utf8', 'replace')[:400], 'observed': obs, 'expected': exp}

def replay(ctx, r):
    c = {'id': 'r', 'cfg': lib.new_cfg(), 'args': r['args'], 'inputs': [{'data': bytes.fromhex(r['stdin_hex'])}]}
    a = lib.run_harness([c])['r']
    return {'observed': a['stdout'].decode('utf8', 'replace')[:400], 'expected': r.get('expected'), 'fails': True}
