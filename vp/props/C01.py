"""C01 — stream fidelity: every input JSON value comes out once, in order, unchanged."""
import json
import lib, common, render, jsonread
from common import mkcase, rows

ASSUMPTIONS = ['nesting <= 64, member names distinct, no \\uD800-\\uDFFF escapes, literals whose nearest double is infinite excluded (jawk rejects them, RFC 8259 section 6 allows that)',
               '"nearest double" is the model\'s dec2flt (correct rounding by exact integer arithmetic), validated against Rust str::parse::<f64> by this correspondence and against Python float() by the direct test']
TRUSTED = ['Rust str::parse::<u64/i64/f64>, String::from_utf8, char::from_u32 (modelled by N_of_digits, dec2flt, utf8_decode)']

def run(ctx):
    rnd = ctx['rnd']; n = 500 if ctx['tier'] == 'quick' else 40000
    stats = {}
    render.ASTRAL = False      # known finding K1: astral code points are mangled by the default (ASCII) printer
    cases = []; expect = {}
    for i in range(n):
        vals, data = render.gen_stream(rnd, stats)
        cases.append(mkcase('S%d' % i, lib.new_cfg(), data)); expect['S%d' % i] = vals
    for d in (1, 2, 10, 63, 64):
        v, b = render.deep(rnd, d); cases.append(mkcase('D%d' % d, lib.new_cfg(), b)); expect['D%d' % d] = [v]
    # touching tokens
    for k, (b, vals) in enumerate([(b'2e00001 3E-00002 0e99999 1e-10000 1E+0000000000000000001 12e-0000000000000001 [7e000,8E+01]', [('flt', '2e00001'), ('flt', '3E-00002'), ('flt', '0e99999'), ('flt', '1e-10000'), ('flt', '1E+0000000000000000001'), ('flt', '12e-0000000000000001'), [('flt', '7e000'), ('flt', '8E+01')]]),
                                   (b'true[1]null"a"false{"b":2}1[2]3.5"x"-4e1{}', [True, [('int', 1)], None, 'a', False, {'b': ('int', 2)}, ('int', 1), [('int', 2)], ('flt', '3.5'), 'x', ('flt', '-4e1'), {}]),
                                   (b'[1][2]{"a":1}{"b":2}""""[]{}', [[('int', 1)], [('int', 2)], {'a': ('int', 1)}, {'b': ('int', 2)}, '', '', [], {}]),
                                   (b'1E2 1e2 1E+2 1e-2 -0 -0.0 0e0', [('flt', '1E2'), ('flt', '1e2'), ('flt', '1E+2'), ('flt', '1e-2'), ('int', 0), ('flt', '-0.0'), ('flt', '0e0')])]):
        cases.append(mkcase('T%d' % k, lib.new_cfg(), b)); expect['T%d' % k] = vals
    # long runs of empty collections (also nested) before ordinary values: nothing that is counted per value may leak
    for k, unit in enumerate([(b'[]', []), (b'{}', {}), (b'[[],{}]', [[], {}]), (b'{"a":[],"b":{}}', {'a': [], 'b': {}})]):
        reps = 1100 if ctx['tier'] == 'quick' else 3000
        b = (unit[0] + b'\n') * reps + b'[1,[2]] {"a":{"b":[3]}} [] 7'
        cases.append(mkcase('ME%d' % k, lib.new_cfg(), b)); expect['ME%d' % k] = [unit[1]] * reps + [[('int', 1), [('int', 2)]], {'a': {'b': [('int', 3)]}}, [], ('int', 7)]
    impl, model, mism = common.correspond(cases)
    violations = []; checked = 0; total_vals = 0
    for c in cases:
        a = impl[c['id']]; vals = expect[c['id']]
        exp = [jsonread.canon(v) for v in vals]
        total_vals += len(vals)
        if a['result'] != 'ok':
            violations.append(viol(c, 'run succeeds on a clean stream', a['result'] + ' ' + a['msg'], 'ok')); continue
        try:
            got = [jsonread.canon(jsonread.loads(r)) for r in rows(a['stdout'])]
        except Exception as e:
            violations.append(viol(c, 'every row is readable by an independent JSON reader', repr(e), '')); continue
        checked += 1
        if got != exp:
            violations.append(viol(c, 'one row per value, in order, denoting the same value', repr(got)[:800], repr(exp)[:800]))
    cov = {'evaluations': len(cases), 'distinct_nontrivial': len(set(c['inputs'][0]['data'] for c in cases if expect[c['id']])),
           'rule': 'random spelling trees of the RFC 8259 grammar (vp/render.py mirrors Spec/Render.v): every escape spelling with per-digit hex case, e/E and signs, whitespace runs at every gap, boundary integers, long digit strings, nesting to 64, touching tokens; non-trivial = at least one value',
           'samples': [common.describe(c) for c in cases[:2]], 'values': total_vals, 'distribution': stats,
           'traces_validated_against_impl': len(cases) - len(mism), 'model_mismatches': len(mism), 'direct_relations_checked': checked}
    broken = ['correspondence: model and implementation differ on %d cases, e.g. %s' % (len(mism), json.dumps(mism[0])[:1500])] if mism else []
    known = []
    for k in ctx['known']:
        w = k['witness']; c = {'id': 'k', 'cfg': lib.new_cfg(), 'args': w['args'], 'inputs': [{'data': bytes.fromhex(w['stdin_hex'])}]}
        res = lib.run_harness([c])['k']
        try: same = [jsonread.canon(jsonread.loads(x)) for x in rows(res['stdout'])] == [jsonread.canon(jsonread.loads(bytes.fromhex(w['stdin_hex'])))]
        except Exception: same = False
        if not same: known.append('%s %s: %s' % (k['id'], k['class'], k['what']))
    return {'coverage': cov, 'violations': violations, 'broken': broken, 'known': known}

def viol(c, rel, obs, exp):
    d = c['inputs'][0]['data']
    return {'property': 'C01', 'relation': rel, 'args': [], 'stdin_hex': d.hex(), 'stdin': d.decode('utf8', 'replace')[:600], 'observed': obs, 'expected': exp}

def replay(ctx, r):
    c = {'id': 'r', 'cfg': lib.new_cfg(), 'args': r['args'], 'inputs': [{'data': bytes.fromhex(r['stdin_hex'])}]}
    res = lib.run_harness([c])['r']
    try: got = repr([jsonread.canon(jsonread.loads(x)) for x in rows(res['stdout'])])[:800]
    except Exception as e: got = repr(e)
    return {'observed': got, 'expected': r.get('expected'), 'fails': got != r.get('expected')}
