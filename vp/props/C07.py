"""C07 — sorting: one total order, permutation, stable, multi-key, direction-aware."""
import json, functools, itertools
import lib, gen, common
from common import mkcase, rows, clone_cfg

ASSUMPTIONS = ['numbers restricted to the interoperable range |n| < 2^53 or non-integral (the quantifier of the property)',
               "Rust's slice::sort / sort_by and IndexMap::sort_by are stable sorts; BTreeMap iterates in key order (std / indexmap contracts)"]
TRUSTED = []

UNIVERSE = [None, False, True, '', 'a', 'b', 'ab', 'B', 'é', 'z', '￿', 'aa', ' ', '0', 0, 1, 2, -1, -2, -3, -0.5, 0.5, 3, 10, 2.5, -2.5, 0.1, 1e21, 1e-7, 9007199254740991, -9007199254740991, 1.5, 100,
            {}, {'a': 1}, {'a': 2}, {'b': 1}, {'a': 1, 'b': 2}, {'b': 2, 'a': 1}, {'a': 'x'}, {'a': None}, {'a': [1]}, {'aa': 1},
            # same names, three members, the same first member and the rest in another order (round 13, C07_13)
            {'a': 1, 'c': 1, 'b': 1}, {'a': 2, 'b': 2, 'c': 2}, {'a': 1, 'b': 1, 'c': 1}, {'a': 0, 'c': 3, 'b': 0},
            [], [1], [2], [1, 2], [1, 1], [None], ['a'], [[]], [[1]], [{}], [1, 'a'], [True], [0.5]]

def rank(v):
    if v is None: return 0
    if isinstance(v, bool): return 1
    if isinstance(v, str): return 2
    if isinstance(v, (int, float)): return 3
    if isinstance(v, dict): return 4
    return 5

def show(v):
    """jawk's default one-line ASCII text (only needed for objects of the universe: no exotic strings inside)"""
    if v is None: return 'null'
    if v is True: return 'true'
    if v is False: return 'false'
    if isinstance(v, str): return json.dumps(v)
    if isinstance(v, (int, float)): return fmt_num(v)
    if isinstance(v, list): return '[' + ', '.join(show(x) for x in v) + ']'
    return '{' + ', '.join(json.dumps(k) + ': ' + show(x) for k, x in v.items()) + '}'

def fmt_num(v):
    if isinstance(v, int): return str(v)
    if v == int(v) and abs(v) < 2**63: return str(int(v))
    return repr(v)

def cmp(a, b):
    ra, rb = rank(a), rank(b)
    if ra != rb: return -1 if ra < rb else 1
    if ra == 0: return 0
    if ra in (1, 3): return (a > b) - (a < b)
    if ra == 2:
        x, y = [ord(c) for c in a], [ord(c) for c in b]
        return (x > y) - (x < y)
    if ra == 5:
        for x, y in zip(a, b):
            c = cmp(x, y)
            if c: return c
        return (len(a) > len(b)) - (len(a) < len(b))
    if len(a) != len(b): return -1 if len(a) < len(b) else 1
    ka, kb = sorted(a.keys(), key=lambda s: [ord(c) for c in s]), sorted(b.keys(), key=lambda s: [ord(c) for c in s])
    if ka != ka or ka != kb:
        x, y = [[ord(c) for c in s] for s in ka], [[ord(c) for c in s] for s in kb]
        return (x > y) - (x < y)
    x, y = [ord(c) for c in show(a)], [ord(c) for c in show(b)]
    return (x > y) - (x < y)

ABSENT = object()
def oracle_sort(rowsl, keys):
    """keys: list of (field, desc) most significant first; rows lacking a key are dropped"""
    out = list(rowsl)
    for field, desc in reversed(keys):
        out = [r for r in out if field in r]
        out.sort(key=functools.cmp_to_key(lambda x, y: (-1 if desc else 1) * cmp(x[field], y[field])))
    return out

def run(ctx):
    rnd = ctx['rnd']; n = 250 if ctx['tier'] == 'quick' else 8000
    cases = []; meta = {}
    for i in range(n):
        m = rnd.choice([0, 1, 2, 5, 10, 20, 40])
        pool = rnd.sample(UNIVERSE, rnd.choice([2, 3, 5, 12]))
        rws = []
        for j in range(m):
            r = {'i': j}
            for f in ('k', 'l', 'm'):
                if rnd.random() < 0.85: r[f] = rnd.choice(pool)
            rws.append(r)
        nk = rnd.choice([1, 1, 2, 3])
        keys = [(f, rnd.random() < 0.4) for f in rnd.sample(['k', 'l', 'm'], nk)]
        def spell(desc):
            if desc: return rnd.choice(['=desc', '=DESC', '=Desc', ' DESC'])
            return rnd.choice(['', '=asc', '=ASC', ' Asc'])
        cfg = lib.new_cfg(sort=['.%s%s' % (f, spell(d)) for f, d in keys])
        c = mkcase('S%d' % i, cfg, gen.stream(rws)); cases.append(c); meta[c['id']] = ('rows', rws, keys)
    # the sort functions and comparison functions on universe samples
    for i in range(n // 2):
        arr = [rnd.choice(UNIVERSE) for _ in range(rnd.choice([0, 1, 3, 8, 20, 33, 40]))]
        c = mkcase('F%d' % i, lib.new_cfg(select=['(sort .)=s']), gen.jdump(arr)); cases.append(c); meta[c['id']] = ('sort', arr)
        a, b = rnd.choice(UNIVERSE), rnd.choice(UNIVERSE)
        c = mkcase('L%d' % i, lib.new_cfg(select=['(< .a .b)=lt', '(<= .a .b)=le', '(> .a .b)=gt', '(>= .a .b)=ge']), gen.jdump({'a': a, 'b': b}))
        cases.append(c); meta[c['id']] = ('cmp', a, b)
        few = rnd.sample(UNIVERSE, 3)
        objs = [{'v': rnd.choice(few if rnd.random() < 0.6 else UNIVERSE), 'i': j} for j in range(rnd.choice([0, 2, 5, 12, 33, 40]))]
        c = mkcase('B%d' % i, lib.new_cfg(select=['(sort_by . .v)=s']), gen.jdump(objs)); cases.append(c); meta[c['id']] = ('sort_by', objs)
        # objects: members sorted by value / by a key of the value / by name; ties keep their arrival order (member names arrive unsorted)
        names = rnd.sample(['zeta', 'alpha', 'mid', 'b', 'a', 'é', 'Z', 'k10', 'k2', '', 'beta', 'Alpha', '\uffff', '\U0001F600', '\ue000', '\ud7ff', '\U00010000x', '\ufffdz'], rnd.choice([0, 2, 5, 9, 12]))
        few2 = rnd.sample(UNIVERSE, 3)
        obj = {nm: rnd.choice(few2 if rnd.random() < 0.7 else UNIVERSE) for nm in names}
        c = mkcase('OV%d' % i, lib.new_cfg(select=['(sort_by_values .)=s'], json_opts=('consise', True)), gen.jdump(obj)); cases.append(c); meta[c['id']] = ('obj_values', obj)
        c = mkcase('OK%d' % i, lib.new_cfg(select=['(sort_by_keys .)=s'], json_opts=('consise', True)), gen.jdump(obj)); cases.append(c); meta[c['id']] = ('obj_keys', obj)
        objw = {nm: {'w': obj[nm], 'n': j} for j, nm in enumerate(names)}
        c = mkcase('OB%d' % i, lib.new_cfg(select=['(sort_by_values_by . .w)=s'], json_opts=('consise', True)), gen.jdump(objw)); cases.append(c); meta[c['id']] = ('obj_values_by', objw)
    # every ordered pair of the objects and arrays of the universe through < <= > >= (members in another order: equal under =, not under the order)
    comp = [v for v in UNIVERSE if isinstance(v, (dict, list))] + [{'x': 1, 'y': 2}, {'y': 2, 'x': 1}, {'y': 1, 'x': 2}, {'x': 2, 'y': 1}]
    for t, (a, b) in enumerate(itertools.product(comp, repeat=2)):
        c = mkcase('LC%d' % t, lib.new_cfg(select=['(< .a .b)=lt', '(<= .a .b)=le', '(> .a .b)=gt', '(>= .a .b)=ge']), gen.jdump({'a': a, 'b': b}))
        cases.append(c); meta[c['id']] = ('cmp', a, b)
    if ctx['tier'] == 'thorough':
        for t, (a, b, cc) in enumerate(itertools.product(UNIVERSE, repeat=3)):
            if t % 7: continue
            c = mkcase('T%d' % t, lib.new_cfg(select=['(sort .)=s']), gen.jdump([a, b, cc])); cases.append(c); meta[c['id']] = ('sort', [a, b, cc])
    impl, model, mism = common.correspond(cases)
    violations = []; checked = 0
    for c in cases:
        a = impl[c['id']]; m = meta[c['id']]
        if a['result'] != 'ok':
            violations.append(viol(c, 'run succeeds', a['result'] + ' ' + a['msg'], 'ok')); continue
        checked += 1
        if m[0] == 'rows':
            got = [json.loads(r) for r in rows(a['stdout'])]; exp = oracle_sort(m[1], m[2])
            if got != exp: violations.append(viol(c, 'rows with all keys present, sorted by the lexicographic key (first given most significant), ties in arrival order', json.dumps(got)[:700], json.dumps(exp)[:700]))
        elif m[0] == 'sort':
            got = json.loads(rows(a['stdout'])[0])['s']; exp = sorted(m[1], key=functools.cmp_to_key(cmp))
            if got != exp: violations.append(viol(c, '(sort list) is the stable sort under the total order', json.dumps(got)[:700], json.dumps(exp)[:700]))
        elif m[0] in ('obj_values', 'obj_keys', 'obj_values_by'):
            got = list(json.loads(rows(a['stdout'])[0], object_pairs_hook=lambda p: p)[0][1]) if rows(a['stdout']) and rows(a['stdout'])[0] != b'{}' else []
            items = list(m[1].items())
            if m[0] == 'obj_values': exp = sorted(items, key=functools.cmp_to_key(lambda x, y: cmp(x[1], y[1])))
            elif m[0] == 'obj_keys': exp = sorted(items, key=lambda x: [ord(ch) for ch in x[0]])
            else: exp = sorted(items, key=functools.cmp_to_key(lambda x, y: cmp(x[1]['w'], y[1]['w'])))
            gotn = [k for k, _ in got]; expn = [k for k, _ in exp]
            if gotn != expn: violations.append(viol(c, 'members of an object sorted (%s) under the total order, ties in arrival order' % m[0], json.dumps(gotn), json.dumps(expn)))
        elif m[0] == 'sort_by':
            got = json.loads(rows(a['stdout'])[0])['s']; exp = sorted(m[1], key=functools.cmp_to_key(lambda x, y: cmp(x['v'], y['v'])))
            if got != exp: violations.append(viol(c, '(sort_by list key) is the stable sort by key under the total order', json.dumps(got)[:700], json.dumps(exp)[:700]))
        else:
            got = json.loads(rows(a['stdout'])[0]); k = cmp(m[1], m[2])
            exp = {'lt': k < 0, 'le': k <= 0, 'gt': k > 0, 'ge': k >= 0}
            if got != exp: violations.append(viol(c, '< <= > >= agree with the total order', json.dumps(got), json.dumps(exp)))
    cov = {'evaluations': len(cases), 'distinct_nontrivial': common.nontrivial_count(cases, impl),
           'rule': 'rows with keys k,l,m over samples of a %d-value universe (all types, many ties, absent keys), 1..3 --sort-by keys, ASC/DESC/omitted in any letter case; (sort), (sort_by), < <= > >= on universe samples; oracle = independent Python implementation of the documented order' % len(UNIVERSE),
           'samples': [common.describe(c) for c in cases[:2]], 'universe': len(UNIVERSE),
           'traces_validated_against_impl': len(cases) - len(mism), 'model_mismatches': len(mism), 'direct_relations_checked': checked}
    broken = ['correspondence: model and implementation differ on %d cases, e.g. %s' % (len(mism), json.dumps(mism[0])[:1500])] if mism else []
    return {'coverage': cov, 'violations': violations, 'broken': broken}

def viol(c, rel, obs, exp):
    d = c['inputs'][0]['data']
    return {'property': 'C07', 'relation': rel, 'args': lib.cfg_args(c['cfg']), 'stdin_hex': d.hex(), 'stdin': d.decode('utf8', 'replace')[:600], 'observed': obs, 'expected': exp}

def replay(ctx, r):
    c = {'id': 'r', 'cfg': lib.new_cfg(), 'args': r['args'], 'inputs': [{'data': bytes.fromhex(r['stdin_hex'])}]}
    res = lib.run_harness([c])['r']
    try: obs = json.dumps([json.loads(x) for x in rows(res['stdout'])])[:700]
    except Exception: obs = res['stdout'].decode('utf8', 'replace')
    return {'observed': obs, 'expected': r.get('expected'), 'fails': obs not in (r.get('expected'), '[' + str(r.get('expected')) + ']')}
