"""C15 — csv/text rows have one field per selection and csv is machine-readable."""
import json, csv, io
import lib, gen, common
from common import clone_cfg, mkcase, rows

ASSUMPTIONS = ['the RFC 4180 reader of the direct test is Python\'s csv module with skipinitialspace=True (independent of Spec/CsvReader.v)',
               'free-form text options: only the structural statement (fields joined by the separator) is checked, fields cannot be recovered when separators occur in data']
TRUSTED = []

STRS = ['a', '', 'a,b', 'q"q', 'line\nbreak', 'cr\rlf\r\n', 'tab\there', 'é', ' lead', 'trail ', '""', ',', '"', 'x y', '日本', '=1+1', '-5', '+x', '@home', "'q", '-', '=', 'left|right', 'back\\slash', 'ax;,xa', 'a|b\\c;d,e']
def value(rnd, depth=1):
    x = rnd.random()
    if x < 0.35: return rnd.choice(STRS)
    if x < 0.5: return rnd.choice([0, 1, -5, 2.5, 18446744073709551615, 1e21, 0.001])
    if x < 0.6: return rnd.choice([True, False])
    if x < 0.68: return None
    if depth <= 0: return 'z'
    if x < 0.85: return [value(rnd, depth - 1) for _ in range(rnd.randint(0, 3))]
    return {rnd.choice(['k', 'a,b', 'q"']): value(rnd, depth - 1) for _ in range(rnd.randint(0, 2))}

def concise(v):
    return json.dumps(v, ensure_ascii=False, separators=(',', ':'))

def has_number(v):
    if isinstance(v, bool): return False
    if isinstance(v, (int, float)): return True
    if isinstance(v, list): return any(has_number(x) for x in v)
    if isinstance(v, dict): return any(has_number(x) for x in v.values())
    return False

def expected_csv_field(v, absent):
    if absent: return ''
    if v is None: return 'null'
    if v is True: return 'True'
    if v is False: return 'False'
    if isinstance(v, str): return v
    if isinstance(v, (list, dict)): return None     # compared through json
    return None                                      # numbers: compared through float/int value

def run(ctx):
    rnd = ctx['rnd']; n = 2500 if ctx['tier'] == 'quick' else 12000
    cases = []; meta = {}
    for i in range(n):
        ncol = rnd.randint(1, 5)
        cols = ['c%d' % j for j in range(ncol)]
        recs = []
        for _ in range(rnd.choice([1, 2, 4])):
            r = {}
            for c in cols:
                if rnd.random() < 0.85: r[c] = value(rnd)
            recs.append(r)
        data = gen.stream(recs)
        names = [rnd.choice(['', '=N%d' % j, '=na,me', '=q"t', '=x=y', '=é', '=line\nbreak', '==', "='q'"]) for j in range(ncol)]
        sel = ['.%s%s' % (c, nm) for c, nm in zip(cols, names)]
        c = mkcase('V%d' % i, lib.new_cfg(style='csv', select=sel), data); cases.append(c); meta[c['id']] = ('csv', recs, cols, sel)
        # text with options
        t = {}
        if rnd.random() < 0.5: t['items_sep'] = rnd.choice([';', ' | ', '\t', '::'])
        if rnd.random() < 0.4: t['prefix'] = rnd.choice(['<', '"', "'"]); t['postfix'] = rnd.choice(['>', '"', "'"])
        if rnd.random() < 0.3: t['null'] = 'NULL'; t['true'] = 'yes'; t['false'] = 'no'
        if rnd.random() < 0.4: t['missing'] = rnd.choice(['-', 'N/A', ''])
        if rnd.random() < 0.4: t['headers'] = True
        if rnd.random() < 0.4:
            # one to three escape sequences; a replacement may contain a character that another sequence escapes (each character of
            # the data is looked up once: replacements are not escaped again), in either order on the command line
            pool = ['"\\"', "'\\'", ';,', 'ax', '|\\|', '\\\\\\', 'xa', ',;', 'b|']
            esc = []
            for e in rnd.sample(pool, rnd.choice([1, 1, 2, 3])):
                if e[0] not in [x[0] for x in esc]: esc.append(e)
            t['escape'] = esc
        c = mkcase('T%d' % i, lib.new_cfg(style='text', select=sel, text_opts=t or None, rowsep=rnd.choice([None, '\n', ';\n'])), data); cases.append(c); meta[c['id']] = ('text', recs, cols, sel, t)
    impl, model, mism = common.correspond(cases)
    violations = []; checked = 0
    # long fields with line breaks through a writer that takes a few bytes per call: the row must arrive whole
    lcases = []
    for i in range(6 if ctx['tier'] == 'quick' else 60):
        long = {'a': 'first line\n' + 'x' * rnd.choice([1500, 5000, 70000]) + '\nlast "q", end', 'b': [1, 'two\nlines ' + 'y' * 2000], 'c': rnd.choice(STRS)}
        data = gen.jdump(long) + b'\n' + gen.jdump({'a': 'short', 'b': 2}) + b'\n'
        for style in ('csv', 'text'):
            cfgl = lib.new_cfg(style=style, select=['.a', '.b', '.c'])
            w = mkcase('LW%d%s' % (i, style), cfgl, data); p = mkcase('LP%d%s' % (i, style), cfgl, data); p['out_chunk'] = rnd.choice([1, 13, 1024, 4096])
            lcases += [w, p]
    limpl = lib.run_harness(lcases)
    for k in range(0, len(lcases), 2):
        w, p = limpl[lcases[k]['id']], limpl[lcases[k + 1]['id']]; checked += 1
        if (w['result'], w['stdout']) != (p['result'], p['stdout']):
            v = viol(lcases[k + 1], 'a long field reaches a writer that accepts %d bytes per call whole (same bytes as through a writer that takes everything)' % lcases[k + 1]['out_chunk'],
                     '%s %d bytes' % (p['result'], len(p['stdout'])), '%s %d bytes' % (w['result'], len(w['stdout'])))
            v['out_chunk'] = lcases[k + 1]['out_chunk']; violations.append(v)
    for c in cases:
        a = impl[c['id']]; m = meta[c['id']]
        if a['result'] != 'ok':
            violations.append(viol(c, 'run succeeds', a['result'] + ' ' + a['msg'], 'ok')); continue
        if m[0] == 'csv':
            recs, cols, sel = m[1], m[2], m[3]
            try:
                rd = list(csv.reader(io.StringIO(a['stdout'].decode('utf8'), newline=''), skipinitialspace=True, strict=True))
            except Exception as e:
                violations.append(viol(c, 'csv output is readable by a standard RFC 4180 reader', repr(e), '')); continue
            checked += 1
            titles = [s.split('=', 1)[1] if '=' in s else s for s in sel]
            if not rd or rd[0] != titles:
                violations.append(viol(c, 'the header row lists the selection names in order', rd[:1], titles)); continue
            body = rd[1:]
            if len(cols) == 1: body = [r if r else [''] for r in body]      # an empty line is a record with one empty field
            if len(body) != len(recs) or any(len(r) != len(cols) for r in body):
                # an all-absent single column prints an empty line, which csv readers skip
                if not (len(cols) == 1 and len(body) < len(recs)):
                    violations.append(viol(c, 'every row has exactly N fields', [len(r) for r in body], [len(cols)] * len(recs))); continue
                else: continue
            for r, rec in zip(body, recs):
                for f, col in zip(r, cols):
                    absent = col not in rec; v = rec.get(col)
                    exp = expected_csv_field(v, absent)
                    ok = True
                    if exp is not None: ok = f == exp
                    elif isinstance(v, (list, dict)):
                        try: ok = json.loads(f) == v
                        except Exception: ok = False
                    else:
                        try: ok = float(f) == float(v) and ('e' not in f.lower())
                        except Exception: ok = False
                    if not ok:
                        violations.append(viol(c, 'the reader recovers, field for field, string contents, decimal numbers, True/False/null and the concise JSON of nested values', f, json.dumps(v))); break
        else:
            recs, cols, sel, t = m[1], m[2], m[3], m[4]
            sep = (c['cfg']['rowsep'] or '\n')
            isep = t.get('items_sep', '\t')
            out = a['stdout'].decode('utf8')
            exp = ''
            def fld(v, absent):
                if absent: return t.get('missing', '')
                if v is None: return t.get('null', 'null')
                if v is True: return t.get('true', 'true')
                if v is False: return t.get('false', 'false')
                if isinstance(v, (list, dict)):
                    if has_number(v): return None             # numbers are spelled by the implementation
                    v = concise(v)
                if isinstance(v, str):
                    esc = {}
                    for e in t.get('escape', []): esc[e[0]] = e[1:]
                    return t.get('prefix', '') + ''.join(esc.get(ch, ch) for ch in v) + t.get('postfix', '')
                return None
            ok = True
            if t.get('headers'):
                titles = [s.split('=', 1)[1] if '=' in s else s for s in sel]
                exp += isep.join(fld(x, False) for x in titles) + sep
            for rec in recs:
                fs = [fld(rec.get(col), col not in rec) for col in cols]
                if any(f is None for f in fs): ok = False; break      # numbers: spelled by the implementation
                exp += isep.join(fs) + sep
            if ok:
                checked += 1
                if out != exp:
                    violations.append(viol(c, 'text rows are the N fields joined by the item separator, then the row separator (absent = empty or the keyword)', out[:300], exp[:300]))
    cov = {'evaluations': len(cases), 'distinct_nontrivial': common.nontrivial_count(cases, impl),
           'rule': 'rows of 1..5 selections over all JSON types and absent, strings with quote, comma, CR, LF, tab, non-ASCII, titles with commas and quotes x csv, and text with random option sets (separators, prefix/postfix, keywords, escape sequences, headers, missing-value keyword)',
           'samples': [common.describe(c) for c in cases[:2]],
           'traces_validated_against_impl': len(cases) - len(mism), 'model_mismatches': len(mism), 'direct_relations_checked': checked}
    broken = ['correspondence: model and implementation differ on %d cases, e.g. %s' % (len(mism), json.dumps(mism[0])[:1500])] if mism else []
    return {'coverage': cov, 'violations': violations, 'broken': broken}

def viol(c, rel, obs, exp):
    d = c['inputs'][0]['data']
    return {'property': 'C15', 'relation': rel, 'args': lib.cfg_args(c['cfg']), 'stdin_hex': d.hex(), 'stdin': d.decode('utf8', 'replace')[:400], 'observed': obs, 'expected': exp}

def replay(ctx, r):
    c = {'id': 'r', 'cfg': lib.new_cfg(), 'args': r['args'], 'inputs': [{'data': bytes.fromhex(r['stdin_hex'])}]}
    if r.get('out_chunk'):
        c['out_chunk'] = r['out_chunk']; w = {'id': 'w', 'cfg': lib.new_cfg(), 'args': r['args'], 'inputs': [{'data': bytes.fromhex(r['stdin_hex'])}]}
        res = lib.run_harness([c, w])
        return {'observed': len(res['r']['stdout']), 'expected': len(res['w']['stdout']), 'fails': res['r']['stdout'] != res['w']['stdout']}
    a = lib.run_harness([c])['r']
    return {'observed': a['stdout'].decode('utf8', 'replace')[:500], 'expected': r.get('expected'), 'fails': True}
