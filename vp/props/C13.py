"""C13 — an expression means the same in every position, alias, spelling and cache size."""
import json, re
import lib, gen, common, exprgen
from common import clone_cfg, mkcase, rows

ASSUMPTIONS = ['the regex engine is not modelled: for --regular-expression-cache-size the projection is "same output for every cache size"',
               'the five option positions are compared on the implementation through the value the expression has in --select']
TRUSTED = ['regex crate, cached::SizedCache']

RECS = [{'a': 1, 'k': 'x', 'arr': [1, 2], 'flag': True, 's': 'abc'}, {'a': 2, 'k': 'y', 'arr': [], 'flag': False, 's': 'xbz'}, {'a': 1, 'k': 'x', 'arr': [3], 's': 'ab'}, {'k': 'z', 'arr': [4, 5, 6]}, {'a': 'q', 'flag': True}]
EXPRS = ['.a', '.k', '.arr', '.flag', '(size .arr)', '(= .a 1)', '(? (= .k "x") "one" "other")', '(map .arr (+ . 1))', '(first .arr)', '(concat (default .k "n") "!")',
         '(and (default .flag false) true)', '(take .arr 1)', '(default .a .k)', '(> (size .arr) 1)', '(stringify .a)', '(filter .arr (> . 1))']

def alias_variants(e, rnd, tbl):
    """same expression with other aliases / separators / the dot sugar"""
    out = e
    def rep(m):
        name = m.group(1)
        for f in tbl:
            if name == f['name'] or name in f['aliases']:
                names = [f['name']] + f['aliases']
                return '(' + rnd.choice(names)
        return m.group(0)
    out = re.sub(r'\(([^\s(),"]+)', rep, out)
    if rnd.random() < 0.5:
        res = []; depth = 0; instr = False; i = 0
        while i < len(out):
            ch = out[i]
            if instr:
                res.append(ch)
                if ch == '\\': res.append(out[i+1]); i += 1
                elif ch == '"': instr = False
            else:
                if ch == '"': instr = True; res.append(ch)
                elif ch in '[{': depth += 1; res.append(ch)
                elif ch in ']}': depth -= 1; res.append(ch)
                elif ch == ' ' and depth == 0 and res and res[-1] not in ' (,' and i + 1 < len(out) and out[i+1] not in ' ),':
                    res.append(rnd.choice([', ', ',', '  ', ' , ']))
                else: res.append(ch)
            i += 1
        out = ''.join(res)
    return out

def run(ctx):
    rnd = ctx['rnd']; n = 250 if ctx['tier'] == 'quick' else 8000
    tbl = exprgen.table()
    data = gen.stream(RECS)
    cases = []; meta = []
    for i in range(n):
        e = rnd.choice(EXPRS) if rnd.random() < 0.6 else exprgen.Gen(rnd).expr(rnd.choice([1, 2, 3]))
        # one time in three the expression depends on a --set variable: variables and macros are visible in every option alike
        sets = []
        if rnd.random() < 0.33: sets = ['w=2']; e = '(? (= :w 2) %s null)' % e
        ev = alias_variants(e, rnd, tbl)
        cs = {'sel': mkcase('S%d' % i, lib.new_cfg(set=sets, select=[e + '=v']), data), 'alias': mkcase('L%d' % i, lib.new_cfg(set=sets, select=[ev + '=v']), data),
              'filter': mkcase('F%d' % i, lib.new_cfg(set=sets, filter=e), data), 'sort': mkcase('O%d' % i, lib.new_cfg(set=sets, sort=[e], select=['.=r', e + '=v']), data),
              'group': mkcase('G%d' % i, lib.new_cfg(set=sets, group=e), data), 'split': mkcase('P%d' % i, lib.new_cfg(set=sets, split=e), data),
              'macro': mkcase('M%d' % i, lib.new_cfg(set=sets + ['@mm=' + e], select=['@mm=v']), data),
              # the alias / separator spelling in the other option positions too
              'filterv': mkcase('FV%d' % i, lib.new_cfg(set=sets, filter=ev), data), 'sortv': mkcase('OV%d' % i, lib.new_cfg(set=sets, sort=[ev], select=['.=r', e + '=v']), data),
              'groupv': mkcase('GV%d' % i, lib.new_cfg(set=sets, group=ev), data), 'splitv': mkcase('PV%d' % i, lib.new_cfg(set=sets, split=ev), data),
              'dot': None}
        if e.startswith('(') and re.match(r'\(([^\s().,"]+) \. ', e):
            cs['dot'] = mkcase('D%d' % i, lib.new_cfg(select=[re.sub(r'^\(([^\s().,"]+) \. ', r'(.\1 ', e) + '=v']), data)
        elif e.startswith('(') and re.match(r'\(([^\s().,"]+) \.\)$', e):
            cs['dot'] = mkcase('D%d' % i, lib.new_cfg(select=[re.sub(r'^\(([^\s().,"]+) \.\)$', r'(.\1)', e) + '=v']), data)
        for c in cs.values():
            if c is not None: cases.append(c)
        meta.append((e, ev, cs))
    # with --split-by: an expression that looks at the enclosing record has the same value in a first and in a later
    # --select, in --filter, --sort-by and --group-by
    scases = []; smeta = []; mmeta = []; s2meta = []
    SPL = ['^.k', '(size ^.arr)', '^.a', '(concat (default ^.k "n") "-")', '.']
    for i in range(n // 4):
        e = rnd.choice(SPL)
        one = mkcase('Y%d' % i, lib.new_cfg(split='.arr', select=[e + '=v']), data)
        two = mkcase('Z%d' % i, lib.new_cfg(split='.arr', select=['.=o', '(size .)=p', e + '=v']), data)
        srt = mkcase('W%d' % i, lib.new_cfg(split='.arr', select=['.=o', e + '=v'], sort=['(? true 1 %s)' % e]), data)
        grp = mkcase('X%d' % i, lib.new_cfg(split='.arr', select=[e + '=v'], group='(stringify %s)' % e), data)
        # the same expression behind a macro (--set @mm=e ... @mm, and (@ "mm")): the macro body sees the record, its parents and the rows selected so far
        mac = mkcase('U%d' % i, lib.new_cfg(split='.arr', set=['@mm=' + e], select=[rnd.choice(['@mm=v', '(@ "mm")=v', '(? true @mm 0)=v'])]), data)
        mac2 = mkcase('UU%d' % i, lib.new_cfg(split='.arr', set=['@mm=(push [] %s /o/)' % e], select=['.=o', '@mm=v']), data)
        ref2 = mkcase('UR%d' % i, lib.new_cfg(split='.arr', select=['.=o', '(push [] %s /o/)=v' % e]), data)
        # behind one or two sorters the rows still carry their parents: ^ in a later sort key, in --group-by, in a later --select
        srt2 = mkcase('W2_%d' % i, lib.new_cfg(split='.arr', select=['.=o', e + '=v'], sort=['(? true 1 .)', '(? true 1 %s)' % e]), data)
        srt3 = mkcase('W3_%d' % i, lib.new_cfg(split='.arr', sort=['(? true 1 .)'], select=['.=o', e + '=v']), data)
        grp2 = mkcase('X2_%d' % i, lib.new_cfg(split='.arr', sort=['(? true 1 .)'], select=[e + '=v'], group='(stringify %s)' % e), data)
        scases += [one, two, srt, grp, mac, mac2, ref2, srt2, srt3, grp2]; smeta.append((e, one, two, srt, grp)); mmeta.append((e, one, mac, mac2, ref2)); s2meta.append((e, one, grp, srt2, srt3, grp2))
    cases += scases
    # regex functions under different cache sizes
    rcases = []; rmeta = []
    # small patterns, invalid ones, and patterns whose compiled program is large (counted repetitions of Unicode classes):
    # a cache that compiles differently from the uncached path (limits, flags) shows only on the large ones
    pats = ['a.', '^x', 'b+', '(a)(b)', '[', 'z$', '.*', 'a|x', '\\w{50}', '\\w{1,48}b?', '\\pL{1,60}', '(?i)[a-z]{2,80}c', '(\\d+|\\w+){1,20}', '(a|b|x){1,30}', '\\p{Greek}*\\w{30}z?', 'a{1001}', '(?x) a b  c',
            # long patterns that agree on a long prefix (or suffix) and differ elsewhere: a cache keyed by a part of the text confuses them (round 13, C13_13)
            '(?:zz|yy|ww|vv|uu|tt|ss|rr|qq|pp|oo|nn|mm|ll|kk|jj|ii|hh|gg|ff|ee|dd|cc)|abc', '(?:zz|yy|ww|vv|uu|tt|ss|rr|qq|pp|oo|nn|mm|ll|kk|jj|ii|hh|gg|ff|ee|dd|cc)|xbz',
            'abc|(?:zz|yy|ww|vv|uu|tt|ss|rr|qq|pp|oo|nn|mm|ll|kk|jj|ii|hh|gg|ff|ee|dd|cc)', 'zzz|(?:zz|yy|ww|vv|uu|tt|ss|rr|qq|pp|oo|nn|mm|ll|kk|jj|ii|hh|gg|ff|ee|dd|cc)',
            '(?:zz|yy|ww|vv|uu|tt|ss|rr|qq|pp|oo|nn|mm|ll|kk|jj|ii|hh|gg|ff|ee|dd|cc)|ab$']
    for i in range(30 if ctx['tier'] == 'quick' else 400):
        hist = [rnd.choice(pats) for _ in range(rnd.choice([2, 5, 12, 40]))]
        recs = [{'s': rnd.choice(['abc', 'xbz', 'ab', 'zzz', '', 'abcdefghijklmnopqrstuvwxyz' * 3, 'éa' * 30]), 'p': p} for p in hist]
        e = rnd.choice(['(match .s .p)', '(extract_regex_group .s .p 0)', '(extract_regex_group .s .p 1)'])
        grp = []
        for size in (0, 1, 2, 64):
            c = mkcase('R%d_%d' % (i, size), lib.new_cfg(select=[e + '=v'], cache=size), gen.stream(recs)); rcases.append(c); grp.append(c)
        rmeta.append(grp)
    impl, model, mism = common.correspond(cases)
    rimpl = lib.run_harness(rcases)
    violations = []; checked = 0
    for e, ev, cs in meta:
        s = impl[cs['sel']['id']]
        if s['result'] != 'ok': continue
        vals = [json.loads(r).get('v', '<nothing>') for r in rows(s['stdout'])]
        def V(kind, rel, obs, exp):
            c = cs[kind]; d = c['inputs'][0]['data']
            violations.append({'property': 'C13', 'relation': rel, 'expression': e, 'args': lib.cfg_args(c['cfg']), 'stdin_hex': d.hex(), 'observed': obs, 'expected': exp})
        checked += 1
        a = impl[cs['alias']['id']]
        if a['result'] != 'ok' or a['stdout'] != s['stdout']: V('alias', 'the value does not depend on the alias used nor on comma/space separators (%s)' % ev, a['stdout'].decode('utf8', 'replace')[:300], s['stdout'].decode('utf8', 'replace')[:300])
        if cs['dot'] is not None:
            d = impl[cs['dot']['id']]
            if d['result'] != 'ok' or d['stdout'] != s['stdout']: V('dot', '(.f x) means (f . x)', d['stdout'].decode('utf8', 'replace')[:300], s['stdout'].decode('utf8', 'replace')[:300])
        m = impl[cs['macro']['id']]
        if m['result'] != 'ok' or m['stdout'] != s['stdout']: V('macro', 'the value is the same in a macro', m['stdout'].decode('utf8', 'replace')[:300], s['stdout'].decode('utf8', 'replace')[:300])
        f = impl[cs['filter']['id']]
        if f['result'] == 'ok':
            exp = [r for r, v in zip(RECS, vals) if v is True]
            got = [json.loads(r) for r in rows(f['stdout'])]
            if got != exp: V('filter', '--filter keeps exactly the records on which the expression is true in --select', json.dumps(got)[:300], json.dumps(exp)[:300])
        g = impl[cs['group']['id']]
        if g['result'] == 'ok':
            exp = {}
            for r, v in zip(RECS, vals):
                if isinstance(v, str) and v != '<nothing>': exp.setdefault(v, []).append(r)
            got = json.loads(rows(g['stdout'])[0])
            if got != exp or list(got.keys()) != list(exp.keys()): V('group', '--group-by groups by the value the expression has in --select', json.dumps(got)[:300], json.dumps(exp)[:300])
        p = impl[cs['split']['id']]
        if p['result'] == 'ok':
            exp = [x for v in vals if isinstance(v, list) for x in v]
            got = [json.loads(r) for r in rows(p['stdout'])]
            if got != exp: V('split', '--split-by yields the elements of the value the expression has in --select', json.dumps(got)[:300], json.dumps(exp)[:300])
        o = impl[cs['sort']['id']]
        if o['result'] == 'ok':
            got = [json.loads(r) for r in rows(o['stdout'])]
            # rows sorted by the expression carry their own key value: the key column must be non-decreasing w.r.t. presence and equal to the select value of that record
            for r in got:
                idx = RECS.index(r['r'])
                if r.get('v', '<nothing>') != vals[idx]: V('sort', 'the value is the same after --sort-by', json.dumps(r)[:300], json.dumps(vals[idx])[:300]); break
            if len(got) != sum(1 for v in vals if v != '<nothing>'): V('sort', '--sort-by keeps exactly the records on which the expression has a value', len(got), sum(1 for v in vals if v != '<nothing>'))
        # the alias / separator spelling behaves in every option position as the plain spelling does there
        for plain, var, where in (('filter', 'filterv', '--filter'), ('sort', 'sortv', '--sort-by'), ('group', 'groupv', '--group-by'), ('split', 'splitv', '--split-by')):
            x, y = impl[cs[plain]['id']], impl[cs[var]['id']]
            if (x['result'], x['stdout']) != (y['result'], y['stdout']):
                V(var, 'the spelling with aliases and comma/space separators (%s) means the same in %s as in --select' % (ev, where), (y['result'] + ' ' + y['stdout'].decode('utf8', 'replace'))[:300], (x['result'] + ' ' + x['stdout'].decode('utf8', 'replace'))[:300])
    for e, one, grp, srt2, srt3, grp2 in s2meta:
        a = impl[one['id']]
        if a['result'] != 'ok': continue
        vals = [json.loads(r).get('v', '<nothing>') for r in rows(a['stdout'])]
        for c, rel in ((srt2, 'a second --sort-by key'), (srt3, '--select behind a sorter')):
            b = impl[c['id']]; checked += 1
            got = [json.loads(r).get('v', '<nothing>') for r in rows(b['stdout'])] if b['result'] == 'ok' else None
            if got != vals:        # the constant sort keys keep the arrival order
                d = c['inputs'][0]['data']
                violations.append({'property': 'C13', 'relation': 'with --split-by, the value of an expression that uses ^ is the same in %s' % rel, 'expression': e, 'args': lib.cfg_args(c['cfg']), 'stdin_hex': d.hex(),
                                   'observed': json.dumps(got)[:300], 'expected': json.dumps(vals)[:300]})
        g1, g2 = impl[grp['id']], impl[grp2['id']]; checked += 1
        if (g1['result'], g1['stdout']) != (g2['result'], g2['stdout']):
            d = grp2['inputs'][0]['data']
            violations.append({'property': 'C13', 'relation': 'with --split-by, --group-by on an expression that uses ^ groups the same behind a sorter', 'expression': e, 'args': lib.cfg_args(grp2['cfg']), 'stdin_hex': d.hex(),
                               'observed': g2['stdout'].decode('utf8', 'replace')[:300], 'expected': g1['stdout'].decode('utf8', 'replace')[:300]})
    for e, one, mac, mac2, ref2 in mmeta:
        for x, y in ((one, mac), (ref2, mac2)):
            a, b = impl[x['id']], impl[y['id']]; checked += 1
            va = [json.loads(r).get('v', '<nothing>') for r in rows(a['stdout'])] if a['result'] == 'ok' else a['result']
            vb = [json.loads(r).get('v', '<nothing>') for r in rows(b['stdout'])] if b['result'] == 'ok' else b['result']
            if va != vb:
                d = y['inputs'][0]['data']
                violations.append({'property': 'C13', 'relation': 'an expression means the same behind a macro as written in place (input, parents ^ and selected rows /name/ included)', 'expression': e,
                                   'args': lib.cfg_args(y['cfg']), 'stdin_hex': d.hex(), 'observed': json.dumps(vb)[:300], 'expected': json.dumps(va)[:300]})
    for e, one, two, srt, grp in smeta:
        a = impl[one['id']]
        if a['result'] != 'ok': continue
        vals = [json.loads(r).get('v', '<nothing>') for r in rows(a['stdout'])]
        checked += 1
        for c, rel in ((two, 'a later --select'), (srt, '--sort-by after --select')):
            b = impl[c['id']]
            got = [json.loads(r).get('v', '<nothing>') for r in rows(b['stdout'])] if b['result'] == 'ok' else None
            if got != vals:
                d = c['inputs'][0]['data']
                violations.append({'property': 'C13', 'relation': 'with --split-by, the value of an expression that uses ^ is the same in %s' % rel, 'expression': e, 'args': lib.cfg_args(c['cfg']), 'stdin_hex': d.hex(),
                                   'observed': json.dumps(got)[:300], 'expected': json.dumps(vals)[:300]})
        g = impl[grp['id']]
        if g['result'] == 'ok':
            got = json.loads(rows(g['stdout'])[0]); exp = {}
            for v in vals:
                if v != '<nothing>': exp.setdefault(json.dumps(v, ensure_ascii=False, separators=(', ', ': ')), []).append({'v': v})
            if {k: len(x) for k, x in got.items()} != {k: len(x) for k, x in exp.items()}:
                d = grp['inputs'][0]['data']
                violations.append({'property': 'C13', 'relation': 'with --split-by, --group-by sees the same value of an expression that uses ^ as --select', 'expression': e, 'args': lib.cfg_args(grp['cfg']), 'stdin_hex': d.hex(),
                                   'observed': json.dumps({k: len(x) for k, x in got.items()})[:300], 'expected': json.dumps({k: len(x) for k, x in exp.items()})[:300]})
    for grp in rmeta:
        outs = [(rimpl[c['id']]['result'], rimpl[c['id']]['stdout']) for c in grp]
        checked += 1
        if any(o != outs[0] for o in outs[1:]):
            c = grp[0]; d = c['inputs'][0]['data']
            violations.append({'property': 'C13', 'relation': 'the output does not depend on --regular-expression-cache-size', 'args': lib.cfg_args(c['cfg']), 'stdin_hex': d.hex(),
                               'observed': [o[1].decode('utf8', 'replace')[:200] for o in outs], 'expected': 'identical'})
    cov = {'evaluations': len(cases) + len(rcases), 'distinct_nontrivial': common.nontrivial_count(cases, impl),
           'rule': 'expressions (canned + generated) in --select, --filter, --sort-by, --group-by, --split-by and a macro, with random aliases, comma/space/padding separators and the leading-dot sugar; regex functions over histories of up to 40 (subject, pattern) pairs with repeating and alternating patterns under cache sizes {0,1,2,64}',
           'samples': [common.describe(c) for c in cases[:2]],
           'traces_validated_against_impl': len(cases) - len(mism), 'model_mismatches': len(mism), 'direct_relations_checked': checked}
    broken = ['correspondence: model and implementation differ on %d cases, e.g. %s' % (len(mism), json.dumps(mism[0])[:1500])] if mism else []
    return {'coverage': cov, 'violations': violations, 'broken': broken}

def replay(ctx, r):
    c = {'id': 'r', 'cfg': lib.new_cfg(), 'args': r['args'], 'inputs': [{'data': bytes.fromhex(r['stdin_hex'])}]}
    a = lib.run_harness([c])['r']
    return {'observed': a['stdout'].decode('utf8', 'replace')[:400], 'expected': r.get('expected'), 'fails': True}
