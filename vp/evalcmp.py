#!/usr/bin/env python3
"""evalcmp.py FILE — correspondence of the expression evaluator.
FILE: one case per line:  <expression> TAB <input JSON text>   (lines starting with # ignored).
Each case runs jawk with --select=<expression>=x on the single input value, in the implementation
(Rust harness on /repo) and in the Coq model (extracted driver), and the outputs are compared.
Options: --build (rebuild harness and model first), --show-ok, --numeric (compare string results
as exact decimals instead of text)."""
import sys, os, json
sys.path.insert(0, os.path.dirname(os.path.abspath(__file__)))
import lib
from fractions import Fraction

def dec_value(s):
    try:
        s = s.strip()
        if 'e' in s.lower():
            m, e = s.lower().split('e'); return Fraction(m) * Fraction(10) ** int(e)
        return Fraction(s)
    except Exception:
        return None

def main():
    args = [a for a in sys.argv[1:] if not a.startswith('--')]
    flags = set(a for a in sys.argv[1:] if a.startswith('--'))
    if '--build' in flags:
        ok, out = lib.build_harness(); print('harness', ok) if ok else print(out)
        rc, out = lib.gen_tables()
        ok, out = lib.build_model(); print('model', ok) if ok else print(out)
        if not ok: sys.exit(2)
    cases = []
    for ln, line in enumerate(open(args[0], encoding='utf8'), 1):
        line = line.rstrip('\n')
        if not line.strip() or line.startswith('#'): continue
        if '\t' in line: e, inp = line.split('\t', 1)
        else: e, inp = line, 'null'
        cases.append({'id': str(ln), 'cfg': lib.new_cfg(select=[e + '=x']), 'inputs': [{'data': inp.encode('utf8')}], '_e': e, '_i': inp})
    impl = lib.run_harness(cases); model = lib.run_model(cases)
    bad = 0
    for c in cases:
        a = impl.get(c['id']); b = model.get(c['id'])
        ao = (a['result'], a['stdout']) if a else None
        bo = (lib.kind(b), b['stdout']) if b else None
        ak = (lib.kind(a), a['stdout']) if a else None
        same = ak == bo
        if not same and '--numeric' in flags and a and b and lib.kind(a) == lib.kind(b):
            try:
                x = json.loads(a['stdout']).get('x'); y = json.loads(b['stdout']).get('x')
                if isinstance(x, str) and isinstance(y, str) and dec_value(x) is not None and dec_value(x) == dec_value(y): same = True
            except Exception: pass
        if not same:
            bad += 1
            print('DIFF line %s: %s   on   %s' % (c['id'], c['_e'], c['_i']))
            print('   impl : %s %r %s' % (a and a['result'], a and a['stdout'], a and a.get('msg', '')))
            print('   model: %s %r' % (b and b['result'], b and b['stdout']))
        elif '--show-ok' in flags:
            print('ok   line %s: %s -> %r' % (c['id'], c['_e'], a['stdout']))
    print('%d cases, %d differences' % (len(cases), bad))
    sys.exit(1 if bad else 0)

if __name__ == '__main__':
    main()
