#!/usr/bin/env python3
"""Translator: regenerates coq/Gen/*.v from /repo/src on every run.

It reads Rust source text with a small tokenizer (strings, comments, balanced brackets) and
extracts the tables the Coq model is parameterised by.  If a shape it expects is not found it
writes a table with an `Unrecognised` marker so that the dependent lemma fails to compile."""
import os, re, sys, json

def strip_comments(src):
    out = []; i = 0; n = len(src)
    while i < n:
        c = src[i]
        if c == '"':
            j = i + 1
            while j < n:
                if src[j] == '\\': j += 2; continue
                if src[j] == '"': break
                j += 1
            out.append(src[i:j+1]); i = j + 1
        elif src.startswith("b'", i) or (c == "'" and i + 2 < n and (src[i+2] == "'" or src[i+1] == '\\')):
            # char / byte literal
            j = i + (2 if src.startswith("b'", i) else 1)
            if src[j] == '\\': j += 2
            else: j += 1
            while j < n and src[j] != "'": j += 1
            out.append(src[i:j+1]); i = j + 1
        elif src.startswith('//', i):
            while i < n and src[i] != '\n': i += 1
        elif src.startswith('/*', i):
            j = src.find('*/', i + 2); i = n if j < 0 else j + 2
        else:
            out.append(c); i += 1
    return ''.join(out)

def match_close(src, i):
    """src[i] is an opening bracket; return index of its matching close."""
    pairs = {'(': ')', '[': ']', '{': '}'}
    depth = 0; n = len(src)
    while i < n:
        c = src[i]
        if c == '"':
            i += 1
            while i < n and src[i] != '"':
                if src[i] == '\\': i += 1
                i += 1
        elif c == "'" or (c == 'b' and i + 1 < n and src[i+1] == "'" and (i == 0 or not (src[i-1].isalnum() or src[i-1] == '_'))):
            j = i + (2 if c == 'b' else 1)
            if j < n and src[j] == '\\': j += 2
            else: j += 1
            if j < n and src[j] == "'": i = j
            # else: a lifetime, ignore
        elif c in '([{': depth += 1
        elif c in ')]}':
            depth -= 1
            if depth == 0: return i
        i += 1
    return -1

def split_args(s):
    args = []; depth = 0; cur = []; i = 0; n = len(s)
    while i < n:
        c = s[i]
        if c == '"':
            j = i + 1
            while j < n and s[j] != '"':
                if s[j] == '\\': j += 1
                j += 1
            cur.append(s[i:j+1]); i = j + 1; continue
        if c in '([{': depth += 1
        if c in ')]}': depth -= 1
        if c == ',' and depth == 0:
            args.append(''.join(cur).strip()); cur = []
        else: cur.append(c)
        i += 1
    if ''.join(cur).strip(): args.append(''.join(cur).strip())
    return args

def rust_str(lit):
    assert lit.startswith('"') and lit.endswith('"'), lit
    body = lit[1:-1]; out = []; i = 0
    while i < len(body):
        if body[i] == '\\':
            e = body[i+1]
            out.append({'n': '\n', 't': '\t', 'r': '\r', '\\': '\\', '"': '"', '0': '\0', "'": "'"}[e]); i += 2
        else: out.append(body[i]); i += 1
    return ''.join(out)

def coq_bytes(s):
    return '[' + '; '.join(str(b) for b in s.encode('utf8')) + ']'

def subst_str_consts(src):
    """`const NAME: &str = "x";` -> later uses of NAME become the literal"""
    for m in list(re.finditer(r'const\s+([A-Z_][A-Z0-9_]*)\s*:\s*&\s*(?:\'static\s+)?str\s*=\s*("(?:\\.|[^"\\])*")\s*;', src)):
        src = src[:m.end()] + re.sub(r'\b%s\b' % m.group(1), lambda _: m.group(2), src[m.end():])
    return src

def functions(srcdir):
    """every FunctionDefinitions::new("name", min, max, ..) chain under src/functions; a definition whose name / arity /
    aliases are not written as literals is counted in `unreadable` (its file is listed) instead of being guessed"""
    fns = []; unreadable = []
    for root, _, files in sorted(os.walk(os.path.join(srcdir, 'functions'))):
        for f in sorted(files):
            if not f.endswith('.rs'): continue
            path = os.path.join(root, f)
            src = subst_consts(subst_str_consts(strip_comments(open(path).read())))
            for m in re.finditer(r'FunctionDefinitions::new\s*\(', src):
              try:
                o = m.end() - 1; c = match_close(src, o)
                args = split_args(src[o+1:c])
                name = rust_str(args[0])
                def num(a):
                    a = a.strip()
                    if a == 'usize::MAX': return None
                    return int(a)
                mn, mx = num(args[1]), num(args[2])
                aliases = []; examples = []
                i = c + 1
                while True:
                    mm = re.compile(r'\s*\.\s*(\w+)\s*\(').match(src, i)
                    if not mm: break
                    o2 = mm.end() - 1; c2 = match_close(src, o2)
                    if mm.group(1) == 'add_alias':
                        aliases.append(rust_str(src[o2+1:c2].strip()))
                    if mm.group(1) == 'add_example':
                        ex = {'args': [], 'input': None, 'output': None, 'approx': False}
                        body = src[o2+1:c2]
                        for em in re.finditer(r'\.\s*(\w+)\s*\(', body):
                            eo = em.end() - 1; ec = match_close(body, eo); arg = body[eo+1:ec].strip()
                            try:
                                if em.group(1) == 'add_argument': ex['args'].append(rust_str(arg))
                                elif em.group(1) == 'input': ex['input'] = rust_str(arg)
                                elif em.group(1) == 'expected_output': ex['output'] = rust_str(arg)
                                elif em.group(1) == 'more_or_less': ex['approx'] = True
                                elif em.group(1) in ('validate_output', 'expected_json'): ex['output'] = '?'
                            except Exception: ex['output'] = '?'
                        examples.append(ex)
                    i = c2 + 1
                # the chain must end the expression: anything else after it (e.g. a loop adding aliases) is not read
                tail = src[i:i+40].lstrip()
                if tail and tail[0] not in ';,)}': raise ValueError('definition chain continues in an unknown form')
                fns.append({'name': name, 'min': mn, 'max': mx, 'aliases': aliases, 'examples': examples,
                            'file': os.path.relpath(path, srcdir)})
              except Exception as e:
                unreadable.append(os.path.relpath(path, srcdir))
    return fns, unreadable

def gen_fntable(srcdir, outdir, T):
    fns, unreadable = functions(srcdir)
    # definitions the reader could not read: the functions known from the pinned tree that are now missing are taken from
    # the behavioural probe (name and aliases resolve, arity by trying 0..5 arguments), see vp/probe.py
    known = json.load(open(os.path.join(os.path.dirname(os.path.abspath(__file__)), 'fn_table_known.json')))
    have = set(f['name'] for f in fns)
    missing = [k for k in known if k['name'] not in have] if unreadable else []
    probed = {p['name']: p for p in (T.probed.get('fn_table') or [])}
    status = 'source'
    for k in missing:
        if k['name'] in probed:
            p = probed[k['name']]; fns.append({'name': p['name'], 'min': p['min'], 'max': p['max'], 'aliases': p['aliases'], 'examples': [], 'file': 'PROBED'})
            status = 'probed'
        else: status = 'unrecognised'
    if unreadable and len(missing) < len(set(unreadable)) and status != 'unrecognised':
        status = 'unrecognised'          # an unreadable definition that is not one of the known functions
    T.status['fn_table'] = status
    T.source_reading['fn_table_unreadable_files'] = unreadable
    T.source_reading['fn_table_missing'] = [k['name'] for k in missing]
    lines = ["(* GENERATED by extractor/gen_tables.py from /repo/src/functions — do not edit *)",
             "From Coq Require Import List NArith.", "Import ListNotations.", "Local Open Scope N_scope.",
             "(* status: %s%s *)" % (status, '' if status == 'source' else '; not read in the source: ' + ', '.join(k['name'] for k in missing)),
             "(* (name or alias, canonical name, min args, max args (None = unbounded)) *)",
             "Definition fn_table : list (list N * list N * N * option N) := ["]
    rows = []
    for f in fns:
        for nm in [f['name']] + f['aliases']:
            mx = 'None' if f['max'] is None else 'Some %d' % f['max']
            rows.append("  (%s, %s, %d, %s)" % (coq_bytes(nm), coq_bytes(f['name']), f['min'], mx))
    lines.append(';\n'.join(rows)); lines.append("].")
    lines.append("Definition fn_count : N := %d." % len(fns))
    write_if_changed(os.path.join(outdir, 'FnTable.v'), '\n'.join(lines) + '\n')
    return fns

def write_if_changed(path, content):
    old = open(path).read() if os.path.exists(path) else None
    if old != content:
        open(path, 'w').write(content)


# ---------------------------------------------------------------- further tables
def fn_body(src, header_re):
    m = re.search(header_re, src)
    if not m: return None
    o = src.index('{', m.end() - 1) if src[m.end()-1] != '{' else m.end() - 1
    c = match_close(src, o)
    return src[o:c+1]

BYTE = r"b'(\\.|[^'\\])'"
def byte_val(tok):
    """b'x' / b'\n' / b'\\' ... -> int"""
    m = re.fullmatch(BYTE, tok)
    if not m: return None
    t = m.group(1)
    if t.startswith('\\'):
        return {'n': 10, 't': 9, 'r': 13, '\\': 92, "'": 39, '"': 34, '0': 0}.get(t[1])
    return ord(t)
def char_val(tok):
    m = re.fullmatch(r"'(\\u\{[0-9a-fA-F]+\}|\\.|[^'\\])'", tok)
    if not m: return None
    t = m.group(1)
    if t.startswith('\\u{'): return int(t[3:-1], 16)
    if t.startswith('\\'): return {'n': 10, 't': 9, 'r': 13, '\\': 92, "'": 39, '"': 34, '0': 0}.get(t[1])
    return ord(t)
def byte_pattern(pat):
    """b'a' | b'b' | b'0'..=b'9' -> sorted list of ints (pattern position)"""
    out = []
    for alt in pat.split('|'):
        alt = alt.strip()
        m = re.fullmatch('(%s)\s*\.\.=\s*(%s)' % (BYTE, BYTE), alt)
        if m:
            lo = byte_val(re.match(BYTE, alt).group(0)); hi = byte_val(alt.split('..=')[1].strip())
            out += list(range(lo, hi + 1))
        else:
            v = byte_val(alt)
            if v is None: return None
            out.append(v)
    return sorted(out)
def byte_expr(expr):
    """the same text in EXPRESSION position: `|` is bitwise or"""
    v = 0
    for alt in expr.split('|'):
        x = byte_val(alt.strip())
        if x is None: return None
        v |= x
    return v

def flatten(block):
    """the text of a block with every nested { ... } replaced by {}"""
    out = []; i = 0
    while i < len(block):
        if block[i] == '{':
            c = match_close(block, i)
            if c < 0: break
            out.append('{}'); i = c + 1
        else: out.append(block[i]); i += 1
    return ''.join(out)

def coq_list(l): return '[' + '; '.join(str(x) for x in l) + ']'
UNREC = "Unrecognised"

def subst_consts(src):
    """`const NAME: u8 = b'x';` / `const NAME: char = 'x';` / integer consts: replace later uses of NAME by the literal"""
    for m in list(re.finditer(r"const\s+([A-Z_][A-Z0-9_]*)\s*:\s*(?:u8|char|i32|i64|u32|usize)\s*=\s*(%s|'(?:\\u\{[0-9a-fA-F]+\}|\\.|[^'\\])'|-?\d+)\s*;" % BYTE, src)):
        src = src[:m.end()] + re.sub(r'\b%s\b' % m.group(1), lambda _: m.group(2), src[m.end():])
    return src

class Tables:
    """the value of each table, and where it came from: 'source' (read in /repo/src), 'probed' (the shape was not
    recognised in the source: determined from the behaviour of the code built from /repo, exhaustively over the
    table's finite domain, see vp/probe.py) or 'unrecognised' (neither: the dependent obligation fails)"""
    def __init__(self, probed): self.probed = probed or {}; self.status = {}; self.source_reading = {}
    def pick(self, name, value):
        self.source_reading[name] = value
        if value is not None: self.status[name] = 'source'; return value
        if self.probed.get(name) is not None:
            self.status[name] = 'probed'; v = self.probed[name]
            return [tuple(x) if isinstance(x, list) and name in ('parser_escapes', 'printer_escapes') else x for x in v] if isinstance(v, list) else v
        self.status[name] = 'unrecognised'; return None
    def note(self, name): return ' (* %s *)' % {'source': 'read in the source', 'probed': 'PROBED: shape not recognised in the source, determined from the behaviour of the built code', 'unrecognised': UNREC}[self.status[name]]

def gen_typerank(srcdir, outdir, T):
    src = strip_comments(open(os.path.join(srcdir, 'json_value.rs')).read())
    order = ['Null', 'Boolean', 'String', 'Number', 'Object', 'Array']
    val = None
    # any method of JsonValue -> usize whose body is one match with six numeric arms
    for m in re.finditer(r'fn\s+\w+\s*\(&self\)\s*->\s*usize\s*\{', src):
        body = fn_body(src[m.start():], r'fn\s+\w+\s*\(&self\)\s*->\s*usize\s*\{')
        ranks = re.findall(r'(?:JsonValue|Self)::(\w+)(?:\s*\([^)]*\)|\s*\{[^}]*\})?\s*=>\s*(\d+)', body or '')
        d = dict(ranks)
        if len(ranks) == 6 and all(k in d for k in order): val = [int(d[k]) for k in order]; break
    txt = ["(* GENERATED from src/json_value.rs: JsonValue::inner_index *)", "From Coq Require Import List NArith.", "Import ListNotations.", "Local Open Scope N_scope.",
           "(* ranks of Null, Boolean, String, Number, Object, Array, in this order *)"]
    v = T.pick('type_ranks', val)
    txt.append("Definition type_ranks : list N := %s.%s" % (coq_list(v or []), T.note('type_ranks')))
    write_if_changed(os.path.join(outdir, 'TypeRank.v'), '\n'.join(txt) + '\n')

def gen_bytesets(srcdir, outdir, T):
    rd = subst_consts(strip_comments(open(os.path.join(srcdir, 'reader.rs')).read()))
    jp = subst_consts(strip_comments(open(os.path.join(srcdir, 'json_parser.rs')).read()))
    txt = ["(* GENERATED from src/reader.rs and src/json_parser.rs *)", "From Coq Require Import List NArith.", "Import ListNotations.", "Local Open Scope N_scope."]
    PATS = r'((?:%s\s*\|?\s*)+)' % BYTE
    # whitespace: exactly one byte pattern in eat_whitespace
    body = fn_body(rd, r'fn\s+eat_whitespace\s*\(&mut self\)[^{;]*\{') or ''
    ms = re.findall(r'Some\(\s*%s\)' % PATS, body)
    ws = byte_pattern(ms[0][0]) if len(ms) == 1 and len(re.findall(BYTE, body)) == len(re.findall(BYTE, ms[0][0])) else None
    v = T.pick('ws_bytes', ws)
    txt.append("Definition ws_bytes : list N := %s.%s" % (coq_list(v or []), T.note('ws_bytes')))
    body = fn_body(rd, r'fn\s+read_digits\s*\(&mut self[^)]*\)[^{;]*\{') or ''
    ms = re.findall(r'(%s\s*\.\.=\s*%s)' % (BYTE, BYTE), body)
    dg = byte_pattern(ms[0][0]) if len(ms) == 1 and len(re.findall(BYTE, body)) == 2 else None
    v = T.pick('digit_bytes', dg)
    txt.append("Definition digit_bytes : list N := %s.%s" % (coq_list(v or []), T.note('digit_bytes')))
    # dispatch of next_json_value: bytes -> reader function
    body = fn_body(jp, r'fn\s+next_json_value\s*\(&mut self\)[^{;]*\{') or ''
    kinds = {'read_true': 1, 'read_false': 2, 'read_null': 3, 'read_string': 4, 'read_number': 5, 'read_array': 6, 'read_object': 7}
    disp = []
    for m in re.finditer(r'Some\(\s*([^()]*?)\s*\)\s*=>\s*Ok\(Some\(self\.(read_\w+)\(\)\?\)\)', body):
        bs = byte_pattern(m.group(1))
        if bs is None or m.group(2) not in kinds: disp = None; break
        disp.append([bs, kinds[m.group(2)]])
    if disp is not None and (sorted(k for _, k in disp) != [1, 2, 3, 4, 5, 6, 7] or len(re.findall(r'self\.read_\w+\(', body)) != 7): disp = None
    v = T.pick('dispatch', disp)
    txt.append("(* (first bytes, reader: 1 true 2 false 3 null 4 string 5 number 6 array 7 object) *)")
    txt.append("Definition dispatch : list (list N * N) := [%s].%s" % ('; '.join('(%s, %d)' % (coq_list(bs), k) for bs, k in (v or [])), T.note('dispatch')))
    # the exponent test of read_number: a pattern (matches!) or an expression (==)
    body = fn_body(jp, r'fn\s+read_number\s*\(&mut self\)[^{;]*\{') or ''
    exp = None
    cands = []
    for m in re.finditer(r"matches!\(\s*self\.peek\(\)\?\s*,\s*Some\(\s*%s\)\s*\)" % PATS, body):
        if re.search(r"b'[eE]'", m.group(1)): cands.append(byte_pattern(m.group(1)))
    for m in re.finditer(r"self\.peek\(\)\?\s*==\s*Some\(\s*%s\)" % PATS, body):
        if re.search(r"b'[eE]'", m.group(1)): cands.append([byte_expr(m.group(1))])
    if len(cands) == 1: exp = cands[0]      # exactly one test of the next byte mentions e / E
    v = T.pick('exponent_markers', exp)
    txt.append("Definition exponent_markers : list N := %s.%s" % (coq_list(v or []), T.note('exponent_markers')))
    # escapes of read_string: letter -> pushed byte
    body = fn_body(jp, r'fn\s+read_string\s*\(&mut self\)[^{;]*\{') or ''
    esc = None
    m = re.search(r"Some\(\s*b'\\\\'\s*\)\s*=>\s*match\s+self\.next\(\)\?\s*\{", body)
    if m:
        blk = body[m.end() - 1:match_close(body, m.end() - 1) + 1]
        flat = flatten(blk[1:-1])
        arms = re.findall(r"Some\(\s*(%s)\s*\)\s*=>\s*(\{\}|[^,]*)" % BYTE, flat)
        esc = []
        for a in arms:
            letter = byte_val(a[0]); rhs = a[-1].strip()
            if letter == 117: continue                      # \uXXXX: modelled separately
            mm = re.fullmatch(r"chars\.push\(\s*(%s|0x[0-9a-fA-F]+|\d+)\s*\)" % BYTE, rhs)
            if not mm: esc = None; break
            tok = mm.group(1)
            esc.append((letter, byte_val(tok) if tok.startswith('b') else int(tok, 0)))
        if esc is not None and len(esc) < 2: esc = None
    v = T.pick('parser_escapes', esc)
    txt.append("Definition parser_escapes : list (N * N) := [%s].%s" % ('; '.join('(%d, %d)' % tuple(e) for e in (v or [])), T.note('parser_escapes')))
    write_if_changed(os.path.join(outdir, 'ByteSets.v'), '\n'.join(txt) + '\n')

def gen_printer_tables(srcdir, outdir, T):
    src = subst_consts(strip_comments(open(os.path.join(srcdir, 'output_style.rs')).read()))
    txt = ["(* GENERATED from src/output_style.rs: impl Print for JsonOutputOptions :: print_string *)", "From Coq Require Import List NArith.", "Import ListNotations.", "Local Open Scope N_scope."]
    i = src.find('impl<W: Write> Print<W> for JsonOutputOptions')
    body = fn_body(src[i:], r'fn\s+print_string\s*\(&self[^)]*\)[^{;]*\{') if i >= 0 else None
    esc = []
    for m in re.finditer(r"('(?:\\u\{[0-9a-fA-F]+\}|\\.|[^'\\])')\s*=>\s*write!\(\s*f\s*,\s*\"((?:\\.|[^\"\\])*)\"\s*\)", body or ''):
        c = char_val(m.group(1)); out = rust_str('"' + m.group(2) + '"')
        if c is not None and len(out) == 2 and out[0] == '\\': esc.append((c, ord(out[1])))
    m = re.search(r"if\s*(.*?)\{\s*write!\(f,\s*\"\{ch\}\"\)", body or '', re.S)
    cond = re.sub(r'\s+', ' ', m.group(1)).strip() if m else ''
    literal_cond = {"(self.utf8_strings && ch >= ' ') || (' '..='~').contains(&ch)": 1}.get(cond)
    fm = 1 if re.search(r'write!\(f,\s*"\\\\u\{:04x\}"', body or '') else None
    if literal_cond is None or fm is None or len(esc) < 2: esc = literal_cond = fm = None    # one reading of the whole function, or none
    v = T.pick('printer_escapes', esc)
    txt.append("(* (code point, letter after the backslash) *)")
    txt.append("Definition printer_escapes : list (N * N) := [%s].%s" % ('; '.join('(%d, %d)' % tuple(e) for e in (v or [])), T.note('printer_escapes')))
    v = T.pick('literal_condition', literal_cond)
    txt.append("(* condition under which a character is written literally: 1 = (utf8 && ch >= ' ') || ' '..='~' *)")
    txt.append("Definition literal_condition : N := %d.%s" % (v or 0, T.note('literal_condition')))
    v = T.pick('unicode_escape_format', fm)
    txt.append("Definition unicode_escape_format : N := %d. (* 1 = \\u{:04x} *)%s" % (v or 0, T.note('unicode_escape_format')))
    write_if_changed(os.path.join(outdir, 'PrinterTables.v'), '\n'.join(txt) + '\n')

def inline_helpers(impl_src, body, depth=3):
    """textually expand calls to methods / associated functions defined in the same impl block (self.f(..), Self::f(..))"""
    for _ in range(depth):
        changed = False
        for m in list(re.finditer(r'(?:self\s*\.\s*|Self\s*::\s*)(\w+)\s*\(', body))[::-1]:
            name = m.group(1)
            if name == 'go': continue
            hb = fn_body(impl_src, r'fn\s+%s\s*(?:<[^>]*>)?\s*\(' % re.escape(name))
            if hb is None: continue
            c = match_close(body, m.end() - 1)
            body = body[:m.start()] + '/*inlined %s*/ ' % name + hb + body[c+1:]; changed = True
        if not changed: break
    return body

def gen_stageorder(srcdir, outdir, T):
    src = strip_comments(open(os.path.join(srcdir, 'lib.rs')).read())
    i = src.find('impl<S: Read> Master<S>')
    impl_src = src[i:] if i >= 0 else ''
    body = fn_body(impl_src, r'pub\s+fn\s+go\s*\(&self\)[^{;]*\{') if i >= 0 else ''
    # fn_body for helpers must look at their braces, not at a where clause: helper bodies are found by name
    def helper_body(name):
        m = re.search(r'fn\s+%s\s*(?:<[^>]*>)?\s*\(' % re.escape(name), impl_src)
        if not m: return None
        c = match_close(impl_src, m.end() - 1)
        o = impl_src.find('{', c)
        return impl_src[o:match_close(impl_src, o) + 1] if o >= 0 else None
    for _ in range(3):
        changed = False
        for m in list(re.finditer(r'(?:self\s*\.\s*|Self\s*::\s*)(\w+)\s*\(', body or ''))[::-1]:
            if m.group(1) == 'go': continue
            hb = helper_body(m.group(1))
            if hb is None: continue
            c = match_close(body, m.end() - 1)
            body = body[:m.start()] + hb + body[c+1:]; changed = True
        if not changed: break
    pats = [(r'get_processor\(', 'printer'), (r'group_by\.create_process\(|Merger::create_process\(', 'group'), (r'Limiter::create_process\(', 'limit'),
            (r'\.create_processor\(', 'sort'), (r'Uniquness::create_process\(', 'uniq'), (r'selection\.create_process\(', 'select'),
            (r'filter\.create_process\(', 'filter'), (r'splitter\.create_process\(', 'split'), (r'\.set\.create_process\(|pre_?sets?\.create_process\(', 'preset'),
            (r'\.start\(', 'start'), (r'read_input\(|read_file\(', 'read'), (r'\.complete\(', 'complete'), (r'\.flush\(\)', 'flush')]
    found = []
    for pat, name in pats:
        for m in re.finditer(pat, body or ''): found.append((m.start(), name))
    found.sort()
    seq = []
    for _, n in found:
        if not seq or seq[-1] != n: seq.append(n)
    code = {'printer': 0, 'group': 1, 'limit': 2, 'sort': 3, 'uniq': 4, 'select': 5, 'filter': 6, 'split': 7, 'preset': 8, 'start': 9, 'read': 10, 'complete': 11, 'flush': 12}
    # details read only when written in the known way; anything else is None (no conclusion: the correspondence decides)
    ob = lambda v: 'None' if v is None else 'Some %s' % ('true' if v else 'false')
    sel_rev = None
    if re.search(r'\.choose\s*\.iter\(\)\s*\.rev\(\)', body or ''): sel_rev = True
    elif re.search(r'for\s+\w+\s+in\s+(?:&\s*self\.cli\.choose|self\.cli\.choose\s*\.iter\(\))\s*\{', body or ''): sel_rev = False
    sort_first_cap = None
    if re.search(r'if\s+index\s*==\s*0\s*\{', body or ''): sort_first_cap = True
    elif re.search(r'\.create_processor\(', body or '') and not re.search(r'==\s*0|\.first\(\)|\.split_first\(\)|is_first|enumerate', body or ''): sort_first_cap = False
    # recognised = every stage is mentioned exactly once in the (expanded) body of go: then their textual order is the wrapping order
    recognised = sorted(seq) == sorted(code) and len(seq) == 13
    T.status['go_sequence'] = 'source' if recognised else 'unrecognised-skipped'
    txt = ["(* GENERATED from src/lib.rs: Master::go — the order in which the stages are wrapped (innermost first), then start / read / complete *)",
           "From Coq Require Import List NArith.", "Import ListNotations.", "Local Open Scope N_scope.",
           "(* false when the shape of Master::go was not recognised (every stage constructor exactly once): the obligations on this table",
           "   are then vacuous and the order of the stages is tied to the code by the correspondence runs alone *)",
           "Definition recognised : bool := %s." % ('true' if recognised else 'false'),
           "(* 0 printer 1 group|merge 2 limit 3 sort 4 unique 5 select 6 filter 7 split 8 preset 9 start 10 read 11 complete 12 flush *)",
           "Definition go_sequence : list N := %s." % coq_list([code[n] for n in seq]),
           "(* Some b when the source says so in the form the translator knows, None when it cannot tell *)",
           "Definition selections_wrapped_in_reverse : option bool := %s." % ob(sel_rev),
           "Definition only_first_sorter_capped : option bool := %s." % ob(sort_first_cap)]
    write_if_changed(os.path.join(outdir, 'StageOrder.v'), '\n'.join(txt) + '\n')

def gen_mainwiring(srcdir, outdir, T):
    src = subst_consts(strip_comments(open(os.path.join(srcdir, 'main.rs')).read()))
    def stream(var):
        m = re.search(r'let\s+%s\s*=\s*Rc::new\(RefCell::new\((?:std::)?(?:io::)?(\w+)\(\)\)\)' % var, src)
        return m.group(1) if m else None
    code = {'stdout': 1, 'stderr': 2}
    out, err = stream('stdout'), stream('stderr')
    m = re.search(r'if\s+let\s+Err\((\w+)\)\s*=\s*go\([^)]*\)\s*\{\s*eprintln!\("\{(?:\1)?\}"(?:\s*,\s*\1)?\);\s*(?:std::)?process::exit\((-?\d+)\);', src)
    txt = ["(* GENERATED from src/main.rs *)", "From Coq Require Import List NArith ZArith.", "Import ListNotations.",
           "(* 1 = std::io::stdout, 2 = std::io::stderr, 0 = unrecognised *)"]
    v = T.pick('rows_stream', code.get(out))
    txt.append("Definition rows_stream : N := %d%%N.%s" % (v or 0, T.note('rows_stream')))
    v = T.pick('diagnostics_stream', code.get(err))
    txt.append("Definition diagnostics_stream : N := %d%%N.%s" % (v or 0, T.note('diagnostics_stream')))
    v = T.pick('exit_code', int(m.group(2)) if m else None)
    txt.append("(* the exit status is the low byte of the argument of process::exit: -1 and 255 are the same status *)")
    txt.append("Definition error_message_to_stderr_and_exit_status : option Z := %s.%s" % ('Some (%d)%%Z' % (v % 256) if v is not None else 'None', T.note('exit_code')))
    write_if_changed(os.path.join(outdir, 'MainWiring.v'), '\n'.join(txt) + '\n')

def main():
    args = [a for a in sys.argv[1:] if not a.startswith('--')]
    srcdir = args[0] if len(args) > 0 else '/repo/src'
    outdir = args[1] if len(args) > 1 else os.path.join(os.path.dirname(os.path.abspath(__file__)), '..', 'coq', 'Gen')
    probed = None
    for a in sys.argv[1:]:
        if a.startswith('--probed='): probed = json.load(open(a.split('=', 1)[1]))
    os.makedirs(outdir, exist_ok=True)
    T = Tables(probed)
    fns = gen_fntable(srcdir, outdir, T)
    gen_typerank(srcdir, outdir, T); gen_bytesets(srcdir, outdir, T); gen_printer_tables(srcdir, outdir, T); gen_stageorder(srcdir, outdir, T); gen_mainwiring(srcdir, outdir, T)
    json.dump(fns, open(os.path.join(outdir, 'fn_table.json'), 'w'), indent=1)
    json.dump({'status': T.status, 'source_reading': T.source_reading}, open(os.path.join(outdir, 'tables_status.json'), 'w'), indent=1)
    print("functions:", len(fns), "names:", sum(1 + len(f['aliases']) for f in fns))
    print("tables:", json.dumps(T.status))

if __name__ == '__main__':
    main()
