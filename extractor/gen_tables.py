#!/usr/bin/env python3
"""Translator: regenerates coq/Gen/*.v from /repo/src on every run.

It reads Rust source text with a small tokenizer (strings, comments, balanced brackets) and
extracts the tables the Coq model is parameterised by.  If a shape it expects is not found it
writes a table with an `Unrecognised` marker so that the dependent lemma fails to compile."""
import os, re, sys, json

def strip_comments(src):
    out = []; i = 0; n = len(src)
    while i < n:
        c = src[i]
        if c == '"':
            j = i + 1
            while j < n:
                if src[j] == '\\': j += 2; continue
                if src[j] == '"': break
                j += 1
            out.append(src[i:j+1]); i = j + 1
        elif src.startswith("b'", i) or (c == "'" and i + 2 < n and (src[i+2] == "'" or src[i+1] == '\\')):
            # char / byte literal
            j = i + (2 if src.startswith("b'", i) else 1)
            if src[j] == '\\': j += 2
            else: j += 1
            while j < n and src[j] != "'": j += 1
            out.append(src[i:j+1]); i = j + 1
        elif src.startswith('//', i):
            while i < n and src[i] != '\n': i += 1
        elif src.startswith('/*', i):
            j = src.find('*/', i + 2); i = n if j < 0 else j + 2
        else:
            out.append(c); i += 1
    return ''.join(out)

def match_close(src, i):
    """src[i] is an opening bracket; return index of its matching close."""
    pairs = {'(': ')', '[': ']', '{': '}'}
    depth = 0; n = len(src)
    while i < n:
        c = src[i]
        if c == '"':
            i += 1
            while i < n and src[i] != '"':
                if src[i] == '\\': i += 1
                i += 1
        elif c == "'" or (c == 'b' and i + 1 < n and src[i+1] == "'" and (i == 0 or not (src[i-1].isalnum() or src[i-1] == '_'))):
            j = i + (2 if c == 'b' else 1)
            if j < n and src[j] == '\\': j += 2
            else: j += 1
            if j < n and src[j] == "'": i = j
            # else: a lifetime, ignore
        elif c in '([{': depth += 1
        elif c in ')]}':
            depth -= 1
            if depth == 0: return i
        i += 1
    return -1

def split_args(s):
    args = []; depth = 0; cur = []; i = 0; n = len(s)
    while i < n:
        c = s[i]
        if c == '"':
            j = i + 1
            while j < n and s[j] != '"':
                if s[j] == '\\': j += 1
                j += 1
            cur.append(s[i:j+1]); i = j + 1; continue
        if c in '([{': depth += 1
        if c in ')]}': depth -= 1
        if c == ',' and depth == 0:
            args.append(''.join(cur).strip()); cur = []
        else: cur.append(c)
        i += 1
    if ''.join(cur).strip(): args.append(''.join(cur).strip())
    return args

def rust_str(lit):
    assert lit.startswith('"') and lit.endswith('"'), lit
    body = lit[1:-1]; out = []; i = 0
    while i < len(body):
        if body[i] == '\\':
            e = body[i+1]
            out.append({'n': '\n', 't': '\t', 'r': '\r', '\\': '\\', '"': '"', '0': '\0', "'": "'"}[e]); i += 2
        else: out.append(body[i]); i += 1
    return ''.join(out)

def coq_bytes(s):
    return '[' + '; '.join(str(b) for b in s.encode('utf8')) + ']'

def functions(srcdir):
    fns = []
    for root, _, files in sorted(os.walk(os.path.join(srcdir, 'functions'))):
        for f in sorted(files):
            if not f.endswith('.rs'): continue
            path = os.path.join(root, f)
            src = strip_comments(open(path).read())
            for m in re.finditer(r'FunctionDefinitions::new\s*\(', src):
                o = m.end() - 1; c = match_close(src, o)
                args = split_args(src[o+1:c])
                name = rust_str(args[0])
                def num(a):
                    a = a.strip()
                    if a == 'usize::MAX': return None
                    return int(a)
                mn, mx = num(args[1]), num(args[2])
                aliases = []; examples = []
                i = c + 1
                while True:
                    mm = re.compile(r'\s*\.\s*(\w+)\s*\(').match(src, i)
                    if not mm: break
                    o2 = mm.end() - 1; c2 = match_close(src, o2)
                    if mm.group(1) == 'add_alias':
                        aliases.append(rust_str(src[o2+1:c2].strip()))
                    if mm.group(1) == 'add_example':
                        ex = {'args': [], 'input': None, 'output': None, 'approx': False}
                        body = src[o2+1:c2]
                        for em in re.finditer(r'\.\s*(\w+)\s*\(', body):
                            eo = em.end() - 1; ec = match_close(body, eo); arg = body[eo+1:ec].strip()
                            try:
                                if em.group(1) == 'add_argument': ex['args'].append(rust_str(arg))
                                elif em.group(1) == 'input': ex['input'] = rust_str(arg)
                                elif em.group(1) == 'expected_output': ex['output'] = rust_str(arg)
                                elif em.group(1) == 'more_or_less': ex['approx'] = True
                                elif em.group(1) in ('validate_output', 'expected_json'): ex['output'] = '?'
                            except Exception: ex['output'] = '?'
                        examples.append(ex)
                    i = c2 + 1
                fns.append({'name': name, 'min': mn, 'max': mx, 'aliases': aliases, 'examples': examples,
                            'file': os.path.relpath(path, srcdir)})
    return fns

def gen_fntable(srcdir, outdir):
    fns = functions(srcdir)
    lines = ["(* GENERATED by extractor/gen_tables.py from /repo/src/functions — do not edit *)",
             "From Coq Require Import List NArith.", "Import ListNotations.", "Local Open Scope N_scope.",
             "(* (name or alias, canonical name, min args, max args (None = unbounded)) *)",
             "Definition fn_table : list (list N * list N * N * option N) := ["]
    rows = []
    for f in fns:
        for nm in [f['name']] + f['aliases']:
            mx = 'None' if f['max'] is None else 'Some %d' % f['max']
            rows.append("  (%s, %s, %d, %s)" % (coq_bytes(nm), coq_bytes(f['name']), f['min'], mx))
    lines.append(';\n'.join(rows)); lines.append("].")
    lines.append("Definition fn_count : N := %d." % len(fns))
    write_if_changed(os.path.join(outdir, 'FnTable.v'), '\n'.join(lines) + '\n')
    return fns

def write_if_changed(path, content):
    old = open(path).read() if os.path.exists(path) else None
    if old != content:
        open(path, 'w').write(content)


# ---------------------------------------------------------------- further tables
def fn_body(src, header_re):
    m = re.search(header_re, src)
    if not m: return None
    o = src.index('{', m.end() - 1) if src[m.end()-1] != '{' else m.end() - 1
    c = match_close(src, o)
    return src[o:c+1]

BYTE = r"b'(\\.|[^'\\])'"
def byte_val(tok):
    """b'x' / b'\n' / b'\\' ... -> int"""
    m = re.fullmatch(BYTE, tok)
    if not m: return None
    t = m.group(1)
    if t.startswith('\\'):
        return {'n': 10, 't': 9, 'r': 13, '\\': 92, "'": 39, '"': 34, '0': 0}.get(t[1])
    return ord(t)
def char_val(tok):
    m = re.fullmatch(r"'(\\u\{[0-9a-fA-F]+\}|\\.|[^'\\])'", tok)
    if not m: return None
    t = m.group(1)
    if t.startswith('\\u{'): return int(t[3:-1], 16)
    if t.startswith('\\'): return {'n': 10, 't': 9, 'r': 13, '\\': 92, "'": 39, '"': 34, '0': 0}.get(t[1])
    return ord(t)
def byte_pattern(pat):
    """b'a' | b'b' | b'0'..=b'9' -> sorted list of ints (pattern position)"""
    out = []
    for alt in pat.split('|'):
        alt = alt.strip()
        m = re.fullmatch('(%s)\s*\.\.=\s*(%s)' % (BYTE, BYTE), alt)
        if m:
            lo = byte_val(re.match(BYTE, alt).group(0)); hi = byte_val(alt.split('..=')[1].strip())
            out += list(range(lo, hi + 1))
        else:
            v = byte_val(alt)
            if v is None: return None
            out.append(v)
    return sorted(out)
def byte_expr(expr):
    """the same text in EXPRESSION position: `|` is bitwise or"""
    v = 0
    for alt in expr.split('|'):
        x = byte_val(alt.strip())
        if x is None: return None
        v |= x
    return v

def coq_list(l): return '[' + '; '.join(str(x) for x in l) + ']'
UNREC = "Unrecognised"

def gen_typerank(srcdir, outdir):
    src = strip_comments(open(os.path.join(srcdir, 'json_value.rs')).read())
    body = fn_body(src, r'fn\s+inner_index\s*\(&self\)\s*->\s*usize\s*\{')
    ranks = re.findall(r'JsonValue::(\w+)(?:\([^)]*\))?\s*=>\s*(\d+)', body or '')
    order = ['Null', 'Boolean', 'String', 'Number', 'Object', 'Array']
    d = dict(ranks)
    txt = ["(* GENERATED from src/json_value.rs: JsonValue::inner_index *)", "From Coq Require Import List NArith.", "Import ListNotations.", "Local Open Scope N_scope.",
           "(* ranks of Null, Boolean, String, Number, Object, Array, in this order *)"]
    if all(k in d for k in order) and len(ranks) == 6:
        txt.append("Definition type_ranks : list N := %s." % coq_list([d[k] for k in order]))
    else:
        txt.append("Definition type_ranks : list N := []. (* %s *)" % UNREC)
    write_if_changed(os.path.join(outdir, 'TypeRank.v'), '\n'.join(txt) + '\n')

def gen_bytesets(srcdir, outdir):
    rd = strip_comments(open(os.path.join(srcdir, 'reader.rs')).read())
    jp = strip_comments(open(os.path.join(srcdir, 'json_parser.rs')).read())
    txt = ["(* GENERATED from src/reader.rs and src/json_parser.rs *)", "From Coq Require Import List NArith.", "Import ListNotations.", "Local Open Scope N_scope."]
    body = fn_body(rd, r'fn\s+eat_whitespace\s*\(&mut self\)[^{;]*\{') or ''
    m = re.search(r'Some\(\s*((?:%s\s*\|?\s*)+)\)\s*=>' % BYTE, body)
    ws = byte_pattern(m.group(1)) if m else None
    txt.append("Definition ws_bytes : list N := %s." % (coq_list(ws) if ws else "[] (* %s *)" % UNREC))
    body = fn_body(rd, r'fn\s+read_digits\s*\(&mut self[^)]*\)[^{;]*\{') or ''
    m = re.search(r'Some\(\s*(%s\s*\.\.=\s*%s)\s*\)\s*=>' % (BYTE, BYTE), body)
    dg = byte_pattern(m.group(1)) if m else None
    txt.append("Definition digit_bytes : list N := %s." % (coq_list(dg) if dg else "[] (* %s *)" % UNREC))
    # dispatch of next_json_value: bytes -> reader function
    body = fn_body(jp, r'fn\s+next_json_value\s*\(&mut self\)[^{;]*\{') or ''
    disp = []
    for m in re.finditer(r'Some\(\s*([^()]*?)\s*\)\s*=>\s*Ok\(Some\(self\.(read_\w+)\(\)\?\)\)', body):
        bs = byte_pattern(m.group(1))
        if bs is None: disp = None; break
        disp.append((bs, m.group(2)))
    kinds = {'read_true': 1, 'read_false': 2, 'read_null': 3, 'read_string': 4, 'read_number': 5, 'read_array': 6, 'read_object': 7}
    if disp:
        txt.append("(* (first bytes, reader: 1 true 2 false 3 null 4 string 5 number 6 array 7 object) *)")
        txt.append("Definition dispatch : list (list N * N) := [%s]." % '; '.join('(%s, %d)' % (coq_list(bs), kinds.get(k, 0)) for bs, k in disp))
    else:
        txt.append("Definition dispatch : list (list N * N) := []. (* %s *)" % UNREC)
    # the exponent test of read_number: a pattern (matches!) or an expression (==)
    body = fn_body(jp, r'fn\s+read_number\s*\(&mut self\)[^{;]*\{') or ''
    exp = None
    m = re.search(r"matches!\(\s*self\.peek\(\)\?\s*,\s*Some\(\s*((?:%s\s*\|?\s*)+)\)\s*\)" % BYTE, body)
    if m and 'e' in m.group(1).lower(): exp = byte_pattern(m.group(1))
    else:
        for m in re.finditer(r"self\.peek\(\)\?\s*==\s*Some\(\s*((?:%s\s*\|?\s*)+)\)" % BYTE, body):
            if re.search(r"b'[eE]'", m.group(1)): exp = [byte_expr(m.group(1))]
    txt.append("Definition exponent_markers : list N := %s." % (coq_list(exp) if exp else "[] (* %s *)" % UNREC))
    # escapes of read_string: letter -> pushed byte
    body = fn_body(jp, r'fn\s+read_string\s*\(&mut self\)[^{;]*\{') or ''
    esc = []
    for m in re.finditer(r"Some\(\s*(%s)\s*\)\s*=>\s*chars\.push\(\s*(%s|0x[0-9a-fA-F]+|\d+)\s*\)" % (BYTE, BYTE), body):
        letter = byte_val(m.group(1)); tok = m.group(3)
        val = byte_val(tok) if tok.startswith('b') else int(tok, 0)
        esc.append((letter, val))
    txt.append("Definition parser_escapes : list (N * N) := [%s]." % '; '.join('(%d, %d)' % e for e in esc))
    write_if_changed(os.path.join(outdir, 'ByteSets.v'), '\n'.join(txt) + '\n')

def gen_printer_tables(srcdir, outdir):
    src = strip_comments(open(os.path.join(srcdir, 'output_style.rs')).read())
    txt = ["(* GENERATED from src/output_style.rs: impl Print for JsonOutputOptions :: print_string *)", "From Coq Require Import List NArith.", "Import ListNotations.", "Local Open Scope N_scope."]
    i = src.find('impl<W: Write> Print<W> for JsonOutputOptions')
    body = fn_body(src[i:], r'fn\s+print_string\s*\(&self[^)]*\)[^{;]*\{') if i >= 0 else None
    esc = []
    for m in re.finditer(r"('(?:\\u\{[0-9a-fA-F]+\}|\\.|[^'\\])')\s*=>\s*write!\(\s*f\s*,\s*\"((?:\\.|[^\"\\])*)\"\s*\)", body or ''):
        c = char_val(m.group(1)); out = rust_str('"' + m.group(2) + '"')
        if c is not None and len(out) == 2 and out[0] == '\\': esc.append((c, ord(out[1])))
    txt.append("(* (code point, letter after the backslash) *)")
    txt.append("Definition printer_escapes : list (N * N) := [%s]." % '; '.join('(%d, %d)' % e for e in esc))
    m = re.search(r"if\s*(.*?)\{\s*write!\(f,\s*\"\{ch\}\"\)", body or '', re.S)
    cond = re.sub(r'\s+', ' ', m.group(1)).strip() if m else ''
    literal_cond = {"(self.utf8_strings && ch >= ' ') || (' '..='~').contains(&ch)": 1}.get(cond, 0)
    txt.append("(* condition under which a character is written literally: 1 = (utf8 && ch >= ' ') || ' '..='~' *)")
    txt.append("Definition literal_condition : N := %d. (* %s *)" % (literal_cond, cond.replace('*)', '* )') if literal_cond else UNREC + ': ' + cond.replace('*)', '* )')))
    m = re.search(r'write!\(f,\s*"\\\\u\{:04x\}"', body or '')
    txt.append("Definition unicode_escape_format : N := %d. (* 1 = \\u{:04x} *)" % (1 if m else 0))
    write_if_changed(os.path.join(outdir, 'PrinterTables.v'), '\n'.join(txt) + '\n')

def gen_stageorder(srcdir, outdir):
    src = strip_comments(open(os.path.join(srcdir, 'lib.rs')).read())
    i = src.find('impl<S: Read> Master<S>')
    body = fn_body(src[i:], r'pub\s+fn\s+go\s*\(&self\)[^{;]*\{') if i >= 0 else ''
    order = []
    pats = [(r'get_processor\(', 'printer'), (r'group_by\.create_process\(|Merger::create_process\(', 'group'), (r'Limiter::create_process\(', 'limit'),
            (r'sorter\.create_processor\(', 'sort'), (r'Uniquness::create_process\(', 'uniq'), (r'selection\.create_process\(', 'select'),
            (r'filter\.create_process\(', 'filter'), (r'splitter\.create_process\(', 'split'), (r'\.set\.create_process\(', 'preset'),
            (r'process\.start\(', 'start'), (r'read_input\(|read_file\(', 'read'), (r'process\.complete\(', 'complete'), (r'\.flush\(\)', 'flush')]
    found = []
    for pat, name in pats:
        for m in re.finditer(pat, body or ''): found.append((m.start(), name))
    found.sort()
    seq = []
    for _, n in found:
        if not seq or seq[-1] != n: seq.append(n)
    code = {'printer': 0, 'group': 1, 'limit': 2, 'sort': 3, 'uniq': 4, 'select': 5, 'filter': 6, 'split': 7, 'preset': 8, 'start': 9, 'read': 10, 'complete': 11, 'flush': 12}
    sel_rev = bool(re.search(r'self\.cli\.choose\.iter\(\)\.rev\(\)', body or ''))
    sort_first_cap = bool(re.search(r'if\s+index\s*==\s*0\s*\{', body or ''))
    txt = ["(* GENERATED from src/lib.rs: Master::go — the order in which the stages are wrapped (innermost first), then start / read / complete *)",
           "From Coq Require Import List NArith.", "Import ListNotations.", "Local Open Scope N_scope.",
           "(* 0 printer 1 group|merge 2 limit 3 sort 4 unique 5 select 6 filter 7 split 8 preset 9 start 10 read 11 complete 12 flush *)",
           "Definition go_sequence : list N := %s." % coq_list([code[n] for n in seq]),
           "Definition selections_wrapped_in_reverse : bool := %s." % ('true' if sel_rev else 'false'),
           "Definition only_first_sorter_capped : bool := %s." % ('true' if sort_first_cap else 'false')]
    write_if_changed(os.path.join(outdir, 'StageOrder.v'), '\n'.join(txt) + '\n')

def gen_mainwiring(srcdir, outdir):
    src = strip_comments(open(os.path.join(srcdir, 'main.rs')).read())
    def stream(var):
        m = re.search(r'let\s+%s\s*=\s*Rc::new\(RefCell::new\(std::io::(\w+)\(\)\)\)' % var, src)
        return m.group(1) if m else None
    code = {'stdout': 1, 'stderr': 2}
    out, err = stream('stdout'), stream('stderr')
    m = re.search(r'if\s+let\s+Err\(err\)\s*=\s*go\([^)]*\)\s*\{\s*eprintln!\("\{err\}"\);\s*std::process::exit\((-?\d+)\);', src)
    txt = ["(* GENERATED from src/main.rs *)", "From Coq Require Import List NArith ZArith.", "Import ListNotations.",
           "(* 1 = std::io::stdout, 2 = std::io::stderr, 0 = unrecognised *)",
           "Definition rows_stream : N := %d%%N." % code.get(out, 0),
           "Definition diagnostics_stream : N := %d%%N." % code.get(err, 0),
           "Definition error_message_to_stderr_and_exit_code : option Z := %s." % ('Some (%s)%%Z' % m.group(1) if m else 'None')]
    write_if_changed(os.path.join(outdir, 'MainWiring.v'), '\n'.join(txt) + '\n')

def main():
    srcdir = sys.argv[1] if len(sys.argv) > 1 else '/repo/src'
    outdir = sys.argv[2] if len(sys.argv) > 2 else os.path.join(os.path.dirname(os.path.abspath(__file__)), '..', 'coq', 'Gen')
    os.makedirs(outdir, exist_ok=True)
    fns = gen_fntable(srcdir, outdir)
    gen_typerank(srcdir, outdir); gen_bytesets(srcdir, outdir); gen_printer_tables(srcdir, outdir); gen_stageorder(srcdir, outdir); gen_mainwiring(srcdir, outdir)
    json.dump(fns, open(os.path.join(outdir, 'fn_table.json'), 'w'), indent=1)
    print("functions:", len(fns), "names:", sum(1 + len(f['aliases']) for f in fns))

if __name__ == '__main__':
    main()
