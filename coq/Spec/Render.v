(* Render.v — RFC 8259 as a generator of serialisations.
   A spelling tree `sjson` is a JSON value decorated with every freedom the grammar leaves:
   whitespace runs at each gap, the spelling of each string character, the literal text of
   each number.  `render` gives the bytes, `value_of` the value the text denotes.
   This file shares with the model only Base (UTF-8, digits), F64.dec2flt ("nearest double")
   and Json (the value type, num_of_f = impl From<f64>). *)
From Jawk Require Import Base F64 Json.
Local Open Scope N_scope.

(* ---------- whitespace ---------- *)
Definition ws := list byte.
Definition ws_ok (w : ws) : Prop := Forall (fun b => is_ws b = true) w.

(* ---------- string characters ---------- *)
(* per-digit letter case of a \uXXXX escape: true = upper case *)
Inductive schar :=
| CLit (c : N)                                  (* the character itself, UTF-8 encoded *)
| CEsc (c : N)                                  (* a two-character escape *)
| CUni (c : N) (u3 u2 u1 u0 : bool).            (* \uXXXX *)

(* RFC 8259 section 7: the two-character escapes: escape letter, code point *)
Definition two_char_escapes : list (byte * N) :=
  [(34, 34); (92, 92); (47, 47); (98, 8); (102, 12); (110, 10); (114, 13); (116, 9)].
Fixpoint esc_letter (c : N) (l : list (byte * N)) : option byte :=
  match l with [] => None | (b, c') :: t => if c =? c' then Some b else esc_letter c t end.

Definition hex_char (upper : bool) (d : N) : byte :=
  if d <? 10 then 48 + d else if upper then 55 + d else 87 + d.

Definition render_char (c : schar) : list byte :=
  match c with
  | CLit c => utf8_encode_char c
  | CEsc c => match esc_letter c two_char_escapes with Some b => [92; b] | None => [] end
  | CUni c u3 u2 u1 u0 =>
      [92; 117; hex_char u3 (c / 4096); hex_char u2 ((c / 256) mod 16);
       hex_char u1 ((c / 16) mod 16); hex_char u0 (c mod 16)]
  end.
Definition char_val (c : schar) : N :=
  match c with CLit c => c | CEsc c => c | CUni c _ _ _ _ => c end.
Definition schar_ok (c : schar) : Prop :=
  match c with
  | CLit c => is_scalar c = true /\ 32 <= c /\ c <> 34 /\ c <> 92      (* unescaped = %x20-21 / %x23-5B / %x5D-10FFFF *)
  | CEsc c => esc_letter c two_char_escapes <> None
  | CUni c _ _ _ _ => c < 65536 /\ is_scalar c = true                    (* no surrogate escapes *)
  end.

(* ---------- numbers ---------- *)
Record snum := {
  sn_neg : bool;
  sn_int : list byte;                           (* "0" or a digit 1-9 followed by digits *)
  sn_frac : option (list byte);                 (* digits after '.', at least one *)
  sn_exp : option (bool * option bool * list byte)  (* upper-case E?, sign (Some true = '-'), digits *)
}.
Definition digits_ok (ds : list byte) : Prop := ds <> [] /\ Forall (fun b => is_digit b = true) ds.
Definition int_ok (ds : list byte) : Prop :=
  digits_ok ds /\ (match ds with d :: _ :: _ => d <> 48 | _ => True end).
Definition snum_ok (n : snum) : Prop :=
  int_ok (sn_int n) /\
  match sn_frac n with Some f => digits_ok f | None => True end /\
  match sn_exp n with Some (_, _, e) => digits_ok e | None => True end.

Definition render_num (n : snum) : list byte :=
  (if sn_neg n then [45] else []) ++ sn_int n ++
  match sn_frac n with Some f => 46 :: f | None => [] end ++
  match sn_exp n with
  | Some (up, sg, e) => (if up then 69 else 101) ::
                        match sg with Some true => [45] | Some false => [43] | None => [] end ++ e
  | None => []
  end.

(* the text handed to the decimal-to-double conversion: upper-case E, '+' dropped *)
Definition num_text (n : snum) : list byte :=
  (if sn_neg n then [45] else []) ++ sn_int n ++
  match sn_frac n with Some f => 46 :: f | None => [] end ++
  match sn_exp n with
  | Some (_, sg, e) => 69 :: match sg with Some true => [45] | _ => [] end ++ e
  | None => []
  end.

(* integers in [-2^63, 2^64) exactly, every other number as the nearest double *)
Definition num_val (n : snum) : option num :=
  let as_double := match dec2flt (num_text n) with
                   | Some f => if f_is_finite f then Some (num_of_f f) else None
                   | None => None end in
  match sn_frac n, sn_exp n with
  | None, None =>
      let m := N_of_digits (sn_int n) in
      if sn_neg n then
        (if m =? 0 then Some (NPos 0)
         else if (Z.of_N m <=? 9223372036854775808)%Z then Some (NNeg (- Z.of_N m)) else as_double)
      else (if m <=? 18446744073709551615 then Some (NPos m) else as_double)
  | _, _ => as_double
  end.

(* ---------- values ---------- *)
Inductive sjson :=
| SNull | STrue | SFalse
| SNum (n : snum)
| SStr (cs : list schar)
| SArr0 (w : ws)                                               (* [ w ] *)
| SArr (items : list (ws * sjson * ws))                        (* [ w v w , w v w ... ] non-empty *)
| SObj0 (w : ws)
| SObj (members : list (ws * list schar * ws * (ws * sjson * ws))).   (* { w "k" w : w v w , ... } *)

Definition render_str (cs : list schar) : list byte := 34 :: flat_map render_char cs ++ [34].

Fixpoint render (t : sjson) : list byte :=
  match t with
  | SNull => [110; 117; 108; 108]
  | STrue => [116; 114; 117; 101]
  | SFalse => [102; 97; 108; 115; 101]
  | SNum n => render_num n
  | SStr cs => render_str cs
  | SArr0 w => 91 :: w ++ [93]
  | SArr items =>
      91 :: (fix ri (items : list (ws * sjson * ws)) : list byte :=
               match items with
               | [] => [93]
               | (wb, t, wa) :: more =>
                   wb ++ render t ++ wa ++ match more with [] => [] | _ => [44] end ++ ri more
               end) items
  | SObj0 w => 123 :: w ++ [125]
  | SObj members =>
      123 :: (fix rm (ms : list (ws * list schar * ws * (ws * sjson * ws))) : list byte :=
                match ms with
                | [] => [125]
                | (wk, k, wc, (wb, t, wa)) :: more =>
                    wk ++ render_str k ++ wc ++ [58] ++ wb ++ render t ++ wa
                    ++ match more with [] => [] | _ => [44] end ++ rm more
                end) members
  end.

Definition str_val (cs : list schar) : str := map char_val cs.

Fixpoint value_of (t : sjson) : option json :=
  match t with
  | SNull => Some JNull
  | STrue => Some (JBool true)
  | SFalse => Some (JBool false)
  | SNum n => option_map JNum (num_val n)
  | SStr cs => Some (JStr (str_val cs))
  | SArr0 _ => Some (JArr [])
  | SArr items =>
      option_map JArr
        ((fix vi (items : list (ws * sjson * ws)) : option (list json) :=
            match items with
            | [] => Some []
            | (_, t, _) :: more =>
                match value_of t, vi more with Some v, Some vs => Some (v :: vs) | _, _ => None end
            end) items)
  | SObj0 _ => Some (JObj [])
  | SObj members =>
      option_map JObj
        ((fix vm (ms : list (ws * list schar * ws * (ws * sjson * ws))) : option (list (str * json)) :=
            match ms with
            | [] => Some []
            | (_, k, _, (_, t, _)) :: more =>
                match value_of t, vm more with Some v, Some vs => Some ((str_val k, v) :: vs) | _, _ => None end
            end) members)
  end.

(* well-formedness: whitespace is whitespace, characters and numbers are legal, member names are
   distinct within an object, every number has a value (finite) *)
Fixpoint wf (t : sjson) : Prop :=
  match t with
  | SNull | STrue | SFalse => True
  | SNum n => snum_ok n /\ num_val n <> None
  | SStr cs => Forall schar_ok cs
  | SArr0 w | SObj0 w => ws_ok w
  | SArr items =>
      items <> [] /\
      (fix wi (items : list (ws * sjson * ws)) : Prop :=
         match items with
         | [] => True
         | (wb, t, wa) :: more => ws_ok wb /\ wf t /\ ws_ok wa /\ wi more
         end) items
  | SObj members =>
      members <> [] /\ NoDup (map (fun m => str_val (snd (fst (fst m)))) members) /\
      (fix wm (ms : list (ws * list schar * ws * (ws * sjson * ws))) : Prop :=
         match ms with
         | [] => True
         | (wk, k, wc, (wb, t, wa)) :: more =>
             ws_ok wk /\ Forall schar_ok k /\ ws_ok wc /\ ws_ok wb /\ wf t /\ ws_ok wa /\ wm more
         end) members
  end.

(* nesting depth (the property bounds it by 64; the theorem does not need the bound) *)

(* ---------- streams ---------- *)
(* a scalar token that needs a delimiter: numbers and the three words *)
Definition bare (t : sjson) : bool :=
  match t with SNum _ | SNull | STrue | SFalse => true | _ => false end.

(* values with the separator that follows each; the separator after a bare value that is followed by
   another value must be non-empty (two tokens may touch only when a bracket or quote delimits them) *)
Fixpoint render_stream (l : list (sjson * ws)) : list byte :=
  match l with [] => [] | (t, w) :: more => render t ++ w ++ render_stream more end.
Fixpoint seps_ok (l : list (sjson * ws)) : Prop :=
  match l with
  | [] => True
  | (t, w) :: more =>
      ws_ok w /\ (bare t = true -> more <> [] -> w <> []) /\ seps_ok more
  end.
Definition stream_wf (lead : ws) (l : list (sjson * ws)) : Prop :=
  ws_ok lead /\ Forall (fun tw => wf (fst tw)) l /\ seps_ok l.
