(* ShowExpr.v — every concrete spelling of a selection expression (property C13).
   A spelling tree `sexpr` is an expression decorated with every freedom the reader leaves:
   the alias used for a function, the leading-dot sugar, the runs of blanks and commas between
   arguments, the spelling of JSON literals (Spec/Render.v), leading zeros of an index, "." or "#"
   for the root, letter case and '_' / '-' of an input-context name, blanks around a selected name.
   `show` gives the bytes, `expr_of` the syntax tree the text denotes, `xwf` says which trees are
   admissible and `xfollow` what may come after the text of a tree.
   Shared with the model: the stop sets of the token readers (key_stop, fname_stop, var_stop,
   ictx_norm, ictx_names), the name table lookup (find_function over Gen.FnTable.fn_table,
   fn_of_canonical, arity_ok) and `trim`'s notion of white space (is_uni_ws). *)
From Jawk Require Import Base F64 Json Reader JsonParser Fn Expr Chain Render ExprParser.
From Jawk Require Gen.FnTable.
Local Open Scope N_scope.

(* ---------- the tree ---------- *)
Inductive ssel :=
| PKey (k : str)                 (* .key *)
| PIdx (ds : list byte).         (* #digits, leading zeros allowed *)
Inductive spath :=
| PRoot (hash : bool)            (* "." alone, or "#" alone: the whole input *)
| PPath (l : list ssel).         (* .a.b#3 ; the empty path is written by carets alone: "^" *)

(* a run of blanks and commas: between arguments, before the closing parenthesis *)
Definition pad := list byte.

Inductive sexpr :=
| XExtract (ups : nat) (p : spath)                            (* ^^.a.b#3 *)
| XConst (t : sjson)                                          (* a JSON literal in any spelling *)
| XVar (n : str)                                              (* :name *)
| XMacro (n : str)                                            (* @name *)
| XSelected (pad_l : str) (n : str) (pad_r : str)             (* / name / : the name is trimmed *)
| XIctx (k : ictx_kind) (spelling : list byte)                (* &index, &Index_In_File ... *)
| XCall (name : list byte) (dot : bool) (args : list (pad * sexpr)) (close : pad).
    (* (name arg arg ...) ; dot = leading-dot sugar: "(.name x)" = "(name . x)" ;
       each argument comes with the run of blanks and commas written before it *)

(* ---------- the text ---------- *)
Definition show_sel (s : ssel) : list byte :=
  match s with PKey k => 46 :: utf8_encode k | PIdx ds => 35 :: ds end.
Definition show_sels (l : list ssel) : list byte := flat_map show_sel l.
Definition show_path (p : spath) : list byte :=
  match p with PRoot h => [if h then 35 else 46] | PPath l => show_sels l end.
Definition carets (n : nat) : list byte := repeat 94 n.

Fixpoint show (x : sexpr) : list byte :=
  match x with
  | XExtract ups p => carets ups ++ show_path p
  | XConst t => render t
  | XVar n => 58 :: utf8_encode n
  | XMacro n => 64 :: utf8_encode n
  | XSelected pl n pr => 47 :: utf8_encode (pl ++ n ++ pr) ++ [47]
  | XIctx _ sp => 38 :: sp
  | XCall name dot args close =>
      40 :: (if dot then [46] else []) ++ name ++
      (fix sa (args : list (pad * sexpr)) : list byte :=
         match args with
         | [] => close ++ [41]
         | (s, a) :: more => s ++ show a ++ sa more
         end) args
  end.

(* the arguments and the closing parenthesis (the inner loop of `show`, named) *)
Fixpoint show_args (args : list (pad * sexpr)) (close : pad) : list byte :=
  match args with
  | [] => close ++ [41]
  | (s, a) :: more => s ++ show a ++ show_args more close
  end.

(* ---------- the denoted syntax tree ---------- *)
Definition sel_of (s : ssel) : sel :=
  match s with PKey k => SKey k | PIdx ds => SIdx (N_of_digits ds) end.
Definition path_of (p : spath) : option (list sel) :=
  match p with PRoot _ => None | PPath l => Some (map sel_of l) end.

(* the arguments written by the dot sugar *)
Definition dot_args (dot : bool) : list expr := if dot then [EExtract O None] else [].

(* name resolution and arity check, on the generated table *)
Definition call_of (name : list byte) (all_args : list expr) : option expr :=
  match find_function name Gen.FnTable.fn_table with
  | None => None
  | Some (canon, mn, mx) =>
      if arity_ok (length all_args) mn mx then Some (ECall (fn_of_canonical canon) all_args) else None
  end.

Fixpoint expr_of (x : sexpr) : option expr :=
  match x with
  | XExtract ups p => Some (EExtract ups (path_of p))
  | XConst t => option_map EConst (value_of t)
  | XVar n => Some (EVar n)
  | XMacro n => Some (EMacro n)
  | XSelected _ n _ => Some (ESelected n)
  | XIctx k _ => Some (EIctx k)
  | XCall name dot args _ =>
      match (fix ea (args : list (pad * sexpr)) : option (list expr) :=
               match args with
               | [] => Some []
               | (_, a) :: more =>
                   match expr_of a, ea more with Some e, Some es => Some (e :: es) | _, _ => None end
               end) args with
      | Some es => call_of name (dot_args dot ++ es)
      | None => None
      end
  end.

Fixpoint exprs_of (args : list (pad * sexpr)) : option (list expr) :=
  match args with
  | [] => Some []
  | (_, a) :: more =>
      match expr_of a, exprs_of more with Some e, Some es => Some (e :: es) | _, _ => None end
  end.

(* ---------- what may follow ---------- *)
(* the text that follows is empty or starts with a byte satisfying p *)
Definition at_end (p : byte -> bool) (tl : list byte) : Prop :=
  match tl with b :: _ => p b = true | [] => True end.

Definition not_digit (b : byte) : bool := negb (is_digit b).
Definition not_path_start (b : byte) : bool := negb (mem_N b [46; 35]).
Definition not_extractor_start (b : byte) : bool := negb (mem_N b [94; 46; 35]).
Definition not_number_part (b : byte) : bool :=
  negb (is_digit b) && negb (b =? 46) && negb (is_exp_marker b).
Definition not_ictx_letter (b : byte) : bool :=
  match ictx_norm b with None => true | Some _ => false end.

Definition last_sel (l : list ssel) : option ssel := last (map Some l) None.

Definition sel_follow (s : ssel) (tl : list byte) : Prop :=
  match s with
  | PKey _ => at_end key_stop tl        (* a key runs up to a stop byte *)
  | PIdx _ => at_end not_digit tl
  end.

Definition json_follow (t : sjson) (tl : list byte) : Prop :=
  match t with SNum _ => at_end not_number_part tl | _ => True end.

Definition xfollow (x : sexpr) (tl : list byte) : Prop :=
  match x with
  | XExtract _ (PRoot false) => at_end key_stop tl       (* "." then a key byte would be a key *)
  | XExtract _ (PRoot true) => at_end not_digit tl       (* "#" then a digit would be an index *)
  | XExtract _ (PPath l) =>
      match last_sel l with
      | None => at_end not_extractor_start tl
      | Some s => sel_follow s tl /\ at_end not_path_start tl
      end
  | XConst t => json_follow t tl
  | XVar _ | XMacro _ => at_end var_stop tl
  | XIctx _ _ => at_end not_ictx_letter tl
  | XSelected _ _ _ | XCall _ _ _ _ => True              (* closed by '/' and ')' *)
  end.

(* ---------- admissible trees ---------- *)
Definition is_pad_byte (b : byte) : bool := is_ws b || (b =? 44).
Definition pad_ok (s : pad) : Prop := Forall (fun b => is_pad_byte b = true) s.

Definition scalars (s : str) : Prop := Forall (fun c => is_scalar c = true) s.
(* a name read up to a stop byte: non-empty, encodable, no stop byte inside *)
Definition name_ok (stop : byte -> bool) (n : str) : Prop :=
  n <> [] /\ scalars n /\ Forall (fun b => stop b = false) (utf8_encode n).

Definition sel_ok (s : ssel) : Prop :=
  match s with
  | PKey k => name_ok key_stop k
  | PIdx ds => digits_ok ds /\ N_of_digits ds <= usize_max
  end.

Definition uni_ws (s : str) : Prop := Forall (fun c => is_uni_ws c = true) s.
Definition no_ws_head (s : str) : Prop :=
  match s with c :: _ => is_uni_ws c = false | [] => True end.
Definition trimmed (s : str) : Prop := no_ws_head s /\ no_ws_head (rev s).

Fixpoint norm_all (l : list byte) : option (list byte) :=
  match l with
  | [] => Some []
  | b :: t => match ictx_norm b, norm_all t with Some x, Some y => Some (x :: y) | _, _ => None end
  end.

Fixpoint xwf (x : sexpr) : Prop :=
  match x with
  | XExtract ups (PRoot _) => True
  | XExtract ups (PPath l) => (l = [] -> ups <> O) /\ Forall sel_ok l
  | XConst t => wf t
  | XVar n | XMacro n => name_ok var_stop n
  | XSelected pl n pr =>
      uni_ws pl /\ uni_ws pr /\ trimmed n /\
      name_ok (fun b => b =? 47) (pl ++ n ++ pr)
  | XIctx k sp =>
      match norm_all sp with Some nm => assoc_bytes_k nm ictx_names = Some k | None => False end
  | XCall name dot args close =>
      (* the name (an entry of the table: see expr_of) ends where the arguments start *)
      at_end fname_stop
        ((fix sa (args : list (pad * sexpr)) : list byte :=
            match args with
            | [] => close ++ [41]
            | (s, a) :: more => s ++ show a ++ sa more
            end) args) /\
      pad_ok close /\
      (fix wa (args : list (pad * sexpr)) : Prop :=
         match args with
         | [] => True
         | (s, a) :: more =>
             pad_ok s /\ xwf a /\ xfollow a (show_args more close) /\ wa more
         end) args
  end.

Fixpoint xwf_args (args : list (pad * sexpr)) (close : pad) : Prop :=
  match args with
  | [] => True
  | (s, a) :: more => pad_ok s /\ xwf a /\ xfollow a (show_args more close) /\ xwf_args more close
  end.

(* ---------- the plain reading: separators are non-empty ---------- *)
(* With at least one blank or comma before every argument nothing has to be said about followers
   inside a call (Proofs/ExprParseProofs.v: xwf_plain_xwf). *)
Definition sep_ok (s : pad) : Prop := s <> [] /\ pad_ok s.

Fixpoint xwf_plain (x : sexpr) : Prop :=
  match x with
  | XCall name dot args close =>
      pad_ok close /\
      (fix wa (args : list (pad * sexpr)) : Prop :=
         match args with
         | [] => True
         | (s, a) :: more => sep_ok s /\ xwf_plain a /\ wa more
         end) args
  | XExtract ups (PRoot _) => True
  | XExtract ups (PPath l) => (l = [] -> ups <> O) /\ Forall sel_ok l
  | XConst t => wf t
  | XVar n | XMacro n => name_ok var_stop n
  | XSelected pl n pr =>
      uni_ws pl /\ uni_ws pr /\ trimmed n /\ name_ok (fun b => b =? 47) (pl ++ n ++ pr)
  | XIctx k sp =>
      match norm_all sp with Some nm => assoc_bytes_k nm ictx_names = Some k | None => False end
  end.

Fixpoint xwf_plain_args (args : list (pad * sexpr)) : Prop :=
  match args with
  | [] => True
  | (s, a) :: more => sep_ok s /\ xwf_plain a /\ xwf_plain_args more
  end.

(* ---------- direction suffix of --sort-by ---------- *)
(* a word in any letter case: each byte is the upper-case letter or its lower-case form *)
Definition ci_word (w upper_word : list byte) : Prop :=
  Forall2 (fun b u => b = u \/ b = u + 32) w upper_word.

(* "" | "asc" | "desc" in any letter case *)
Definition dir_word (word : list byte) (dir : direction) : Prop :=
  match dir with
  | Asc => word = [] \/ ci_word word [65; 83; 67]
  | Desc => ci_word word [68; 69; 83; 67]
  end.

(* what may be written after the expression of --sort-by: nothing, or '=' and the direction word,
   blanks allowed around the word *)
Inductive dir_suffix : list byte -> direction -> Prop :=
| DS_none : dir_suffix [] Asc
| DS_word (pl word pr : list byte) (dir : direction) :
    ws_ok pl -> ws_ok pr -> dir_word word dir -> dir_suffix (61 :: pl ++ word ++ pr) dir.
