(* PipelineSpec.v — the documented pipeline as pure list transformations, written from the CLI help:
   split -> filter -> select -> unique -> sort -> skip/take -> group|merge -> print.
   Shares with the model only the context record (Ctx), value order/equality (Json) and `get`. *)
From Jawk Require Import Base F64 Json Ctx Printer Chain.
From Coq Require Import Permutation Sorted.
Local Open Scope N_scope.

Section Spec.
Variable E : Type.
Variable get : E -> ctx E -> option json.
Notation ctx := (ctx E).
Notation stage := (stage E).

(* ---------- stable sort, specified by insertion ---------- *)
Section Sort.
Context {A : Type} (le : A -> A -> bool).
(* insert x after every element y with y <= x *)
Fixpoint ins (x : A) (l : list A) : list A :=
  match l with
  | [] => [x]
  | y :: t => if le y x then y :: ins x t else x :: l
  end.
Definition isort (l : list A) : list A := fold_left (fun acc x => ins x acc) l [].
End Sort.

Definition dir_le (dir : direction) (a b : json) : bool :=
  match dir with
  | Asc => match jcmp show a b with Gt => false | _ => true end
  | Desc => match jcmp show b a with Gt => false | _ => true end
  end.

(* rows with their sort key; rows whose key is absent are dropped *)
Definition keyed (k : E) (cs : list ctx) : list (json * ctx) :=
  flat_map (fun c => match get k c with Some kv => [(kv, c)] | None => [] end) cs.
Definition sort_spec (k : E) (dir : direction) (cs : list ctx) : list ctx :=
  map snd (isort (fun a b => dir_le dir (fst a) (fst b)) (keyed k cs)).

(* ---------- unique: keep first occurrences ---------- *)
Fixpoint dedup_from (seen : list ckey) (cs : list ctx) : list ctx :=
  match cs with
  | [] => []
  | c :: t => if existsb (ckey_eqb (key c)) seen then dedup_from seen t
              else c :: dedup_from (key c :: seen) t
  end.

(* ---------- skip / take ---------- *)
Definition limit_spec (s : N) (t : option N) (cs : list ctx) : list ctx :=
  match t with
  | Some t => firstn (N.to_nat t) (skipn (N.to_nat s) cs)
  | None => skipn (N.to_nat s) cs
  end.

(* ---------- group / merge ---------- *)
Fixpoint group_add (k : str) (v : json) (d : list (str * list json)) : list (str * list json) :=
  match d with
  | [] => [(k, [v])]
  | (k', l) :: t => if str_eqb k k' then (k', l ++ [v]) :: t else (k', l) :: group_add k v t
  end.
Definition group_spec (k : E) (cs : list ctx) : json :=
  JObj (map (fun kl => (fst kl, JArr (snd kl)))
            (fold_left (fun d c => match get k c with Some (JStr n) => group_add n (build c) d | _ => d end) cs [])).
Definition merge_spec (cs : list ctx) : json := JArr (map build cs).

(* ---------- one stage, the whole pipeline ---------- *)
Definition stage_spec (s : stage) (cs : list ctx) : list ctx :=
  match s with
  | SPreSet vs ds => map (fun c => with_definitions (with_variables c vs) ds) cs
  | SSplit e => flat_map (fun c => match get e c with Some (JArr l) => map (with_input c) l | _ => [] end) cs
  | SFilter e => filter (fun c => match get e c with Some (JBool true) => true | _ => false end) cs
  | SSelect n e => map (fun c => with_result c n (get e c)) cs
  | SUniq => dedup_from [] cs
  | SSort k dir _ => sort_spec k dir cs            (* the capacity is an optimisation: not in the spec *)
  | SLimit s t => limit_spec s t cs
  | SGroup k => [new_with_no_context (group_spec k cs)]
  | SMerge => [new_with_no_context (merge_spec cs)]
  end.

Fixpoint spec (sts : list stage) (cs : list ctx) : list ctx :=
  match sts with
  | [] => cs
  | s :: t => spec t (stage_spec s cs)
  end.
End Spec.

Arguments ins {A}. Arguments isort {A}.
