(* Subst.v — specification side of C12: textual substitution of a variable / a macro on the
   expression syntax, and the syntactic side conditions under which bindings are substitution.
   Only Model files are imported; nothing here mentions eval. *)
From Jawk Require Import Base Json Ctx Fn Expr.

(* the name argument of (set "n" ..), (: "n"), (define "n" ..), (@ "n") when it is a string literal.
   Only argument 0 matters: eval never looks at surplus arguments of these functions. *)
Definition lit_name (args : list expr) : option str :=
  match args with EConst (JStr m) :: _ => Some m | _ => None end.

Definition is_some {A} (o : option A) : bool := match o with Some _ => true | None => false end.

(* ---------- variables ---------- *)

(* replace :n and (: "n") by the constant v; an inner (set "n" ev body) shadows n in body
   (and in everything after it), ev is still in the scope of the outer binding. *)
Fixpoint subst_var (n : str) (v : json) (e : expr) : expr :=
  match e with
  | EVar m => if str_eqb m n then EConst v else e
  | ECall f args =>
      let args' := map (subst_var n v) args in
      match f with
      | F_colon =>
          match lit_name args with
          | Some m => if str_eqb m n then EConst v else ECall f args'
          | None => ECall f args'
          end
      | F_set =>
          match args with
          | EConst (JStr m) :: ev :: rest =>
              if str_eqb m n then ECall f (EConst (JStr m) :: subst_var n v ev :: rest)
              else ECall f args'
          | _ => ECall f args'
          end
      | _ => ECall f args'
      end
  | _ => e
  end.

(* every set / : names its variable by a string literal; no macro machinery at all (a macro body
   is expanded in the dynamic context of its use, so it would see the variable) *)
Definition var_head_ok (f : fn) (args : list expr) : bool :=
  match f with
  | F_at | F_define => false
  | F_set | F_colon => is_some (lit_name args)
  | _ => true
  end.
Fixpoint var_literal (e : expr) : bool :=
  match e with
  | EMacro _ => false
  | ECall f args => var_head_ok f args && forallb var_literal args
  | _ => true
  end.

(* ---------- macros ---------- *)

(* replace @n and (@ "n") by d. Under (define "m" dm body):
   m = n  : dm and body are left alone (dm is stored unevaluated and is only ever expanded where n
            is rebound to dm itself; body is in the scope of the new definition);
   m <> n : dm and body are both substituted (dm will be expanded at use sites inside body, in a
            context which still holds the outer definition of n). *)
Fixpoint subst_macro (n : str) (d : expr) (e : expr) : expr :=
  match e with
  | EMacro m => if str_eqb m n then d else e
  | ECall f args =>
      let args' := map (subst_macro n d) args in
      match f with
      | F_at =>
          match lit_name args with
          | Some m => if str_eqb m n then d else ECall f args'
          | None => ECall f args'
          end
      | F_define =>
          match lit_name args with
          | Some m => if str_eqb m n then e else ECall f args'
          | None => ECall f args'
          end
      | _ => ECall f args'
      end
  | _ => e
  end.

(* every define / @ names its macro by a string literal *)
Definition macro_head_ok (f : fn) (args : list expr) : bool :=
  match f with
  | F_at | F_define => is_some (lit_name args)
  | _ => true
  end.
Fixpoint macro_literal (e : expr) : bool :=
  match e with
  | ECall f args => macro_head_ok f args && forallb macro_literal args
  | _ => true
  end.

(* no @n, no (@ "n") anywhere in e *)
Definition not_named (n : str) (args : list expr) : bool :=
  match lit_name args with Some m => negb (str_eqb m n) | None => true end.
Fixpoint no_macro_ref (n : str) (e : expr) : bool :=
  match e with
  | EMacro m => negb (str_eqb m n)
  | ECall f args =>
      (match f with F_at => not_named n args | _ => true end) && forallb (no_macro_ref n) args
  | _ => true
  end.

(* no (define "n" ..) anywhere in e: n is not shadowed *)
Fixpoint no_redefine (n : str) (e : expr) : bool :=
  match e with
  | ECall f args =>
      (match f with F_define => not_named n args | _ => true end) && forallb (no_redefine n) args
  | _ => true
  end.

(* ---------- relations between contexts ---------- *)

(* c' is c with n bound to v, possibly under further bindings of other names *)
Definition ctx_agree_except_var (n : str) (v : json) (c c' : ctx) : Prop :=
  input c' = input c /\ results c' = results c /\ parents c' = parents c /\
  defs c' = defs c /\ ic c' = ic c /\
  get_variable c' n = Some v /\
  (forall m, m <> n -> get_variable c' m = get_variable c m).

(* c' is c with n defined as d; no other visible definition differs *)
Definition ctx_agree_except_def (n : str) (d : expr) (c c' : ctx) : Prop :=
  input c' = input c /\ results c' = results c /\ parents c' = parents c /\
  vars c' = vars c /\ ic c' = ic c /\
  get_definition c' n = Some d /\
  (forall m, m <> n -> get_definition c' m = get_definition c m).

(* the two contexts cannot be told apart by lookups *)
Definition ctx_equiv (c c' : ctx) : Prop :=
  input c' = input c /\ results c' = results c /\ parents c' = parents c /\ ic c' = ic c /\
  (forall m, get_variable c' m = get_variable c m) /\
  (forall m, get_definition c' m = get_definition c m).
