(* CsvReader.v — specification: a reader of ONE csv record, RFC 4180 dialect
     - fields are separated by a comma; blanks right after a comma are ignored (skipinitialspace);
     - a field is quoted:   "..."   with  ""  standing for one quote; it may contain commas, CR, LF, blanks;
       or unquoted: any bytes except comma, quote, CR, LF;
     - the record ends at LF or CRLF outside quotes, or at the end of the input.
   Strict: a quote inside an unquoted field, text after a closing quote, a CR without LF and an
   unterminated quoted field are errors (None).  Independent of the printer model. *)
From Jawk Require Import Base.
Local Open Scope N_scope.

Inductive field :=
| FQuoted (content : list byte)      (* the text between the quotes, "" already undone *)
| FBare (content : list byte).       (* the bytes of an unquoted field, as they are *)

(* the bytes that matter: 44 = comma, 13 = CR, 10 = LF, 34 = quote; 32 = blank *)
Inductive bclass := DComma | DCR | DLF | DQuote | DOther.
Definition classify (b : byte) : bclass :=
  if b =? 44 then DComma else if b =? 13 then DCR else if b =? 10 then DLF
  else if b =? 34 then DQuote else DOther.

Inductive state :=
| AtField (skip : bool)         (* at the start of a field; skip: we are after a comma, blanks are ignored *)
| InBare (acc : list byte)      (* inside an unquoted field *)
| InQuoted (acc : list byte)    (* between the quotes of a quoted field *)
| AfterQuote (acc : list byte)  (* after a quote seen inside a quoted field: "" or the end of the field *)
| AfterCR.                      (* after a CR outside quotes (the field is already closed): LF must follow *)

(* one pass over the bytes; `done` = the fields closed so far *)
Fixpoint csv_run (st : state) (done : list field) (bs : list byte) {struct bs}
  : option (list field * list byte) :=
  match bs with
  | [] =>
      match st with
      | AtField _ => Some (done ++ [FBare []], [])
      | InBare acc => Some (done ++ [FBare acc], [])
      | AfterQuote acc => Some (done ++ [FQuoted acc], [])
      | InQuoted _ => None                 (* unterminated quoted field *)
      | AfterCR => None                    (* CR without LF *)
      end
  | b :: t =>
      match st, classify b with
      (* start of a field *)
      | AtField _, DQuote => csv_run (InQuoted []) done t
      | AtField _, DComma => csv_run (AtField true) (done ++ [FBare []]) t
      | AtField _, DLF => Some (done ++ [FBare []], t)
      | AtField _, DCR => csv_run AfterCR (done ++ [FBare []]) t
      | AtField skip, DOther =>
          if skip && (b =? 32) then csv_run (AtField true) done t else csv_run (InBare [b]) done t
      (* unquoted field *)
      | InBare acc, DOther => csv_run (InBare (acc ++ [b])) done t
      | InBare acc, DComma => csv_run (AtField true) (done ++ [FBare acc]) t
      | InBare acc, DLF => Some (done ++ [FBare acc], t)
      | InBare acc, DCR => csv_run AfterCR (done ++ [FBare acc]) t
      | InBare _, DQuote => None           (* quote inside an unquoted field *)
      (* quoted field: everything but a quote is content *)
      | InQuoted acc, DQuote => csv_run (AfterQuote acc) done t
      | InQuoted acc, _ => csv_run (InQuoted (acc ++ [b])) done t
      (* a quote was seen inside a quoted field *)
      | AfterQuote acc, DQuote => csv_run (InQuoted (acc ++ [34])) done t
      | AfterQuote acc, DComma => csv_run (AtField true) (done ++ [FQuoted acc]) t
      | AfterQuote acc, DLF => Some (done ++ [FQuoted acc], t)
      | AfterQuote acc, DCR => csv_run AfterCR (done ++ [FQuoted acc]) t
      | AfterQuote _, DOther => None       (* text after the closing quote *)
      (* CR LF *)
      | AfterCR, DLF => Some (done, t)
      | AfterCR, _ => None
      end
  end.

(* the fields of the first record and the bytes after it; no record in an empty input *)
Definition csv_read_record (bs : list byte) : option (list field * list byte) :=
  match bs with
  | [] => None
  | _ => csv_run (AtField false) [] bs
  end.
