(* obligations on Gen/ByteSets.v (reader whitespace/digits, value dispatch, exponent test) *)
From Jawk Require Import Base Json Reader JsonParser Printer Chain Fn Expr ExprParser Go.
Local Open Scope N_scope.
From Jawk Require Gen.ByteSets.

(* all byte values *)
Definition all_bytes : list N := map N.of_nat (seq 0 256).
Lemma all_bytes_complete b : b < 256 -> In b all_bytes.
Proof.
  intros H. unfold all_bytes. apply in_map_iff. exists (N.to_nat b). split; [apply N2Nat.id|].
  apply in_seq. lia.
Qed.
Lemma sweep (P : N -> bool) : forallb P all_bytes = true -> forall b, b < 256 -> P b = true.
Proof. intros H b Hb. rewrite forallb_forall in H. apply H, all_bytes_complete, Hb. Qed.
Definition memb (b : N) (l : list N) : bool := existsb (N.eqb b) l.

(* whitespace, digits, exponent markers of the reader / parser *)
Lemma ws_ok : forall b, b < 256 -> Bool.eqb (is_ws b) (memb b Gen.ByteSets.ws_bytes) = true.
Proof. apply sweep. vm_compute. reflexivity. Qed.
Lemma digit_ok : forall b, b < 256 -> Bool.eqb (is_digit b) (memb b Gen.ByteSets.digit_bytes) = true.
Proof. apply sweep. vm_compute. reflexivity. Qed.
Lemma exp_marker_ok : forall b, b < 256 -> Bool.eqb (is_exp_marker b) (memb b Gen.ByteSets.exponent_markers) = true.
Proof. apply sweep. vm_compute. reflexivity. Qed.
(* RFC 8259: both e and E *)
Lemma exp_marker_rfc : memb 101 Gen.ByteSets.exponent_markers = true /\ memb 69 Gen.ByteSets.exponent_markers = true.
Proof. split; reflexivity. Qed.

(* the value dispatch of next_json_value: which first bytes start which kind of value.
   model_kind mirrors the N.eqb chain of JsonParser.parse_value *)
Definition model_kind (b : N) : N :=
  if b =? 116 then 1 else if b =? 102 then 2 else if b =? 110 then 3 else if b =? 34 then 4
  else if (b =? 45) || is_digit b then 5 else if b =? 91 then 6 else if b =? 123 then 7 else 0.
Fixpoint table_kind (b : N) (t : list (list N * N)) : N :=
  match t with [] => 0 | (bs, k) :: t' => if memb b bs then k else table_kind b t' end.
Lemma dispatch_ok : forall b, b < 256 -> N.eqb (model_kind b) (table_kind b Gen.ByteSets.dispatch) = true.
Proof. apply sweep. vm_compute. reflexivity. Qed.

