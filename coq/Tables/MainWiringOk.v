(* obligations on Gen/MainWiring.v (src/main.rs) *)
From Jawk Require Import Base Json Reader JsonParser Printer Chain Fn Expr ExprParser Go.
Local Open Scope N_scope.
From Jawk Require Gen.MainWiring.

(* main: rows to stdout, diagnostics to stderr, failure = message on stderr and a non-zero exit status *)
Lemma main_wiring_ok :
  Gen.MainWiring.rows_stream = 1 /\ Gen.MainWiring.diagnostics_stream = 2 /\
  Gen.MainWiring.error_message_to_stderr_and_exit_status = Some 255%Z.
Proof. repeat split; reflexivity. Qed.

