(* obligations on the escape tables of the parser and the printer *)
From Jawk Require Import Base Json Reader JsonParser Printer Chain Fn Expr ExprParser Go.
Local Open Scope N_scope.
From Jawk Require Gen.ByteSets Gen.PrinterTables.

(* escapes: the parser's table is the table in the source; the printer's escapes invert it *)
Lemma parser_escapes_ok : escape_table = Gen.ByteSets.parser_escapes.
Proof. reflexivity. Qed.
Lemma printer_escapes_ok : print_escapes = Gen.PrinterTables.printer_escapes.
Proof. reflexivity. Qed.
Lemma escapes_inverse :
  forallb (fun e => match assoc_N (snd e) escape_table with Some c => N.eqb c (fst e) | None => false end) print_escapes = true.
Proof. reflexivity. Qed.
Lemma printer_literal_condition_ok : Gen.PrinterTables.literal_condition = 1 /\ Gen.PrinterTables.unicode_escape_format = 1.
Proof. split; reflexivity. Qed.

