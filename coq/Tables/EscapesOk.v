(* obligations on the escape tables of the parser and the printer *)
From Jawk Require Import Base Json Reader JsonParser Printer Chain Fn Expr ExprParser Go.
Local Open Scope N_scope.
From Jawk Require Gen.ByteSets Gen.PrinterTables.

(* escapes: the parser's table is the table in the source; the printer's escapes invert it *)
(* the same finite map: the same pairs, whatever their order in the two lists (keys are distinct on both sides) *)
Definition pair_in (e : N * N) (l : list (N * N)) : bool := existsb (fun x => N.eqb (fst x) (fst e) && N.eqb (snd x) (snd e)) l.
Definition same_pairs (a b : list (N * N)) : bool := forallb (fun e => pair_in e b) a && forallb (fun e => pair_in e a) b.
Fixpoint keys_distinct (l : list (N * N)) : bool :=
  match l with [] => true | e :: t => negb (existsb (fun x => N.eqb (fst x) (fst e)) t) && keys_distinct t end.
Lemma parser_escapes_ok : same_pairs escape_table Gen.ByteSets.parser_escapes = true /\
  keys_distinct escape_table = true /\ keys_distinct Gen.ByteSets.parser_escapes = true.
Proof. repeat split; vm_compute; reflexivity. Qed.
Lemma printer_escapes_ok : same_pairs print_escapes Gen.PrinterTables.printer_escapes = true /\
  keys_distinct print_escapes = true /\ keys_distinct Gen.PrinterTables.printer_escapes = true.
Proof. repeat split; vm_compute; reflexivity. Qed.
Lemma escapes_inverse :
  forallb (fun e => match assoc_N (snd e) escape_table with Some c => N.eqb c (fst e) | None => false end) print_escapes = true.
Proof. reflexivity. Qed.
Lemma printer_literal_condition_ok : Gen.PrinterTables.literal_condition = 1 /\ Gen.PrinterTables.unicode_escape_format = 1.
Proof. split; reflexivity. Qed.

