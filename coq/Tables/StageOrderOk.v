(* obligations on Gen/StageOrder.v (Master::go) *)
From Jawk Require Import Base Json Reader JsonParser Printer Chain Fn Expr ExprParser Go.
Local Open Scope N_scope.
From Jawk Require Gen.StageOrder.

(* the order in which Master::go wraps the stages, and start / read / complete / flush *)
Definition kind_code (k : stage_kind) : N :=
  match k with KGroup => 1 | KLimit => 2 | KSort => 3 | KUniq => 4 | KSelect => 5 | KFilter => 6 | KSplit => 7 | KPreSet => 8 end.
Lemma stage_order_ok : Gen.StageOrder.recognised = true -> Gen.StageOrder.go_sequence = [0] ++ map kind_code wrap_order ++ [9; 10; 11; 12].
Proof. vm_compute. intros H. first [ reflexivity | discriminate H ]. Qed.
Lemma stage_order_documented :
  rev wrap_order = [KPreSet; KSplit; KFilter; KSelect; KUniq; KSort; KLimit; KGroup].
Proof. reflexivity. Qed.
Lemma wrapping_details_ok : Gen.StageOrder.recognised = true ->
  Gen.StageOrder.selections_wrapped_in_reverse <> Some false /\ Gen.StageOrder.only_first_sorter_capped <> Some false.
Proof. vm_compute. intros H. first [ (split; discriminate) | discriminate H ]. Qed.

