(* obligations on Gen/TypeRank.v (src/json_value.rs inner_index) *)
From Jawk Require Import Base Json Reader JsonParser Printer Chain Fn Expr ExprParser Go.
Local Open Scope N_scope.
From Jawk Require Gen.TypeRank.

(* type ranks: null < bool < string < number < object < array *)
Lemma rank_ok :
  map type_rank [JNull; JBool true; JStr []; JNum (NPos 0); JObj []; JArr []] = Gen.TypeRank.type_ranks.
Proof. reflexivity. Qed.
Lemma rank_documented : Gen.TypeRank.type_ranks = [0; 1; 2; 3; 4; 5].
Proof. reflexivity. Qed.

