(* obligations on Gen/FnTable.v (the function definitions under src/functions) *)
From Jawk Require Import Base Json Reader JsonParser Printer Chain Fn Expr ExprParser Go.
Local Open Scope N_scope.
From Jawk Require Gen.FnTable.

(* the function table: every name resolves to a known function (none falls through to FUnknown) *)
Lemma fn_table_known :
  forallb (fun e => match fn_of_canonical (snd (fst (fst e))) with FUnknown _ => false | _ => true end)
          Gen.FnTable.fn_table = true.
Proof. vm_compute. reflexivity. Qed.
Lemma fn_table_counts : length Gen.FnTable.fn_table = 192%nat /\ Gen.FnTable.fn_count = 111.
Proof. split; reflexivity. Qed.
