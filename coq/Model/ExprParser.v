(* ExprParser.v — src/selection.rs read_getter / parse_function, src/extractor.rs,
   src/variables_extractor.rs, src/selection_extractor.rs, src/input_context_extractor.rs,
   and the option parsers (Selection, Filter, Splitter, Grouper, Sorter, PreSet :: from_str). *)
From Jawk Require Import Base F64 Json Reader JsonParser Ctx Printer Fn Expr Chain.
From Jawk Require Gen.FnTable.
Local Open Scope N_scope.

Definition is_ctrl (b : byte) : bool := (b <? 32) || (b =? 127).
Definition mem_N (b : N) (l : list N) : bool := existsb (N.eqb b) l.

(* generic "read bytes with next() until a terminator or end": the terminator stays current *)
Fixpoint read_until (fuel : nat) (stop : byte -> bool) (acc : list byte) (r : reader) : list byte * reader :=
  match fuel with O => (acc, r) | S f =>
    match next r with
    | (None, r') => (acc, r')
    | (Some b, r') => if stop b then (acc, r') else read_until f stop (acc ++ [b]) r'
    end
  end.
Definition fuel_of (r : reader) : nat := S (S (length (rest r))).

Definition key_stop (b : byte) : bool :=
  (b =? 32) || is_ctrl b || mem_N b [46; 44; 61; 40; 41; 34; 93; 91; 123; 125; 35].
Definition fname_stop (b : byte) : bool := (b =? 32) || is_ctrl b || mem_N b [44; 40; 41].
Definition var_stop (b : byte) : bool := mem_N b [32; 10; 9; 13; 41; 44; 61].

Fixpoint count_parents (fuel : nat) (n : nat) (r : reader) : nat * reader :=
  match fuel with O => (n, r) | S f =>
    let '(c, r') := peek r in
    if is_b c 94 then count_parents f (S n) (snd (next r')) else (n, r')
  end.

Definition usize_max : N := 18446744073709551615.

(* ExtractFromInput::parse *)
Fixpoint parse_path (fuel : nat) (ext : list sel) (r : reader) : option (option (list sel)) * reader :=
  match fuel with O => (None, r) | S f =>
    let '(c, r) := peek r in
    if is_b c 46 then
      let '(kb, r) := read_until (fuel_of r) key_stop [] r in
      match utf8_decode kb with
      | None => (None, r)
      | Some [] => (match ext with [] => Some None | _ => None end, r)
      | Some k => parse_path f (ext ++ [SKey k]) r
      end
    else if is_b c 35 then
      let '(ds, r) := read_digits [] (snd (next r)) in
      match ds with
      | [] => (match ext with [] => Some None | _ => None end, r)
      | _ => let n := N_of_digits ds in
             if n <=? usize_max then parse_path f (ext ++ [SIdx n]) r else (None, r)
      end
    else (Some (Some ext), r)
  end.

Definition parse_extractor (r : reader) : option expr * reader :=
  let '(ups, r) := count_parents (fuel_of r) O r in
  let '(p, r) := parse_path (fuel_of r) [] r in
  (option_map (EExtract ups) p, r).

Definition parse_get_variable (r : reader) : option expr * reader :=
  let '(c, r) := peek r in
  let is_macro := is_b c 64 in
  let '(nb, r) := read_until (fuel_of r) var_stop [] r in
  match nb with
  | [] => (None, r)
  | _ => match utf8_decode nb with
         | Some n => (Some (if is_macro then EMacro n else EVar n), r)
         | None => (None, r)
         end
  end.

(* Unicode White_Space, as str::trim uses *)
Definition is_uni_ws (c : N) : bool :=
  ((9 <=? c) && (c <=? 13)) || mem_N c [32; 133; 160; 5760; 8232; 8233; 8239; 8287; 12288]
  || ((8192 <=? c) && (c <=? 8202)).
Fixpoint trim_left (s : str) : str := match s with c :: t => if is_uni_ws c then trim_left t else s | [] => [] end.
Definition trim (s : str) : str := rev (trim_left (rev (trim_left s))).

(* parse_get_selection: '/' is current *)
Fixpoint read_sel_name (fuel : nat) (acc : list byte) (r : reader) : option (list byte) * reader :=
  match fuel with O => (None, r) | S f =>
    match next r with
    | (None, r') => (None, r')
    | (Some b, r') => if b =? 47 then (Some acc, r') else read_sel_name f (acc ++ [b]) r'
    end
  end.
Definition parse_get_selection (r : reader) : option expr * reader :=
  match read_sel_name (fuel_of r) [] r with
  | (Some nb, r) =>
      let r := snd (next r) in
      match nb with
      | [] => (None, r)
      | _ => match utf8_decode nb with Some n => (Some (ESelected (trim n)), r) | None => (None, r) end
      end
  | (None, r) => (None, r)
  end.

(* parse_input_context: '&' is current *)
Definition ictx_norm (b : byte) : option byte :=
  if (97 <=? b) && (b <=? 122) then Some b
  else if (65 <=? b) && (b <=? 90) then Some (b + 32)
  else if (b =? 95) || (b =? 45) then Some 45 else None.
Fixpoint read_ictx_name (fuel : nat) (acc : list byte) (r : reader) : list byte * reader :=
  match fuel with O => (acc, r) | S f =>
    match next r with
    | (None, r') => (acc, r')
    | (Some b, r') => match ictx_norm b with Some x => read_ictx_name f (acc ++ [x]) r' | None => (acc, r') end
    end
  end.
Definition ictx_names : list (list byte * ictx_kind) :=
  [ ([105;110;100;101;120], IIndex);
    ([105;110;100;101;120;45;105;110;45;102;105;108;101], IIndexInFile);
    ([115;116;97;114;116;101;100;45;97;116;45;108;105;110;101;45;110;117;109;98;101;114], IStartLine);
    ([115;116;97;114;116;101;100;45;97;116;45;99;104;97;114;45;110;117;109;98;101;114], IStartChar);
    ([101;110;100;101;100;45;97;116;45;108;105;110;101;45;110;117;109;98;101;114], IEndLine);
    ([101;110;100;101;100;45;97;116;45;99;104;97;114;45;110;117;109;98;101;114], IEndChar);
    ([102;105;108;101;45;110;97;109;101], IFileName) ].
Fixpoint assoc_bytes_k {A} (k : list byte) (l : list (list byte * A)) : option A :=
  match l with [] => None | (a, v) :: t => if list_eqb N.eqb k a then Some v else assoc_bytes_k k t end.
Definition parse_input_context (r : reader) : option expr * reader :=
  let '(nb, r) := read_ictx_name (fuel_of r) [] r in
  (option_map EIctx (assoc_bytes_k nb ictx_names), r).

(* ---------- function names ---------- *)

Fixpoint find_function (name : list byte) (tbl : list (list N * list N * N * option N))
  : option (list byte * N * option N) :=
  match tbl with
  | [] => None
  | (nm, canon, mn, mx) :: t => if list_eqb N.eqb name nm then Some (canon, mn, mx) else find_function name t
  end.

Definition arity_ok (n : nat) (mn : N) (mx : option N) : bool :=
  (mn <=? N.of_nat n) && match mx with Some m => N.of_nat n <=? m | None => true end.

(* ---------- read_getter / parse_function ---------- *)
Fixpoint read_getter (fuel : nat) (r : reader) {struct fuel} : option expr * reader :=
  match fuel with O => (None, r) | S f =>
    let r := eat_whitespace r in
    let '(c, r) := peek r in
    match c with
    | None => (None, r)
    | Some b =>
      if mem_N b [46; 35; 94] then parse_extractor r
      else if b =? 40 then
        (* parse_function *)
        let r := eat_whitespace r in
        let '(nb, r) := read_until (fuel_of r) fname_stop [] r in
        match utf8_decode nb with
        | None => (None, r)
        | Some _ =>
          let '(dot, nb') := match nb with b0 :: t => if b0 =? 46 then (true, t) else (false, nb) | [] => (false, nb) end in
          match find_function nb' Gen.FnTable.fn_table with
          | None => (None, r)
          | Some (canon, mn, mx) =>
              match parse_args f (if dot then [EExtract O None] else []) r with
              | (Some args, r) =>
                  if arity_ok (length args) mn mx then (Some (ECall (fn_of_canonical canon) args), r) else (None, r)
              | (None, r) => (None, r)
              end
          end
        end
      else if mem_N b [58; 64] then parse_get_variable r
      else if b =? 38 then parse_input_context r
      else if b =? 47 then parse_get_selection r
      else match next_json_value r with
           | (POk v, r) => (Some (EConst v), r)
           | (_, r) => (None, r)
           end
    end
  end
with parse_args (fuel : nat) (acc : list expr) (r : reader) {struct fuel} : option (list expr) * reader :=
  match fuel with O => (None, r) | S f =>
    let r := eat_whitespace r in
    let '(c, r) := peek r in
    match c with
    | None => (None, r)
    | Some b =>
        if b =? 44 then parse_args f acc (snd (next r))
        else if b =? 41 then (Some acc, snd (next r))
        else match read_getter f r with
             | (Some e, r) => parse_args f (acc ++ [e]) r
             | (None, r) => (None, r)
             end
    end
  end.

Definition expr_fuel (src : list byte) : nat := 2 * length src + 4.

(* remaining bytes through peek/next (Selection's name) *)
Fixpoint drain_peek (fuel : nat) (acc : list byte) (r : reader) : list byte :=
  match fuel with O => acc | S f =>
    match peek r with
    | (Some b, r') => drain_peek f (acc ++ [b]) (snd (next r'))
    | (None, _) => acc
    end
  end.

(* Filter / Splitter / Grouper :: from_str *)
Definition parse_whole (src : list byte) : option expr :=
  let r := eat_whitespace (reader_of_bytes src) in
  match read_getter (expr_fuel src) r with
  | (Some e, r) => let '(c, _) := peek (eat_whitespace r) in match c with None => Some e | Some _ => None end
  | (None, _) => None
  end.

(* Selection::from_str : expression and title *)
Definition parse_selection (src : list byte) : option (expr * str) :=
  let r := eat_whitespace (reader_of_bytes src) in
  match read_getter (expr_fuel src) r with
  | (Some e, r) =>
      let '(c, r) := peek (eat_whitespace r) in
      match c with
      | None => option_map (fun n => (e, n)) (utf8_decode src)
      | Some b =>
          if b =? 61 then
            let r := eat_whitespace (snd (next r)) in
            option_map (fun n => (e, n)) (utf8_decode (drain_peek (fuel_of r) [] r))
          else None
      end
  | (None, _) => None
  end.

(* Sorter::from_str *)
Definition upper (c : N) : N := if (97 <=? c) && (c <=? 122) then c - 32 else if c =? 383 then 83 else c.
Definition parse_sorter (src : list byte) : option (expr * direction) :=
  let r := eat_whitespace (reader_of_bytes src) in
  match read_getter (expr_fuel src) r with
  | (Some e, r) =>
      let '(db, _) := read_until (fuel_of r) (fun _ => false) [] r in     (* read_to_eof: skips the current byte *)
      match utf8_decode db with
      | None => None
      | Some d =>
          let d := map upper (trim d) in
          if str_eqb d [] || str_eqb d [65; 83; 67] then Some (e, Asc)
          else if str_eqb d [68; 69; 83; 67] then Some (e, Desc) else None
      end
  | (None, _) => None
  end.

(* PreSet::from_str *)
Fixpoint split_eq (s acc : list byte) : option (list byte * list byte) :=
  match s with [] => None | b :: t => if b =? 61 then Some (acc, t) else split_eq t (acc ++ [b]) end.
Inductive preset := PVar (n : str) (v : json) | PMacro (n : str) (e : expr).
Definition parse_preset (src : list byte) : option preset :=
  match split_eq src [] with
  | None => None
  | Some (kb, vb) =>
      match utf8_decode kb with
      | None => None
      | Some k =>
          let k := trim k in
          match read_getter (expr_fuel vb) (reader_of_bytes vb) with
          | (Some e, r) =>
              let '(c, _) := peek (eat_whitespace r) in
              match c with
              | Some _ => None                                 (* trailing text *)
              | None =>
                  match k with
                  | k0 :: m =>
                      if k0 =? 64 then match m with [] => None | _ => Some (PMacro m e) end
                      else match get e new_empty with Some v => Some (PVar k v) | None => None end
                  | [] => None
                  end
              end
          | (None, _) => None
          end
      end
  end.
