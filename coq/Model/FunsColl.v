(* FunsColl.v — collection, list, object, string and type functions.
   `sem_coll f vals = Some r` : f is modelled here and yields r on these argument values
   (r = None is jawk's "nothing"); `None` : f is not modelled in this file.
   Sources: src/functions/basic/collection, list/{list_folding,list_manipulations,list_producers},
   object/{manipulate_object,object_to_list,sort_objects}, string, type_group. *)
From Jawk Require Import Base F64 Json Reader JsonParser Printer Fn FunBase.
Local Open Scope N_scope.

(* ---------- list helpers with a usize counter (no conversion of a huge N to nat) ---------- *)
Fixpoint take_n {A} (n : N) (l : list A) : list A :=          (* iter.take(n) *)
  match l with
  | [] => []
  | x :: t => if n =? 0 then [] else x :: take_n (N.pred n) t
  end.
Fixpoint skip_n {A} (n : N) (l : list A) : list A :=          (* iter.skip(n) *)
  match l with
  | [] => []
  | x :: t => if n =? 0 then l else skip_n (N.pred n) t
  end.
Definition len_N {A} (l : list A) : N := N.of_nat (length l).
(* the last n elements, everything when n exceeds the length (N subtraction saturates) *)
Definition take_last_n {A} (n : N) (l : list A) : list A := skip_n (len_N l - n) l.

Fixpoint last_opt {A} (l : list A) : option A :=
  match l with
  | [] => None
  | [x] => Some x
  | _ :: t => last_opt t
  end.

(* the arguments that are present, in order *)
Fixpoint present (vals : list (option json)) : list json :=
  match vals with
  | [] => []
  | Some v :: t => v :: present t
  | None :: t => present t
  end.

(* every argument is an array (cross, zip) *)
Fixpoint all_arrays (vals : list (option json)) : option (list (list json)) :=
  match vals with
  | [] => Some []
  | Some (JArr l) :: t => option_map (cons l) (all_arrays t)
  | _ => None
  end.
(* every argument is a string (concat) *)
Fixpoint all_strings (vals : list (option json)) : option str :=
  match vals with
  | [] => Some []
  | Some (JStr s) :: t => option_map (app s) (all_strings t)
  | _ => None
  end.

Definition k_value : str := [118; 97; 108; 117; 101].
Definition k_index : str := [105; 110; 100; 101; 120].
Definition k_key : str := [107; 101; 121].
Definition dot_key (i : nat) : str := 46 :: digits_of_N (N.of_nat i).     (* format!(".{i}") *)

(* ---------- basic/collection ---------- *)
Definition coll_apply (fo : list (str * json) -> list (str * json)) (fa : list json -> list json)
                      (fs : str -> str) (v : option json) : option json :=
  match v with
  | Some (JObj m) => Some (JObj (fo m))
  | Some (JArr l) => Some (JArr (fa l))
  | Some (JStr s) => Some (JStr (fs s))
  | _ => None
  end.

Definition sub_sem (vals : list (option json)) : option json :=
  match usize_of (arg vals 1%nat), usize_of (arg vals 2%nat) with
  | Some start, Some len =>
      coll_apply (fun m => take_n len (skip_n start m)) (fun l => take_n len (skip_n start l))
                 (fun s => take_n len (skip_n start s)) (arg vals 0%nat)
  | _, _ => None
  end.
Definition take_sem (vals : list (option json)) : option json :=
  match usize_of (arg vals 1%nat) with
  | Some n => coll_apply (take_n n) (take_n n) (take_n n) (arg vals 0%nat)
  | None => None
  end.
Definition take_last_sem (vals : list (option json)) : option json :=
  match usize_of (arg vals 1%nat) with
  | Some n => coll_apply (take_last_n n) (take_last_n n) (take_last_n n) (arg vals 0%nat)
  | None => None
  end.

(* ---------- list/list_folding ---------- *)
Definition is_true (v : json) : bool := match v with JBool true => true | _ => false end.

Fixpoint join_go (sep : str) (first : bool) (l : list json) : option str :=
  match l with
  | [] => Some []
  | JStr s :: t => option_map (fun r => (if first then s else sep ++ s) ++ r) (join_go sep false t)
  | _ => None
  end.
Definition join_sem (vals : list (option json)) : option json :=
  let osep := match vals with
              | _ :: _ :: _ => match arg vals 1%nat with Some (JStr s) => Some s | _ => None end
              | _ => Some [44; 32]
              end in
  match osep, arg vals 0%nat with
  | Some sep, Some (JArr l) => option_map JStr (join_go sep true l)
  | _, _ => None
  end.

(* sum: f64 additions. Modelled only where every addition is exact: all items integers of
   magnitude <= 2^53 and all partial sums of magnitude <= 2^53 (and where the result is nothing). *)
Definition is_num (v : json) : bool := match v with JNum _ => true | _ => false end.
Definition small (z : Z) : bool := (Z.abs z <=? p53)%Z.
Fixpoint sum_exact (l : list json) (acc : Z) : option Z :=
  match l with
  | [] => Some acc
  | JNum (NPos n) :: t =>
      let x := Z.of_N n in
      if small x && small (acc + x)%Z then sum_exact t (acc + x)%Z else None
  | JNum (NNeg z) :: t =>
      if small z && small (acc + z)%Z then sum_exact t (acc + z)%Z else None
  | _ => None
  end.
Definition sum_sem (vals : list (option json)) : option (option json) :=
  match arg vals 0%nat with
  | Some (JArr l) =>
      if negb (forallb is_num l) then Some None
      else match sum_exact l 0%Z with
           | Some z => Some (Some (JNum (if (z <? 0)%Z then NNeg z else NPos (Z.to_N z))))
           | None => None                      (* needs rounding: not modelled here *)
           end
  | _ => Some None
  end.

(* ---------- list/list_manipulations ---------- *)
Fixpoint indexed_go (i : nat) (l : list json) : list json :=
  match l with
  | [] => []
  | v :: t => JObj (obj_insert k_index (jnat i) (obj_insert k_value v [])) :: indexed_go (S i) t
  end.

(* Vec::dedup: drop an element equal to the last retained one *)
Fixpoint dedup_from (kept : json) (l : list json) : list json :=
  match l with
  | [] => []
  | x :: t => if jeqb x kept then dedup_from kept t else x :: dedup_from x t
  end.
Definition dedup (l : list json) : list json :=
  match l with [] => [] | x :: t => x :: dedup_from x t end.

Definition on_array (f : list json -> json) (v : option json) : option json :=
  match v with Some (JArr l) => Some (f l) | _ => None end.

(* ---------- list/list_producers ---------- *)
Fixpoint cross_go (i : nat) (lists : list (list json)) (joined : list (list (str * json)))
  : list (list (str * json)) :=
  match lists with
  | [] => joined
  | lst :: t =>
      cross_go (S i) t
        (flat_map (fun v => map (fun so_far => obj_insert (dot_key i) v so_far) joined) lst)
  end.

Fixpoint zip_row (idx : nat) (i : nat) (lists : list (list json)) (acc : list (str * json))
  : list (str * json) :=
  match lists with
  | [] => acc
  | l :: t =>
      zip_row idx (S i) t
        (match nth_error l idx with Some v => obj_insert (dot_key i) v acc | None => acc end)
  end.
Definition max_len (lists : list (list json)) : nat :=
  fold_left (fun m l => Nat.max m (length l)) lists O.

(* ---------- object ---------- *)
Definition obj_has (k : str) (m : list (str * json)) : bool :=
  match obj_get k m with Some _ => true | None => false end.

Definition obj3 (f : list (str * json) -> str -> json -> list (str * json))
                (vals : list (option json)) : option json :=
  match arg vals 0%nat, arg vals 1%nat, arg vals 2%nat with
  | Some (JObj m), Some (JStr k), Some v => Some (JObj (f m k v))
  | _, _, _ => None
  end.
Definition on_object (f : list (str * json) -> json) (v : option json) : option json :=
  match v with Some (JObj m) => Some (f m) | _ => None end.

(* ---------- string ---------- *)
Fixpoint is_prefix (p s : str) : bool :=
  match p, s with
  | [], _ => true
  | a :: p', b :: s' => (a =? b) && is_prefix p' s'
  | _ :: _, [] => false
  end.
(* str::split with a non-empty pattern: leftmost non-overlapping matches. `skip` counts the
   characters of the current match that are still to be passed over. *)
Fixpoint split_go (p : str) (skip : nat) (cur : str) (s : str) : list str :=
  match s with
  | [] => [cur]
  | c :: t =>
      match skip with
      | S k => split_go p k cur t
      | O => if is_prefix p s then cur :: split_go p (pred (length p)) [] t
             else split_go p O (cur ++ [c]) t
      end
  end.
(* the empty pattern matches at every character boundary, both ends included *)
Definition split_str (s p : str) : list str :=
  match p with
  | [] => [] :: map (fun c => [c]) s ++ [[]]
  | _ => split_go p O [] s
  end.

(* BASE64_STANDARD.decode: standard alphabet, canonical padding required, no trailing bits *)
Definition b64_val (b : N) : option N :=
  if (65 <=? b) && (b <=? 90) then Some (b - 65)
  else if (97 <=? b) && (b <=? 122) then Some (b - 71)
  else if (48 <=? b) && (b <=? 57) then Some (b + 4)
  else if b =? 43 then Some 62
  else if b =? 47 then Some 63
  else None.
Definition b64_last (a b c d : N) : option (list byte) :=
  match b64_val a, b64_val b with
  | Some x, Some y =>
      if (c =? 61) && (d =? 61) then
        (if y mod 16 =? 0 then Some [x * 4 + y / 16] else None)
      else match b64_val c with
           | Some z =>
               if d =? 61 then
                 (if z mod 4 =? 0 then Some [x * 4 + y / 16; (y mod 16) * 16 + z / 4] else None)
               else match b64_val d with
                    | Some w => Some [x * 4 + y / 16; (y mod 16) * 16 + z / 4; (z mod 4) * 64 + w]
                    | None => None
                    end
           | None => None
           end
  | _, _ => None
  end.
Fixpoint b64_decode (bs : list byte) : option (list byte) :=
  match bs with
  | [] => Some []
  | [a; b; c; d] => b64_last a b c d
  | a :: b :: c :: d :: rest =>
      match b64_val a, b64_val b, b64_val c, b64_val d with
      | Some x, Some y, Some z, Some w =>
          option_map (fun r => (x * 4 + y / 16) :: ((y mod 16) * 16 + z / 4) :: ((z mod 4) * 64 + w) :: r)
                     (b64_decode rest)
      | _, _, _, _ => None
      end
  | _ => None
  end.
Definition base64_sem (v : option json) : option json :=
  match v with
  | Some (JStr s) =>
      match b64_decode (utf8_encode s) with
      | Some bytes => option_map JStr (utf8_decode bytes)
      | None => None
      end
  | _ => None
  end.

(* parse: exactly one JSON value in the text (white space around it allowed) *)
Definition parse_sem (v : option json) : option json :=
  match v with
  | Some (JStr s) =>
      match next_json_value (reader_of_bytes (utf8_encode s)) with
      | (POk first, r) => match next_json_value r with (PEof, _) => Some first | _ => None end
      | _ => None
      end
  | _ => None
  end.

Definition str_num_sem (f : str -> N -> str) (vals : list (option json)) : option json :=
  match arg vals 0%nat, arg vals 1%nat with
  | Some (JStr s), Some (JNum (NPos n)) => Some (JStr (f s n))
  | _, _ => None
  end.

(* ---------- the hook ---------- *)
Definition jb (b : bool) : option (option json) := Some (Some (JBool b)).

Definition sem_coll (f : fn) (vals : list (option json)) : option (option json) :=
  let a0 := arg vals 0%nat in
  match f with
  (* basic/collection *)
  | F_sub => Some (sub_sem vals)
  | F_take => Some (take_sem vals)
  | F_take_last => Some (take_last_sem vals)
  (* list/list_folding *)
  | F_all => Some (on_array (fun l => JBool (match l with [] => false | _ => forallb is_true l end)) a0)
  | F_any => Some (on_array (fun l => JBool (existsb is_true l)) a0)
  | F_first => Some (match a0 with Some (JArr l) => hd_error l | _ => None end)
  | F_last => Some (match a0 with Some (JArr l) => last_opt l | _ => None end)
  | F_join => Some (join_sem vals)
  | F_sum => sum_sem vals
  (* list/list_manipulations *)
  | F_indexed => Some (on_array (fun l => JArr (indexed_go O l)) a0)
  | F_pop => Some (on_array (fun l => JArr (removelast l)) a0)
  | F_pop_first => Some (on_array (fun l => JArr (tl l)) a0)
  | F_push => Some (on_array (fun l => JArr (l ++ present (tl vals))) a0)
  | F_push_front => Some (on_array (fun l => JArr (rev (present (tl vals)) ++ l)) a0)
  | F_reverese => Some (on_array (fun l => JArr (rev l)) a0)
  | F_sort => Some (on_array (fun l => JArr (ssort jcmpS l)) a0)
  | F_sort_unique => Some (on_array (fun l => JArr (dedup (ssort jcmpS l))) a0)
  (* list/list_producers *)
  | F_cross =>
      Some (match all_arrays vals with
            | Some lists => Some (JArr (map JObj (cross_go O lists [[]])))
            | None => None
            end)
  | F_range =>
      Some (match a0 with
            | Some (JNum (NPos n)) => Some (JArr (map jnat (seq O (N.to_nat n))))
            | _ => None
            end)
  | F_zip =>
      Some (match all_arrays vals with
            | Some lists =>
                Some (JArr (map (fun idx => JObj (zip_row idx O lists [])) (seq O (max_len lists))))
            | None => None
            end)
  (* object/manipulate_object *)
  | F_insert_if_absent => Some (obj3 (fun m k v => if obj_has k m then m else obj_insert k v m) vals)
  | F_put => Some (obj3 (fun m k v => obj_insert k v m) vals)
  | F_replace_if_exists => Some (obj3 (fun m k v => if obj_has k m then obj_insert k v m else m) vals)
  (* object/object_to_list *)
  | F_entries =>
      Some (on_object (fun m => JArr (map (fun kv =>
              JObj (obj_insert k_key (JStr (fst kv)) (obj_insert k_value (snd kv) []))) m)) a0)
  | F_keys => Some (on_object (fun m => JArr (map (fun kv => JStr (fst kv)) m)) a0)
  | F_values => Some (on_object (fun m => JArr (map snd m)) a0)
  (* object/sort_objects *)
  | F_sort_by_keys => Some (on_object (fun m => JObj (ssort (fun a b => str_cmp (fst a) (fst b)) m)) a0)
  | F_sort_by_values => Some (on_object (fun m => JObj (ssort (fun a b => jcmpS (snd a) (snd b)) m)) a0)
  (* string *)
  | F_concat => Some (option_map JStr (all_strings vals))
  | F_head => Some (str_num_sem (fun s n => take_n n s) vals)
  | F_tail => Some (str_num_sem (fun s n => if len_N s <? n then s else skip_n n s) vals)
  | F_split =>
      Some (match a0, arg vals 1%nat with
            | Some (JStr s), Some (JStr p) => Some (JArr (map JStr (split_str s p)))
            | _, _ => None
            end)
  | F_base63_decode => Some (base64_sem a0)
  | F_parse => Some (parse_sem a0)
  | F_stringify => Some (option_map (fun v => JStr (show v)) a0)
  (* type_group/cast *)
  | F_as_array => Some (match a0 with Some (JArr l) => Some (JArr l) | _ => None end)
  | F_as_boolean => Some (match a0 with Some (JBool b) => Some (JBool b) | _ => None end)
  | F_as_number => Some (match a0 with Some (JNum n) => Some (JNum n) | _ => None end)
  | F_as_object => Some (match a0 with Some (JObj m) => Some (JObj m) | _ => None end)
  | F_as_string => Some (match a0 with Some (JStr s) => Some (JStr s) | _ => None end)
  (* type_group/check_types *)
  | F_is_array => jb (match a0 with Some (JArr _) => true | _ => false end)
  | F_is_bool => jb (match a0 with Some (JBool _) => true | _ => false end)
  | F_is_empty => jb (match a0 with Some _ => false | None => true end)
  | F_is_null => jb (match a0 with Some JNull => true | _ => false end)
  | F_is_number => jb (match a0 with Some (JNum _) => true | _ => false end)
  | F_is_object => jb (match a0 with Some (JObj _) => true | _ => false end)
  | F_is_string => jb (match a0 with Some (JStr _) => true | _ => false end)
  | _ => None
  end.
