(* JsonParser.v — src/json_parser.rs, function by function. *)
From Jawk Require Import Base F64 Json Reader.
Local Open Scope N_scope.

Inductive pres := POk (v : json) | PEof | PErr | PFuel.

(* read_reserved_word: the first letter is current; compare the remaining ones *)
Fixpoint read_word (w : list byte) (r : reader) : bool * reader :=
  match w with
  | [] => (true, snd (next r))
  | e :: w' => match next r with
               | (Some c, r') => if c =? e then read_word w' r' else (false, r')
               | (None, r') => (false, r')
               end
  end.

(* ----- numbers ----- *)
Definition i64_min : Z := (-9223372036854775808)%Z.
Definition u64_max : N := 18446744073709551615.

Definition parse_to_double (txt : list byte) : pres :=
  match dec2flt txt with
  | Some f => if f_is_finite f then POk (JNum (num_of_f f)) else PErr
  | None => PErr
  end.

Definition classify_number (negative double : bool) (txt : list byte) : pres :=
  if double then parse_to_double txt
  else if negative then
    match txt with
    | _ :: ds =>                                   (* txt = '-' ds *)
        match ds with
        | [] => PErr                               (* "-": invalid digit *)
        | _ => let v := (- Z.of_N (N_of_digits ds))%Z in
               if (v =? 0)%Z then POk (JNum (NPos 0))          (* -0, -00: the integer 0 *)
               else if (i64_min <=? v)%Z then POk (JNum (NNeg v)) else parse_to_double txt
        end
    | [] => PErr
    end
  else
    match txt with
    | [] => PErr
    | _ => let v := N_of_digits txt in
           if v <=? u64_max then POk (JNum (NPos v)) else parse_to_double txt
    end.

Definition is_exp_marker (b : byte) : bool := (b =? 101) || (b =? 69).

Definition is_b (c : option byte) (b : byte) : bool :=
  match c with Some x => x =? b | None => false end.

Definition read_number (r : reader) : pres * reader :=
  let '(c, r) := peek r in
  let neg := is_b c 45 in
  let '(after_minus, r) := if neg then next r else (c, r) in
  match (if neg then after_minus else Some 0) with
  | None => (PErr, r)                             (* '-' then end of input *)
  | Some _ =>
    let chars := if neg then [45] else [] in
    let '(chars, r) := read_digits chars r in
    let '(c, r) := peek r in
    let '(dbl1, chars, r) :=
        if is_b c 46
        then let '(chars, r) := read_digits (chars ++ [46]) (snd (next r)) in (true, chars, r)
        else (false, chars, r) in
    let '(c, r) := peek r in
    let '(dbl2, chars, r) :=
        match c with
        | Some b =>
            if is_exp_marker b then
              let chars := chars ++ [69] in
              let r := snd (next r) in
              let '(c2, r) := peek r in
              let '(chars, r) := if is_b c2 45 then (chars ++ [45], snd (next r))
                                 else if is_b c2 43 then (chars, snd (next r))
                                 else (chars, r) in
              let '(chars, r) := read_digits chars r in (true, chars, r)
            else (false, chars, r)
        | None => (false, chars, r)
        end in
    (classify_number neg (dbl1 || dbl2) chars, r)
  end.

(* ----- strings ----- *)
Definition hex_val (c : byte) : option N :=
  if (48 <=? c) && (c <=? 57) then Some (c - 48)
  else if (97 <=? c) && (c <=? 102) then Some (c - 87)
  else if (65 <=? c) && (c <=? 70) then Some (c - 55)
  else None.

(* the escape table of read_string: escape letter -> byte pushed *)
Definition escape_table : list (byte * byte) :=
  [(34, 34); (92, 92); (47, 47); (98, 8); (102, 12); (110, 10); (114, 13); (116, 9)].
Fixpoint assoc_N (k : N) (l : list (N * N)) : option N :=
  match l with [] => None | (a, b) :: t => if k =? a then Some b else assoc_N k t end.

(* four hex digits after \u; returns the code unit *)
Fixpoint read_hex4 (n : nat) (acc : N) (r : reader) : option N * reader :=
  match n with
  | O => (Some acc, r)
  | S n' => match next r with
            | (None, r') => (None, r')
            | (Some c, r') => match hex_val c with
                              | Some d => read_hex4 n' (acc * 16 + d) r'
                              | None => (None, r')
                              end
            end
  end.

(* called with the opening quote as current byte *)
Fixpoint read_string_f (fuel : nat) (acc : list byte) (r : reader) : pres * reader :=
  match fuel with O => (PFuel, r) | S f =>
    match next r with
    | (None, r') => (PErr, r')
    | (Some c, r') =>
      if c =? 34 then
        let r'' := snd (next r') in
        match utf8_decode acc with Some s => (POk (JStr s), r'') | None => (PErr, r'') end
      else if c =? 92 then
        match next r' with
        | (None, r'') => (PErr, r'')
        | (Some e, r'') =>
            if e =? 117 then
              match read_hex4 4 0 r'' with
              | (Some u, r3) =>
                  if is_scalar u then read_string_f f (acc ++ utf8_encode_char u) r3 else (PErr, r3)
              | (None, r3) => (PErr, r3)
              end
            else match assoc_N e escape_table with
                 | Some b => read_string_f f (acc ++ [b]) r''
                 | None => (PErr, r'')
                 end
        end
      else read_string_f f (acc ++ [c]) r'
    end
  end.
Definition read_string (r : reader) : pres * reader := read_string_f (S (length (rest r))) [] r.

(* ----- values ----- *)
Fixpoint parse_value (fuel : nat) (r : reader) {struct fuel} : pres * reader :=
  match fuel with O => (PFuel, r) | S f =>
    let r := eat_whitespace r in
    match peek r with
    | (None, r) => (PEof, r)
    | (Some b, r) =>
      if b =? 116 then let '(ok, r) := read_word [114; 117; 101] r in ((if ok then POk (JBool true) else PErr), r)
      else if b =? 102 then let '(ok, r) := read_word [97; 108; 115; 101] r in ((if ok then POk (JBool false) else PErr), r)
      else if b =? 110 then let '(ok, r) := read_word [117; 108; 108] r in ((if ok then POk JNull else PErr), r)
      else if b =? 34 then read_string r
      else if (b =? 45) || is_digit b then read_number r
      else if b =? 91 then
        let r := eat_whitespace (snd (next r)) in
        let '(c, r) := peek r in
        if is_b c 93 then (POk (JArr []), snd (next r)) else parse_items f [] r
      else if b =? 123 then
        let r := eat_whitespace (snd (next r)) in
        let '(c, r) := peek r in
        if is_b c 125 then (POk (JObj []), snd (next r)) else parse_members f [] r
      else (PErr, snd (next r))
    end
  end
with parse_items (fuel : nat) (acc : list json) (r : reader) {struct fuel} : pres * reader :=
  match fuel with O => (PFuel, r) | S f =>
    match parse_value f r with
    | (POk v, r) =>
        let r := eat_whitespace r in
        match peek r with
        | (Some c, r) =>
            if c =? 93 then (POk (JArr (acc ++ [v])), snd (next r))
            else if c =? 44 then parse_items f (acc ++ [v]) (snd (next r))
            else (PErr, r)
        | (None, r) => (PErr, r)
        end
    | (PEof, r) => (PErr, r)
    | (e, r) => (e, r)
    end
  end
with parse_members (fuel : nat) (acc : list (str * json)) (r : reader) {struct fuel} : pres * reader :=
  match fuel with O => (PFuel, r) | S f =>
    match parse_value f r with
    | (POk (JStr k), r) =>
        let r := eat_whitespace r in
        let '(c, r) := peek r in
        if negb (is_b c 58) then (PErr, r) else
            match parse_value f (snd (next r)) with
            | (POk v, r) =>
                let acc := obj_insert k v acc in
                let r := eat_whitespace r in
                match peek r with
                | (Some c, r) =>
                    if c =? 125 then (POk (JObj acc), snd (next r))
                    else if c =? 44 then parse_members f acc (snd (next r))
                    else (PErr, r)
                | (None, r) => (PErr, r)
                end
            | (PEof, r) => (PErr, r)
            | (e, r) => (e, r)
            end
    | (POk _, r) => (PErr, r)
    | (PEof, r) => (PErr, r)
    | (e, r) => (e, r)
    end
  end.

(* enough for every input: each recursive call consumes a byte first *)
Definition parse_fuel (r : reader) : nat := 2 * length (rest r) + 4.
Definition next_json_value (r : reader) : pres * reader := parse_value (parse_fuel r) r.
