(* Fn.v — the enumeration of jawk's functions (canonical names). Hand-maintained; the generated
   table Gen/FnTable.v is checked against it (Proofs/TableProofs.v). *)
From Jawk Require Import Base.
Local Open Scope N_scope.

Inductive fn :=
| F_get    (* get *)
| F_size    (* size *)
| F_sub    (* sub *)
| F_take    (* take *)
| F_take_last    (* take_last *)
| F_if    (* ? *)
| F_default    (* default *)
| F_pipe    (* | *)
| F_eq    (* = *)
| F_gt    (* > *)
| F_gte    (* >= *)
| F_lt    (* < *)
| F_lte    (* <= *)
| F_neq    (* != *)
| F_and    (* and *)
| F_not    (* not *)
| F_or    (* or *)
| F_xor    (* xor *)
| F_filter    (* filter *)
| F_flat_map    (* flat_map *)
| F_fold    (* fold *)
| F_group_by    (* group_by *)
| F_map    (* map *)
| F_sort_by    (* sort_by *)
| F_all    (* all *)
| F_any    (* any *)
| F_first    (* first *)
| F_join    (* join *)
| F_last    (* last *)
| F_sum    (* sum *)
| F_indexed    (* indexed *)
| F_pop    (* pop *)
| F_pop_first    (* pop_first *)
| F_push    (* push *)
| F_push_front    (* push_front *)
| F_reverese    (* reverese *)
| F_sort    (* sort *)
| F_sort_unique    (* sort_unique *)
| F_cross    (* cross *)
| F_range    (* range *)
| F_zip    (* zip *)
| F_abs    (* abs *)
| F_add    (* + *)
| F_ceil    (* ceil *)
| F_div    (* / *)
| F_floor    (* floor *)
| F_rem    (* % *)
| F_round    (* round *)
| F_sub_    (* - *)
| F_mul    (* * *)
| FNas_abs    (* "abs" *)
| FNas_add    (* "+" *)
| FNas_div    (* "/" *)
| FNas_normalize    (* "||" *)
| FNas_rem    (* "%" *)
| FNas_round    (* "round" *)
| FNas_sub_    (* "-" *)
| FNas_mul    (* "*" *)
| FNas_eq    (* "=" *)
| FNas_gt    (* ">" *)
| FNas_gte    (* ">=" *)
| FNas_lt    (* "<" *)
| FNas_lte    (* "<=" *)
| FNas_neq    (* "!=" *)
| FNas_sort_by    (* "sort_by" *)
| F_filter_keys    (* filter_keys *)
| F_filter_values    (* filter_values *)
| F_map_keys    (* map_keys *)
| F_map_values    (* map_values *)
| F_insert_if_absent    (* insert_if_absent *)
| F_put    (* put *)
| F_replace_if_exists    (* replace_if_exists *)
| F_entries    (* entries *)
| F_keys    (* keys *)
| F_values    (* values *)
| F_sort_by_keys    (* sort_by_keys *)
| F_sort_by_values    (* sort_by_values *)
| F_sort_by_values_by    (* sort_by_values_by *)
| F_exec    (* exec *)
| F_trigger    (* trigger *)
| F_base63_decode    (* base63_decode *)
| F_concat    (* concat *)
| F_env    (* env *)
| F_head    (* head *)
| F_split    (* split *)
| F_tail    (* tail *)
| F_parse    (* parse *)
| F_parse_selection    (* parse_selection *)
| F_stringify    (* stringify *)
| F_extract_regex_group    (* extract_regex_group *)
| F_match    (* match *)
| F_format_time    (* format_time *)
| F_now    (* now *)
| F_parse_time    (* parse_time *)
| F_parse_time_with_zone    (* parse_time_with_zone *)
| F_as_array    (* as_array *)
| F_as_boolean    (* as_boolean *)
| F_as_number    (* as_number *)
| F_as_object    (* as_object *)
| F_as_string    (* as_string *)
| F_is_array    (* array? *)
| F_is_bool    (* bool? *)
| F_is_empty    (* empty? *)
| F_is_null    (* null? *)
| F_is_number    (* number? *)
| F_is_object    (* object? *)
| F_is_string    (* string? *)
| F_at    (* @ *)
| F_define    (* define *)
| F_colon    (* : *)
| F_set    (* set *)
| FUnknown (name : list byte).

Definition fn_names : list (list byte * fn) := [
  ([103; 101; 116], F_get);
  ([115; 105; 122; 101], F_size);
  ([115; 117; 98], F_sub);
  ([116; 97; 107; 101], F_take);
  ([116; 97; 107; 101; 95; 108; 97; 115; 116], F_take_last);
  ([63], F_if);
  ([100; 101; 102; 97; 117; 108; 116], F_default);
  ([124], F_pipe);
  ([61], F_eq);
  ([62], F_gt);
  ([62; 61], F_gte);
  ([60], F_lt);
  ([60; 61], F_lte);
  ([33; 61], F_neq);
  ([97; 110; 100], F_and);
  ([110; 111; 116], F_not);
  ([111; 114], F_or);
  ([120; 111; 114], F_xor);
  ([102; 105; 108; 116; 101; 114], F_filter);
  ([102; 108; 97; 116; 95; 109; 97; 112], F_flat_map);
  ([102; 111; 108; 100], F_fold);
  ([103; 114; 111; 117; 112; 95; 98; 121], F_group_by);
  ([109; 97; 112], F_map);
  ([115; 111; 114; 116; 95; 98; 121], F_sort_by);
  ([97; 108; 108], F_all);
  ([97; 110; 121], F_any);
  ([102; 105; 114; 115; 116], F_first);
  ([106; 111; 105; 110], F_join);
  ([108; 97; 115; 116], F_last);
  ([115; 117; 109], F_sum);
  ([105; 110; 100; 101; 120; 101; 100], F_indexed);
  ([112; 111; 112], F_pop);
  ([112; 111; 112; 95; 102; 105; 114; 115; 116], F_pop_first);
  ([112; 117; 115; 104], F_push);
  ([112; 117; 115; 104; 95; 102; 114; 111; 110; 116], F_push_front);
  ([114; 101; 118; 101; 114; 101; 115; 101], F_reverese);
  ([115; 111; 114; 116], F_sort);
  ([115; 111; 114; 116; 95; 117; 110; 105; 113; 117; 101], F_sort_unique);
  ([99; 114; 111; 115; 115], F_cross);
  ([114; 97; 110; 103; 101], F_range);
  ([122; 105; 112], F_zip);
  ([97; 98; 115], F_abs);
  ([43], F_add);
  ([99; 101; 105; 108], F_ceil);
  ([47], F_div);
  ([102; 108; 111; 111; 114], F_floor);
  ([37], F_rem);
  ([114; 111; 117; 110; 100], F_round);
  ([45], F_sub_);
  ([42], F_mul);
  ([34; 97; 98; 115; 34], FNas_abs);
  ([34; 43; 34], FNas_add);
  ([34; 47; 34], FNas_div);
  ([34; 124; 124; 34], FNas_normalize);
  ([34; 37; 34], FNas_rem);
  ([34; 114; 111; 117; 110; 100; 34], FNas_round);
  ([34; 45; 34], FNas_sub_);
  ([34; 42; 34], FNas_mul);
  ([34; 61; 34], FNas_eq);
  ([34; 62; 34], FNas_gt);
  ([34; 62; 61; 34], FNas_gte);
  ([34; 60; 34], FNas_lt);
  ([34; 60; 61; 34], FNas_lte);
  ([34; 33; 61; 34], FNas_neq);
  ([34; 115; 111; 114; 116; 95; 98; 121; 34], FNas_sort_by);
  ([102; 105; 108; 116; 101; 114; 95; 107; 101; 121; 115], F_filter_keys);
  ([102; 105; 108; 116; 101; 114; 95; 118; 97; 108; 117; 101; 115], F_filter_values);
  ([109; 97; 112; 95; 107; 101; 121; 115], F_map_keys);
  ([109; 97; 112; 95; 118; 97; 108; 117; 101; 115], F_map_values);
  ([105; 110; 115; 101; 114; 116; 95; 105; 102; 95; 97; 98; 115; 101; 110; 116], F_insert_if_absent);
  ([112; 117; 116], F_put);
  ([114; 101; 112; 108; 97; 99; 101; 95; 105; 102; 95; 101; 120; 105; 115; 116; 115], F_replace_if_exists);
  ([101; 110; 116; 114; 105; 101; 115], F_entries);
  ([107; 101; 121; 115], F_keys);
  ([118; 97; 108; 117; 101; 115], F_values);
  ([115; 111; 114; 116; 95; 98; 121; 95; 107; 101; 121; 115], F_sort_by_keys);
  ([115; 111; 114; 116; 95; 98; 121; 95; 118; 97; 108; 117; 101; 115], F_sort_by_values);
  ([115; 111; 114; 116; 95; 98; 121; 95; 118; 97; 108; 117; 101; 115; 95; 98; 121], F_sort_by_values_by);
  ([101; 120; 101; 99], F_exec);
  ([116; 114; 105; 103; 103; 101; 114], F_trigger);
  ([98; 97; 115; 101; 54; 51; 95; 100; 101; 99; 111; 100; 101], F_base63_decode);
  ([99; 111; 110; 99; 97; 116], F_concat);
  ([101; 110; 118], F_env);
  ([104; 101; 97; 100], F_head);
  ([115; 112; 108; 105; 116], F_split);
  ([116; 97; 105; 108], F_tail);
  ([112; 97; 114; 115; 101], F_parse);
  ([112; 97; 114; 115; 101; 95; 115; 101; 108; 101; 99; 116; 105; 111; 110], F_parse_selection);
  ([115; 116; 114; 105; 110; 103; 105; 102; 121], F_stringify);
  ([101; 120; 116; 114; 97; 99; 116; 95; 114; 101; 103; 101; 120; 95; 103; 114; 111; 117; 112], F_extract_regex_group);
  ([109; 97; 116; 99; 104], F_match);
  ([102; 111; 114; 109; 97; 116; 95; 116; 105; 109; 101], F_format_time);
  ([110; 111; 119], F_now);
  ([112; 97; 114; 115; 101; 95; 116; 105; 109; 101], F_parse_time);
  ([112; 97; 114; 115; 101; 95; 116; 105; 109; 101; 95; 119; 105; 116; 104; 95; 122; 111; 110; 101], F_parse_time_with_zone);
  ([97; 115; 95; 97; 114; 114; 97; 121], F_as_array);
  ([97; 115; 95; 98; 111; 111; 108; 101; 97; 110], F_as_boolean);
  ([97; 115; 95; 110; 117; 109; 98; 101; 114], F_as_number);
  ([97; 115; 95; 111; 98; 106; 101; 99; 116], F_as_object);
  ([97; 115; 95; 115; 116; 114; 105; 110; 103], F_as_string);
  ([97; 114; 114; 97; 121; 63], F_is_array);
  ([98; 111; 111; 108; 63], F_is_bool);
  ([101; 109; 112; 116; 121; 63], F_is_empty);
  ([110; 117; 108; 108; 63], F_is_null);
  ([110; 117; 109; 98; 101; 114; 63], F_is_number);
  ([111; 98; 106; 101; 99; 116; 63], F_is_object);
  ([115; 116; 114; 105; 110; 103; 63], F_is_string);
  ([64], F_at);
  ([100; 101; 102; 105; 110; 101], F_define);
  ([58], F_colon);
  ([115; 101; 116], F_set)
].

Fixpoint fn_lookup (name : list byte) (l : list (list byte * fn)) : option fn :=
  match l with
  | [] => None
  | (n, f) :: t => if list_eqb N.eqb name n then Some f else fn_lookup name t
  end.
Definition fn_of_canonical (name : list byte) : fn :=
  match fn_lookup name fn_names with Some f => f | None => FUnknown name end.
