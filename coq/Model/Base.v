(* Base.v — bytes, strings (lists of Unicode scalar values), UTF-8, decimal digits.
   Executable definitions only; lemmas live in Proofs/. *)
From Coq Require Export List NArith ZArith Bool Lia.
Export ListNotations.
Local Open Scope N_scope.

Definition byte := N.          (* intended < 256 *)
Definition str := list N.      (* Unicode scalar values *)

Fixpoint list_eqb {A} (eqb : A -> A -> bool) (a b : list A) : bool :=
  match a, b with
  | [], [] => true
  | x :: a', y :: b' => eqb x y && list_eqb eqb a' b'
  | _, _ => false
  end.
Definition str_eqb : str -> str -> bool := list_eqb N.eqb.

(* lexicographic comparison; a proper prefix is smaller (Rust: Vec/str Ord) *)
Fixpoint list_cmp {A} (cmp : A -> A -> comparison) (a b : list A) : comparison :=
  match a, b with
  | [], [] => Eq
  | [], _ :: _ => Lt
  | _ :: _, [] => Gt
  | x :: a', y :: b' => match cmp x y with Eq => list_cmp cmp a' b' | c => c end
  end.
Definition str_cmp : str -> str -> comparison := list_cmp N.compare.

(* ---------- UTF-8 ---------- *)
Definition is_scalar (c : N) : bool := (c <? 55296) || ((57343 <? c) && (c <? 1114112)).

Definition utf8_encode_char (c : N) : list byte :=
  if c <? 128 then [c]
  else if c <? 2048 then [192 + c / 64; 128 + c mod 64]
  else if c <? 65536 then [224 + c / 4096; 128 + (c / 64) mod 64; 128 + c mod 64]
  else [240 + c / 262144; 128 + (c / 4096) mod 64; 128 + (c / 64) mod 64; 128 + c mod 64].
Definition utf8_encode (s : str) : list byte := flat_map utf8_encode_char s.

Definition is_cont (b : N) : bool := (128 <=? b) && (b <? 192).

(* strict decoder: rejects overlong forms, surrogates, > U+10FFFF, stray bytes
   (what Rust's String::from_utf8 accepts) *)
Fixpoint utf8_decode (bs : list byte) : option str :=
  match bs with
  | [] => Some []
  | b0 :: t =>
    if b0 <? 128 then option_map (cons b0) (utf8_decode t)
    else if b0 <? 194 then None
    else if b0 <? 224 then
      match t with
      | b1 :: t' => if is_cont b1 then option_map (cons ((b0 - 192) * 64 + (b1 - 128))) (utf8_decode t') else None
      | _ => None
      end
    else if b0 <? 240 then
      match t with
      | b1 :: b2 :: t' =>
          let c := (b0 - 224) * 4096 + (b1 - 128) * 64 + (b2 - 128) in
          if is_cont b1 && is_cont b2 && (2048 <=? c) && is_scalar c
          then option_map (cons c) (utf8_decode t') else None
      | _ => None
      end
    else if b0 <? 245 then
      match t with
      | b1 :: b2 :: b3 :: t' =>
          let c := (b0 - 240) * 262144 + (b1 - 128) * 4096 + (b2 - 128) * 64 + (b3 - 128) in
          if is_cont b1 && is_cont b2 && is_cont b3 && (65536 <=? c) && (c <? 1114112)
          then option_map (cons c) (utf8_decode t') else None
      | _ => None
      end
    else None
  end.

(* ---------- decimal digits ---------- *)
Definition is_digit (b : N) : bool := (48 <=? b) && (b <=? 57).
Definition is_ws (b : N) : bool := (b =? 32) || (b =? 10) || (b =? 9) || (b =? 13).

Fixpoint N_of_digits_acc (ds : list N) (acc : N) : N :=
  match ds with [] => acc | d :: t => N_of_digits_acc t (acc * 10 + (d - 48)) end.
Definition N_of_digits (ds : list N) : N := N_of_digits_acc ds 0.

(* digits of n, most significant first, by fuel (N.size_nat n + 1 suffices) *)
Fixpoint digits_fuel (fuel : nat) (n : N) (acc : list N) : list N :=
  match fuel with
  | O => acc
  | S f => if n <? 10 then (48 + n) :: acc else digits_fuel f (n / 10) ((48 + n mod 10) :: acc)
  end.
Definition digits_of_N (n : N) : list N := digits_fuel (S (N.size_nat n)) n [].
Definition digits_of_Z (z : Z) : list N :=
  match z with
  | Z0 => [48]
  | Zpos p => digits_of_N (Npos p)
  | Zneg p => 45 :: digits_of_N (Npos p)
  end.

Definition hex_digit (d : N) : N := if d <? 10 then 48 + d else 87 + d.   (* lower case *)
Fixpoint hex_fuel (fuel : nat) (n : N) (acc : list N) : list N :=
  match fuel with
  | O => acc
  | S f => if n <? 16 then hex_digit n :: acc else hex_fuel f (n / 16) (hex_digit (n mod 16) :: acc)
  end.
Definition hex_of_N (n : N) : list N := hex_fuel (S (N.size_nat n)) n [].
(* Rust {:04x}: at least four digits, more when needed *)
Definition hex4 (n : N) : list N :=
  let h := hex_of_N n in repeat 48 (4 - length h) ++ h.

Definition ascii (s : list N) : list N := s.
