(* Json.v — JsonValue, NumberValue, equality (derived PartialEq + NumberValue::eq),
   order (impl Ord), hash feed (impl Hash), IndexMap operations. *)
From Jawk Require Import Base F64.
Local Open Scope N_scope.

Inductive num := NPos (n : N) | NNeg (z : Z) | NFlt (bits : N).

Inductive json :=
| JNull
| JBool (b : bool)
| JStr (s : str)
| JNum (n : num)
| JObj (m : list (str * json))
| JArr (l : list json).

(* ---------- numbers ---------- *)
Definition num_to_f (n : num) : N :=
  match n with NPos n => f_of_N n | NNeg z => f_of_Z z | NFlt b => b end.

(* impl From<f64> for JsonValue *)
Definition num_of_f (bits : N) : num :=
  match f_integral bits with
  | Some v =>
      if f_is_neg_strict bits then
        (if (- p63 <? v)%Z then NNeg v else NFlt bits)
      else (if (v <? p64)%Z then NPos (Z.to_N v) else NFlt bits)
  | None => NFlt bits
  end.

Definition f_fract_zero_nonneg (b : N) : bool :=   (* fract()==0 && b >= 0.0 *)
  match f_integral b with Some v => (0 <=? v)%Z | None => false end.
Definition f_fract_zero_nonpos (b : N) : bool :=
  match f_integral b with Some v => (v <=? 0)%Z | None => false end.

(* impl PartialEq for NumberValue *)
Definition num_eqb (a b : num) : bool :=
  match a, b with
  | NFlt x, NFlt y => f_eqb x y
  | NFlt x, NNeg z | NNeg z, NFlt x => f_fract_zero_nonpos x && f_eqb (f_of_Z z) x
  | NFlt x, NPos n | NPos n, NFlt x => f_fract_zero_nonneg x && f_eqb (f_of_N n) x
  | NNeg x, NNeg y => Z.eqb x y
  | NPos x, NPos y => N.eqb x y
  | NNeg z, NPos n | NPos n, NNeg z => Z.eqb z 0 && N.eqb n 0
  end.

(* impl Ord for NumberValue *)
Definition num_cmp (a b : num) : comparison := f_total_cmp (num_to_f a) (num_to_f b).

(* ---------- IndexMap as an association list in insertion order ---------- *)
Fixpoint obj_get (k : str) (m : list (str * json)) : option json :=
  match m with
  | [] => None
  | (k', v) :: t => if str_eqb k k' then Some v else obj_get k t
  end.
(* insert: replace in place when present, else append *)
Fixpoint obj_insert (k : str) (v : json) (m : list (str * json)) : list (str * json) :=
  match m with
  | [] => [(k, v)]
  | (k', v') :: t => if str_eqb k k' then (k', v) :: t else (k', v') :: obj_insert k v t
  end.
Definition obj_of_list (l : list (str * json)) : list (str * json) :=
  fold_left (fun m kv => obj_insert (fst kv) (snd kv) m) l [].
Fixpoint obj_remove (k : str) (m : list (str * json)) : list (str * json) :=
  match m with
  | [] => []
  | (k', v') :: t => if str_eqb k k' then t else (k', v') :: obj_remove k t
  end.

(* ---------- equality ---------- *)
Fixpoint jeqb (a b : json) {struct a} : bool :=
  match a, b with
  | JNull, JNull => true
  | JBool x, JBool y => Bool.eqb x y
  | JStr x, JStr y => str_eqb x y
  | JNum x, JNum y => num_eqb x y
  | JArr x, JArr y =>
      (fix go (x y : list json) {struct x} : bool :=
         match x, y with
         | [], [] => true
         | u :: x', v :: y' => jeqb u v && go x' y'
         | _, _ => false
         end) x y
  | JObj x, JObj y =>
      (* IndexMap eq: same length, every entry of x present in y with an equal value *)
      Nat.eqb (length x) (length y) &&
      (fix go (x : list (str * json)) {struct x} : bool :=
         match x with
         | [] => true
         | (k, u) :: x' => match obj_get k y with Some v => jeqb u v | None => false end && go x'
         end) x
  | _, _ => false
  end.

Definition ojeqb (a b : option json) : bool :=
  match a, b with
  | None, None => true
  | Some x, Some y => jeqb x y
  | _, _ => false
  end.

(* ---------- order ---------- *)
Definition type_rank (v : json) : N :=
  match v with JNull => 0 | JBool _ => 1 | JStr _ => 2 | JNum _ => 3 | JObj _ => 4 | JArr _ => 5 end.

Definition bool_cmp (a b : bool) : comparison :=
  match a, b with false, true => Lt | true, false => Gt | _, _ => Eq end.

(* insertion sort of strings (Vec<String>::sort) *)
Fixpoint str_insert (s : str) (l : list str) : list str :=
  match l with
  | [] => [s]
  | h :: t => match str_cmp s h with Gt => h :: str_insert s t | _ => s :: l end
  end.
Definition str_sort (l : list str) : list str := fold_right str_insert [] l.

Section Order.
(* the one-line ASCII text of a value: `format!("{v}")` *)
Variable show : json -> list N.

Fixpoint jcmp (a b : json) {struct a} : comparison :=
  match N.compare (type_rank a) (type_rank b) with
  | Eq =>
    match a, b with
    | JBool x, JBool y => bool_cmp x y
    | JStr x, JStr y => str_cmp x y
    | JNum x, JNum y => num_cmp x y
    | JArr x, JArr y =>
        (fix go (x y : list json) {struct x} : comparison :=
           match x, y with
           | [], [] => Eq
           | [], _ :: _ => Lt
           | _ :: _, [] => Gt
           | u :: x', v :: y' => match jcmp u v with Eq => go x' y' | c => c end
           end) x y
    | JObj x, JObj y =>
        match Nat.compare (length x) (length y) with
        | Eq => match list_cmp str_cmp (str_sort (map fst x)) (str_sort (map fst y)) with
                | Eq => str_cmp (show a) (show b)
                | c => c
                end
        | c => c
        end
    | _, _ => Eq
    end
  | c => c
  end.
End Order.

(* ---------- hash feed: the sequence of Hasher writes ---------- *)
Inductive hw := HI8 (z : Z) | HU64 (n : N) | HI64 (z : Z) | HStr (s : str) | HLen (n : nat).

(* `member_hash` is what a fresh DefaultHasher answers (finish) after a sequence of writes: any function.  An object
   writes its tag and then ONE u64: the wrapping sum of the hashes of its members (key then value), so that the
   feed does not depend on the order of the members (objects are equal whatever that order) *)
Section HashFeed.
Variable member_hash : list hw -> N.
Fixpoint hash_feed (v : json) : list hw :=
  match v with
  | JNull => [HI8 1]
  | JNum (NFlt f) => [HI8 2; HU64 f]
  | JNum (NPos n) => [HI8 3; HU64 n]
  | JNum (NNeg z) => [HI8 4; HI64 z]
  | JStr s => [HI8 5; HStr s]
  | JArr l => HI8 6 :: HLen (length l) :: flat_map hash_feed l
  | JObj m => [HI8 7; HU64 (fold_right (fun kv acc => (member_hash (HStr (fst kv) :: hash_feed (snd kv)) + acc) mod 18446744073709551616) 0 m)]
  | JBool true => [HI8 8]
  | JBool false => [HI8 9]
  end.
End HashFeed.

Definition type_name (v : json) : str :=
  match v with
  | JNull => [110;117;108;108]
  | JBool _ => [98;111;111;108;101;97;110]
  | JStr _ => [115;116;114;105;110;103]
  | JNum _ => [110;117;109;98;101;114]
  | JObj _ => [111;98;106;101;99;116]
  | JArr _ => [97;114;114;97;121]
  end.
