(* Printer.v — src/output_style.rs: the JSON printer (three styles, utf8 on/off) and the text/csv printer. *)
From Jawk Require Import Base F64 Json.
Local Open Scope N_scope.

Inductive jstyle := OneLine | Consise | Pretty.

(* the two-character escapes of print_string: code point -> letter after the backslash *)
Definition print_escapes : list (N * N) :=
  [(34, 34); (92, 92); (47, 47); (8, 98); (12, 102); (10, 110); (13, 114); (9, 116)].
Fixpoint assoc_esc (k : N) (l : list (N * N)) : option N :=
  match l with [] => None | (a, b) :: t => if k =? a then Some b else assoc_esc k t end.

Definition print_char (utf8 : bool) (c : N) : list byte :=
  match assoc_esc c print_escapes with
  | Some l => [92; l]
  | None =>
      if (utf8 && (32 <=? c)) || ((32 <=? c) && (c <=? 126)) then utf8_encode_char c
      else 92 :: 117 :: hex4 c
  end.
Definition print_string (utf8 : bool) (s : str) : list byte :=
  34 :: flat_map (print_char utf8) s ++ [34].

Definition print_num (n : num) : list byte :=
  match n with
  | NPos n => digits_of_N n
  | NNeg z => digits_of_Z z
  | NFlt f => flt2dec f
  end.

Definition indent (st : jstyle) (n : nat) : list byte :=
  match st with Pretty => 10 :: concat (repeat [32; 32] n) | _ => [] end.
Definition comma (st : jstyle) : list byte :=
  match st with OneLine => [44; 32] | _ => [44] end.
Definition colon (st : jstyle) : list byte :=
  match st with Consise => [58] | _ => [58; 32] end.

Section Print.
Variables (st : jstyle) (utf8 : bool).

Fixpoint print_json_at (d : nat) (v : json) {struct v} : list byte :=
  match v with
  | JNull => [110; 117; 108; 108]
  | JBool true => [116; 114; 117; 101]
  | JBool false => [102; 97; 108; 115; 101]
  | JNum n => print_num n
  | JStr s => print_string utf8 s
  | JArr [] => [91; 93]
  | JArr l =>
      91 :: (fix items (l : list json) : list byte :=
               match l with
               | [] => []
               | [x] => indent st (S d) ++ print_json_at (S d) x
               | x :: t => indent st (S d) ++ print_json_at (S d) x ++ comma st ++ items t
               end) l ++ indent st d ++ [93]
  | JObj [] => [123; 125]
  | JObj m =>
      123 :: (fix members (m : list (str * json)) : list byte :=
               match m with
               | [] => []
               | [(k, x)] => indent st (S d) ++ print_string utf8 k ++ colon st ++ print_json_at (S d) x
               | (k, x) :: t => indent st (S d) ++ print_string utf8 k ++ colon st ++ print_json_at (S d) x
                                ++ comma st ++ members t
               end) m ++ indent st d ++ [125]
  end.
Definition print_json (v : json) : list byte := print_json_at 0 v.
End Print.

(* `format!("{v}")`: JsonOutputOptions::default() = one line, ASCII *)
Definition show (v : json) : list N := print_json OneLine false v.

(* ---------- text / csv ---------- *)
Record text_opts := {
  items_sep : list byte; str_prefix : list byte; str_postfix : list byte; headers : bool;
  escapes : list (N * list byte);      (* first char -> replacement bytes *)
  null_kw : list byte; true_kw : list byte; false_kw : list byte; missing_kw : option (list byte) }.

Definition csv_opts : text_opts :=
  {| items_sep := [44; 32]; str_prefix := [34]; str_postfix := [34]; headers := true;
     escapes := [(34, [34; 34])];
     null_kw := [110; 117; 108; 108]; true_kw := [84; 114; 117; 101]; false_kw := [70; 97; 108; 115; 101];
     missing_kw := None |}.
Definition default_text_opts : text_opts :=
  {| items_sep := [9]; str_prefix := []; str_postfix := []; headers := false; escapes := [];
     null_kw := [110; 117; 108; 108]; true_kw := [116; 114; 117; 101]; false_kw := [102; 97; 108; 115; 101];
     missing_kw := None |}.

Fixpoint assoc_bytes (k : N) (l : list (N * list byte)) : option (list byte) :=
  match l with [] => None | (a, b) :: t => if k =? a then Some b else assoc_bytes k t end.

Definition text_string (o : text_opts) (s : str) : list byte :=
  str_prefix o ++
  flat_map (fun c => match assoc_bytes c (escapes o) with Some r => r | None => utf8_encode_char c end) s
  ++ str_postfix o.

(* nested values: concise utf8 JSON text, re-read as a string of characters *)
Definition text_value (o : text_opts) (v : json) : list byte :=
  match v with
  | JNull => null_kw o
  | JBool true => true_kw o
  | JBool false => false_kw o
  | JNum n => print_num n
  | JStr s => text_string o s
  | JArr _ | JObj _ =>
      match utf8_decode (print_json Consise true v) with
      | Some s => text_string o s
      | None => []      (* unreachable: the printer emits valid UTF-8 *)
      end
  end.
Definition text_field (o : text_opts) (v : option json) : list byte :=
  match v with
  | Some v => text_value o v
  | None => match missing_kw o with Some k => k | None => [] end
  end.
