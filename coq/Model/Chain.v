(* Chain.v — the processing pipeline: one `stage` per impl Process (static description) and one
   `sstate` per stage (its mutable fields), threaded through `process` / `complete`.
   The last stage is the printer: the contexts that reach it are the chain's output.
   Generic in the expression type E and its evaluation `get`. *)
From Jawk Require Import Base F64 Json Ctx Printer.
Local Open Scope N_scope.

Inductive decision := Continue | Break.
Inductive direction := Asc | Desc.

Section Chain.
Variable E : Type.
Variable get : E -> ctx E -> option json.
Notation ctx := (ctx E).

Inductive stage :=
| SPreSet (vs : list (str * json)) (ds : list (str * E))
| SSplit (e : E)
| SFilter (e : E)
| SSelect (name : str) (e : E)
| SUniq
| SSort (k : E) (dir : direction) (cap : option N)
| SLimit (skip : N) (take : option N)
| SGroup (k : E)
| SMerge.

Definition jcmpS := jcmp show.

(* BTreeMap<JsonValue, VecDeque<Context>>: ascending keys; each bucket newest first (push_front) *)
Definition buckets := list (json * list ctx).

Inductive sstate :=
| StNone
| StUniq (seen : list ckey)
| StSort (space : option N) (data : buckets)
| StLimit (skipped passed : N)
| StGroup (data : list (str * list json))      (* IndexMap<String, Vec<JsonValue>> *)
| StMerge (data : list json).

Definition init_state (s : stage) : sstate :=
  match s with
  | SUniq => StUniq []
  | SSort _ _ cap => StSort cap []
  | SLimit _ _ => StLimit 0 0
  | SGroup _ => StGroup []
  | SMerge => StMerge []
  | _ => StNone
  end.

(* data.entry(key).or_default().push_front(context) *)
Fixpoint binsert (k : json) (c : ctx) (d : buckets) : buckets :=
  match d with
  | [] => [(k, [c])]
  | (k', b) :: t =>
      match jcmpS k k' with
      | Lt => (k, [c]) :: d
      | Eq => (k', c :: b) :: t
      | Gt => (k', b) :: binsert k c t
      end
  end.

(* remove_last_item: drop the newest row (front) of the bucket printed last *)
Definition drop_front (kb : json * list ctx) : list (json * list ctx) :=
  match snd kb with [] | [_] => [] | _ :: b' => [(fst kb, b')] end.
Fixpoint bdrop_last (d : buckets) : buckets :=      (* Asc: last entry *)
  match d with
  | [] => []
  | [kb] => drop_front kb
  | kb :: t => kb :: bdrop_last t
  end.
Definition bdrop_first (d : buckets) : buckets :=   (* Desc: first entry *)
  match d with [] => [] | kb :: t => drop_front kb ++ t end.

(* complete: buckets in key order (reversed for Desc), each bucket oldest first (pop_back) *)
Definition flush (dir : direction) (d : buckets) : list ctx :=
  match dir with
  | Asc => concat (map (fun kb => rev (snd kb)) d)
  | Desc => concat (map (fun kb => rev (snd kb)) (rev d))
  end.

Fixpoint group_push (k : str) (v : json) (d : list (str * list json)) : list (str * list json) :=
  match d with
  | [] => [(k, [v])]
  | (k', l) :: t => if str_eqb k k' then (k', l ++ [v]) :: t else (k', l) :: group_push k v t
  end.

Definition mem_key (k : ckey) (seen : list ckey) : bool := existsb (ckey_eqb k) seen.

(* feed contexts one by one to a step function, stopping at the first Break *)
Fixpoint feed_with (p : list sstate -> ctx -> list sstate * list ctx * decision)
         (cs : list ctx) (ss : list sstate) : list sstate * list ctx * decision :=
  match cs with
  | [] => (ss, [], Continue)
  | c :: t =>
      let '(ss1, o, d) := p ss c in
      match d with
      | Break => (ss1, o, Break)
      | Continue => let '(ss2, o2, d2) := feed_with p t ss1 in (ss2, o ++ o2, d2)
      end
  end.

(* process: returns the new states, the contexts delivered to the printer, the decision *)
Fixpoint process (sts : list stage) (ss : list sstate) (c : ctx) {struct sts}
  : list sstate * list ctx * decision :=
  match sts, ss with
  | [], _ => (ss, [c], Continue)
  | SPreSet vs ds :: sts', s :: ss' =>
      let '(ss2, o, d) := process sts' ss' (with_definitions (with_variables c vs) ds) in (s :: ss2, o, d)
  | SSplit e :: sts', s :: ss' =>
      match get e c with
      | Some (JArr l) =>
          let '(ss2, o, d) := feed_with (process sts' ) (map (with_input c) l) ss' in (s :: ss2, o, d)
      | _ => (ss, [], Continue)
      end
  | SFilter e :: sts', s :: ss' =>
      match get e c with
      | Some (JBool true) => let '(ss2, o, d) := process sts' ss' c in (s :: ss2, o, d)
      | _ => (ss, [], Continue)
      end
  | SSelect name e :: sts', s :: ss' =>
      let '(ss2, o, d) := process sts' ss' (with_result c name (get e c)) in (s :: ss2, o, d)
  | SUniq :: sts', StUniq seen :: ss' =>
      if mem_key (key c) seen then (ss, [], Continue)
      else let '(ss2, o, d) := process sts' ss' c in (StUniq (key c :: seen) :: ss2, o, d)
  | SSort k dir _ :: sts', StSort space data :: ss' =>
      match get k c with
      | Some kv =>
          let data1 := binsert kv c data in
          match space with
          | None => (StSort None data1 :: ss', [], Continue)
          | Some sp =>
              if sp =? 0
              then (StSort (Some 0) (match dir with Asc => bdrop_last data1 | Desc => bdrop_first data1 end) :: ss',
                    [], Continue)
              else (StSort (Some (sp - 1)) data1 :: ss', [], Continue)
          end
      | None => (ss, [], Continue)
      end
  | SLimit skip take :: sts', StLimit skipped passed :: ss' =>
      if skipped <? skip then (StLimit (skipped + 1) passed :: ss', [], Continue)
      else match take with
           | Some lim =>
               if lim <=? passed then (ss, [], Break)
               else let '(ss2, o, _) := process sts' ss' c in
                    (StLimit skipped (passed + 1) :: ss2, o, if lim <=? passed + 1 then Break else Continue)
           | None => let '(ss2, o, d) := process sts' ss' c in (StLimit skipped passed :: ss2, o, d)
           end
  | SGroup k :: sts', StGroup data :: ss' =>
      match get k c with
      | Some (JStr name) => (StGroup (group_push name (build c) data) :: ss', [], Continue)
      | _ => (ss, [], Continue)
      end
  | SMerge :: sts', StMerge data :: ss' => (StMerge (data ++ [build c]) :: ss', [], Continue)
  | _, _ => (ss, [], Continue)          (* states out of step with stages: unreachable *)
  end.

(* feed a list of contexts, in order, stopping at Break (what SortProcess::complete would have to do;
   the code ignores the decision, its successors never answer Break after the limiter... see feed_all) *)
Fixpoint feed_all (sts : list stage) (ss : list sstate) (cs : list ctx) : list sstate * list ctx :=
  match cs with
  | [] => (ss, [])
  | c :: cs' => let '(ss1, o, _) := process sts ss c in
                let '(ss2, o2) := feed_all sts ss1 cs' in (ss2, o ++ o2)
  end.

Fixpoint complete (sts : list stage) (ss : list sstate) {struct sts} : list ctx :=
  match sts, ss with
  | [], _ => []
  | (SPreSet _ _ | SSplit _ | SFilter _ | SSelect _ _) :: sts', _ :: ss' => complete sts' ss'
  | SUniq :: sts', _ :: ss' => complete sts' ss'
  | SLimit _ _ :: sts', _ :: ss' => complete sts' ss'
  | SSort _ dir _ :: sts', StSort _ data :: ss' =>
      let '(ss2, o) := feed_all sts' ss' (flush dir data) in o ++ complete sts' ss2
  | SGroup _ :: sts', StGroup data :: ss' =>
      let v := JObj (map (fun kl => (fst kl, JArr (snd kl))) data) in
      snd (fst (process sts' ss' (new_with_no_context v)))
  | SMerge :: sts', StMerge data :: ss' =>
      snd (fst (process sts' ss' (new_with_no_context (JArr data))))
  | _, _ => []
  end.

(* the read loop of Master::read_input over already parsed contexts *)
Fixpoint run (sts : list stage) (ss : list sstate) (cs : list ctx) : list ctx :=
  match cs with
  | [] => complete sts ss
  | c :: cs' => let '(ss1, o, d) := process sts ss c in
                match d with
                | Break => o ++ complete sts ss1
                | Continue => o ++ run sts ss1 cs'
                end
  end.

(* titles accumulated by `start` *)
Fixpoint titles (sts : list stage) (acc : list str) : list str :=
  match sts with
  | [] => acc
  | SSelect name _ :: t => titles t (acc ++ [name])
  | (SGroup _ | SMerge) :: t => titles t []
  | _ :: t => titles t acc
  end.
End Chain.

Arguments SPreSet {E}. Arguments SSplit {E}. Arguments SFilter {E}. Arguments SSelect {E}.
Arguments SUniq {E}. Arguments SSort {E}. Arguments SLimit {E}. Arguments SGroup {E}. Arguments SMerge {E}.
Arguments StNone {E}. Arguments StUniq {E}. Arguments StSort {E}. Arguments StLimit {E}.
Arguments StGroup {E}. Arguments StMerge {E}.
