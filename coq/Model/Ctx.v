(* Ctx.v — src/processor.rs: Context and its derivation functions, generic in the expression type. *)
From Jawk Require Import Base Json.
Local Open Scope N_scope.

Record ictx := { ic_start : N * N; ic_end : N * N; ic_file : option str; ic_file_index : N; ic_index : N }.

Section Ctx.
Variable E : Type.     (* expressions: macro bodies live in the context *)

Record ctx := mkCtx {
  input : json;
  results : list (str * option json);
  parents : list json;
  vars : list (str * json);          (* HashMap: newest binding first, lookup = first match *)
  defs : list (str * E);
  ic : option ictx }.

Definition new_empty : ctx :=
  {| input := JNull; results := []; parents := []; vars := []; defs := []; ic := None |}.
Definition new_with_no_context (v : json) : ctx :=
  {| input := v; results := []; parents := []; vars := []; defs := []; ic := None |}.
Definition new_with_input (v : json) (i : ictx) : ctx :=
  {| input := v; results := []; parents := []; vars := []; defs := []; ic := Some i |}.

Definition with_input (c : ctx) (v : json) : ctx :=
  {| input := v; results := []; parents := input c :: parents c;
     vars := vars c; defs := defs c; ic := ic c |}.
Definition with_result (c : ctx) (title : str) (r : option json) : ctx :=
  {| input := input c; results := results c ++ [(title, r)]; parents := parents c;
     vars := vars c; defs := defs c; ic := ic c |}.
Definition with_variable (c : ctx) (n : str) (v : json) : ctx :=
  {| input := input c; results := results c; parents := parents c;
     vars := (n, v) :: vars c; defs := defs c; ic := ic c |}.
Definition with_variables (c : ctx) (vs : list (str * json)) : ctx :=
  {| input := input c; results := results c; parents := parents c;
     vars := vs; defs := defs c; ic := ic c |}.
Definition with_definition (c : ctx) (n : str) (d : E) : ctx :=
  {| input := input c; results := results c; parents := parents c;
     vars := vars c; defs := (n, d) :: defs c; ic := ic c |}.
Definition with_definitions (c : ctx) (ds : list (str * E)) : ctx :=
  {| input := input c; results := results c; parents := parents c;
     vars := vars c; defs := ds; ic := ic c |}.

Fixpoint assoc_str {A} (k : str) (l : list (str * A)) : option A :=
  match l with [] => None | (k', v) :: t => if str_eqb k k' then Some v else assoc_str k t end.

Definition get_variable (c : ctx) (n : str) : option json := assoc_str n (vars c).
Definition get_definition (c : ctx) (n : str) : option E := assoc_str n (defs c).
Definition get_selected (c : ctx) (n : str) : option json :=
  match assoc_str n (results c) with Some r => r | None => None end.

Definition parent_input (c : ctx) (count : nat) : json :=
  match count with
  | O => input c
  | S k => nth k (parents c) (input c)
  end.

(* Context::build *)
Definition build (c : ctx) : json :=
  match results c with
  | [] => input c
  | rs => JObj (fold_left (fun m tr => match snd tr with Some v => obj_insert (fst tr) v m | None => m end) rs [])
  end.
Definition to_list (c : ctx) : list (option json) := map snd (results c).

(* Context::key *)
Inductive ckey := KValue (v : json) | KResults (l : list (option json)).
Definition key (c : ctx) : ckey :=
  match results c with [] => KValue (input c) | _ => KResults (to_list c) end.
Definition ckey_eqb (a b : ckey) : bool :=
  match a, b with
  | KValue x, KValue y => jeqb x y
  | KResults x, KResults y => list_eqb ojeqb x y
  | _, _ => false
  end.
End Ctx.

Arguments input {E}. Arguments results {E}. Arguments parents {E}. Arguments vars {E}.
Arguments defs {E}. Arguments ic {E}. Arguments mkCtx {E}.
Arguments new_empty {E}. Arguments new_with_no_context {E}. Arguments new_with_input {E}.
Arguments with_input {E}. Arguments with_result {E}. Arguments with_variable {E}.
Arguments with_variables {E}. Arguments with_definition {E}. Arguments with_definitions {E}.
Arguments get_variable {E}. Arguments get_definition {E}. Arguments get_selected {E}.
Arguments parent_input {E}. Arguments build {E}. Arguments to_list {E}. Arguments key {E}.
