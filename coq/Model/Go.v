(* Go.v — src/lib.rs Master::go / read_file / read_input, the output processes of
   src/output_style.rs, and src/main.rs (exit status). *)
From Jawk Require Import Base F64 Json Reader JsonParser Ctx Printer Expr Chain ExprParser.
Local Open Scope N_scope.

Inductive on_error := OnIgnore | OnPanic | OnStderr | OnStdout.
Inductive out_style := StyleJson | StyleCsv | StyleText.

Record cfg := {
  c_on_error : on_error;
  c_select : list (list byte);
  c_filter : option (list byte);
  c_split : option (list byte);
  c_group : option (option (list byte));
  c_sort : list (list byte);
  c_skip : N; c_take : option N;
  c_unique : bool;
  c_set : list (list byte);
  c_only_objs : bool;
  c_style : out_style;
  c_rowsep : list byte;
  c_json_opts : option (jstyle * bool);
  c_text_opts : option text_opts }.

Inductive printer := PJson (st : jstyle) (utf8 : bool) | PText (o : text_opts).

Notation stage := (Chain.stage expr).
Notation sstate := (Chain.sstate expr).

(* ---------- configuration -> pipeline (Master::go up to `start`) ---------- *)
Definition get_printer (c : cfg) : option printer :=
  match c_style c with
  | StyleCsv => match c_json_opts c, c_text_opts c with None, None => Some (PText csv_opts) | _, _ => None end
  | StyleText => match c_json_opts c with
                 | None => Some (PText (match c_text_opts c with Some o => o | None => default_text_opts end))
                 | Some _ => None end
  | StyleJson => match c_text_opts c with
                 | None => Some (match c_json_opts c with Some (st, u) => PJson st u | None => PJson OneLine false end)
                 | Some _ => None end
  end.

Fixpoint map_opt {A B} (f : A -> option B) (l : list A) : option (list B) :=
  match l with
  | [] => Some []
  | a :: t => match f a, map_opt f t with Some b, Some bs => Some (b :: bs) | _, _ => None end
  end.

Definition opt_stage {A} (o : option A) (f : A -> option stage) : option (list stage) :=
  match o with None => Some [] | Some a => option_map (fun s => [s]) (f a) end.

Fixpoint dup_key {A} (k : str) (l : list (str * A)) : bool :=
  match l with [] => false | (k', _) :: t => str_eqb k k' || dup_key k t end.

Fixpoint collect_presets (ps : list preset) (vs : list (str * json)) (ds : list (str * expr))
  : option (list (str * json) * list (str * expr)) :=
  match ps with
  | [] => Some (vs, ds)
  | PVar n v :: t => if dup_key n vs then None else collect_presets t (vs ++ [(n, v)]) ds
  | PMacro n e :: t => if dup_key n ds then None else collect_presets t vs (ds ++ [(n, e)])
  end.

(* the order in which Master::go wraps the stages, innermost (next to the printer) first *)
Inductive stage_kind := KGroup | KLimit | KSort | KUniq | KSelect | KFilter | KSplit | KPreSet.
Definition wrap_order : list stage_kind := [KGroup; KLimit; KSort; KUniq; KSelect; KFilter; KSplit; KPreSet].

Definition sat_add_u64 (a b : N) : N := N.min (a + b) 18446744073709551615.

Definition build_kind (c : cfg) (k : stage_kind) : option (list stage) :=   (* source side first *)
  match k with
  | KPreSet =>
      match c_set c with
      | [] => Some []
      | l => match map_opt parse_preset l with
             | None => None
             | Some ps => option_map (fun vd => [SPreSet (fst vd) (snd vd)]) (collect_presets ps [] [])
             end
      end
  | KSplit => opt_stage (c_split c) (fun s => option_map SSplit (parse_whole s))
  | KFilter => opt_stage (c_filter c) (fun s => option_map SFilter (parse_whole s))
  | KSelect => map_opt (fun s => option_map (fun en => SSelect (snd en) (fst en)) (parse_selection s)) (c_select c)
  | KUniq => Some (if c_unique c then [SUniq] else [])
  | KSort =>
      (* later --sort-by wrap earlier ones: they run first; only the first given may truncate *)
      match map_opt parse_sorter (c_sort c) with
      | None => None
      | Some l =>
          let cap := option_map (fun t => sat_add_u64 (c_skip c) t) (c_take c) in
          Some (rev (match l with
                     | [] => []
                     | (e, d) :: t => SSort e d cap :: map (fun ed => SSort (fst ed) (snd ed) None) t
                     end))
      end
  | KLimit => Some (match c_skip c, c_take c with 0, None => [] | s, t => [SLimit s t] end)
  | KGroup =>
      match c_group c with
      | None => Some []
      | Some None => Some [SMerge]
      | Some (Some g) => option_map (fun e => [SGroup e]) (parse_whole g)
      end
  end.

Fixpoint build_from (c : cfg) (order : list stage_kind) (acc : list stage) : option (list stage) :=
  match order with
  | [] => Some acc
  | k :: t => match build_kind c k with Some s => build_from c t (s ++ acc) | None => None end
  end.
Definition build_pipeline (c : cfg) : option (printer * list stage) :=
  match get_printer c with
  | None => None
  | Some p => option_map (fun s => (p, s)) (build_from c wrap_order [])
  end.

(* ---------- output ---------- *)
Inductive oev := OOut (bs : list byte) | OErr (bs : list byte).

Fixpoint join_fields (sep : list byte) (fs : list (list byte)) : list byte :=
  match fs with [] => [] | [f] => f | f :: t => f ++ sep ++ join_fields sep t end.

(* the bytes one context contributes to stdout *)
Definition print_row (p : printer) (ntitles : nat) (rowsep : list byte) (c : ctx) : list byte :=
  match p with
  | PJson st u => print_json st u (build c) ++ rowsep
  | PText o =>
      match ntitles with
      | O => text_value o (input c) ++ rowsep
      | _ => join_fields (items_sep o) (map (text_field o) (to_list c)) ++ rowsep
      end
  end.

(* TextProcess::start: header row, or failure when headers are required but there are none *)
Definition start_output (p : printer) (ts : list str) (rowsep : list byte) : option (list byte) :=
  match p with
  | PJson _ _ => Some []
  | PText o =>
      if headers o then
        match ts with
        | [] => None
        | _ => Some (join_fields (items_sep o) (map (fun t => text_value o (JStr t)) ts) ++ rowsep)
        end
      else Some []
  end.

(* ---------- the read loop ---------- *)
Inductive gres := GOk | GErrConfig | GErrStart | GErrJson | GErrIo.

Definition error_line : list byte := [101; 114; 114; 111; 114; 58; 10].    (* "error:" + newline *)

Section Run.
Variables (cf : cfg) (p : printer) (sts : list stage) (nt : nat).

Definition emit (cs : list ctx) : list oev :=
  map (fun c => OOut (print_row p nt (c_rowsep cf) c)) cs.

Definition is_container (v : json) : bool := match v with JObj _ | JArr _ => true | _ => false end.

(* one input: returns states, events, new run index, Some error or None, reader at the end *)
Fixpoint read_input (fuel : nat) (r : reader) (fname : option str) (ss : list sstate)
         (idx infile : N) : list sstate * list oev * N * option gres * reader :=
  match fuel with O => (ss, [], idx, Some GErrIo, r) | S f =>
    let started := where_am_i r in
    let '(res, r) := next_json_value r in
    if io r then (ss, [], idx, Some GErrIo, r) else
    match res with
    | POk v =>
        if c_only_objs cf && negb (is_container v) then read_input f r fname ss idx infile else
        let ended := where_am_i r in
        let c := new_with_input v {| ic_start := started; ic_end := ended; ic_file := fname;
                                     ic_file_index := infile; ic_index := idx |} in
        let '(ss1, o, d) := process expr get sts ss c in
        match d with
        | Break => (ss1, emit o, idx, None, r)
        | Continue =>
            let '(ss2, o2, idx2, e, r2) := read_input f r fname ss1 (idx + 1) (infile + 1) in
            (ss2, emit o ++ o2, idx2, e, r2)
        end
    | PEof => (ss, [], idx, None, r)
    | PFuel => (ss, [], idx, Some GErrIo, r)          (* unreachable: parse_fuel suffices *)
    | PErr =>
        match c_on_error cf with
        | OnPanic => (ss, [], idx, Some GErrJson, r)
        | pol =>
            let ev := match pol with OnStdout => [OOut error_line] | OnStderr => [OErr error_line] | _ => [] end in
            let '(ss2, o2, idx2, e, r2) := read_input f r fname ss idx infile in
            (ss2, ev ++ o2, idx2, e, r2)
        end
    end
  end.

Definition input_fuel (evs : list ev) : nat := length evs + 3.

Fixpoint read_files (ins : list (option str * list ev)) (ss : list sstate) (idx : N)
  : list sstate * list oev * option gres * list N :=
  match ins with
  | [] => (ss, [], None, [])
  | (fname, evs) :: t =>
      let '(ss1, o, idx1, e, r) := read_input (input_fuel evs) (mk_reader evs) fname ss idx 0 in
      match e with
      | Some g => (ss1, o, Some g, [pulled r])
      | None => let '(ss2, o2, e2, pl) := read_files t ss1 idx1 in (ss2, o ++ o2, e2, pulled r :: pl)
      end
  end.
End Run.


(* ---------- the contexts the read loop hands to the pipeline ---------- *)
(* the same loop as read_input, without the pipeline: every parsed value becomes a context (with its
   input-context record); recoverable errors are counted; a read error stops the loop (third component) *)
Fixpoint read_ctxs (fuel : nat) (only_objs : bool) (r : reader) (fname : option str) (idx infile : N)
  : list ctx * N * bool :=
  match fuel with O => ([], 0, true) | S f =>
    let started := where_am_i r in
    let '(res, r) := next_json_value r in
    if io r then ([], 0, true) else
    match res with
    | POk v =>
        if only_objs && negb (is_container v) then read_ctxs f only_objs r fname idx infile else
        let c := new_with_input v {| ic_start := started; ic_end := where_am_i r; ic_file := fname;
                                     ic_file_index := infile; ic_index := idx |} in
        let '(cs, e, b) := read_ctxs f only_objs r fname (idx + 1) (infile + 1) in (c :: cs, e, b)
    | PEof => ([], 0, false)
    | PFuel => ([], 0, true)
    | PErr => let '(cs, e, b) := read_ctxs f only_objs r fname idx infile in (cs, e + 1, b)
    end
  end.
Definition ctxs_of_input (cf : cfg) (fname : option str) (evs : list ev) : list ctx * N * bool :=
  read_ctxs (input_fuel evs) (c_only_objs cf) (mk_reader evs) fname 0 0.

Record gout := { g_events : list oev; g_result : gres; g_pulled : list N; g_stdin_opened : bool }.

(* inputs: named files, or a single unnamed stdin stream *)
Definition go (cf : cfg) (ins : list (option str * list ev)) (use_stdin : bool) : gout :=
  match build_pipeline cf with
  | None => {| g_events := []; g_result := GErrConfig; g_pulled := []; g_stdin_opened := false |}
  | Some (p, sts) =>
      let ts := titles expr sts [] in
      match start_output p ts (c_rowsep cf) with
      | None => {| g_events := []; g_result := GErrStart; g_pulled := []; g_stdin_opened := false |}
      | Some hdr =>
          let hev := match hdr with [] => [] | _ => [OOut hdr] end in
          let nt := length ts in
          let '(ss, o, e, pl) := read_files cf p sts nt ins (map (init_state expr) sts) 0 in
          match e with
          | Some g => {| g_events := hev ++ o; g_result := g; g_pulled := pl; g_stdin_opened := use_stdin |}
          | None =>
              {| g_events := hev ++ o ++ emit cf p nt (complete expr get sts ss);
                 g_result := GOk; g_pulled := pl; g_stdin_opened := use_stdin |}
          end
      end
  end.

(* ---------- writers with a byte budget (C16/C20) ---------- *)
(* returns stdout bytes, stderr bytes, and whether a write failed *)
Fixpoint apply_rooms (evs : list oev) (out err : list byte) (oroom eroom : option N)
  : list byte * list byte * bool :=
  match evs with
  | [] => (out, err, false)
  | OOut bs :: t =>
      match oroom with
      | Some r => if N.of_nat (length out + length bs) <=? r then apply_rooms t (out ++ bs) err oroom eroom
                  else (out ++ firstn (N.to_nat r - length out) bs, err, true)
      | None => apply_rooms t (out ++ bs) err oroom eroom
      end
  | OErr bs :: t =>
      match eroom with
      | Some r => if N.of_nat (length err + length bs) <=? r then apply_rooms t out (err ++ bs) oroom eroom
                  else (out, err ++ firstn (N.to_nat r - length err) bs, true)
      | None => apply_rooms t out (err ++ bs) oroom eroom
      end
  end.

Definition run_with_rooms (cf : cfg) (ins : list (option str * list ev)) (use_stdin : bool)
           (oroom eroom : option N) : list byte * list byte * gres :=
  let g := go cf ins use_stdin in
  let '(o, e, failed) := apply_rooms (g_events g) [] [] oroom eroom in
  (o, e, if failed then GErrIo else g_result g).

(* ---------- src/main.rs ---------- *)
(* rows go to standard output, diagnostics of --on-error=stderr to standard error; on failure the error
   is printed on standard error and the process exits with status -1 (255) *)
Record mout := { m_stdout : list byte; m_stderr : list byte; m_exit : Z }.
Definition failure_message (r : gres) : list byte := [101; 114; 114; 111; 114; 10].   (* some non-empty text *)
Definition main_model (cf : cfg) (ins : list (option str * list ev)) (use_stdin : bool)
           (oroom eroom : option N) : mout :=
  let '(o, e, r) := run_with_rooms cf ins use_stdin oroom eroom in
  match r with
  | GOk => {| m_stdout := o; m_stderr := e; m_exit := 0 |}
  | _ => {| m_stdout := o; m_stderr := e ++ failure_message r; m_exit := 255 |}
  end.
