(* F64.v — IEEE-754 binary64 as bit patterns (N < 2^64), executable, by exact integer arithmetic.
   Trusted to agree with Rust's f64 / str::parse::<f64> / Display (validated by correspondence). *)
From Jawk Require Import Base.
Local Open Scope Z_scope.

Definition p52 : Z := 4503599627370496.       (* 2^52 *)
Definition p53 : Z := 9007199254740992.       (* 2^53 *)
Definition p63 : Z := 9223372036854775808.    (* 2^63 *)
Definition p64 : Z := 18446744073709551616.   (* 2^64 *)
Definition inf_bits : Z := 9218868437227405312.  (* 0x7FF0_0000_0000_0000 *)
Definition nan_bits : Z := 9221120237041090560.  (* 0x7FF8_0000_0000_0000 *)

Inductive fclass := FNaN | FInf (neg : bool) | FFin (neg : bool) (m : Z) (e : Z).  (* value = m * 2^e *)

Definition f_sign (b : Z) : bool := p63 <=? b.
Definition f_mag (b : Z) : Z := b mod p63.
Definition f_decode (bits : N) : fclass :=
  let b := Z.of_N bits in
  let s := f_sign b in
  let mg := f_mag b in
  let ex := mg / p52 in
  let fr := mg mod p52 in
  if ex =? 2047 then (if fr =? 0 then FInf s else FNaN)
  else if ex =? 0 then FFin s fr (-1074)
  else FFin s (fr + p52) (ex - 1075).

Definition with_sign (neg : bool) (mag : Z) : N := Z.to_N (if neg then mag + p63 else mag).

(* nearest double (magnitude bits) to the positive rational n/d, ties to even; overflow -> inf *)
Definition scale_num (n e : Z) : Z := if e <? 0 then n * 2 ^ (- e) else n.
Definition scale_den (d e : Z) : Z := if e <? 0 then d else d * 2 ^ e.
Definition round_mag (n d : Z) : Z :=
  if n <=? 0 then 0 else
  let e0 := Z.max (-1074) (Z.log2 n - Z.log2 d - 52) in
  let q0 := scale_num n e0 / scale_den d e0 in
  let e := if p53 <=? q0 then e0 + 1 else if (q0 <? p52) && (-1074 <? e0) then e0 - 1 else e0 in
  let nn := scale_num n e in
  let dd := scale_den d e in
  let q := nn / dd in
  let r := nn mod dd in
  let q' := match 2 * r ?= dd with Gt => q + 1 | Eq => q + q mod 2 | Lt => q end in
  let '(q2, e2) := if p53 <=? q' then (p52, e + 1) else (q', e) in
  if q2 <? p52 then q2
  else let ex := e2 + 1075 in
       if 2047 <=? ex then inf_bits else ex * p52 + (q2 - p52).

Definition f_of_ratio (neg : bool) (n d : Z) : N := with_sign neg (round_mag n d).
Definition f_of_N (n : N) : N := with_sign false (round_mag (Z.of_N n) 1).       (* u64 as f64 *)
Definition f_of_Z (z : Z) : N := with_sign (z <? 0) (round_mag (Z.abs z) 1).     (* i64 as f64 *)

Definition f_is_nan (bits : N) : bool := match f_decode bits with FNaN => true | _ => false end.
Definition f_is_finite (bits : N) : bool := match f_decode bits with FFin _ _ _ => true | _ => false end.
Definition f_is_zero (bits : N) : bool := match f_decode bits with FFin _ 0 _ => true | _ => false end.

(* f64 == f64 *)
Definition f_eqb (a b : N) : bool :=
  if f_is_nan a || f_is_nan b then false
  else if f_is_zero a && f_is_zero b then true else N.eqb a b.

(* f64::total_cmp as an order-embedding into Z *)
Definition f_total_key (bits : N) : Z :=
  let b := Z.of_N bits in if f_sign b then - (f_mag b) - 1 else b.
Definition f_total_cmp (a b : N) : comparison := Z.compare (f_total_key a) (f_total_key b).

(* the integer value of a finite integral double; None when not integral / not finite *)
Definition f_integral (bits : N) : option Z :=
  match f_decode bits with
  | FFin s m e =>
      if 0 <=? e then Some ((if s then -1 else 1) * m * 2 ^ e)
      else if m mod 2 ^ (- e) =? 0 then Some ((if s then -1 else 1) * (m / 2 ^ (- e))) else None
  | _ => None
  end.
Definition f_is_neg_strict (bits : N) : bool :=   (* value < 0.0 *)
  match f_decode bits with FFin true m _ => negb (m =? 0) | FInf true => true | _ => false end.

(* ---------- decimal text -> double (Rust str::parse::<f64>, correctly rounded) ---------- *)
(* text = [-] digits [ . digits ] [ E [-] digits ]  as assembled by read_number *)
Definition take_digits (l : list N) : list N * list N :=
  (fix go (l acc : list N) := match l with
     | b :: t => if is_digit b then go t (acc ++ [b]) else (acc, l)
     | [] => (acc, []) end) l [].

Fixpoint strip_zeros (l : list N) : list N :=
  match l with 48%N :: t => strip_zeros t | _ => l end.

Record dec := { d_neg : bool; d_int : list N; d_frac : list N; d_exp : option (bool * list N) }.

Definition dec_split (txt : list N) : option dec :=
  let '(neg, t) := match txt with 45%N :: t => (true, t) | _ => (false, txt) end in
  let '(ip, t) := take_digits t in
  let '(fp, t) := match t with 46%N :: t' => take_digits t' | _ => ([], t) end in
  match t with
  | [] => Some {| d_neg := neg; d_int := ip; d_frac := fp; d_exp := None |}
  | c :: t' =>
      if (c =? 69)%N || (c =? 101)%N then
        let '(eneg, t'') := match t' with 45%N :: u => (true, u) | 43%N :: u => (false, u) | _ => (false, t') end in
        let '(ep, rest) := take_digits t'' in
        match rest with
        | [] => Some {| d_neg := neg; d_int := ip; d_frac := fp; d_exp := Some (eneg, ep) |}
        | _ => None
        end
      else None
  end.

Definition dec_valid (d : dec) : bool :=
  negb (match d_int d, d_frac d with [], [] => true | _, _ => false end)
  && match d_exp d with Some (_, []) => false | _ => true end.

Definition dec2flt (txt : list N) : option N :=
  match dec_split txt with
  | None => None
  | Some d =>
    if negb (dec_valid d) then None else
    let m := Z.of_N (N_of_digits (d_int d ++ d_frac d)) in
    let ex := match d_exp d with
              | None => 0
              | Some (eneg, ds) =>
                  (* clamp absurd exponents: anything beyond +-100000 behaves like +-100000 *)
                  let sig := strip_zeros ds in
                  let v := if (6 <? length sig)%nat then 100000 else Z.of_N (N_of_digits sig) in
                  if eneg then - v else v
              end in
    let adj := ex - Z.of_nat (length (d_frac d)) in
    let nd := Z.of_nat (length (d_int d ++ d_frac d)) in
    if m =? 0 then Some (with_sign (d_neg d) 0)
    else if 310 <? adj then Some (with_sign (d_neg d) inf_bits)
    else if adj + nd <? -330 then Some (with_sign (d_neg d) 0)
    else if 0 <=? adj then Some (f_of_ratio (d_neg d) (m * 10 ^ adj) 1)
    else Some (f_of_ratio (d_neg d) m (10 ^ (- adj)))
  end.

(* ---------- double -> shortest decimal text (Rust Display for f64) ---------- *)
(* smallest k with v < 10^k, for v = n/d > 0 *)
Definition lt_pow10 (n d k : Z) : bool :=            (* n/d < 10^k, k of either sign *)
  if 0 <=? k then n <? d * 10 ^ k else n * 10 ^ (- k) <? d.
Fixpoint dec_exp_up (fuel : nat) (n d k : Z) : Z :=
  match fuel with O => k | S f => if lt_pow10 n d k then k else dec_exp_up f n d (k + 1) end.
Fixpoint dec_exp_down (fuel : nat) (n d k : Z) : Z :=   (* largest k with 10^(k-1) <= v *)
  match fuel with O => k | S f => if negb (lt_pow10 n d (k - 1)) then k else dec_exp_down f n d (k - 1) end.
(* ratio helpers with possibly negative power of ten *)
Definition mul_pow10 (n d p : Z) : Z * Z := if 0 <=? p then (n * 10 ^ p, d) else (n, d * 10 ^ (- p)).

(* returns (digits as integer c, decimal exponent p) with value ~ c * 10^p, shortest c that parses back *)
Fixpoint shortest_fuel (fuel : nat) (bits_mag : Z) (n d k : Z) (nd : Z) : Z * Z :=
  match fuel with
  | O => (0, 0)
  | S f =>
      let p := k - nd in                           (* candidate = c * 10^p, c has nd digits *)
      let '(sn, sd) := mul_pow10 n d (- p) in      (* scaled = v / 10^p *)
      let lo := sn / sd in
      let hi := lo + 1 in
      let back c := let '(cn, cd) := mul_pow10 c 1 p in round_mag cn cd in
      let lo_ok := (0 <? lo) && (back lo =? bits_mag) in
      let hi_ok := back hi =? bits_mag in
      let r := sn mod sd in
      if lo_ok && hi_ok then (if 2 * r <? sd then (lo, p) else (hi, p))
      else if lo_ok then (lo, p)
      else if hi_ok then (hi, p)
      else shortest_fuel f bits_mag n d k (nd + 1)
  end.

Definition shortest (m e : Z) : Z * Z :=            (* m > 0 *)
  let '(n, d) := if 0 <=? e then (m * 2 ^ e, 1) else (m, 2 ^ (- e)) in
  let kest := ((Z.log2 n - Z.log2 d) * 30103) / 100000 in   (* ~ log10 v, within 1 *)
  let k := dec_exp_down 5 n d (dec_exp_up 5 n d (kest - 1)) in
  let '(c, p) := shortest_fuel 18 (round_mag n d) n d k 1 in
  (* drop trailing zeros of c (hi may be 10^nd) *)
  (fix strip (fuel : nat) (c p : Z) := match fuel with O => (c, p) | S f =>
      if (c mod 10 =? 0) && negb (c =? 0) then strip f (c / 10) (p + 1) else (c, p) end) 20%nat c p.

(* positional rendering, never an exponent *)
Definition render_positional (c p : Z) : list N :=
  let ds := digits_of_N (Z.to_N c) in
  let n := Z.of_nat (length ds) in
  if 0 <=? p then ds ++ repeat 48%N (Z.to_nat p)
  else if - p <? n then firstn (Z.to_nat (n + p)) ds ++ 46%N :: skipn (Z.to_nat (n + p)) ds
  else 48%N :: 46%N :: repeat 48%N (Z.to_nat (- p - n)) ++ ds.

Definition flt2dec (bits : N) : list N :=
  match f_decode bits with
  | FNaN => [78; 97; 78]%N                           (* NaN *)
  | FInf s => (if s then [45]%N else []) ++ [105; 110; 102]%N   (* inf *)
  | FFin s m e =>
      (if s then [45]%N else []) ++
      (if m =? 0 then [48]%N else let '(c, p) := shortest m e in render_positional c p)
  end.

(* ---------- arithmetic: exact rational result, then one rounding ---------- *)
Definition f_ratio (bits : N) : option (bool * Z * Z) :=    (* sign, n, d with value = +-n/d *)
  match f_decode bits with
  | FFin s m e => Some (if 0 <=? e then (s, m * 2 ^ e, 1) else (s, m, 2 ^ (- e)))
  | _ => None
  end.
