(* RegexCache.v — src/regex_cache.rs: `cached::SizedCache<String, Rc<Result<Regex, Error>>>` as an LRU list
   (most recently used first) with a capacity; `compile` stands for Regex::new (not modelled). *)
From Jawk Require Import Base.

Section Cache.
Variable R : Type.                       (* a compiled pattern (or its compile error) *)
Variable compile : str -> R.

Definition cache := list (str * R).

Fixpoint find_remove (p : str) (c : cache) : option (R * cache) :=
  match c with
  | [] => None
  | (q, r) :: t => if str_eqb p q then Some (r, t)
                   else match find_remove p t with Some (x, t') => Some (x, (q, r) :: t') | None => None end
  end.

(* cache_get_or_set_with: a hit moves the entry to the front; a miss compiles, inserts at the front and evicts
   the least recently used entry when the capacity is exceeded. Capacity 0 = no cache at all. *)
Definition compile_regex (cap : nat) (c : cache) (p : str) : R * cache :=
  match cap with
  | O => (compile p, c)
  | _ => match find_remove p c with
         | Some (r, c') => (r, (p, r) :: c')
         | None => let r := compile p in (r, firstn cap ((p, r) :: c))
         end
  end.

(* a whole history of lookups *)
Fixpoint run_history (cap : nat) (c : cache) (ps : list str) : list R * cache :=
  match ps with
  | [] => ([], c)
  | p :: t => let '(r, c1) := compile_regex cap c p in
              let '(rs, c2) := run_history cap c1 t in (r :: rs, c2)
  end.
End Cache.
