(* Expr.v — selection expressions: syntax (what read_getter builds) and evaluation (impl Get). *)
From Jawk Require Import Base F64 Json Ctx Printer.
Local Open Scope N_scope.

Inductive sel := SKey (k : str) | SIdx (i : N).
Inductive ictx_kind := IIndex | IIndexInFile | IFileName | IStartLine | IEndLine | IStartChar | IEndChar.

(* functions with a model; every other name of the generated table is FOpaque *)
Inductive fn :=
| FGet | FSize | FIf | FDefault | FPipe
| FEq | FNeq | FLt | FLte | FGt | FGte
| FAnd | FOr | FNot | FXor
| FMap | FFilter | FFlatMap | FFold | FGroupBy | FSortBy
| FSet | FDefine | FAt | FColon
| FOpaque (name : str).

Inductive expr :=
| EExtract (ups : nat) (path : option (list sel))     (* None = the whole input *)
| EConst (v : json)
| EVar (n : str)
| EMacro (n : str)
| ESelected (n : str)
| EIctx (k : ictx_kind)
| ECall (f : fn) (args : list expr).

Notation ctx := (Ctx.ctx expr).

Inductive outcome := Val (v : option json) | OutOfFuel.

(* ---------- extractors ---------- *)
Definition single_extract (s : sel) (v : json) : option json :=
  match v, s with
  | JArr l, SIdx i => nth_error l (N.to_nat i)
  | JObj m, SKey k => obj_get k m
  | _, _ => None
  end.
Fixpoint path_extract (p : list sel) (v : json) : option json :=
  match p with
  | [] => Some v
  | s :: p' => match single_extract s v with Some v' => path_extract p' v' | None => None end
  end.
Definition extract (ups : nat) (path : option (list sel)) (c : ctx) : option json :=
  let i := parent_input c ups in
  match path with None => Some i | Some p => path_extract p i end.

Definition jnat (n : nat) : json := JNum (NPos (N.of_nat n)).
Definition jN (n : N) : json := JNum (NPos n).

Definition ictx_get (k : ictx_kind) (c : ctx) : option json :=
  match ic c with
  | None => None
  | Some i =>
      match k with
      | IIndex => Some (jN (ic_index i))
      | IIndexInFile => Some (jN (ic_file_index i))
      | IStartLine => Some (jN (fst (ic_start i)))
      | IEndLine => Some (jN (fst (ic_end i)))
      | IStartChar => Some (jN (snd (ic_start i)))
      | IEndChar => Some (jN (snd (ic_end i)))
      | IFileName => option_map JStr (ic_file i)
      end
  end.

(* ---------- functions whose value depends only on the values of their arguments ---------- *)
Definition jcmpS := jcmp show.
Definition ojcmp (a b : option json) : comparison :=      (* Option<JsonValue>::cmp *)
  match a, b with
  | None, None => Eq | None, Some _ => Lt | Some _, None => Gt
  | Some x, Some y => jcmpS x y
  end.

Definition usize_of (v : option json) : option N :=        (* TryInto::<usize> of a Number *)
  match v with Some (JNum (NPos n)) => Some n | _ => None end.

Definition arg (vals : list (option json)) (i : nat) : option json :=
  match nth_error vals i with Some v => v | None => None end.

Fixpoint and_sem (vals : list (option json)) : option json :=
  match vals with
  | [] => Some (JBool true)
  | Some (JBool true) :: t => and_sem t
  | Some (JBool false) :: _ => Some (JBool false)
  | _ => None
  end.
Fixpoint or_sem (vals : list (option json)) : option json :=
  match vals with
  | [] => Some (JBool false)
  | Some (JBool false) :: t => or_sem t
  | Some (JBool true) :: _ => Some (JBool true)
  | _ => None
  end.
Fixpoint default_sem (vals : list (option json)) : option json :=
  match vals with [] => None | Some v :: _ => Some v | None :: t => default_sem t end.

Definition cmp_sem (test : comparison -> bool) (vals : list (option json)) : option json :=
  match arg vals 0%nat, arg vals 1%nat with
  | Some a, Some b => Some (JBool (test (jcmpS a b)))
  | _, _ => None
  end.

Definition pure_sem (f : fn) (vals : list (option json)) : option json :=
  match f with
  | FGet =>
      match arg vals 0%nat with
      | Some (JObj m) => match arg vals 1%nat with Some (JStr k) => obj_get k m | _ => None end
      | Some (JArr l) => match usize_of (arg vals 1%nat) with Some i => nth_error l (N.to_nat i) | None => None end
      | _ => None
      end
  | FSize =>
      match arg vals 0%nat with
      | Some (JObj m) => Some (jnat (length m))
      | Some (JArr l) => Some (jnat (length l))
      | Some (JStr s) => Some (jnat (length s))
      | _ => None
      end
  | FIf =>
      match arg vals 0%nat with
      | Some (JBool true) => arg vals 1%nat
      | Some (JBool false) => arg vals 2%nat
      | _ => None
      end
  | FDefault => default_sem vals
  | FEq => match arg vals 0%nat, arg vals 1%nat with Some a, Some b => Some (JBool (jeqb a b)) | _, _ => None end
  | FNeq => match arg vals 0%nat, arg vals 1%nat with Some a, Some b => Some (JBool (negb (jeqb a b))) | _, _ => None end
  | FLt => cmp_sem (fun c => match c with Lt => true | _ => false end) vals
  | FLte => cmp_sem (fun c => match c with Gt => false | _ => true end) vals
  | FGt => cmp_sem (fun c => match c with Gt => true | _ => false end) vals
  | FGte => cmp_sem (fun c => match c with Lt => false | _ => true end) vals
  | FAnd => and_sem vals
  | FOr => or_sem vals
  | FNot => match arg vals 0%nat with Some (JBool b) => Some (JBool (negb b)) | _ => None end
  | FXor => match arg vals 0%nat, arg vals 1%nat with
            | Some (JBool a), Some (JBool b) => Some (JBool (xorb a b)) | _, _ => None end
  | _ => None
  end.

(* stable insertion sort by a comparison (slice::sort_by is a stable sort) *)
Section Sort.
Context {A : Type} (cmp : A -> A -> comparison).
Fixpoint sinsert (x : A) (l : list A) : list A :=
  match l with
  | [] => [x]
  | y :: t => match cmp y x with Gt => x :: l | _ => y :: sinsert x t end
  end.
Definition ssort (l : list A) : list A := fold_left (fun acc x => sinsert x acc) l [].
End Sort.

Fixpoint all_vals (os : list outcome) : option (list (option json)) :=
  match os with
  | [] => Some []
  | Val v :: t => option_map (cons v) (all_vals t)
  | OutOfFuel :: _ => None
  end.

Fixpoint group_push_v (k : str) (v : json) (d : list (str * list json)) : list (str * list json) :=
  match d with
  | [] => [(k, [v])]
  | (k', l) :: t => if str_eqb k k' then (k', l ++ [v]) :: t else (k', l) :: group_push_v k v t
  end.

Definition key_so_far : str := [115; 111; 95; 102; 97; 114].
Definition key_value : str := [118; 97; 108; 117; 101].
Definition key_index : str := [105; 110; 100; 101; 120].

(* an opaque function: its value is some function of its argument values *)
Section Eval.
Variable opaque : str -> list (option json) -> option json.

(* mf bounds macro expansion depth only; everything else is structural in the expression *)
Fixpoint eval (mf : nat) : expr -> ctx -> outcome :=
  fix ev (e : expr) : ctx -> outcome :=
    let evs := (fix evs (l : list expr) (c : ctx) : list outcome :=
                  match l with [] => [] | a :: t => ev a c :: evs t c end) in
    let ev_arg (l : list expr) (i : nat) (c : ctx) : outcome :=
        (fix nth_ev (l : list expr) (i : nat) : outcome :=
           match l, i with
           | [], _ => Val None
           | a :: _, O => ev a c
           | _ :: t, S j => nth_ev t j
           end) l i in
    match e with
    | EExtract ups path => fun c => Val (extract ups path c)
    | EConst v => fun _ => Val (Some v)
    | EVar n => fun c => Val (get_variable c n)
    | ESelected n => fun c => Val (get_selected c n)
    | EIctx k => fun c => Val (ictx_get k c)
    | EMacro n => fun c =>
        match get_definition c n with
        | None => Val None
        | Some body => match mf with O => OutOfFuel | S m => eval m body c end
        end
    | ECall f args => fun c =>
        match f with
        | FPipe =>
            (fix pipe (l : list expr) (c : ctx) : outcome :=
               match l with
               | [] => Val (Some (input c))
               | a :: t => match ev a c with
                           | Val (Some v) => pipe t (with_input c v)
                           | Val None => Val None
                           | OutOfFuel => OutOfFuel
                           end
               end) args (with_input c (input c))
        | FSet =>
            match ev_arg args 0%nat c, ev_arg args 1%nat c with
            | Val (Some (JStr name)), Val (Some v) => ev_arg args 2%nat (with_variable c name v)
            | OutOfFuel, _ | _, OutOfFuel => OutOfFuel
            | _, _ => Val None
            end
        | FDefine =>
            match ev_arg args 0%nat c, nth_error args 1%nat with
            | Val (Some (JStr name)), Some d => ev_arg args 2%nat (with_definition c name d)
            | OutOfFuel, _ => OutOfFuel
            | _, _ => Val None
            end
        | FAt =>
            match ev_arg args 0%nat c with
            | Val (Some (JStr name)) =>
                match get_definition c name with
                | None => Val None
                | Some body => match mf with O => OutOfFuel | S m => eval m body c end
                end
            | OutOfFuel => OutOfFuel
            | _ => Val None
            end
        | FColon =>
            match ev_arg args 0%nat c with
            | Val (Some (JStr name)) => Val (get_variable c name)
            | OutOfFuel => OutOfFuel
            | _ => Val None
            end
        | FMap | FFilter | FFlatMap | FGroupBy | FSortBy =>
            match ev_arg args 0%nat c with
            | Val (Some (JArr l)) =>
                match all_vals (map (fun v => ev_arg args 1%nat (with_input c v)) l) with
                | None => OutOfFuel
                | Some rs =>
                    let prs := combine l rs in
                    match f with
                    | FMap => Val (Some (JArr (flat_map (fun r => match r with Some x => [x] | None => [] end) rs)))
                    | FFilter => Val (Some (JArr (map fst (filter (fun p => match snd p with Some (JBool true) => true | _ => false end) prs))))
                    | FFlatMap => Val (Some (JArr (flat_map (fun r => match r with Some (JArr x) => x | _ => [] end) rs)))
                    | FGroupBy =>
                        (fix grp (prs : list (json * option json)) (acc : list (str * list json)) : outcome :=
                           match prs with
                           | [] => Val (Some (JObj (map (fun kl => (fst kl, JArr (snd kl))) acc)))
                           | (item, Some (JStr k)) :: t => grp t (group_push_v k item acc)
                           | _ => Val None
                           end) prs []
                    | _ (* FSortBy *) =>
                        Val (Some (JArr (map fst (ssort (fun a b => ojcmp (snd a) (snd b)) prs))))
                    end
                end
            | OutOfFuel => OutOfFuel
            | _ => Val None
            end
        | FFold =>
            match ev_arg args 0%nat c with
            | Val (Some (JArr l)) =>
                let has_init := Nat.ltb 2 (length args) in
                let fidx := if has_init then 2%nat else 1%nat in
                match (if has_init then ev_arg args 1%nat c else Val None) with
                | OutOfFuel => OutOfFuel
                | Val init =>
                    (fix fold (l : list json) (idx : nat) (cur : option json) : outcome :=
                       match l with
                       | [] => Val cur
                       | v :: t =>
                           let m0 := match cur with Some s => [(key_so_far, s)] | None => [] end in
                           let m := m0 ++ [(key_value, v); (key_index, jnat idx)] in
                           match ev_arg args fidx (with_input c (JObj m)) with
                           | Val r => fold t (S idx) r
                           | OutOfFuel => OutOfFuel
                           end
                       end) l O init
                end
            | OutOfFuel => OutOfFuel
            | _ => Val None
            end
        | FOpaque name =>
            match all_vals (evs args c) with
            | Some vals => Val (opaque name vals)
            | None => OutOfFuel
            end
        | _ =>
            match all_vals (evs args c) with
            | Some vals => Val (pure_sem f vals)
            | None => OutOfFuel
            end
        end
    end.
End Eval.

Definition no_opaque (_ : str) (_ : list (option json)) : option json := None.
Definition macro_fuel : nat := 200.
Definition get (e : expr) (c : ctx) : option json :=
  match eval no_opaque macro_fuel e c with Val v => v | OutOfFuel => None end.
