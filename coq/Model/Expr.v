(* Expr.v — selection expressions: syntax (what read_getter builds) and evaluation (impl Get). *)
From Jawk Require Import Base F64 Json Ctx Printer Fn FunBase FunsColl FunsNum FunsNas.
Local Open Scope N_scope.

Inductive sel := SKey (k : str) | SIdx (i : N).
Inductive ictx_kind := IIndex | IIndexInFile | IFileName | IStartLine | IEndLine | IStartChar | IEndChar.


Inductive expr :=
| EExtract (ups : nat) (path : option (list sel))     (* None = the whole input *)
| EConst (v : json)
| EVar (n : str)
| EMacro (n : str)
| ESelected (n : str)
| EIctx (k : ictx_kind)
| ECall (f : fn) (args : list expr).

Notation ctx := (Ctx.ctx expr).

Inductive outcome := Val (v : option json) | OutOfFuel.

(* ---------- extractors ---------- *)
Definition single_extract (s : sel) (v : json) : option json :=
  match v, s with
  | JArr l, SIdx i => nth_N l i
  | JObj m, SKey k => obj_get k m
  | _, _ => None
  end.
Fixpoint path_extract (p : list sel) (v : json) : option json :=
  match p with
  | [] => Some v
  | s :: p' => match single_extract s v with Some v' => path_extract p' v' | None => None end
  end.
Definition extract (ups : nat) (path : option (list sel)) (c : ctx) : option json :=
  let i := parent_input c ups in
  match path with None => Some i | Some p => path_extract p i end.


Definition ictx_get (k : ictx_kind) (c : ctx) : option json :=
  match ic c with
  | None => None
  | Some i =>
      match k with
      | IIndex => Some (jN (ic_index i))
      | IIndexInFile => Some (jN (ic_file_index i))
      | IStartLine => Some (jN (fst (ic_start i)))
      | IEndLine => Some (jN (fst (ic_end i)))
      | IStartChar => Some (jN (snd (ic_start i)))
      | IEndChar => Some (jN (snd (ic_end i)))
      | IFileName => option_map JStr (ic_file i)
      end
  end.

(* ---------- functions whose value depends only on the values of their arguments ---------- *)

Fixpoint and_sem (vals : list (option json)) : option json :=
  match vals with
  | [] => Some (JBool true)
  | Some (JBool true) :: t => and_sem t
  | Some (JBool false) :: _ => Some (JBool false)
  | _ => None
  end.
Fixpoint or_sem (vals : list (option json)) : option json :=
  match vals with
  | [] => Some (JBool false)
  | Some (JBool false) :: t => or_sem t
  | Some (JBool true) :: _ => Some (JBool true)
  | _ => None
  end.
Fixpoint default_sem (vals : list (option json)) : option json :=
  match vals with [] => None | Some v :: _ => Some v | None :: t => default_sem t end.

Definition cmp_sem (test : comparison -> bool) (vals : list (option json)) : option json :=
  match arg vals 0%nat, arg vals 1%nat with
  | Some a, Some b => Some (JBool (test (jcmpS a b)))
  | _, _ => None
  end.

Definition core_sem (f : fn) (vals : list (option json)) : option json :=
  match f with
  | F_get =>
      match arg vals 0%nat with
      | Some (JObj m) => match arg vals 1%nat with Some (JStr k) => obj_get k m | _ => None end
      | Some (JArr l) => match usize_of (arg vals 1%nat) with Some i => nth_N l i | None => None end
      | _ => None
      end
  | F_size =>
      match arg vals 0%nat with
      | Some (JObj m) => Some (jnat (length m))
      | Some (JArr l) => Some (jnat (length l))
      | Some (JStr s) => Some (jnat (length s))
      | _ => None
      end
  | F_if =>
      match arg vals 0%nat with
      | Some (JBool true) => arg vals 1%nat
      | Some (JBool false) => arg vals 2%nat
      | _ => None
      end
  | F_default => default_sem vals
  | F_eq => match arg vals 0%nat, arg vals 1%nat with Some a, Some b => Some (JBool (jeqb a b)) | _, _ => None end
  | F_neq => match arg vals 0%nat, arg vals 1%nat with Some a, Some b => Some (JBool (negb (jeqb a b))) | _, _ => None end
  | F_lt => cmp_sem (fun c => match c with Lt => true | _ => false end) vals
  | F_lte => cmp_sem (fun c => match c with Gt => false | _ => true end) vals
  | F_gt => cmp_sem (fun c => match c with Gt => true | _ => false end) vals
  | F_gte => cmp_sem (fun c => match c with Lt => false | _ => true end) vals
  | F_and => and_sem vals
  | F_or => or_sem vals
  | F_not => match arg vals 0%nat with Some (JBool b) => Some (JBool (negb b)) | _ => None end
  | F_xor => match arg vals 0%nat, arg vals 1%nat with
            | Some (JBool a), Some (JBool b) => Some (JBool (xorb a b)) | _, _ => None end
  | _ => None
  end.


Definition core_fn (f : fn) : bool :=
  match f with
  | F_get | F_size | F_if | F_default | F_eq | F_neq | F_lt | F_lte | F_gt | F_gte
  | F_and | F_or | F_not | F_xor => true
  | _ => false
  end.

(* Some r: the function is modelled and yields r; None: not modelled (opaque) *)
Definition pure_sem (f : fn) (vals : list (option json)) : option (option json) :=
  if core_fn f then Some (core_sem f vals) else
  match sem_coll f vals with
  | Some r => Some r
  | None => match sem_num f vals with
            | Some r => Some r
            | None => sem_nas f vals
            end
  end.

Fixpoint all_vals (os : list outcome) : option (list (option json)) :=
  match os with
  | [] => Some []
  | Val v :: t => option_map (cons v) (all_vals t)
  | OutOfFuel :: _ => None
  end.

Fixpoint group_push_v (k : str) (v : json) (d : list (str * list json)) : list (str * list json) :=
  match d with
  | [] => [(k, [v])]
  | (k', l) :: t => if str_eqb k k' then (k', l ++ [v]) :: t else (k', l) :: group_push_v k v t
  end.

Definition key_so_far : str := [115; 111; 95; 102; 97; 114].
Definition key_value : str := [118; 97; 108; 117; 101].
Definition key_index : str := [105; 110; 100; 101; 120].

(* an opaque function: its value is some function of its argument values *)
Section Eval.
Variable opaque : fn -> list (option json) -> option json.

(* mf bounds macro expansion depth only; everything else is structural in the expression *)
Fixpoint eval (mf : nat) : expr -> ctx -> outcome :=
  fix ev (e : expr) : ctx -> outcome :=
    let evs := (fix evs (l : list expr) (c : ctx) : list outcome :=
                  match l with [] => [] | a :: t => ev a c :: evs t c end) in
    let ev_arg (l : list expr) (i : nat) (c : ctx) : outcome :=
        (fix nth_ev (l : list expr) (i : nat) : outcome :=
           match l, i with
           | [], _ => Val None
           | a :: _, O => ev a c
           | _ :: t, S j => nth_ev t j
           end) l i in
    match e with
    | EExtract ups path => fun c => Val (extract ups path c)
    | EConst v => fun _ => Val (Some v)
    | EVar n => fun c => Val (get_variable c n)
    | ESelected n => fun c => Val (get_selected c n)
    | EIctx k => fun c => Val (ictx_get k c)
    | EMacro n => fun c =>
        match get_definition c n with
        | None => Val None
        | Some body => match mf with O => OutOfFuel | S m => eval m body c end
        end
    | ECall f args => fun c =>
        match f with
        | F_pipe =>
            (fix pipe (l : list expr) (c : ctx) : outcome :=
               match l with
               | [] => Val (Some (input c))
               | a :: t => match ev a c with
                           | Val (Some v) => pipe t (with_input c v)
                           | Val None => Val None
                           | OutOfFuel => OutOfFuel
                           end
               end) args (with_input c (input c))
        | F_set =>
            match ev_arg args 0%nat c, ev_arg args 1%nat c with
            | Val (Some (JStr name)), Val (Some v) => ev_arg args 2%nat (with_variable c name v)
            | OutOfFuel, _ | _, OutOfFuel => OutOfFuel
            | _, _ => Val None
            end
        | F_define =>
            match ev_arg args 0%nat c, nth_error args 1%nat with
            | Val (Some (JStr name)), Some d => ev_arg args 2%nat (with_definition c name d)
            | OutOfFuel, _ => OutOfFuel
            | _, _ => Val None
            end
        | F_at =>
            match ev_arg args 0%nat c with
            | Val (Some (JStr name)) =>
                match get_definition c name with
                | None => Val None
                | Some body => match mf with O => OutOfFuel | S m => eval m body c end
                end
            | OutOfFuel => OutOfFuel
            | _ => Val None
            end
        | F_colon =>
            match ev_arg args 0%nat c with
            | Val (Some (JStr name)) => Val (get_variable c name)
            | OutOfFuel => OutOfFuel
            | _ => Val None
            end
        | F_map | F_filter | F_flat_map | F_group_by | F_sort_by =>
            match ev_arg args 0%nat c with
            | Val (Some (JArr l)) =>
                match all_vals (map (fun v => ev_arg args 1%nat (with_input c v)) l) with
                | None => OutOfFuel
                | Some rs =>
                    let prs := combine l rs in
                    match f with
                    | F_map => Val (Some (JArr (flat_map (fun r => match r with Some x => [x] | None => [] end) rs)))
                    | F_filter => Val (Some (JArr (map fst (filter (fun p => match snd p with Some (JBool true) => true | _ => false end) prs))))
                    | F_flat_map => Val (Some (JArr (flat_map (fun r => match r with Some (JArr x) => x | _ => [] end) rs)))
                    | F_group_by =>
                        (fix grp (prs : list (json * option json)) (acc : list (str * list json)) : outcome :=
                           match prs with
                           | [] => Val (Some (JObj (map (fun kl => (fst kl, JArr (snd kl))) acc)))
                           | (item, Some (JStr k)) :: t => grp t (group_push_v k item acc)
                           | _ => Val None
                           end) prs []
                    | _ (* F_sort_by *) =>
                        Val (Some (JArr (map fst (ssort (fun a b => ojcmp (snd a) (snd b)) prs))))
                    end
                end
            | OutOfFuel => OutOfFuel
            | _ => Val None
            end
        | F_filter_keys | F_map_keys | F_filter_values | F_map_values | F_sort_by_values_by =>
            match ev_arg args 0%nat c with
            | Val (Some (JObj m)) =>
                let on_key := match f with F_filter_keys | F_map_keys => true | _ => false end in
                match all_vals (map (fun kv => ev_arg args 1%nat (with_input c (if on_key then JStr (fst kv) else snd kv))) m) with
                | None => OutOfFuel
                | Some rs =>
                    let prs := combine m rs in
                    match f with
                    | F_filter_keys | F_filter_values =>
                        Val (Some (JObj (map fst (filter (fun p => match snd p with Some (JBool true) => true | _ => false end) prs))))
                    | F_map_keys =>
                        Val (Some (JObj (fold_left (fun acc p => match snd p with Some (JStr k) => obj_insert k (snd (fst p)) acc | _ => acc end) prs [])))
                    | F_map_values =>
                        Val (Some (JObj (fold_left (fun acc p => match snd p with Some v => obj_insert (fst (fst p)) v acc | None => acc end) prs [])))
                    | _ (* F_sort_by_values_by *) =>
                        Val (Some (JObj (map fst (ssort (fun a b => ojcmp (snd a) (snd b)) prs))))
                    end
                end
            | OutOfFuel => OutOfFuel
            | _ => Val None
            end
        | F_fold =>
            match ev_arg args 0%nat c with
            | Val (Some (JArr l)) =>
                let has_init := Nat.ltb 2 (length args) in
                let fidx := if has_init then 2%nat else 1%nat in
                match (if has_init then ev_arg args 1%nat c else Val None) with
                | OutOfFuel => OutOfFuel
                | Val init =>
                    (fix fold (l : list json) (idx : nat) (cur : option json) : outcome :=
                       match l with
                       | [] => Val cur
                       | v :: t =>
                           let m0 := match cur with Some s => [(key_so_far, s)] | None => [] end in
                           let m := m0 ++ [(key_value, v); (key_index, jnat idx)] in
                           match ev_arg args fidx (with_input c (JObj m)) with
                           | Val r => fold t (S idx) r
                           | OutOfFuel => OutOfFuel
                           end
                       end) l O init
                end
            | OutOfFuel => OutOfFuel
            | _ => Val None
            end
        | _ =>
            match all_vals (evs args c) with
            | Some vals => Val (match pure_sem f vals with Some r => r | None => opaque f vals end)
            | None => OutOfFuel
            end
        end
    end.
End Eval.

Definition no_opaque (_ : fn) (_ : list (option json)) : option json := None.
Definition macro_fuel : nat := 200.
Definition get (e : expr) (c : ctx) : option json :=
  match eval no_opaque macro_fuel e c with Val v => v | OutOfFuel => None end.
