(* F64Arith.v — IEEE-754 binary64 arithmetic on bit patterns (N < 2^64).
   Every operation computes the exact rational result on the decoded operands and rounds once
   with [round_mag] (nearest, ties to even).  Every NaN result is the canonical quiet NaN.
   Trusted to agree with Rust's f64 operators / methods (validated by correspondence). *)
From Jawk Require Import Base F64.
Local Open Scope Z_scope.

Definition f_nan : N := Z.to_N nan_bits.
Definition f_inf (neg : bool) : N := with_sign neg inf_bits.
Definition f_zero (neg : bool) : N := with_sign neg 0.
Definition f_one : N := 4607182418800017408%N.           (* 0x3FF0_0000_0000_0000 = 1.0 *)

(* the double nearest to +-(m * 2^e), m >= 0 *)
Definition f_of_scaled (neg : bool) (m e : Z) : N :=
  if 0 <=? e then f_of_ratio neg (m * 2 ^ e) 1 else f_of_ratio neg m (2 ^ (- e)).

(* ---------- sign operations ---------- *)
Definition f_abs (a : N) : N :=
  match f_decode a with
  | FNaN => f_nan
  | _ => Z.to_N (f_mag (Z.of_N a))
  end.
Definition f_neg (a : N) : N :=
  match f_decode a with
  | FNaN => f_nan
  | _ => let b := Z.of_N a in with_sign (negb (f_sign b)) (f_mag b)
  end.

(* ---------- addition, subtraction ---------- *)
Definition f_add (a b : N) : N :=
  match f_decode a, f_decode b with
  | FNaN, _ | _, FNaN => f_nan
  | FInf s1, FInf s2 => if Bool.eqb s1 s2 then f_inf s1 else f_nan
  | FInf s, FFin _ _ _ | FFin _ _ _, FInf s => f_inf s
  | FFin s1 m1 e1, FFin s2 m2 e2 =>
      let e := Z.min e1 e2 in
      let z1 := (if s1 then - m1 else m1) * 2 ^ (e1 - e) in
      let z2 := (if s2 then - m2 else m2) * 2 ^ (e2 - e) in
      let z := z1 + z2 in
      if z =? 0 then f_zero (s1 && s2)          (* exact zero: +0, except (-0) + (-0) = -0 *)
      else f_of_scaled (z <? 0) (Z.abs z) e
  end.
Definition f_sub (a b : N) : N := f_add a (f_neg b).

(* ---------- multiplication, division ---------- *)
Definition f_mul (a b : N) : N :=
  match f_decode a, f_decode b with
  | FNaN, _ | _, FNaN => f_nan
  | FInf s1, FInf s2 => f_inf (xorb s1 s2)
  | FInf s1, FFin s2 m _ | FFin s2 m _, FInf s1 =>
      if m =? 0 then f_nan else f_inf (xorb s1 s2)
  | FFin s1 m1 e1, FFin s2 m2 e2 =>
      let s := xorb s1 s2 in
      if (m1 =? 0) || (m2 =? 0) then f_zero s
      else f_of_scaled s (m1 * m2) (e1 + e2)
  end.

Definition f_div (a b : N) : N :=
  match f_decode a, f_decode b with
  | FNaN, _ | _, FNaN => f_nan
  | FInf _, FInf _ => f_nan
  | FInf s1, FFin s2 _ _ => f_inf (xorb s1 s2)
  | FFin s1 _ _, FInf s2 => f_zero (xorb s1 s2)
  | FFin s1 m1 e1, FFin s2 m2 e2 =>
      let s := xorb s1 s2 in
      if m2 =? 0 then (if m1 =? 0 then f_nan else f_inf s)
      else if m1 =? 0 then f_zero s
      else let e := e1 - e2 in
           if 0 <=? e then f_of_ratio s (m1 * 2 ^ e) m2 else f_of_ratio s m1 (m2 * 2 ^ (- e))
  end.

(* ---------- remainder: Rust `%` on f64 = C fmod (exact, sign of the dividend) ---------- *)
Definition f_rem (a b : N) : N :=
  match f_decode a, f_decode b with
  | FNaN, _ | _, FNaN => f_nan
  | FInf _, _ => f_nan
  | FFin _ _ _, FInf _ => a
  | FFin s1 m1 e1, FFin _ m2 e2 =>
      if m2 =? 0 then f_nan
      else let e := Z.min e1 e2 in
           let x := m1 * 2 ^ (e1 - e) in
           let y := m2 * 2 ^ (e2 - e) in
           f_of_scaled s1 (Z.rem x y) e          (* x, y >= 0 *)
  end.

(* ---------- rounding to an integral value ---------- *)
(* [pick q r d]: the integral magnitude chosen for the magnitude q + r/d, 0 <= r < d *)
Definition f_to_integral (pick : bool -> Z -> Z -> Z -> Z) (a : N) : N :=
  match f_decode a with
  | FNaN => f_nan
  | FInf _ => a
  | FFin s m e =>
      if 0 <=? e then a
      else let d := 2 ^ (- e) in
           with_sign s (round_mag (pick s (Z.quot m d) (Z.rem m d) d) 1)   (* < 2^53: exact *)
  end.
Definition f_trunc : N -> N := f_to_integral (fun _ q _ _ => q).
Definition f_floor : N -> N :=
  f_to_integral (fun s q r _ => if s && negb (r =? 0) then q + 1 else q).
Definition f_ceil : N -> N :=
  f_to_integral (fun s q r _ => if negb s && negb (r =? 0) then q + 1 else q).
Definition f_round : N -> N :=                       (* half away from zero *)
  f_to_integral (fun _ q r d => if d <=? 2 * r then q + 1 else q).

(* f64::fract: self - self.trunc() *)
Definition f_fract (a : N) : N := f_sub a (f_trunc a).

(* ---------- comparisons (partial order: None when a NaN is involved) ---------- *)
Definition f_cmp (a b : N) : option comparison :=
  match f_decode a, f_decode b with
  | FNaN, _ | _, FNaN => None
  | FInf s1, FInf s2 => Some (if Bool.eqb s1 s2 then Eq else if s1 then Lt else Gt)
  | FInf s, FFin _ _ _ => Some (if s then Lt else Gt)
  | FFin _ _ _, FInf s => Some (if s then Gt else Lt)
  | FFin s1 m1 e1, FFin s2 m2 e2 =>
      let e := Z.min e1 e2 in
      Some (Z.compare ((if s1 then - m1 else m1) * 2 ^ (e1 - e))
                      ((if s2 then - m2 else m2) * 2 ^ (e2 - e)))
  end.
Definition f_ltb (a b : N) : bool := match f_cmp a b with Some Lt => true | _ => false end.
Definition f_leb (a b : N) : bool := match f_cmp a b with Some Lt | Some Eq => true | _ => false end.
Definition f_gtb (a b : N) : bool := f_ltb b a.
Definition f_geb (a b : N) : bool := f_leb b a.
