(* FunBase.v — helpers shared by the function models. *)
From Jawk Require Import Base F64 Json Printer Fn.
Local Open Scope N_scope.

Definition jnat (n : nat) : json := JNum (NPos (N.of_nat n)).
Definition jN (n : N) : json := JNum (NPos n).

Definition jcmpS := jcmp show.
Definition ojcmp (a b : option json) : comparison :=      (* Option<JsonValue>::cmp *)
  match a, b with
  | None, None => Eq | None, Some _ => Lt | Some _, None => Gt
  | Some x, Some y => jcmpS x y
  end.

Definition usize_of (v : option json) : option N :=        (* TryInto::<usize> of a Number *)
  match v with Some (JNum (NPos n)) => Some n | _ => None end.

(* list indexing by an N without building a unary number *)
Fixpoint nth_N {A} (l : list A) (i : N) : option A :=
  match l with
  | [] => None
  | x :: t => if i =? 0 then Some x else nth_N t (i - 1)
  end.

Definition arg (vals : list (option json)) (i : nat) : option json :=
  match nth_error vals i with Some v => v | None => None end.

(* stable insertion sort by a comparison (slice::sort_by is a stable sort) *)
Section Sort.
Context {A : Type} (cmp : A -> A -> comparison).
Fixpoint sinsert (x : A) (l : list A) : list A :=
  match l with
  | [] => [x]
  | y :: t => match cmp y x with Gt => x :: l | _ => y :: sinsert x t end
  end.
Definition ssort (l : list A) : list A := fold_left (fun acc x => sinsert x acc) l [].
End Sort.
