(* Stream.v — what the top-level read loop sees on a byte stream: the values parsed, in order,
   and the number of recoverable errors (the skeleton of Master::read_input without the pipeline). *)
From Jawk Require Import Base F64 Json Reader JsonParser.
Local Open Scope N_scope.

Fixpoint read_all (fuel : nat) (r : reader) : list json * N :=
  match fuel with O => ([], 0) | S f =>
    match next_json_value r with
    | (POk v, r') => let '(vs, e) := read_all f r' in (v :: vs, e)
    | (PErr, r') => let '(vs, e) := read_all f r' in (vs, e + 1)
    | (PEof, _) => ([], 0)
    | (PFuel, _) => ([], 0)
    end
  end.
Definition values_of_bytes (bs : list byte) : list json * N :=
  read_all (length bs + 3) (reader_of_bytes bs).
