(* FunsNas.v — number-as-string functions (arbitrary precision decimals).
   `sem_nas f vals = Some r` : f is modelled here and yields r on these argument values
   (r = None is jawk's "nothing"); `None` : f is not modelled in this file.

   A decimal is a pair (m, s) : Z * Z, mantissa and scale, value = m * 10^(-s), exactly the
   representation of the `bigdecimal` crate (0.4.10: `int_val : BigInt`, `scale : i64`).
   Sources followed: bigdecimal src/impl_num.rs (from_str_radix), num-bigint BigInt/BigUint
   from_str_radix, core i128::from_str, bigdecimal src/lib.rs (normalized, abs, with_scale_round),
   src/arithmetic/addition.rs, src/impl_ops_sub.rs, src/impl_ops_mul.rs, src/impl_cmp.rs,
   src/impl_fmt.rs (Display; thresholds 5 / 15 from build.rs).
   The scale is an unbounded Z here; bigdecimal's is an i64 (only the parser checks the range). *)
From Jawk Require Import Base F64 Json Printer Fn FunBase.
Local Open Scope N_scope.

(* ---------- parsing: BigDecimal::from_str ---------- *)

(* s.find(p): the part before the first character satisfying p, and the part after it *)
Fixpoint split_first (p : N -> bool) (s : str) : str * option str :=
  match s with
  | [] => ([], None)
  | c :: t => if p c then ([], Some t)
              else let '(a, b) := split_first p t in (c :: a, b)
  end.

Definition is_exp_sep (c : N) : bool := (c =? 101) || (c =? 69).        (* 'e' 'E' *)
Definition is_dot (c : N) : bool := c =? 46.
Definition is_us (c : N) : bool := c =? 95.                             (* '_' *)
Definition is_digit_or_us (c : N) : bool := is_digit c || is_us c.

Definition p127 : Z := (2 ^ 127)%Z.
Definition p63z : Z := (2 ^ 63)%Z.
Definition fits_i128 (z : Z) : bool := ((- p127 <=? z) && (z <? p127))%Z.
Definition fits_i64 (z : Z) : bool := ((- p63z <=? z) && (z <? p63z))%Z.

(* i128::from_str: optional single sign, at least one digit, ASCII digits only, range checked *)
Definition i128_digits (neg : bool) (ds : str) : option Z :=
  match ds with
  | [] => None
  | _ :: _ =>
      if forallb is_digit ds then
        let v := Z.of_N (N_of_digits ds) in
        let v := if neg then (- v)%Z else v in
        if fits_i128 v then Some v else None
      else None
  end.
Definition i128_of_str (s : str) : option Z :=
  match s with
  | [] => None
  | c :: t => if c =? 43 then i128_digits false t
              else if c =? 45 then i128_digits true t
              else i128_digits false s
  end.

(* BigUint::from_str_radix(_, 10) once the optional '+' is removed: not empty, no leading '_',
   digits and '_' only ('_' skipped) *)
Definition biguint_body (s : str) : option N :=
  match s with
  | [] => None
  | c :: _ => if is_us c then None
              else if forallb is_digit_or_us s then Some (N_of_digits (filter is_digit s))
              else None
  end.
(* a leading '+' is dropped unless followed by another '+' *)
Definition biguint_of_str (s : str) : option N :=
  match s with
  | c :: t =>
      if c =? 43 then
        match t with
        | c2 :: _ => if c2 =? 43 then biguint_body s else biguint_body t
        | [] => biguint_body t
        end
      else biguint_body s
  | [] => None
  end.
(* BigInt::from_str_radix: a leading '-' is dropped unless followed by '+' *)
Definition bigint_of_str (s : str) : option Z :=
  match s with
  | c :: t =>
      if c =? 45 then
        let s' := match t with
                  | c2 :: _ => if c2 =? 43 then s else t
                  | [] => t
                  end in
        option_map (fun n => (- Z.of_N n)%Z) (biguint_of_str s')
      else option_map Z.of_N (biguint_of_str s)
  | [] => None
  end.

Definition dec_parse (s : list N) : option (Z * Z) :=
  let '(base, ex) := split_first is_exp_sep s in
  match (match ex with None => Some 0%Z | Some e => i128_of_str e end) with
  | None => None
  | Some ev =>
      match base with
      | [] => None
      | _ :: _ =>
          let '(lead, tr) := split_first is_dot base in
          let '(digits, off) :=
            match tr with
            | None => (base, 0%Z)
            | Some [] => (lead, 0%Z)                       (* the point is the last character *)
            | Some trail =>
                (lead ++ trail, Z.of_nat (length (filter (fun c => negb (is_us c)) trail)))
            end in
          let scale := (off - ev)%Z in
          if fits_i64 scale then
            match bigint_of_str digits with
            | Some m => Some (m, scale)
            | None => None
            end
          else None
      end
  end.

(* ---------- arithmetic ---------- *)

Definition pow10 (k : Z) : Z := (10 ^ k)%Z.                 (* only used with k >= 0 *)

(* both mantissas brought to the larger scale *)
Definition dec_align (a b : Z * Z) : Z * Z * Z :=
  let '(ma, sa) := a in
  let '(mb, sb) := b in
  let s := Z.max sa sb in
  ((ma * pow10 (s - sa))%Z, (mb * pow10 (s - sb))%Z, s).

(* AddAssign<BigDecimal>: a zero operand leaves the other one untouched (scale included) *)
Definition dec_add (a b : Z * Z) : Z * Z :=
  if (fst b =? 0)%Z then a
  else if (fst a =? 0)%Z then b
  else let '(x, y, s) := dec_align a b in ((x + y)%Z, s).

(* Sub<BigDecimal> for BigDecimal *)
Definition dec_sub (a b : Z * Z) : Z * Z :=
  if (fst b =? 0)%Z then a
  else if (fst a =? 0)%Z then ((- fst b)%Z, snd b)
  else let '(x, y, s) := dec_align a b in ((x - y)%Z, s).

(* is_one_quickcheck() == Some(true) *)
Definition dec_is_one (a : Z * Z) : bool :=
  let '(m, s) := a in ((0 <=? s) && (s <=? 38) && (m =? pow10 s))%Z.

(* MulAssign<BigDecimal> *)
Definition dec_mul (a b : Z * Z) : Z * Z :=
  if dec_is_one a then b
  else if dec_is_one b then a
  else ((fst a * fst b)%Z, (snd a + snd b)%Z).

Definition dec_abs (a : Z * Z) : Z * Z := (Z.abs (fst a), snd a).

Definition dec_cmp (a b : Z * Z) : comparison :=
  let '(x, y, _) := dec_align a b in Z.compare x y.

(* normalized(): zero is (0, 0); otherwise the trailing decimal zeros of the mantissa are removed *)
Fixpoint strip10 (fuel : nat) (m s : Z) : Z * Z :=
  match fuel with
  | O => (m, s)
  | S f => if (Z.rem m 10 =? 0)%Z then strip10 f (Z.quot m 10) (s - 1)%Z else (m, s)
  end.
Definition dec_normalize (a : Z * Z) : Z * Z :=
  let '(m, s) := a in
  if (m =? 0)%Z then (0%Z, 0%Z) else strip10 (N.size_nat (Z.abs_N m)) m s.

(* round(0) = with_scale_round(0, HalfEven): half-even rounding of the exact value to an integer.
   For s <= 0 bigdecimal multiplies the mantissa out to scale 0; the value is already an integer and
   the result is normalized afterwards, so the pair is kept as it is.  When the scale exceeds the
   number of digits, |value| < 0.1 and the result is 0 (bigdecimal's `Less` branch). *)
Definition dec_round (a : Z * Z) : Z * Z :=
  let '(m, s) := a in
  if (m =? 0)%Z then (0%Z, 0%Z)
  else if (s <=? 0)%Z then a
  else if (Z.of_nat (length (digits_of_N (Z.abs_N m))) <? s)%Z then (0%Z, 0%Z)
  else
    let p := pow10 s in
    let q := (Z.abs m / p)%Z in
    let r2 := (2 * (Z.abs m mod p))%Z in
    let q' := if (p <? r2)%Z then (q + 1)%Z
              else if (r2 =? p)%Z && Z.odd q then (q + 1)%Z
              else q in
    ((if (m <? 0)%Z then (- q')%Z else q'), 0%Z).

(* ---------- Display (to_string) ---------- *)

(* {:+} of an integer *)
Definition show_signed (z : Z) : list N :=
  if (z <? 0)%Z then digits_of_Z z else 43 :: digits_of_Z z.

Definition dec_show (a : Z * Z) : list N :=
  let '(m, sc) := a in
  let ds := digits_of_N (Z.abs_N m) in
  let scale := if (m =? 0)%Z then 0%Z else sc in
  let len := Z.of_nat (length ds) in
  let leading_zeros := if ((0 <=? scale) && (len <=? scale))%Z then (scale - len)%Z else 0%Z in
  let trailing_zeros := if (scale <=? 0)%Z then (- scale)%Z else 0%Z in
  let body :=
    if (5 <? leading_zeros)%Z then                                   (* d.dddE-x *)
      match ds with
      | [] => []
      | d0 :: rest =>
          (d0 :: match rest with [] => [] | _ :: _ => 46 :: rest end)
          ++ 69 :: show_signed (len - scale - 1)%Z
      end
    else if (15 <? trailing_zeros)%Z then                            (* ddde+x *)
      ds ++ 101 :: show_signed (- scale)%Z
    else if (scale <=? 0)%Z then ds ++ repeat 48 (Z.to_nat (- scale))
    else if (scale <? len)%Z then
      let k := Z.to_nat (len - scale) in firstn k ds ++ 46 :: skipn k ds
    else 48 :: 46 :: repeat 48 (Z.to_nat (scale - len)) ++ ds in
  if (m <? 0)%Z then 45 :: body else body.

(* ---------- the functions ---------- *)

(* to_big_decimal: strings only *)
Definition to_dec (v : option json) : option (Z * Z) :=
  match v with
  | Some (JStr s) => dec_parse s
  | _ => None
  end.

(* impl From<BigDecimal> for JsonValue *)
Definition of_dec (d : Z * Z) : json := JStr (dec_show (dec_normalize d)).

Fixpoint fold_decs (op : Z * Z -> Z * Z -> Z * Z) (acc : Z * Z) (vals : list (option json))
  : option (Z * Z) :=
  match vals with
  | [] => Some acc
  | v :: t => match to_dec v with
              | Some d => fold_decs op (op acc d) t
              | None => None
              end
  end.

Definition nas_unary (op : Z * Z -> Z * Z) (vals : list (option json)) : option json :=
  option_map (fun d => of_dec (op d)) (to_dec (arg vals 0%nat)).

Definition nas_compare (test : comparison -> bool) (vals : list (option json)) : option json :=
  match to_dec (arg vals 0%nat), to_dec (arg vals 1%nat) with
  | Some a, Some b => Some (JBool (test (dec_cmp a b)))
  | _, _ => None
  end.

Definition nas_sub (vals : list (option json)) : option json :=
  match vals with
  | [v] => option_map (fun d => of_dec (dec_sub (0%Z, 0%Z) d)) (to_dec v)
  | _ => match to_dec (arg vals 0%nat), to_dec (arg vals 1%nat) with
         | Some a, Some b => Some (of_dec (dec_sub a b))
         | _, _ => None
         end
  end.

Definition sem_nas (f : fn) (vals : list (option json)) : option (option json) :=
  match f with
  | FNas_add => Some (option_map of_dec (fold_decs dec_add (0%Z, 0%Z) vals))
  | FNas_mul => Some (option_map of_dec (fold_decs dec_mul (1%Z, 0%Z) vals))
  | FNas_sub_ => Some (nas_sub vals)
  | FNas_abs => Some (nas_unary dec_abs vals)
  | FNas_normalize => Some (nas_unary (fun d => d) vals)
  | FNas_round => Some (nas_unary dec_round vals)
  | FNas_eq => Some (nas_compare (fun c => match c with Eq => true | _ => false end) vals)
  | FNas_neq => Some (nas_compare (fun c => match c with Eq => false | _ => true end) vals)
  | FNas_lt => Some (nas_compare (fun c => match c with Lt => true | _ => false end) vals)
  | FNas_lte => Some (nas_compare (fun c => match c with Gt => false | _ => true end) vals)
  | FNas_gt => Some (nas_compare (fun c => match c with Gt => true | _ => false end) vals)
  | FNas_gte => Some (nas_compare (fun c => match c with Lt => false | _ => true end) vals)
  | _ => None
  end.
