(* FunsNum.v — number functions over IEEE doubles.
   `sem_num f vals = Some r` : f is modelled here and yields r on these argument values
   (r = None is jawk's "nothing"); `None` : f is not modelled in this file.

   Every function converts its numeric arguments with `impl From<NumberValue> for f64`
   (integers `as f64`: precision is lost above 2^53), computes on doubles, and converts the result
   back with `impl From<f64> for JsonValue` ([num_of_f]: integral results in range become
   integers, -0.0 becomes 0, non-finite results stay floats and print as inf / NaN). *)
From Jawk Require Import Base F64 F64Arith Json Printer Fn FunBase.
Local Open Scope N_scope.

Definition jflt (bits : N) : json := JNum (num_of_f bits).

(* `if let Some(JsonValue::Number(num)) = ... { let num: f64 = num.into(); ...}` *)
Definition as_f (v : option json) : option N :=
  match v with Some (JNum n) => Some (num_to_f n) | _ => None end.

(* abs, ceil, floor, round *)
Definition unary_sem (op : N -> N) (vals : list (option json)) : option json :=
  match as_f (arg vals 0%nat) with
  | Some x => Some (jflt (op x))
  | None => None
  end.

(* +, * : fold from the unit, nothing as soon as one argument is not a number *)
Fixpoint fold_sem (op : N -> N -> N) (acc : N) (vals : list (option json)) : option json :=
  match vals with
  | [] => Some (jflt acc)
  | v :: t => match as_f v with
              | Some x => fold_sem op (op acc x) t
              | None => None
              end
  end.

(* /, % : nothing when the second argument == 0.0 (that is +0.0 or -0.0) *)
Definition guarded_sem (op : N -> N -> N) (vals : list (option json)) : option json :=
  match as_f (arg vals 0%nat), as_f (arg vals 1%nat) with
  | Some x, Some y => if f_eqb y (f_zero false) then None else Some (jflt (op x y))
  | _, _ => None
  end.

(* - : one argument: 0 - x; two arguments: x - y *)
Definition sub_sem (vals : list (option json)) : option json :=
  let '(a, b) := if Nat.eqb (length vals) 1%nat
                 then (Some (f_zero false), as_f (arg vals 0%nat))
                 else (as_f (arg vals 0%nat), as_f (arg vals 1%nat)) in
  match a, b with
  | Some x, Some y => Some (jflt (f_sub x y))
  | _, _ => None
  end.

(* sum : the argument must be a list of numbers *)
Definition sum_sem (vals : list (option json)) : option json :=
  match arg vals 0%nat with
  | Some (JArr l) => fold_sem f_add (f_zero false) (map Some l)
  | _ => None
  end.

Definition sem_num (f : fn) (vals : list (option json)) : option (option json) :=
  match f with
  | F_abs => Some (unary_sem f_abs vals)
  | F_ceil => Some (unary_sem f_ceil vals)
  | F_floor => Some (unary_sem f_floor vals)
  | F_round => Some (unary_sem f_round vals)
  | F_add => Some (fold_sem f_add (f_zero false) vals)
  | F_mul => Some (fold_sem f_mul f_one vals)
  | F_div => Some (guarded_sem f_div vals)
  | F_rem => Some (guarded_sem f_rem vals)
  | F_sub_ => Some (sub_sem vals)
  | F_sum => Some (sum_sem vals)
  | _ => None
  end.
