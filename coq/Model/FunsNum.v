(* FunsNum.v — number functions over IEEE doubles.
   `sem_num f vals = Some r` : f is modelled here and yields r on these argument values
   (r = None is jawk's "nothing"); `None` : f is not modelled in this file. *)
From Jawk Require Import Base F64 Json Printer Fn FunBase.
Local Open Scope N_scope.

Definition sem_num (f : fn) (vals : list (option json)) : option (option json) :=
  match f with
  | _ => None
  end.
