(* Reader.v — src/reader.rs: byte source with one byte of lookahead, line/column bookkeeping.
   A read error is a sticky flag: once set, `next` answers like end of input and the caller
   (Go.read_input) turns the whole step into an I/O failure, which is what `?` does in the code. *)
From Jawk Require Import Base.
Local Open Scope N_scope.

Inductive ev := EB (b : byte) | EErr.

Record reader := mkReader {
  cur : option byte; eof : bool; rest : list ev;
  line : N; col : N; pulled : N; io : bool }.

Definition mk_reader (evs : list ev) : reader :=
  {| cur := None; eof := false; rest := evs; line := 1; col := 1; pulled := 0; io := false |}.
Definition reader_of_bytes (bs : list byte) : reader := mk_reader (map EB bs).

Definition next (r : reader) : option byte * reader :=
  if eof r then (None, r) else
  match rest r with
  | [] => (None, {| cur := None; eof := true; rest := []; line := line r; col := col r;
                    pulled := pulled r; io := io r |})
  | EErr :: t => (None, {| cur := None; eof := true; rest := []; line := line r; col := col r;
                    pulled := pulled r; io := true |})
  | EB b :: t =>
      (Some b, {| cur := Some b; eof := false; rest := t;
                  line := if b =? 10 then line r + 1 else line r;
                  col := if b =? 10 then 1 else col r + 1;
                  pulled := pulled r + 1; io := io r |})
  end.

Definition peek (r : reader) : option byte * reader :=
  match cur r with Some b => (Some b, r) | None => next r end.

Definition where_am_i (r : reader) : N * N := (line r, col r).

(* bytes not yet consumed, including the current one *)
Fixpoint ev_bytes (l : list ev) : list byte :=
  match l with EB b :: t => b :: ev_bytes t | _ => [] end.
Definition view (r : reader) : list byte :=
  match cur r with Some b => b :: ev_bytes (rest r) | None => ev_bytes (rest r) end.

Fixpoint eat_ws (fuel : nat) (r : reader) : reader :=
  match fuel with O => r | S f =>
    match peek r with
    | (Some b, r') => if is_ws b then eat_ws f (snd (next r')) else r'
    | (None, r') => r'
    end
  end.
Definition eat_whitespace (r : reader) : reader := eat_ws (S (S (length (rest r)))) r.

Fixpoint read_digits_f (fuel : nat) (acc : list byte) (r : reader) : list byte * reader :=
  match fuel with O => (acc, r) | S f =>
    match peek r with
    | (Some b, r') => if is_digit b then read_digits_f f (acc ++ [b]) (snd (next r')) else (acc, r')
    | (None, r') => (acc, r')
    end
  end.
Definition read_digits (acc : list byte) (r : reader) : list byte * reader :=
  read_digits_f (S (S (length (rest r)))) acc r.
