(* C05 — no input data and no parsable expression can make jawk panic or hang. The model is total by construction (Coq); what is proved is that the fuel constants always suffice, for arbitrary bytes and for sources with read errors, and that every failed parse makes progress (the termination argument of the read loop) *)
From Jawk Require Import Base Json Reader JsonParser Stream Ctx Printer Expr Chain Go Render ReaderLemmas TotalityProofs GoProofs SubstProofs.

(* for every byte string, valid JSON or not, valid UTF-8 or not *)
Theorem C05_parse_never_out_of_fuel :
  forall r : reader, rd_ok r -> fst (next_json_value r) <> PFuel.
Proof. exact parse_no_fuel. Qed.
Print Assumptions C05_parse_never_out_of_fuel.

(* every value and every recoverable error consumes at least one byte: the read loop terminates *)
Theorem C05_parse_progress :
  forall (r : reader) (res : pres) (r' : reader),
    rd_ok r ->
    next_json_value r = (res, r') -> res <> PEof -> length (view r') < length (view r) /\ rd_ok r'.
Proof. exact parse_progress. Qed.
Print Assumptions C05_parse_progress.

Theorem C05_eof_iff_only_whitespace :
  forall r : reader, rd_ok r -> fst (next_json_value r) = PEof <-> ws_ok (view r).
Proof. exact parse_eof_iff. Qed.
Print Assumptions C05_eof_iff_only_whitespace.

(* the fuel constant of the read loop is enough for every byte string *)
Theorem C05_read_loop_fuel :
  forall (bs : list byte) (fuel : nat),
    length bs + 3 <= fuel -> read_all fuel (reader_of_bytes bs) = values_of_bytes bs.
Proof. exact read_all_fuel. Qed.
Print Assumptions C05_read_loop_fuel.

(* the same for sources that deliver read errors *)
Theorem C05_parse_never_out_of_fuel_io :
  forall r : reader, rd_inv r -> fst (next_json_value r) <> PFuel.
Proof. exact parse_no_fuel_ev. Qed.
Print Assumptions C05_parse_never_out_of_fuel_io.

Theorem C05_parse_progress_io :
  forall (r : reader) (res : pres) (r' : reader),
    rd_inv r ->
    next_json_value r = (res, r') -> res <> PEof -> length (view r') < length (view r) /\ rd_inv r'.
Proof. exact parse_progress_ev. Qed.
Print Assumptions C05_parse_progress_io.

Theorem C05_read_loop_fuel_io :
  forall (evs : list ev) (fuel : nat),
    length evs + 3 <= fuel -> read_all fuel (mk_reader evs) = read_all (length evs + 3) (mk_reader evs).
Proof. exact read_all_fuel_ev. Qed.
Print Assumptions C05_read_loop_fuel_io.

Theorem C05_string_loop_fuel :
  forall (r : reader) (b : byte), rd_inv r -> cur r = Some b -> fst (read_string r) <> PFuel.
Proof. exact read_string_no_fuel. Qed.
Print Assumptions C05_string_loop_fuel.

Theorem C05_values_and_errors_bounded :
  forall bs : list byte,
    length (fst (values_of_bytes bs)) + N.to_nat (snd (values_of_bytes bs)) <= length bs.
Proof. exact values_of_bytes_count. Qed.
Print Assumptions C05_values_and_errors_bounded.

(* the read loop of go over a source without read errors never reports fuel exhaustion *)
Theorem C05_go_never_stops_early :
  forall (cf : cfg) (fname : option str) (evs : list ev),
    Forall (fun e : ev => e <> EErr) evs -> snd (ctxs_of_input cf fname evs) = false.
Proof. exact ctxs_of_input_no_stop. Qed.
Print Assumptions C05_go_never_stops_early.

(* macro expansion: more fuel never changes a result *)
Theorem C05_eval_fuel_monotone :
  forall (opaque : Fn.fn -> list (option json) -> option json) (mf : nat) (e : expr)
      (c : ctx) (r : option json), eval opaque mf e c = Val r -> eval opaque (S mf) e c = Val r.
Proof. exact fuel_mono. Qed.
Print Assumptions C05_eval_fuel_monotone.
