(* C18 — invalid configurations are rejected before any input is read or output written. *)
From Jawk Require Import Base Json Reader Printer Ctx Expr Chain ExprParser Go FnTableOk.
Local Open Scope N_scope.

(* whenever building the pipeline fails (unparsable or arity-violating expression in any option, unknown
   function or direction, duplicate or malformed --set, options foreign to the output style), nothing is
   written, nothing is read (no byte pulled from any input, the stdin factory is not called) *)
Theorem C18_reject : forall cf ins b,
  build_pipeline cf = None ->
  go cf ins b = {| g_events := []; g_result := GErrConfig; g_pulled := []; g_stdin_opened := false |}.
Proof. intros cf ins b H. unfold go. rewrite H. reflexivity. Qed.
Print Assumptions C18_reject.

(* csv without selections, or with grouping (titles reset), fails when the output is started: still nothing
   is written and nothing is read *)
Theorem C18_start_reject : forall cf ins b p sts,
  build_pipeline cf = Some (p, sts) -> start_output p (titles expr sts []) (c_rowsep cf) = None ->
  go cf ins b = {| g_events := []; g_result := GErrStart; g_pulled := []; g_stdin_opened := false |}.
Proof. intros cf ins b p sts H1 H2. unfold go. rewrite H1, H2. reflexivity. Qed.
Print Assumptions C18_start_reject.

Theorem C18_csv_needs_titles : forall rowsep, start_output (PText csv_opts) [] rowsep = None.
Proof. reflexivity. Qed.
Theorem C18_group_resets_titles : forall (k : expr) pre acc, titles expr (pre ++ [SGroup k]) acc = [].
Proof.
  intros k pre. induction pre as [|s pre IH]; intros acc; [reflexivity|].
  destruct s; cbn [app titles]; apply IH.
Qed.
Theorem C18_merge_resets_titles : forall pre acc, titles expr (pre ++ [SMerge]) acc = [].
Proof.
  intros pre. induction pre as [|s pre IH]; intros acc; [reflexivity|].
  destruct s; cbn [app titles]; apply IH.
Qed.
Print Assumptions C18_group_resets_titles.

(* the arity and the name of every function are checked when the expression is read: the table used is the
   one generated from the source *)
Theorem C18_table_tied : length Gen.FnTable.fn_table = 192%nat /\ Gen.FnTable.fn_count = 111.
Proof. exact fn_table_counts. Qed.

(* one instance of each class of invalid configuration (non-vacuity of C18_reject) *)
Definition base_cfg : cfg :=
  {| c_on_error := OnIgnore; c_select := []; c_filter := None; c_split := None; c_group := None; c_sort := [];
     c_skip := 0; c_take := None; c_unique := false; c_set := []; c_only_objs := false; c_style := StyleJson;
     c_rowsep := [10]; c_json_opts := None; c_text_opts := None |}.
Definition with_select s := {| c_on_error := OnIgnore; c_select := [s]; c_filter := None; c_split := None; c_group := None; c_sort := [];
     c_skip := 0; c_take := None; c_unique := false; c_set := []; c_only_objs := false; c_style := StyleJson;
     c_rowsep := [10]; c_json_opts := None; c_text_opts := None |}.
Definition with_sort s := {| c_on_error := OnIgnore; c_select := []; c_filter := None; c_split := None; c_group := None; c_sort := [s];
     c_skip := 0; c_take := None; c_unique := false; c_set := []; c_only_objs := false; c_style := StyleJson;
     c_rowsep := [10]; c_json_opts := None; c_text_opts := None |}.
Definition with_sets l := {| c_on_error := OnIgnore; c_select := []; c_filter := None; c_split := None; c_group := None; c_sort := [];
     c_skip := 0; c_take := None; c_unique := false; c_set := l; c_only_objs := false; c_style := StyleJson;
     c_rowsep := [10]; c_json_opts := None; c_text_opts := None |}.
Example ok_base : build_pipeline base_cfg <> None. Proof. vm_compute. discriminate. Qed.
Example bad_unbalanced : build_pipeline (with_select [40; 115; 105; 122; 101; 32; 46]) = None.           (* "(size ." *)
Proof. vm_compute. reflexivity. Qed.
Example bad_unknown_fn : build_pipeline (with_select [40; 110; 111; 112; 101; 32; 46; 41]) = None.       (* "(nope .)" *)
Proof. vm_compute. reflexivity. Qed.
Example bad_arity_low : build_pipeline (with_select [40; 115; 105; 122; 101; 41]) = None.               (* "(size)" *)
Proof. vm_compute. reflexivity. Qed.
Example bad_arity_high : build_pipeline (with_select [40; 115; 105; 122; 101; 32; 46; 32; 46; 41]) = None. (* "(size . .)" *)
Proof. vm_compute. reflexivity. Qed.
Example bad_direction : build_pipeline (with_sort [46; 97; 61; 117; 112]) = None.                        (* ".a=up" *)
Proof. vm_compute. reflexivity. Qed.
Example bad_set_no_equals : build_pipeline (with_sets [[120]]) = None.                                   (* "x" *)
Proof. vm_compute. reflexivity. Qed.
Example bad_set_duplicate : build_pipeline (with_sets [[120; 61; 49]; [120; 61; 50]]) = None.            (* x=1 x=2 *)
Proof. vm_compute. reflexivity. Qed.
Example bad_set_trailing : build_pipeline (with_sets [[120; 61; 49; 32; 106]]) = None.                   (* "x=1 j" *)
Proof. vm_compute. reflexivity. Qed.
