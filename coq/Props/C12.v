(* C12 — bindings are lexical and transparent; pipes and later selects keep their inputs. Macro bodies are expanded in the context of the use site (dynamic scope): substitution holds when the bound name is not redefined in between (known finding K5 otherwise) *)
From Jawk Require Import Base Json Ctx Printer Fn Expr Subst SubstProofs.

(* (set n v e) evaluates v, binds it, evaluates e *)
Theorem C12_set_unfold :
  forall (opaque : fn -> list (option json) -> option json) (mf : nat) (n : str)
      (ev body : expr) (c : ctx),
    eval opaque mf (ECall F_set [EConst (JStr n); ev; body]) c =
    match eval opaque mf ev c with
    | Val (Some v) => eval opaque mf body (with_variable c n v)
    | Val None => Val None
    | OutOfFuel => OutOfFuel
    end.
Proof. exact C12_set_unfold. Qed.
Print Assumptions C12_set_unfold.

(* a variable binding is substitution, shadowing included, under every binder (map, filter, fold, pipe ...) *)
Theorem C12_var_subst :
  forall (opaque : fn -> list (option json) -> option json) (mf : nat) (e : expr),
    var_literal e = true ->
    forall (c c' : ctx) (n : str) (v : json),
    ctx_agree_except_var n v c c' -> eval opaque mf e c' = eval opaque mf (subst_var n v e) c.
Proof. exact C12_var_subst. Qed.
Print Assumptions C12_var_subst.

Theorem C12_set_is_subst :
  forall (opaque : fn -> list (option json) -> option json) (mf : nat) (n : str)
      (v : json) (body : expr) (c : ctx),
    var_literal body = true ->
    eval opaque mf (ECall F_set [EConst (JStr n); EConst v; body]) c =
    eval opaque mf (subst_var n v body) c.
Proof. exact C12_set_is_subst. Qed.
Print Assumptions C12_set_is_subst.

Theorem C12_set_shadow :
  forall (opaque : fn -> list (option json) -> option json) (mf : nat) (n : str)
      (v1 v2 : json) (body : expr) (c : ctx),
    eval opaque mf
      (ECall F_set [EConst (JStr n); EConst v1; ECall F_set [EConst (JStr n); EConst v2; body]]) c =
    eval opaque mf (ECall F_set [EConst (JStr n); EConst v2; body]) c.
Proof. exact C12_set_shadow. Qed.
Print Assumptions C12_set_shadow.

Theorem C12_define_unfold :
  forall (opaque : fn -> list (option json) -> option json) (mf : nat) (n : str)
      (d body : expr) (c : ctx),
    eval opaque mf (ECall F_define [EConst (JStr n); d; body]) c =
    eval opaque mf body (with_definition c n d).
Proof. exact C12_define_unfold. Qed.
Print Assumptions C12_define_unfold.

(* a macro binding is substitution of the body at the use sites (no redefinition of the name in between) *)
Theorem C12_macro_subst :
  forall (opaque : fn -> list (option json) -> option json) (n : str) (d : expr),
    no_macro_ref n d = true ->
    forall (mf : nat) (e : expr) (c c' : ctx) (r : option json),
    macro_literal e = true ->
    no_redefine n e = true ->
    macro_literal d = true ->
    no_redefine n d = true ->
    ctx_agree_except_def n d c c' ->
    (forall (m : str) (b : expr),
     get_definition c m = Some b ->
     macro_literal b = true /\ no_redefine n b = true /\ no_macro_ref n b = true) ->
    eval opaque mf e c' = Val r -> eval opaque mf (subst_macro n d e) c = Val r.
Proof. exact C12_macro_subst. Qed.
Print Assumptions C12_macro_subst.

Theorem C12_define_is_subst_top :
  forall (opaque : fn -> list (option json) -> option json) (n : str) (d : expr),
    no_macro_ref n d = true ->
    forall (mf : nat) (body : expr) (c : ctx) (r : option json),
    defs c = [] ->
    macro_literal body = true ->
    no_redefine n body = true ->
    macro_literal d = true ->
    no_redefine n d = true ->
    eval opaque mf (ECall F_define [EConst (JStr n); d; body]) c = Val r ->
    eval opaque mf (subst_macro n d body) c = Val r.
Proof. exact C12_define_is_subst_top. Qed.
Print Assumptions C12_define_is_subst_top.

Theorem C12_macro_subst_conv :
  forall (opaque : fn -> list (option json) -> option json) (n : str) (d : expr),
    no_macro_ref n d = true ->
    forall (mf : nat) (e : expr) (c c' : ctx) (r : option json),
    macro_literal e = true ->
    no_redefine n e = true ->
    macro_literal d = true ->
    no_redefine n d = true ->
    ctx_agree_except_def n d c c' ->
    (forall (m : str) (b : expr),
     get_definition c m = Some b ->
     macro_literal b = true /\ no_redefine n b = true /\ no_macro_ref n b = true) ->
    eval opaque mf (subst_macro n d e) c = Val r -> eval opaque (S (mf + mf)) e c' = Val r.
Proof. exact C12_macro_subst_conv. Qed.
Print Assumptions C12_macro_subst_conv.

(* (| a b): b sees a's value as input *)
Theorem C12_pipe :
  forall (opaque : fn -> list (option json) -> option json) (mf : nat) (a b : expr) (c : ctx),
    eval opaque mf (ECall F_pipe [a; b]) c =
    match eval opaque mf a (with_input c (input c)) with
    | Val (Some va) =>
        match eval opaque mf b (with_input (with_input c (input c)) va) with
        | Val (Some vb) => Val (Some vb)
        | Val None => Val None
        | OutOfFuel => OutOfFuel
        end
    | Val None => Val None
    | OutOfFuel => OutOfFuel
    end.
Proof. exact C12_pipe2. Qed.
Print Assumptions C12_pipe.

(* and the previous input as its parent; variables, macros and the input context are unchanged *)
Theorem C12_pipe_parents :
  forall (c : ctx) (va : json),
    input (with_input (with_input c (input c)) va) = va /\
    parents (with_input (with_input c (input c)) va) = input c :: input c :: parents c /\
    parent_input (with_input (with_input c (input c)) va) 1 = input c /\
    vars (with_input (with_input c (input c)) va) = vars c /\
    defs (with_input (with_input c (input c)) va) = defs c /\
    ic (with_input (with_input c (input c)) va) = ic c.
Proof. exact C12_pipe2_ctx_b. Qed.
Print Assumptions C12_pipe_parents.

(* bindings change nothing an extractor (. .k #i ^) can observe *)
Theorem C12_transparent_var :
  forall (opaque : fn -> list (option json) -> option json) (mf ups : nat) (path : option (list sel))
      (c : ctx) (n : str) (v : json),
    eval opaque mf (EExtract ups path) (with_variable c n v) = eval opaque mf (EExtract ups path) c.
Proof. exact extract_with_variable. Qed.
Print Assumptions C12_transparent_var.

Theorem C12_transparent_def :
  forall (opaque : fn -> list (option json) -> option json) (mf ups : nat) (path : option (list sel))
      (c : ctx) (n : str) (d : expr),
    eval opaque mf (EExtract ups path) (with_definition c n d) = eval opaque mf (EExtract ups path) c.
Proof. exact extract_with_definition. Qed.
Print Assumptions C12_transparent_def.

(* every --select sees the same input and parents as the first one *)
Theorem C12_select_same_input :
  forall (opaque : fn -> list (option json) -> option json) (mf ups : nat) (path : option (list sel))
      (c : ctx) (t : str) (r : option json),
    eval opaque mf (EExtract ups path) (with_result c t r) = eval opaque mf (EExtract ups path) c.
Proof. exact extract_with_result. Qed.
Print Assumptions C12_select_same_input.

Theorem C12_select_same_parents :
  forall (c : ctx) (trs : list (str * option json)) (k : nat),
    parent_input
      (fold_left (fun (c0 : ctx) (tr : str * option json) => with_result c0 (fst tr) (snd tr)) trs c) k =
    parent_input c k.
Proof. exact parent_input_with_results. Qed.
Print Assumptions C12_select_same_parents.

Theorem C12_preset_vars :
  forall (c : ctx) (vs : list (str * json)) (n : str),
    get_variable (with_variables c vs) n = assoc_str n vs.
Proof. exact get_variable_with_variables. Qed.
Print Assumptions C12_preset_vars.

Theorem C12_preset_macros :
  forall (c : ctx) (ds : list (str * expr)) (n : str),
    get_definition (with_definitions c ds) n = assoc_str n ds.
Proof. exact get_definition_with_definitions. Qed.
Print Assumptions C12_preset_macros.
