(* C10 — --unique removes exactly the later duplicates, by the same equality as `=`. *)
From Jawk Require Import Base Json Ctx Printer Chain PipelineSpec OrderProofs SorterProofs ChainProofs GroupUniqProofs.

(* the stage is the pure function dedup_from [] (for every expression semantics and every successor) *)
Theorem C10_stage : forall (E : Type) (get : E -> ctx E -> option json) sts ss cs,
  run E get (SUniq :: sts) (StUniq [] :: ss) cs = run E get sts ss (dedup_from E [] cs).
Proof. exact run_uniq. Qed.
Print Assumptions C10_stage.

(* first occurrences keep their relative order, nothing else is removed *)
Theorem C10_sublist : forall (E : Type) (cs : list (ctx E)) seen, sublist (dedup_from E seen cs) cs.
Proof. exact dedup_sublist. Qed.
(* a row is dropped exactly when SOME earlier row (kept or not) is equal to it — given that equality is an
   equivalence on the keys at hand *)
Theorem C10_first_occurrences : forall (E : Type) (P : ckey -> Prop),
  (forall a, P a -> ckey_eqb a a = true) ->
  (forall a b c, P a -> P b -> P c -> ckey_eqb a b = true -> ckey_eqb b c = true -> ckey_eqb a c = true) ->
  forall cs : list (ctx E), keys_ok E P cs -> dedup_from E [] cs = dedup_all E [] cs.
Proof. exact dedup_first_occurrences. Qed.
(* every input row has an equal representative in the output *)
Theorem C10_complete : forall (E : Type) (P : ckey -> Prop),
  (forall a, P a -> ckey_eqb a a = true) ->
  forall (cs : list (ctx E)) seen c, keys_ok E P cs -> In c cs ->
  existsb (ckey_eqb (Ctx.key c)) seen = true \/
  exists c', In c' (dedup_from E seen cs) /\ ckey_eqb (Ctx.key c) (Ctx.key c') = true.
Proof. exact dedup_complete. Qed.
Print Assumptions C10_complete.

(* duplicates are decided by the equality of the `=` function *)
Theorem C10_same_as_eq : forall a b, ckey_eqb (KValue a) (KValue b) = jeqb a b.
Proof. exact ckey_value_is_eq. Qed.

(* on the property's domain (canonical numbers: no -0, floats non-integral; same member order) equality is
   structural identity, so the hand-written Hash agrees with Eq and the HashSet behaves like a set *)
Theorem C10_eq_is_identity : forall a b, canonical a -> canonical b -> same_order a b -> jeqb a b = true -> a = b.
Proof. exact jeqb_canonical_eq. Qed.
Theorem C10_hash_coherent : forall (mh : list hw -> N) a b,
  canonical a -> canonical b -> same_order a b -> jeqb a b = true -> hash_feed mh a = hash_feed mh b.
Proof. exact hash_coherent. Qed.
Print Assumptions C10_hash_coherent.

(* all hypotheses discharged for rows without selections over canonical inputs *)
Theorem C10_canonical_rows : forall (E : Type) (cs : list (ctx E)),
  (forall c, In c cs -> results c = [] /\ canonical (input c)) ->
  (forall c c', In c cs -> In c' cs -> same_order (input c) (input c')) ->
  (forall c c', In c cs -> In c' cs -> (ckey_eqb (Ctx.key c) (Ctx.key c') = true <-> input c = input c')) /\
  dedup_from E [] cs = dedup_all E [] cs /\
  ForallOrdPairs (fun a b => input a <> input b) (dedup_from E [] cs).
Proof. exact dedup_canonical. Qed.
Print Assumptions C10_canonical_rows.

(* rows with selections: the hypotheses discharged over canonical results *)
From Jawk Require Import MiscProofs.

Theorem C10_canonical_selected_rows :
  forall (E : Type) (cs : list (Ctx.ctx E)),
    (forall c : Ctx.ctx E, List.In c cs -> UniqueSelected.canonical_key (Ctx.key c)) ->
    (forall c c' : Ctx.ctx E,
     List.In c cs -> List.In c' cs -> UniqueSelected.compat_order (Ctx.key c) (Ctx.key c')) ->
    (forall c c' : Ctx.ctx E,
     List.In c cs ->
     List.In c' cs -> Ctx.ckey_eqb (Ctx.key c) (Ctx.key c') = true <-> Ctx.key c = Ctx.key c') /\
    PipelineSpec.dedup_from E nil cs = GroupUniqProofs.dedup_all E nil cs /\
    List.ForallOrdPairs (fun a b : Ctx.ctx E => Ctx.key a <> Ctx.key b) (PipelineSpec.dedup_from E nil cs) /\
    (forall c : Ctx.ctx E,
     List.In c cs ->
     exists c' : Ctx.ctx E, List.In c' (PipelineSpec.dedup_from E nil cs) /\ Ctx.key c = Ctx.key c').
Proof. exact UniqueSelected.dedup_canonical_rows. Qed.
Print Assumptions C10_canonical_selected_rows.

Theorem C10_canonical_selected :
  forall (E : Type) (cs : list (Ctx.ctx E)),
    (forall c : Ctx.ctx E,
     List.In c cs ->
     Ctx.results c <> nil /\ List.Forall UniqueSelected.ocanonical (List.map snd (Ctx.results c))) ->
    (forall c c' : Ctx.ctx E,
     List.In c cs ->
     List.In c' cs ->
     GroupUniqProofs.pairwise UniqueSelected.osame_order (List.map snd (Ctx.results c))
       (List.map snd (Ctx.results c'))) ->
    PipelineSpec.dedup_from E nil cs = GroupUniqProofs.dedup_all E nil cs /\
    List.ForallOrdPairs
      (fun a b : Ctx.ctx E => List.map snd (Ctx.results a) <> List.map snd (Ctx.results b))
      (PipelineSpec.dedup_from E nil cs).
Proof. exact UniqueSelected.dedup_canonical_selected. Qed.
Print Assumptions C10_canonical_selected.

(* after the repairs aaa3975 (-0) and 5580b4e (order-free object hash): equality is an equivalence and the hash agrees with it on canonical values in ANY member order; closure for parsed inputs; what remains false is exactly the two edge doubles 2^64 and -2^63 (outside the interoperable range of the property) *)
From Jawk Require Import Base Json Reader JsonParser Stream Ctx PipelineSpec GroupUniqProofs ParsedPrintable HashProofs EqProofs.

(* for every member hasher: equal canonical values have the same hash feed, whatever the order of object members at any depth *)
Theorem C10_hash_any_order :
  forall (mh : list hw -> N) (a b : json),
    canonical a -> canonical b -> jeqb a b = true -> hash_feed mh a = hash_feed mh b.
Proof. exact hash_coherent_any_order. Qed.
Print Assumptions C10_hash_any_order.

Theorem C10_key_hash :
  forall (mh : list hw -> N) (a b : ckey),
    ckey_canonical a -> ckey_canonical b -> ckey_eqb a b = true -> ckey_feed mh a = ckey_feed mh b.
Proof. exact ckey_hash_coherent. Qed.
Print Assumptions C10_key_hash.

Theorem C10_eq_sym :
  forall a b : json, canonical a -> canonical b -> jeqb a b = true -> jeqb b a = true.
Proof. exact jeqb_sym_canonical. Qed.
Print Assumptions C10_eq_sym.

Theorem C10_eq_trans :
  forall a b c : json,
    canonical a -> canonical b -> canonical c -> jeqb a b = true -> jeqb b c = true -> jeqb a c = true.
Proof. exact jeqb_trans_canonical. Qed.
Print Assumptions C10_eq_trans.

(* no hypothesis on equality left: a row is dropped exactly when some earlier row has an equal key *)
Theorem C10_unique_canonical :
  forall (E : Type) (cs : list (ctx E)),
    (forall c : ctx E, In c cs -> ckey_canonical (key c)) -> dedup_from E [] cs = dedup_all E [] cs.
Proof. exact unique_canonical_rows. Qed.
Print Assumptions C10_unique_canonical.

Theorem C10_unique_canonical_complete :
  forall (E : Type) (cs : list (ctx E)),
    (forall c : ctx E, In c cs -> ckey_canonical (key c)) ->
    forall c : ctx E,
    In c cs -> exists c' : ctx E, In c' (dedup_from E [] cs) /\ ckey_eqb (key c) (key c') = true.
Proof. exact unique_canonical_rows_complete. Qed.
Print Assumptions C10_unique_canonical_complete.

Theorem C10_unique_canonical_distinct :
  forall (E : Type) (cs : list (ctx E)),
    (forall c : ctx E, In c cs -> ckey_canonical (key c)) ->
    ForallOrdPairs
      (fun a b : ctx E => ckey_eqb (key a) (key b) = false /\ ckey_eqb (key b) (key a) = false)
      (dedup_from E [] cs).
Proof. exact unique_canonical_rows_distinct. Qed.
Print Assumptions C10_unique_canonical_distinct.

(* for every input byte stream, rows without selections: first occurrences, completeness, pairwise distinct output, hash agreement — unless a value contains the double 2^64 or -2^63 *)
Theorem C10_unique_parsed :
  forall (E : Type) (bs : list byte) (vs : list json) (n : N) (cs : list (ctx E)),
    values_of_bytes bs = (vs, n) ->
    (forall c : ctx E, In c cs -> results c = [] /\ In (input c) vs /\ no_edge_doubles (input c)) ->
    dedup_from E [] cs = dedup_all E [] cs /\
    (forall c : ctx E,
     In c cs -> exists c' : ctx E, In c' (dedup_from E [] cs) /\ ckey_eqb (key c) (key c') = true) /\
    ForallOrdPairs
      (fun a b : ctx E => ckey_eqb (key a) (key b) = false /\ ckey_eqb (key b) (key a) = false)
      (dedup_from E [] cs) /\
    (forall (mh : list hw -> N) (c d : ctx E),
     In c cs -> In d cs -> ckey_eqb (key c) (key d) = true -> ckey_feed mh (key c) = ckey_feed mh (key d)).
Proof. exact unique_parsed_inputs. Qed.
Print Assumptions C10_unique_parsed.

(* the side condition is needed: 18446744073709551614 = 2^64 (as a double) = 18446744073709551615 under the = function, but the two integers differ *)
Theorem C10_edge_not_transitive :
  ~
    (forall a b c : json,
     parsed_ok a -> parsed_ok b -> parsed_ok c -> jeqb a b = true -> jeqb b c = true -> jeqb a c = true).
Proof. exact jeqb_trans_parsed_false. Qed.
Print Assumptions C10_edge_not_transitive.

Theorem C10_edge_unique_order_dependent :
  ~
    (forall (E : Type) (bs : list byte) (vs : list json) (n : N) (cs : list (ctx E)),
     values_of_bytes bs = (vs, n) ->
     (forall c : ctx E, In c cs -> results c = [] /\ In (input c) vs) ->
     dedup_from E [] cs = dedup_all E [] cs).
Proof. exact unique_parsed_inputs_unrestricted_false. Qed.
Print Assumptions C10_edge_unique_order_dependent.
