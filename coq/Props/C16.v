(* C16 — read and write failures stop the run with an error, never a panic or silent loss *)
From Jawk Require Import Base Json Reader JsonParser Stream Ctx Printer Expr Chain Go GoProofs IoProofs.

(* a read failure at any byte offset is never mistaken for end of input nor skipped like a malformed value: the run does not succeed, and fails with an I/O error unless --on-error=panic met a malformed value first (pipelines that never stop the reader) *)
Theorem C16_read_error :
  forall (cf : cfg) (fname : option str) (pre : list byte) (rst : list ev) (b : bool)
      (p : printer) (sts : list stage) (hdr : list byte),
    build_pipeline cf = Some (p, sts) ->
    start_output p (titles expr sts []) (c_rowsep cf) = Some hdr ->
    (forall (ss : list sstate) (c : ctx), snd (process expr get sts ss c) = Continue) ->
    let evs := map EB pre ++ EErr :: rst in
    g_result (go cf [(fname, evs)] b) <> GOk /\
    (c_on_error cf <> OnPanic -> g_result (go cf [(fname, evs)] b) = GErrIo).
Proof. exact go_read_error. Qed.
Print Assumptions C16_read_error.

Theorem C16_read_error_loop :
  forall (cf : cfg) (p : printer) (sts : list stage) (nt : nat) (fname : option str)
      (pre : list byte) (rst : list ev) (ss : list sstate) (idx infile : N),
    (forall (ss0 : list sstate) (c : ctx), snd (process expr get sts ss0 c) = Continue) ->
    let evs := map EB pre ++ EErr :: rst in
    let
    '(_, _, _, e, _) := read_input cf p sts nt (input_fuel evs) (mk_reader evs) fname ss idx infile in
     e <> None /\ (c_on_error cf <> OnPanic -> e = Some GErrIo).
Proof. exact read_error_not_eof. Qed.
Print Assumptions C16_read_error_loop.

(* what reached the output before a write failure is a prefix of the fault-free output *)
Theorem C16_write_prefix :
  forall (evs : list oev) (room : N) (o e : list byte) (failed : bool),
    apply_rooms evs [] [] (Some room) None = (o, e, failed) ->
    exists more : list byte, out_bytes evs = o ++ more.
Proof. exact apply_rooms_prefix. Qed.
Print Assumptions C16_write_prefix.

Theorem C16_write_complete :
  forall (evs : list oev) (room : N) (o e : list byte) (failed : bool),
    apply_rooms evs [] [] (Some room) None = (o, e, failed) ->
    failed = false -> o = out_bytes evs /\ e = err_bytes evs.
Proof. exact apply_rooms_complete. Qed.
Print Assumptions C16_write_complete.

(* a failing writer stops the run exactly at its capacity *)
Theorem C16_write_failed :
  forall (evs : list oev) (room : N) (o e : list byte) (failed : bool),
    apply_rooms evs [] [] (Some room) None = (o, e, failed) ->
    failed = true -> length o = N.to_nat room /\ N.to_nat room < length (out_bytes evs).
Proof. exact apply_rooms_failed. Qed.
Print Assumptions C16_write_failed.

Theorem C16_write_failed_iff :
  forall (evs : list oev) (room : N) (o e : list byte) (failed : bool),
    apply_rooms evs [] [] (Some room) None = (o, e, failed) ->
    failed = true <-> N.to_nat room < length (out_bytes evs).
Proof. exact apply_rooms_failed_iff. Qed.
Print Assumptions C16_write_failed_iff.

(* and the run reports an I/O error *)
Theorem C16_write_result :
  forall (cf : cfg) (ins : list (option str * list ev)) (b : bool) (oroom eroom : option N),
    let g := go cf ins b in
    let
    '(o, e, failed) := apply_rooms (g_events g) [] [] oroom eroom in
     run_with_rooms cf ins b oroom eroom = (o, e, if failed then GErrIo else g_result g).
Proof. exact run_with_rooms_result. Qed.
Print Assumptions C16_write_result.

(* a read error never loses or alters what was already written: the events before the failure are a prefix of the events of the fault-free run *)
From Jawk Require Import LocalityProofs.

Theorem C16_read_error_prefix :
  forall (cf : Go.cfg) (fname : option Base.str) (pre : list Base.byte) (rst : list Reader.ev)
      (more : list Base.byte) (b : bool),
    let evs_err := (List.map Reader.EB pre ++ Reader.EErr :: rst)%list in
    let evs_ok := List.map Reader.EB (pre ++ more) in
    exists tl : list Go.oev,
      Go.g_events (Go.go cf ((fname, evs_ok) :: nil) b) =
      (Go.g_events (Go.go cf ((fname, evs_err) :: nil) b) ++ tl)%list.
Proof. exact go_read_error_events_prefix. Qed.
Print Assumptions C16_read_error_prefix.

Theorem C16_read_error_prefix_loop :
  forall (cf : Go.cfg) (p : Go.printer) (sts : list (Chain.stage Expr.expr))
      (nt : nat) (fname : option Base.str) (pre : list Base.byte) (rst : list Reader.ev)
      (more : list Base.byte) (ss : list (Chain.sstate Expr.expr)) (idx infile : BinNums.N),
    let evs_err := (List.map Reader.EB pre ++ Reader.EErr :: rst)%list in
    let evs_ok := List.map Reader.EB (pre ++ more) in
    exists tl : list Go.oev,
      ev_of
        (Go.read_input cf p sts nt (Go.input_fuel evs_ok) (Reader.mk_reader evs_ok) fname ss idx infile) =
      (ev_of
         (Go.read_input cf p sts nt (Go.input_fuel evs_err) (Reader.mk_reader evs_err) fname ss idx infile) ++
       tl)%list.
Proof. exact read_error_events_prefix. Qed.
Print Assumptions C16_read_error_prefix_loop.

(* several inputs: read failures over ANY list of inputs *)
From Jawk Require Import Base F64 Json Reader JsonParser Ctx Printer Fn Expr Chain ExprParser Go GoProofs IoProofs ChainProofs LocalityProofs FilesProofs ReadErrFilesProofs.

(* a failing read in any input of a list: the run does not succeed, it ends with the I/O error under every policy but panic, and no input after the failing one is opened *)
Theorem C16_read_error_files :
  forall (cf : cfg) (a : list (option str * list ev)) (fname : option str) (pre : list byte)
      (rst : list ev) (rest : list (option str * list ev)) (b : bool) (p : printer) 
      (sts : list stage) (hdr : list byte),
    build_pipeline cf = Some (p, sts) ->
    start_output p (titles expr sts []) (c_rowsep cf) = Some hdr ->
    (forall (ss : list sstate) (c : ctx), snd (process expr get sts ss c) = Continue) ->
    let evs := map EB pre ++ EErr :: rst in
    let ins := a ++ (fname, evs) :: rest in
    g_result (go cf ins b) <> GOk /\
    (c_on_error cf <> OnPanic -> g_result (go cf ins b) = GErrIo) /\
    length (g_pulled (go cf ins b)) <= S (length a).
Proof. exact go_files_read_error. Qed.
Print Assumptions C16_read_error_files.

(* the events of the run with the failing read are a prefix of the events of the fault-free run, wherever the failing input stands in the list (unconditional) *)
Theorem C16_read_error_prefix_files :
  forall (cf : cfg) (a : list (option str * list ev)) (fname : option str) (pre : list byte)
      (rst : list ev) (more : list byte) (rest : list (option str * list ev)) 
      (b : bool),
    let evs_err := map EB pre ++ EErr :: rst in
    let evs_ok := map EB (pre ++ more) in
    exists tl : list oev,
      g_events (go cf (a ++ (fname, evs_ok) :: rest) b) =
      g_events (go cf (a ++ (fname, evs_err) :: rest) b) ++ tl.
Proof. exact go_files_read_error_prefix. Qed.
Print Assumptions C16_read_error_prefix_files.

(* when the loop over the inputs reports an error it stopped in the input where it occurred: one pulled count per input opened, the last one the failing input *)
Theorem C16_error_stops_files :
  forall (cf : cfg) (p : printer) (sts : list stage) (nt : nat) (ins : list (option str * list ev))
      (ss : list sstate) (idx : N) (ss' : list sstate) (o : list oev) (g : gres) 
      (pl : list N),
    read_files cf p sts nt ins ss idx = (ss', o, Some g, pl) ->
    exists
      (a : list (option str * list ev)) (fname : option str) (evs : list ev) (rest : 
                                                                             list 
                                                                             (option str * list ev)),
      ins = a ++ (fname, evs) :: rest /\ length pl = S (length a).
Proof. exact read_files_error_stops_len. Qed.
Print Assumptions C16_error_stops_files.

(* the only errors the loop over the inputs reports are the I/O error and, under panic, the parse error *)
Theorem C16_error_kind_files :
  forall (cf : cfg) (p : printer) (sts : list stage) (nt : nat) (ins : list (option str * list ev))
      (ss : list sstate) (idx : N) (g : gres),
    ferr_of (read_files cf p sts nt ins ss idx) = Some g ->
    g = GErrIo \/ g = GErrJson /\ c_on_error cf = OnPanic.
Proof. exact read_files_err_kind. Qed.
Print Assumptions C16_error_kind_files.

(* go succeeds exactly when the loop reported no error; otherwise its result is that error, the events are the header and the rows written so far, and no completion row is emitted *)
Theorem C16_go_error_result :
  forall (cf : cfg) (ins : list (option str * list ev)) (b : bool) (p : printer)
      (sts : list stage) (hdr : list byte),
    build_pipeline cf = Some (p, sts) ->
    start_output p (titles expr sts []) (c_rowsep cf) = Some hdr ->
    let nt := length (titles expr sts []) in
    let hev := match hdr with
               | [] => []
               | _ :: _ => [OOut hdr]
               end in
    let x := read_files cf p sts nt ins (map (init_state expr) sts) 0 in
    (g_result (go cf ins b) = GOk <-> ferr_of x = None) /\
    (forall g : gres,
     ferr_of x = Some g ->
     g_result (go cf ins b) = g /\ g <> GOk /\ g_events (go cf ins b) = hev ++ fev_of x) /\
    (ferr_of x = None ->
     g_events (go cf ins b) = hev ++ fev_of x ++ emit cf p nt (complete expr get sts (fst_of x))) /\
    g_pulled (go cf ins b) = fpl_of x.
Proof. exact go_error_result. Qed.
Print Assumptions C16_go_error_result.
