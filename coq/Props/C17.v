(* C17 — delivery-independent input; files stay separate; input-context is exact. (In the model the input is a list of bytes: chunking does not exist; the harness delivers the same bytes in many chunkings.) *)
From Jawk Require Import Base Json Reader JsonParser Stream Ctx Printer Expr Chain Go GoProofs IoProofs.

(* &index is the ordinal among the values processed, &index-in-file restarts per file, &file-name names the file *)
Theorem C17_index :
  forall (fuel : nat) (r : reader) (fname : option str) (idx infile : N) (cs : list ctx)
      (e : N) (b : bool) (i : nat) (c : ctx),
    read_ctxs fuel false r fname idx infile = (cs, e, b) ->
    nth_error cs i = Some c ->
    exists ici : ictx,
      ic c = Some ici /\
      ic_index ici = (idx + N.of_nat i)%N /\
      ic_file_index ici = (infile + N.of_nat i)%N /\ ic_file ici = fname.
Proof. exact ctx_indices. Qed.
Print Assumptions C17_index.

(* consecutive ranges are contiguous *)
Theorem C17_contiguous :
  forall (fuel : nat) (r : reader) (fname : option str) (idx infile : N) (cs : list ctx)
      (b : bool) (i : nat) (c1 c2 : ctx),
    read_ctxs fuel false r fname idx infile = (cs, 0%N, b) ->
    nth_error cs i = Some c1 ->
    nth_error cs (S i) = Some c2 ->
    exists i1 i2 : ictx, ic c1 = Some i1 /\ ic c2 = Some i2 /\ ic_start i2 = ic_end i1.
Proof. exact ctx_contiguous. Qed.
Print Assumptions C17_contiguous.

Theorem C17_first_start :
  forall (fuel : nat) (r : reader) (fname : option str) (idx infile : N) (c : ctx)
      (cs : list ctx) (b : bool),
    read_ctxs fuel false r fname idx infile = (c :: cs, 0%N, b) ->
    exists i : ictx, ic c = Some i /\ ic_start i = where_am_i r.
Proof. exact ctx_first_start. Qed.
Print Assumptions C17_first_start.

(* start and end are the positions after two nested prefixes of the input; lines are counted by newlines *)
Theorem C17_ranges :
  forall (all : list byte) (fuel : nat) (oo : bool) (fname : option str) (idx infile : N) (c : ctx),
    In c (fst (fst (read_ctxs fuel oo (mk_reader (map EB all)) fname idx infile))) ->
    exists (i : ictx) (k1 k2 : nat),
      ic c = Some i /\
      k1 <= k2 <= length all /\
      ic_start i = loc_after 1 1 (firstn k1 all) /\
      ic_end i = loc_after 1 1 (firstn k2 all) /\
      fst (ic_end i) = (1 + N.of_nat (count_occ N.eq_dec (firstn k2 all) 10))%N.
Proof. exact ctx_locations. Qed.
Print Assumptions C17_ranges.

Theorem C17_lines :
  forall bs : list byte, fst (loc_after 1 1 bs) = (1 + N.of_nat (count_occ N.eq_dec bs 10))%N.
Proof. exact line_counts_newlines. Qed.
Print Assumptions C17_lines.

Theorem C17_locations_follow_bytes :
  forall (all : list byte) (r r' : reader), advances r r' -> loc_ok all r -> loc_ok all r'.
Proof. exact loc_ok_advances. Qed.
Print Assumptions C17_locations_follow_bytes.

(* several inputs: &index runs on across inputs, &index-in-file restarts, &file-name names the input; also with --only-objects-and-arrays *)
From Jawk Require Import Base F64 Json Reader JsonParser Ctx Printer Fn Expr Chain ExprParser Go GoProofs IoProofs FilesProofs IndexFilesProofs.

(* C17_index for either setting of --only-objects-and-arrays: skipped scalars consume no index *)
Theorem C17_index_any :
  forall (fuel : nat) (oo : bool) (r : reader) (fname : option str) (idx infile : N)
      (cs : list ctx) (e : N) (b : bool) (i : nat) (c : ctx),
    read_ctxs fuel oo r fname idx infile = (cs, e, b) ->
    nth_error cs i = Some c ->
    exists ici : ictx,
      ic c = Some ici /\
      ic_index ici = (idx + N.of_nat i)%N /\
      ic_file_index ici = (infile + N.of_nat i)%N /\ ic_file ici = fname.
Proof. exact ctx_indices_any. Qed.
Print Assumptions C17_index_any.

(* the i-th context handed to the pipeline over ALL inputs carries &index = i *)
Theorem C17_index_inputs :
  forall (cf : cfg) (ins : list (option str * list ev)) (idx : N) (i : nat) (c : ctx),
    nth_error (fst (ctxs_of_inputs cf ins idx)) i = Some c ->
    exists ici : ictx, ic c = Some ici /\ ic_index ici = (idx + N.of_nat i)%N.
Proof. exact ctxs_of_inputs_index. Qed.
Print Assumptions C17_index_inputs.

(* the j-th context that comes from an input carries that input's name and &index-in-file = j, wherever the input stands in the list *)
Theorem C17_file_inputs :
  forall (cf : cfg) (a : list (option str * list ev)) (fname : option str) (evs : list ev)
      (rest : list (option str * list ev)) (idx : N) (j : nat) (c : ctx),
    let before := fst (ctxs_of_inputs cf a idx) in
    let mine :=
      fst
        (fst
           (read_ctxs (input_fuel evs) (c_only_objs cf) (mk_reader evs) fname
              (idx + N.of_nat (length before)) 0)) in
    j < length mine ->
    nth_error (fst (ctxs_of_inputs cf (a ++ (fname, evs) :: rest) idx)) (length before + j) = Some c ->
    exists ici : ictx, ic c = Some ici /\ ic_file ici = fname /\ ic_file_index ici = N.of_nat j.
Proof. exact ctxs_of_inputs_file. Qed.
Print Assumptions C17_file_inputs.
