(* C17 — delivery-independent input; files stay separate; input-context is exact. (In the model the input is a list of bytes: chunking does not exist; the harness delivers the same bytes in many chunkings.) *)
From Jawk Require Import Base Json Reader JsonParser Stream Ctx Printer Expr Chain Go GoProofs IoProofs.

(* &index is the ordinal among the values processed, &index-in-file restarts per file, &file-name names the file *)
Theorem C17_index :
  forall (fuel : nat) (r : reader) (fname : option str) (idx infile : N) (cs : list ctx)
      (e : N) (b : bool) (i : nat) (c : ctx),
    read_ctxs fuel false r fname idx infile = (cs, e, b) ->
    nth_error cs i = Some c ->
    exists ici : ictx,
      ic c = Some ici /\
      ic_index ici = (idx + N.of_nat i)%N /\
      ic_file_index ici = (infile + N.of_nat i)%N /\ ic_file ici = fname.
Proof. exact ctx_indices. Qed.
Print Assumptions C17_index.

(* consecutive ranges are contiguous *)
Theorem C17_contiguous :
  forall (fuel : nat) (r : reader) (fname : option str) (idx infile : N) (cs : list ctx)
      (b : bool) (i : nat) (c1 c2 : ctx),
    read_ctxs fuel false r fname idx infile = (cs, 0%N, b) ->
    nth_error cs i = Some c1 ->
    nth_error cs (S i) = Some c2 ->
    exists i1 i2 : ictx, ic c1 = Some i1 /\ ic c2 = Some i2 /\ ic_start i2 = ic_end i1.
Proof. exact ctx_contiguous. Qed.
Print Assumptions C17_contiguous.

Theorem C17_first_start :
  forall (fuel : nat) (r : reader) (fname : option str) (idx infile : N) (c : ctx)
      (cs : list ctx) (b : bool),
    read_ctxs fuel false r fname idx infile = (c :: cs, 0%N, b) ->
    exists i : ictx, ic c = Some i /\ ic_start i = where_am_i r.
Proof. exact ctx_first_start. Qed.
Print Assumptions C17_first_start.

(* start and end are the positions after two nested prefixes of the input; lines are counted by newlines *)
Theorem C17_ranges :
  forall (all : list byte) (fuel : nat) (oo : bool) (fname : option str) (idx infile : N) (c : ctx),
    In c (fst (fst (read_ctxs fuel oo (mk_reader (map EB all)) fname idx infile))) ->
    exists (i : ictx) (k1 k2 : nat),
      ic c = Some i /\
      k1 <= k2 <= length all /\
      ic_start i = loc_after 1 1 (firstn k1 all) /\
      ic_end i = loc_after 1 1 (firstn k2 all) /\
      fst (ic_end i) = (1 + N.of_nat (count_occ N.eq_dec (firstn k2 all) 10))%N.
Proof. exact ctx_locations. Qed.
Print Assumptions C17_ranges.

Theorem C17_lines :
  forall bs : list byte, fst (loc_after 1 1 bs) = (1 + N.of_nat (count_occ N.eq_dec bs 10))%N.
Proof. exact line_counts_newlines. Qed.
Print Assumptions C17_lines.

Theorem C17_locations_follow_bytes :
  forall (all : list byte) (r r' : reader), advances r r' -> loc_ok all r -> loc_ok all r'.
Proof. exact loc_ok_advances. Qed.
Print Assumptions C17_locations_follow_bytes.
