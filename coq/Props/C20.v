(* C20 — the executable separates data from diagnostics and signals failure by exit code. *)
From Jawk Require Import Base Json Reader Printer Ctx Expr Chain ExprParser Go MainWiringOk.
Local Open Scope Z_scope.

(* status 0 exactly when the run succeeded *)
Theorem C20_exit : forall cf ins b oroom eroom,
  m_exit (main_model cf ins b oroom eroom) = 0 <-> snd (run_with_rooms cf ins b oroom eroom) = GOk.
Proof.
  intros cf ins b oroom eroom. unfold main_model.
  destruct (run_with_rooms cf ins b oroom eroom) as [[o e] r]. cbn [snd].
  destruct r; cbn [m_exit]; split; intros H; try reflexivity; try discriminate.
Qed.
Print Assumptions C20_exit.

(* failure: non-zero status and a message on standard error *)
Theorem C20_message : forall cf ins b oroom eroom,
  m_exit (main_model cf ins b oroom eroom) <> 0 -> m_stderr (main_model cf ins b oroom eroom) <> [].
Proof.
  intros cf ins b oroom eroom. unfold main_model.
  destruct (run_with_rooms cf ins b oroom eroom) as [[o e] r].
  destruct r; cbn [m_exit m_stderr]; intros H; try (exfalso; apply H; reflexivity);
    intros E; apply app_eq_nil in E as [_ E]; discriminate.
Qed.
Print Assumptions C20_message.

(* the wiring of main in the source: rows to stdout, diagnostics to stderr, a message and exit status 255 (process::exit(-1)) *)
Theorem C20_wiring : Gen.MainWiring.rows_stream = 1%N /\ Gen.MainWiring.diagnostics_stream = 2%N /\
  Gen.MainWiring.error_message_to_stderr_and_exit_status = Some 255%Z.
Proof. exact main_wiring_ok. Qed.
Print Assumptions C20_wiring.

(* standard output carries only what the model writes with OOut, standard error only OErr (+ the message) *)
Theorem C20_streams_quiet : forall evs out err, apply_rooms evs out err None None =
  (out ++ concat (map (fun e => match e with OOut b => b | OErr _ => [] end) evs),
   err ++ concat (map (fun e => match e with OErr b => b | OOut _ => [] end) evs), false).
Proof.
  induction evs as [|e evs IH]; intros out err.
  - cbn. rewrite !app_nil_r. reflexivity.
  - destruct e as [b|b]; cbn [apply_rooms map concat]; rewrite IH, <- ?app_assoc; cbn [app]; rewrite ?app_nil_l; reflexivity.
Qed.
Print Assumptions C20_streams_quiet.

(* stderr policy: standard output carries exactly the rows, standard error exactly the diagnostics *)
From Jawk Require Import LocalityProofs.

Theorem C20_stderr_separation :
  forall (cf : Go.cfg) (fname : option Base.str) (evs : list Reader.ev) (b : bool)
      (p : Go.printer) (sts : list (Chain.stage Expr.expr)) (hdr : list Base.byte),
    Go.c_on_error cf = Go.OnStderr ->
    List.Forall (fun e : Reader.ev => e <> Reader.EErr) evs ->
    Go.build_pipeline cf = Some (p, sts) ->
    Go.start_output p (Chain.titles Expr.expr sts nil) (Go.c_rowsep cf) = Some hdr ->
    (forall (ss : list (Chain.sstate Expr.expr)) (c : Ctx.ctx Expr.expr),
     snd (Chain.process Expr.expr Expr.get sts ss c) = Chain.Continue) ->
    let g := Go.go cf ((fname, evs) :: nil) b in
    Go.g_result g = Go.GOk /\
    List.filter is_out (Go.g_events g) =
    (hdr_events hdr ++
     Go.emit cf p (length (Chain.titles Expr.expr sts nil))
       (Chain.run Expr.expr Expr.get sts (List.map (Chain.init_state Expr.expr) sts)
          (fst (fst (Go.ctxs_of_input cf fname evs)))))%list /\
    List.filter (fun e : Go.oev => negb (is_out e)) (Go.g_events g) =
    List.repeat (Go.OErr Go.error_line) (BinNat.N.to_nat (snd (fst (Go.ctxs_of_input cf fname evs)))).
Proof. exact go_run_stderr. Qed.
Print Assumptions C20_stderr_separation.

Theorem C20_panic_fails :
  forall (cf : Go.cfg) (fname : option Base.str) (evs : list Reader.ev) (b : bool)
      (p : Go.printer) (sts : list (Chain.stage Expr.expr)) (hdr : list Base.byte),
    Go.c_on_error cf = Go.OnPanic ->
    Go.build_pipeline cf = Some (p, sts) ->
    Go.start_output p (Chain.titles Expr.expr sts nil) (Go.c_rowsep cf) = Some hdr ->
    (forall (ss : list (Chain.sstate Expr.expr)) (c : Ctx.ctx Expr.expr),
     snd (Chain.process Expr.expr Expr.get sts ss c) = Chain.Continue) ->
    BinNat.N.lt BinNums.N0 (snd (fst (Go.ctxs_of_input cf fname evs))) ->
    let pre :=
      fst
        (read_ctxs_pre (Go.input_fuel evs) (Go.c_only_objs cf) (Reader.mk_reader evs) fname BinNums.N0
           BinNums.N0) in
    Go.g_result (Go.go cf ((fname, evs) :: nil) b) = Go.GErrJson /\
    Go.g_events (Go.go cf ((fname, evs) :: nil) b) =
    (hdr_events hdr ++
     Go.emit cf p (length (Chain.titles Expr.expr sts nil))
       (snd (Chain.feed_all Expr.expr Expr.get sts (List.map (Chain.init_state Expr.expr) sts) pre)))%list /\
    (exists tl : list (Ctx.ctx Expr.expr), fst (fst (Go.ctxs_of_input cf fname evs)) = (pre ++ tl)%list).
Proof. exact go_run_panic. Qed.
Print Assumptions C20_panic_fails.
