(* C20 — the executable separates data from diagnostics and signals failure by exit code. *)
From Jawk Require Import Base Json Reader Printer Ctx Expr Chain ExprParser Go MainWiringOk.
Local Open Scope Z_scope.

(* status 0 exactly when the run succeeded *)
Theorem C20_exit : forall cf ins b oroom eroom,
  m_exit (main_model cf ins b oroom eroom) = 0 <-> snd (run_with_rooms cf ins b oroom eroom) = GOk.
Proof.
  intros cf ins b oroom eroom. unfold main_model.
  destruct (run_with_rooms cf ins b oroom eroom) as [[o e] r]. cbn [snd].
  destruct r; cbn [m_exit]; split; intros H; try reflexivity; try discriminate.
Qed.
Print Assumptions C20_exit.

(* failure: non-zero status and a message on standard error *)
Theorem C20_message : forall cf ins b oroom eroom,
  m_exit (main_model cf ins b oroom eroom) <> 0 -> m_stderr (main_model cf ins b oroom eroom) <> [].
Proof.
  intros cf ins b oroom eroom. unfold main_model.
  destruct (run_with_rooms cf ins b oroom eroom) as [[o e] r].
  destruct r; cbn [m_exit m_stderr]; intros H; try (exfalso; apply H; reflexivity);
    intros E; apply app_eq_nil in E as [_ E]; discriminate.
Qed.
Print Assumptions C20_message.

(* the wiring of main in the source: rows to stdout, diagnostics to stderr, exit(-1) with a message *)
Theorem C20_wiring : Gen.MainWiring.rows_stream = 1%N /\ Gen.MainWiring.diagnostics_stream = 2%N /\
  Gen.MainWiring.error_message_to_stderr_and_exit_code = Some (-1).
Proof. exact main_wiring_ok. Qed.
Print Assumptions C20_wiring.

(* standard output carries only what the model writes with OOut, standard error only OErr (+ the message) *)
Theorem C20_streams_quiet : forall evs out err, apply_rooms evs out err None None =
  (out ++ concat (map (fun e => match e with OOut b => b | OErr _ => [] end) evs),
   err ++ concat (map (fun e => match e with OErr b => b | OOut _ => [] end) evs), false).
Proof.
  induction evs as [|e evs IH]; intros out err.
  - cbn. rewrite !app_nil_r. reflexivity.
  - destruct e as [b|b]; cbn [apply_rooms map concat]; rewrite IH, <- ?app_assoc; cbn [app]; rewrite ?app_nil_l; reflexivity.
Qed.
Print Assumptions C20_streams_quiet.
