(* C07 — sorting: one total order, permutation, stable, multi-key, direction-aware. *)
From Jawk Require Import Base F64 Json Ctx Printer Chain PipelineSpec OrderProofs SorterProofs.
From Coq Require Import Permutation Sorted.

(* the order is a total preorder on all values (for every printed-text function used on objects) *)
Theorem C07_refl : forall a, jcmp show a a = Eq.
Proof. exact (jcmp_refl show). Qed.
Theorem C07_antisym : forall a b, jcmp show a b = CompOpp (jcmp show b a).
Proof. exact (jcmp_antisym show). Qed.
Theorem C07_trans : forall a b c, jcmp show a b <> Gt -> jcmp show b c <> Gt -> jcmp show a c <> Gt.
Proof. exact (jcmp_trans_le show). Qed.
Theorem C07_eq_congruence : forall a b c, jcmp show a b = Eq -> jcmp show a c = jcmp show b c.
Proof. exact (jcmp_eq_l show). Qed.
Print Assumptions C07_trans.

(* null < false < true < strings < numbers < objects < arrays *)
Theorem C07_ranks : forall a b, (type_rank a < type_rank b)%N -> jcmp show a b = Lt.
Proof. exact (jcmp_rank show). Qed.
Theorem C07_bools : jcmp show (JBool false) (JBool true) = Lt.
Proof. exact (jcmp_bools show). Qed.
(* strings by code point, numbers by (double) value, arrays lexicographically *)
Theorem C07_strings_codepoint : forall x y, jcmp show (JStr x) (JStr y) = list_cmp N.compare x y.
Proof. exact (jcmp_strings show). Qed.
Theorem C07_numbers : forall x y,
  jcmp show (JNum x) (JNum y) = Z.compare (f_total_key (num_to_f x)) (f_total_key (num_to_f y)).
Proof. exact (jcmp_numbers show). Qed.
Theorem C07_arrays_lex : forall x y, jcmp show (JArr x) (JArr y) = list_cmp (jcmp show) x y.
Proof. exact (jcmp_arrays_lex show). Qed.
Print Assumptions C07_arrays_lex.

(* the --sort-by stage (BTreeMap of VecDeques, push_front/pop_back) is the stable insertion sort of the rows
   that have a key, ascending or descending *)
Theorem C07_sorter : forall (E : Type) (get : E -> ctx E -> option json) k dir cs,
  flush E dir (snd (fold_left (sort_step E get k dir) cs (None, []))) = sort_spec E get k dir cs.
Proof.
  intros E get.
  exact (sorter_spec_nocap E get (jcmp_refl show) (jcmp_antisym show) (jcmp_trans_le show) (jcmp_eq_l show)).
Qed.
Print Assumptions C07_sorter.

(* what "stable sort" means: permutation, sorted, ties keep arrival order — and these three determine it *)
Theorem C07_perm : forall (A : Type) (le : A -> A -> bool) l, Permutation (isort le l) l.
Proof. intros A le. exact (isort_perm le). Qed.
Theorem C07_sorted : forall (A : Type) (le : A -> A -> bool),
  (forall a b, le a b = true \/ le b a = true) -> (forall a b c, le a b = true -> le b c = true -> le a c = true) ->
  forall l, StronglySorted (fun a b => le a b = true) (isort le l).
Proof. intros A le. exact (isort_sorted le). Qed.
Theorem C07_stable : forall (A : Type) (le : A -> A -> bool),
  (forall a b, le a b = true \/ le b a = true) -> (forall a b c, le a b = true -> le b c = true -> le a c = true) ->
  forall l x, filter (fun y => le x y && le y x) (isort le l) = filter (fun y => le x y && le y x) l.
Proof. intros A le. exact (isort_stable le). Qed.
Theorem C07_unique : forall (A : Type) (le : A -> A -> bool),
  (forall a b, le a b = true \/ le b a = true) -> (forall a b c, le a b = true -> le b c = true -> le a c = true) ->
  forall l l', Permutation l' l -> StronglySorted (fun a b => le a b = true) l' ->
  (forall x, filter (fun y => le x y && le y x) l' = filter (fun y => le x y && le y x) l) -> l' = isort le l.
Proof. intros A le. exact (isort_unique le). Qed.
Print Assumptions C07_unique.

(* the comparison used by the sorter is total and transitive in both directions *)
Theorem C07_dir_total : forall dir a b, dir_le dir a b = true \/ dir_le dir b a = true.
Proof. exact (dir_le_total (jcmp_antisym show)). Qed.
Theorem C07_dir_trans : forall dir a b c, dir_le dir a b = true -> dir_le dir b c = true -> dir_le dir a c = true.
Proof. exact (dir_le_trans (jcmp_trans_le show)). Qed.
Print Assumptions C07_dir_trans.

(* repeated sorts: sorting by the minor key first and then (stably) by the major key is the lexicographic sort *)
Theorem C07_multikey : forall (A : Type) (le1 le2 : A -> A -> bool) l,
  (forall a b, le1 a b = true \/ le1 b a = true) -> (forall a b c, le1 a b = true -> le1 b c = true -> le1 a c = true) ->
  (forall a b, le2 a b = true \/ le2 b a = true) -> (forall a b c, le2 a b = true -> le2 b c = true -> le2 a c = true) ->
  isort le1 (isort le2 l) = isort (fun a b => le1 a b && (negb (le1 b a) || le2 a b)) l.
Proof. intros A le1 le2 l. exact (isort_lex le1 le2 l). Qed.
Print Assumptions C07_multikey.

(* strings: comparing the UTF-8 bytes (what the executable does) is comparing the code points *)
From Jawk Require Import Base MiscProofs.

(* for all strings of Unicode scalar values, byte order of the encodings equals code point order *)
Theorem C07_utf8_order :
  forall s t : list N,
    Forall Utf8Order.scalar s ->
    Forall Utf8Order.scalar t -> list_cmp N.compare (utf8_encode s) (utf8_encode t) = str_cmp s t.
Proof. exact Utf8Order.utf8_order_str_cmp. Qed.
Print Assumptions C07_utf8_order.

Theorem C07_utf8_prefix_free :
  forall (a b : N) (l l' : list byte),
    Utf8Order.scalar a ->
    Utf8Order.scalar b -> utf8_encode_char a ++ l = utf8_encode_char b ++ l' -> a = b.
Proof. exact Utf8Order.utf8_prefix_free. Qed.
Print Assumptions C07_utf8_prefix_free.
