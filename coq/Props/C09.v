(* C09 — --group-by / --merge emit exactly one complete collection at end of input. *)
From Jawk Require Import Base Json Ctx Printer Chain PipelineSpec OrderProofs SorterProofs ChainProofs GroupUniqProofs.
From Coq Require Import Permutation.

(* a pipeline that ends with --group-by emits exactly one context, whose value is the grouping of exactly the
   rows the pipeline without it would print (for every expression semantics, every upstream stage list) *)
Theorem C09_group_one_row : forall (E : Type) (get : E -> ctx E -> option json) (pre : list (stage E)) k cs,
  wfp E (pre ++ [SGroup k]) -> wfp E pre ->
  run E get (pre ++ [SGroup k]) (map (init_state E) (pre ++ [SGroup k])) cs =
  [new_with_no_context (group_spec E get k (run E get pre (map (init_state E) pre) cs))].
Proof.
  intros E get pre k cs H1 H2.
  rewrite (run_spec E get (jcmp_refl show) (jcmp_antisym show) (jcmp_trans_le show) (jcmp_eq_l show) _ H1).
  rewrite (run_spec E get (jcmp_refl show) (jcmp_antisym show) (jcmp_trans_le show) (jcmp_eq_l show) _ H2).
  rewrite spec_app. reflexivity.
Qed.
Print Assumptions C09_group_one_row.

Theorem C09_merge_one_row : forall (E : Type) (get : E -> ctx E -> option json) (pre : list (stage E)) cs,
  wfp E (pre ++ [SMerge]) -> wfp E pre ->
  run E get (pre ++ [SMerge]) (map (init_state E) (pre ++ [SMerge])) cs =
  [new_with_no_context (JArr (map build (run E get pre (map (init_state E) pre) cs)))].
Proof.
  intros E get pre cs H1 H2.
  rewrite (run_spec E get (jcmp_refl show) (jcmp_antisym show) (jcmp_trans_le show) (jcmp_eq_l show) _ H1).
  rewrite (run_spec E get (jcmp_refl show) (jcmp_antisym show) (jcmp_trans_le show) (jcmp_eq_l show) _ H2).
  rewrite spec_app. reflexivity.
Qed.
Print Assumptions C09_merge_one_row.

(* the object: keys are the distinct string keys in first-seen order; each array holds the rows with that key in
   arrival order; rows whose key is absent or not a string are dropped *)
Theorem C09_group_object : forall (E : Type) (get : E -> ctx E -> option json) k cs,
  group_spec E get k cs =
  JObj (map (fun n => (n, JArr (map build (filter (has_key E get k n) cs)))) (first_seen (keys_of E get k cs))).
Proof. exact group_spec_char. Qed.
Theorem C09_keys_distinct : forall (E : Type) (get : E -> ctx E -> option json) k cs,
  NoDup (first_seen (keys_of E get k cs)).
Proof. exact group_keys_nodup. Qed.
Theorem C09_keys_complete : forall (E : Type) (get : E -> ctx E -> option json) k cs n,
  In n (first_seen (keys_of E get k cs)) <-> exists c, In c cs /\ skey E get k c = Some n.
Proof. exact group_keys_complete. Qed.
(* every surviving row with a string key is in exactly one array *)
Theorem C09_partition : forall (E : Type) (get : E -> ctx E -> option json) k cs,
  Permutation (concat (map (fun n => filter (has_key E get k n) cs) (first_seen (keys_of E get k cs))))
              (filter (survives E get k) cs).
Proof. exact group_partition. Qed.
Print Assumptions C09_partition.

(* the (possibly empty) collection is emitted even when no row survives *)
Theorem C09_empty_group : forall (E : Type) (get : E -> ctx E -> option json) k, group_spec E get k [] = JObj [].
Proof. exact group_empty. Qed.
Theorem C09_empty_merge : forall (E : Type), merge_spec E [] = JArr [].
Proof. exact merge_empty. Qed.
Print Assumptions C09_empty_merge.

(* the whole program: go with --group-by / --merge writes exactly one row, the collection of the rows that go without it writes (also when there are none) *)
From Jawk Require Import Base Json Reader Ctx Printer Expr Chain PipelineSpec Go ProgramProofs.

Theorem C09_program_group_by :
  forall (cf : cfg) (k : list byte) (fname : option str) (evs : list ev) (b : bool)
      (p : printer) (sts : list stage) (hdr : list byte),
    c_group cf = Some (Some k) ->
    c_on_error cf = OnIgnore ->
    Forall (fun e : ev => e <> EErr) evs ->
    build_pipeline cf = Some (p, sts) ->
    start_output p (titles expr sts []) (c_rowsep cf) = Some hdr ->
    (forall t : N, c_take cf = Some t -> (c_skip cf + t <= 18446744073709551615)%N) ->
    exists (pre : list stage) (e : expr),
      ExprParser.parse_whole k = Some e /\
      build_pipeline (no_group cf) = Some (p, pre) /\
      start_output p (titles expr pre []) (c_rowsep (no_group cf)) = Some [] /\
      (let cs := fst (fst (ctxs_of_input cf fname evs)) in
       let rows := spec expr get pre cs in
       g_result (go (no_group cf) [(fname, evs)] b) = GOk /\
       g_events (go (no_group cf) [(fname, evs)] b) = emit cf p (length (titles expr pre [])) rows /\
       g_result (go cf [(fname, evs)] b) = GOk /\
       g_events (go cf [(fname, evs)] b) =
       [OOut (print_row p 0 (c_rowsep cf) (new_with_no_context (group_spec expr get e rows)))] /\
       (rows = [] ->
        g_events (go cf [(fname, evs)] b) =
        [OOut (print_row p 0 (c_rowsep cf) (new_with_no_context (JObj [])))])).
Proof. exact program_group_by. Qed.
Print Assumptions C09_program_group_by.

Theorem C09_program_merge :
  forall (cf : cfg) (fname : option str) (evs : list ev) (b : bool) (p : printer)
      (sts : list stage) (hdr : list byte),
    c_group cf = Some None ->
    c_on_error cf = OnIgnore ->
    Forall (fun e : ev => e <> EErr) evs ->
    build_pipeline cf = Some (p, sts) ->
    start_output p (titles expr sts []) (c_rowsep cf) = Some hdr ->
    (forall t : N, c_take cf = Some t -> (c_skip cf + t <= 18446744073709551615)%N) ->
    exists pre : list stage,
      build_pipeline (no_group cf) = Some (p, pre) /\
      start_output p (titles expr pre []) (c_rowsep (no_group cf)) = Some [] /\
      (let cs := fst (fst (ctxs_of_input cf fname evs)) in
       let rows := spec expr get pre cs in
       g_result (go (no_group cf) [(fname, evs)] b) = GOk /\
       g_events (go (no_group cf) [(fname, evs)] b) = emit cf p (length (titles expr pre [])) rows /\
       g_result (go cf [(fname, evs)] b) = GOk /\
       g_events (go cf [(fname, evs)] b) =
       [OOut (print_row p 0 (c_rowsep cf) (new_with_no_context (JArr (map build rows))))] /\
       (rows = [] ->
        g_events (go cf [(fname, evs)] b) =
        [OOut (print_row p 0 (c_rowsep cf) (new_with_no_context (JArr [])))])).
Proof. exact program_merge. Qed.
Print Assumptions C09_program_merge.

Theorem C09_program_collect :
  forall (cf : cfg) (g : option (list byte)) (fname : option str) (evs : list ev)
      (b : bool) (p : printer) (sts : list stage) (hdr : list byte),
    c_group cf = Some g ->
    c_on_error cf = OnIgnore ->
    Forall (fun e : ev => e <> EErr) evs ->
    build_pipeline cf = Some (p, sts) ->
    start_output p (titles expr sts []) (c_rowsep cf) = Some hdr ->
    (forall t : N, c_take cf = Some t -> (c_skip cf + t <= 18446744073709551615)%N) ->
    exists (pre : list stage) (o : option expr),
      group_key g = Some o /\
      sts = pre ++ [collector_stage o] /\
      hdr = [] /\
      build_pipeline (no_group cf) = Some (p, pre) /\
      start_output p (titles expr pre []) (c_rowsep (no_group cf)) = Some [] /\
      (let cs := fst (fst (ctxs_of_input cf fname evs)) in
       let rows := spec expr get pre cs in
       g_result (go (no_group cf) [(fname, evs)] b) = GOk /\
       g_events (go (no_group cf) [(fname, evs)] b) = emit cf p (length (titles expr pre [])) rows /\
       g_result (go cf [(fname, evs)] b) = GOk /\
       g_events (go cf [(fname, evs)] b) =
       [OOut (print_row p 0 (c_rowsep cf) (new_with_no_context (collection o rows)))]).
Proof. exact program_collect. Qed.
Print Assumptions C09_program_collect.

(* several inputs (file arguments): the collector theorems for ANY list of inputs *)
From Jawk Require Import Base F64 Json Reader JsonParser Ctx Printer Fn Expr Chain ExprParser Go PipelineSpec OrderProofs SorterProofs ChainProofs GroupUniqProofs GoProofs BuildProofs FilesProofs ProgramProofs ProgramFilesProofs.

(* go with a collector over any list of inputs writes exactly one row: the collection of the rows go without it writes *)
Theorem C09_program_collect_files :
  forall (cf : cfg) (g : option (list byte)) (ins : list (option str * list ev))
      (b : bool) (p : printer) (sts : list stage) (hdr : list byte),
    c_group cf = Some g ->
    c_on_error cf = OnIgnore ->
    Forall (fun i : option str * list ev => Forall (fun e : ev => e <> EErr) (snd i)) ins ->
    build_pipeline cf = Some (p, sts) ->
    start_output p (titles expr sts []) (c_rowsep cf) = Some hdr ->
    (forall t : N, c_take cf = Some t -> (c_skip cf + t <= 18446744073709551615)%N) ->
    exists (pre : list stage) (o : option expr),
      group_key g = Some o /\
      sts = pre ++ [collector_stage o] /\
      hdr = [] /\
      build_pipeline (no_group cf) = Some (p, pre) /\
      start_output p (titles expr pre []) (c_rowsep (no_group cf)) = Some [] /\
      (let cs := fst (ctxs_of_inputs cf ins 0) in
       let rows := spec expr get pre cs in
       g_result (go (no_group cf) ins b) = GOk /\
       g_events (go (no_group cf) ins b) = emit cf p (length (titles expr pre [])) rows /\
       g_result (go cf ins b) = GOk /\
       g_events (go cf ins b) =
       [OOut (print_row p 0 (c_rowsep cf) (new_with_no_context (collection o rows)))]).
Proof. exact program_collect_files. Qed.
Print Assumptions C09_program_collect_files.

(* --group-by over any list of inputs *)
Theorem C09_program_group_by_files :
  forall (cf : cfg) (k : list byte) (ins : list (option str * list ev)) (b : bool)
      (p : printer) (sts : list stage) (hdr : list byte),
    c_group cf = Some (Some k) ->
    c_on_error cf = OnIgnore ->
    Forall (fun i : option str * list ev => Forall (fun e : ev => e <> EErr) (snd i)) ins ->
    build_pipeline cf = Some (p, sts) ->
    start_output p (titles expr sts []) (c_rowsep cf) = Some hdr ->
    (forall t : N, c_take cf = Some t -> (c_skip cf + t <= 18446744073709551615)%N) ->
    exists (pre : list stage) (e : expr),
      parse_whole k = Some e /\
      build_pipeline (no_group cf) = Some (p, pre) /\
      start_output p (titles expr pre []) (c_rowsep (no_group cf)) = Some [] /\
      (let cs := fst (ctxs_of_inputs cf ins 0) in
       let rows := spec expr get pre cs in
       g_result (go (no_group cf) ins b) = GOk /\
       g_events (go (no_group cf) ins b) = emit cf p (length (titles expr pre [])) rows /\
       g_result (go cf ins b) = GOk /\
       g_events (go cf ins b) =
       [OOut (print_row p 0 (c_rowsep cf) (new_with_no_context (group_spec expr get e rows)))] /\
       (rows = [] ->
        g_events (go cf ins b) = [OOut (print_row p 0 (c_rowsep cf) (new_with_no_context (JObj [])))])).
Proof. exact program_group_by_files. Qed.
Print Assumptions C09_program_group_by_files.

(* --merge over any list of inputs *)
Theorem C09_program_merge_files :
  forall (cf : cfg) (ins : list (option str * list ev)) (b : bool) (p : printer)
      (sts : list stage) (hdr : list byte),
    c_group cf = Some None ->
    c_on_error cf = OnIgnore ->
    Forall (fun i : option str * list ev => Forall (fun e : ev => e <> EErr) (snd i)) ins ->
    build_pipeline cf = Some (p, sts) ->
    start_output p (titles expr sts []) (c_rowsep cf) = Some hdr ->
    (forall t : N, c_take cf = Some t -> (c_skip cf + t <= 18446744073709551615)%N) ->
    exists pre : list stage,
      build_pipeline (no_group cf) = Some (p, pre) /\
      start_output p (titles expr pre []) (c_rowsep (no_group cf)) = Some [] /\
      (let cs := fst (ctxs_of_inputs cf ins 0) in
       let rows := spec expr get pre cs in
       g_result (go (no_group cf) ins b) = GOk /\
       g_events (go (no_group cf) ins b) = emit cf p (length (titles expr pre [])) rows /\
       g_result (go cf ins b) = GOk /\
       g_events (go cf ins b) =
       [OOut (print_row p 0 (c_rowsep cf) (new_with_no_context (JArr (map build rows))))] /\
       (rows = [] ->
        g_events (go cf ins b) = [OOut (print_row p 0 (c_rowsep cf) (new_with_no_context (JArr [])))])).
Proof. exact program_merge_files. Qed.
Print Assumptions C09_program_merge_files.
