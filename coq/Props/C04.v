(* C04 — expressions evaluate to what the function documentation prescribes. A selection of the 330 laws of Proofs/FunLaws.v, each stated against standard list functions for all arguments *)
From Jawk Require Import Base F64 Json Ctx Printer Fn FunBase FunsColl FunsNum FunsNas Expr FunLaws.

Theorem C04_take_list :
  forall (l : list json) (n : N),
    pure_sem F_take [Some (JArr l); Some (JNum (NPos n))] = Some (Some (JArr (firstn (N.to_nat n) l))).
Proof. exact take_list. Qed.
Print Assumptions C04_take_list.

Theorem C04_take_obj :
  forall (m : list (str * json)) (n : N),
    pure_sem F_take [Some (JObj m); Some (JNum (NPos n))] = Some (Some (JObj (firstn (N.to_nat n) m))).
Proof. exact take_obj. Qed.
Print Assumptions C04_take_obj.

Theorem C04_take_str :
  forall (s : str) (n : N),
    pure_sem F_take [Some (JStr s); Some (JNum (NPos n))] = Some (Some (JStr (firstn (N.to_nat n) s))).
Proof. exact take_str. Qed.
Print Assumptions C04_take_str.

Theorem C04_take_zero :
  forall l : list json, pure_sem F_take [Some (JArr l); Some (JNum (NPos 0))] = Some (Some (JArr [])).
Proof. exact take_zero. Qed.
Print Assumptions C04_take_zero.

Theorem C04_take_all :
  forall (l : list json) (n : N),
    length l <= N.to_nat n -> pure_sem F_take [Some (JArr l); Some (JNum (NPos n))] = Some (Some (JArr l)).
Proof. exact take_all. Qed.
Print Assumptions C04_take_all.

Theorem C04_take_last_list :
  forall (l : list json) (n : N),
    pure_sem F_take_last [Some (JArr l); Some (JNum (NPos n))] =
    Some (Some (JArr (skipn (length l - N.to_nat n) l))).
Proof. exact take_last_list. Qed.
Print Assumptions C04_take_last_list.

Theorem C04_take_last_str :
  forall (s : str) (n : N),
    pure_sem F_take_last [Some (JStr s); Some (JNum (NPos n))] =
    Some (Some (JStr (skipn (length s - N.to_nat n) s))).
Proof. exact take_last_str. Qed.
Print Assumptions C04_take_last_str.

Theorem C04_sub_list :
  forall (l : list json) (start len : N),
    pure_sem F_sub [Some (JArr l); Some (JNum (NPos start)); Some (JNum (NPos len))] =
    Some (Some (JArr (firstn (N.to_nat len) (skipn (N.to_nat start) l)))).
Proof. exact sub_list. Qed.
Print Assumptions C04_sub_list.

Theorem C04_sub_str :
  forall (s : str) (start len : N),
    pure_sem F_sub [Some (JStr s); Some (JNum (NPos start)); Some (JNum (NPos len))] =
    Some (Some (JStr (firstn (N.to_nat len) (skipn (N.to_nat start) s)))).
Proof. exact sub_str. Qed.
Print Assumptions C04_sub_str.

Theorem C04_size_str :
  forall s : str, pure_sem F_size [Some (JStr s)] = Some (Some (JNum (NPos (N.of_nat (length s))))).
Proof. exact size_str. Qed.
Print Assumptions C04_size_str.

Theorem C04_get_arr :
  forall (l : list json) (i : N),
    pure_sem F_get [Some (JArr l); Some (JNum (NPos i))] = Some (nth_error l (N.to_nat i)).
Proof. exact get_arr. Qed.
Print Assumptions C04_get_arr.

Theorem C04_get_obj :
  forall (m : list (str * json)) (k : str),
    pure_sem F_get [Some (JObj m); Some (JStr k)] = Some (obj_get k m).
Proof. exact get_obj. Qed.
Print Assumptions C04_get_obj.

(* arguments of the wrong type or absent arguments give nothing *)
Theorem C04_take_wrong_coll :
  forall vals : list (option json), not_coll (arg vals 0) -> pure_sem F_take vals = Some None.
Proof. exact take_wrong_coll. Qed.
Print Assumptions C04_take_wrong_coll.

Theorem C04_take_wrong_count :
  forall vals : list (option json), not_usize (arg vals 1) -> pure_sem F_take vals = Some None.
Proof. exact take_wrong_count. Qed.
Print Assumptions C04_take_wrong_count.

Theorem C04_sub_wrong_start :
  forall vals : list (option json), not_usize (arg vals 1) -> pure_sem F_sub vals = Some None.
Proof. exact sub_wrong_start. Qed.
Print Assumptions C04_sub_wrong_start.

Theorem C04_get_wrong_container :
  forall vals : list (option json),
    not_arr (arg vals 0) -> not_obj (arg vals 0) -> pure_sem F_get vals = Some None.
Proof. exact get_wrong_container. Qed.
Print Assumptions C04_get_wrong_container.

Theorem C04_size_wrong_type :
  forall vals : list (option json), not_coll (arg vals 0) -> pure_sem F_size vals = Some None.
Proof. exact size_wrong_type. Qed.
Print Assumptions C04_size_wrong_type.

Theorem C04_join_sep :
  forall (ss : list str) (sep : str),
    pure_sem F_join [Some (JArr (map JStr ss)); Some (JStr sep)] = Some (Some (JStr (intercalate sep ss))).
Proof. exact join_sep. Qed.
Print Assumptions C04_join_sep.

Theorem C04_join_default :
  forall ss : list str,
    pure_sem F_join [Some (JArr (map JStr ss))] = Some (Some (JStr (intercalate comma_space ss))).
Proof. exact join_default. Qed.
Print Assumptions C04_join_default.

Theorem C04_join_bad_sep_nothing :
  forall a sepv : option json, not_str sepv -> pure_sem F_join [a; sepv] = Some None.
Proof. exact join_bad_sep_nothing. Qed.
Print Assumptions C04_join_bad_sep_nothing.

Theorem C04_push_spec :
  forall (l : list json) (rest : list (option json)),
    pure_sem F_push (Some (JArr l) :: rest) = Some (Some (JArr (l ++ present rest))).
Proof. exact push_spec. Qed.
Print Assumptions C04_push_spec.

Theorem C04_pop_spec :
  forall l : list json, pure_sem F_pop [Some (JArr l)] = Some (Some (JArr (removelast l))).
Proof. exact pop_spec. Qed.
Print Assumptions C04_pop_spec.

Theorem C04_reverese_spec :
  forall l : list json, pure_sem F_reverese [Some (JArr l)] = Some (Some (JArr (rev l))).
Proof. exact reverese_spec. Qed.
Print Assumptions C04_reverese_spec.

Theorem C04_range_spec :
  forall n : N,
    pure_sem F_range [Some (JNum (NPos n))] =
    Some (Some (JArr (map (fun i : nat => JNum (NPos (N.of_nat i))) (seq 0 (N.to_nat n))))).
Proof. exact range_spec. Qed.
Print Assumptions C04_range_spec.

(* order: sort is a permutation, sorted under the total order *)
Theorem C04_sort_perm :
  forall l : list json,
    exists r : list json,
      pure_sem F_sort [Some (JArr l)] = Some (Some (JArr r)) /\ Permutation.Permutation r l.
Proof. exact sort_perm. Qed.
Print Assumptions C04_sort_perm.

Theorem C04_sort_sorted :
  forall l : list json,
    exists r : list json,
      pure_sem F_sort [Some (JArr l)] = Some (Some (JArr r)) /\
      Sorted.Sorted (fun a b : json => jcmpS a b <> Gt) r.
Proof. exact sort_sorted. Qed.
Print Assumptions C04_sort_sorted.

(* member order is preserved *)
Theorem C04_keys_spec :
  forall m : list (str * json),
    pure_sem F_keys [Some (JObj m)] = Some (Some (JArr (map JStr (map fst m)))).
Proof. exact keys_spec. Qed.
Print Assumptions C04_keys_spec.

Theorem C04_values_spec :
  forall m : list (str * json), pure_sem F_values [Some (JObj m)] = Some (Some (JArr (map snd m))).
Proof. exact values_spec. Qed.
Print Assumptions C04_values_spec.

Theorem C04_put_spec :
  forall (m : list (str * json)) (k : str) (v : json),
    pure_sem F_put [Some (JObj m); Some (JStr k); Some v] = Some (Some (JObj (obj_insert k v m))).
Proof. exact put_spec. Qed.
Print Assumptions C04_put_spec.

Theorem C04_head_spec :
  forall (s : str) (n : N),
    pure_sem F_head [Some (JStr s); Some (JNum (NPos n))] = Some (Some (JStr (firstn (N.to_nat n) s))).
Proof. exact head_spec. Qed.
Print Assumptions C04_head_spec.

Theorem C04_tail_spec :
  forall (s : str) (n : N),
    pure_sem F_tail [Some (JStr s); Some (JNum (NPos n))] =
    Some (Some (JStr (if length s <? N.to_nat n then s else skipn (N.to_nat n) s))).
Proof. exact tail_spec. Qed.
Print Assumptions C04_tail_spec.

Theorem C04_split_join :
  forall (s : str) (p : list N), p <> [] -> intercalate p (split_str s p) = s.
Proof. exact split_join. Qed.
Print Assumptions C04_split_join.

Theorem C04_cmp_functions :
  forall a b : json,
    pure_sem F_lt [Some a; Some b] =
    Some (Some (JBool match jcmpS a b with
                      | Lt => true
                      | _ => false
                      end)) /\
    pure_sem F_lte [Some a; Some b] =
    Some (Some (JBool match jcmpS a b with
                      | Gt => false
                      | _ => true
                      end)) /\
    pure_sem F_gt [Some a; Some b] =
    Some (Some (JBool match jcmpS a b with
                      | Gt => true
                      | _ => false
                      end)) /\
    pure_sem F_gte [Some a; Some b] =
    Some (Some (JBool match jcmpS a b with
                      | Lt => false
                      | _ => true
                      end)).
Proof. exact cmp_functions. Qed.
Print Assumptions C04_cmp_functions.

Theorem C04_eq_spec :
  forall a b : json, pure_sem F_eq [Some a; Some b] = Some (Some (JBool (jeqb a b))).
Proof. exact eq_spec. Qed.
Print Assumptions C04_eq_spec.

(* binders, for every opaque oracle and every fuel: element order preserved *)
Theorem C04_map_spec :
  forall (opaque : fn -> list (option json) -> option json) (mf : nat) (a b : expr)
      (c : ctx) (l : list json) (r : json -> option json),
    eval opaque mf a c = Val (Some (JArr l)) ->
    (forall x : json, In x l -> eval opaque mf b (with_input c x) = Val (r x)) ->
    eval opaque mf (ECall F_map [a; b]) c =
    Val (Some (JArr (flat_map (fun x : json => opt_list (r x)) l))).
Proof. exact map_spec. Qed.
Print Assumptions C04_map_spec.

Theorem C04_filter_spec :
  forall (opaque : fn -> list (option json) -> option json) (mf : nat) (a b : expr)
      (c : ctx) (l : list json) (r : json -> option json),
    eval opaque mf a c = Val (Some (JArr l)) ->
    (forall x : json, In x l -> eval opaque mf b (with_input c x) = Val (r x)) ->
    eval opaque mf (ECall F_filter [a; b]) c =
    Val (Some (JArr (filter (fun x : json => is_jtrue (r x)) l))).
Proof. exact filter_spec. Qed.
Print Assumptions C04_filter_spec.

Theorem C04_fold_spec :
  forall (opaque : fn -> list (option json) -> option json) (mf : nat) (a i g : expr)
      (c : ctx) (l : list json) (init : option json) (step : option json -> json -> nat -> option json),
    eval opaque mf a c = Val (Some (JArr l)) ->
    eval opaque mf i c = Val init ->
    (forall (cur : option json) (v : json) (idx : nat),
     eval opaque mf g (with_input c (fold_input cur v idx)) = Val (step cur v idx)) ->
    eval opaque mf (ECall F_fold [a; i; g]) c =
    Val
      (fold_left (fun (cur : option json) (p : nat * json) => step cur (snd p) (fst p))
         (combine (seq 0 (length l)) l) init).
Proof. exact fold_spec. Qed.
Print Assumptions C04_fold_spec.

Theorem C04_group_by_spec :
  forall (opaque : fn -> list (option json) -> option json) (k : json -> str)
      (mf : nat) (a b : expr) (c : ctx) (l : list json),
    eval opaque mf a c = Val (Some (JArr l)) ->
    (forall x : json, In x l -> eval opaque mf b (with_input c x) = Val (Some (JStr (k x)))) ->
    eval opaque mf (ECall F_group_by [a; b]) c =
    Val
      (Some
         (JObj
            (map (fun key : str => (key, JArr (filter (fun x : json => str_eqb (k x) key) l)))
               (first_seen (map k l))))).
Proof. exact group_by_spec. Qed.
Print Assumptions C04_group_by_spec.

(* numeric results with zero fractional part are integers *)
Theorem C04_integral_is_integer :
  forall (bits : N) (z : Z),
    f_integral bits = Some z ->
    (- p63 < z < p64)%Z -> num_of_f bits = (if f_is_neg_strict bits then NNeg z else NPos (Z.to_N z)).
Proof. exact num_of_f_integral. Qed.
Print Assumptions C04_integral_is_integer.

Theorem C04_numeric_results_normalised :
  forall (f : fn) (vals : list (option json)),
    In f [F_add; F_sub_; F_mul; F_div; F_rem; F_abs; F_floor; F_ceil; F_round] ->
    (exists bits : N, pure_sem f vals = Some (Some (JNum (num_of_f bits)))) \/ pure_sem f vals = Some None.
Proof. exact numeric_results_normalised. Qed.
Print Assumptions C04_numeric_results_normalised.

(* every law about argument values transports to evaluation of the call *)
Theorem C04_eval_pure :
  forall (opaque : fn -> list (option json) -> option json) (mf : nat) (f : fn)
      (args : list expr) (c : ctx) (vals : list (option json)) (r : option json),
    is_binder f = false ->
    Forall2 (fun (a : expr) (v : option json) => eval opaque mf a c = Val v) args vals ->
    pure_sem f vals = Some r -> eval opaque mf (ECall f args) c = Val r.
Proof. exact eval_pure. Qed.
Print Assumptions C04_eval_pure.
