(* C08 — --skip S --take T pick exactly rows S..S+T-1 of the unlimited result. *)
From Jawk Require Import Base Json Ctx Printer Chain PipelineSpec OrderProofs SorterProofs ChainProofs.

(* the limiter stage is firstn T . skipn S, whatever follows it *)
Theorem C08_limiter : forall (E : Type) (get : E -> ctx E -> option json) sk tk (post : list (stage E)) ss cs,
  nb E post = true ->
  run E get (SLimit sk tk :: post) (StLimit 0 0 :: ss) cs = run E get post ss (limit_spec E sk tk cs).
Proof. intros E get sk tk post ss cs H. exact (run_limit E get sk tk post ss cs H). Qed.
Print Assumptions C08_limiter.

(* with a limiter anywhere in a well-shaped pipeline, the rows are rows S..S+T-1 of what the stages before it
   produce without it (sorting capacities removed), passed through the stages after it (group/merge) *)
Theorem C08_slice : forall (E : Type) (get : E -> ctx E -> option json) (pre post : list (stage E)) sk tk cs,
  wfp E (pre ++ SLimit sk tk :: post) -> wfp E (map (uncap E) pre) ->
  run E get (pre ++ SLimit sk tk :: post) (map (init_state E) (pre ++ SLimit sk tk :: post)) cs =
  spec E get post (limit_spec E sk tk
     (run E get (map (uncap E) pre) (map (init_state E) (map (uncap E) pre)) cs)).
Proof.
  intros E get pre post sk tk cs H1 H2.
  rewrite (run_spec E get (jcmp_refl show) (jcmp_antisym show) (jcmp_trans_le show) (jcmp_eq_l show) _ H1).
  rewrite (run_spec E get (jcmp_refl show) (jcmp_antisym show) (jcmp_trans_le show) (jcmp_eq_l show) _ H2).
  rewrite spec_app, spec_uncap. reflexivity.
Qed.
Print Assumptions C08_slice.

(* the top-N shortcut of the sorter is invisible: with capacity n the buffer flushes to the first n rows of
   the full stable sort, ties included *)
Theorem C08_topN_invisible : forall (E : Type) (get : E -> ctx E -> option json) k dir n cs,
  flush E dir (snd (fold_left (sort_step E get k dir) cs (Some n, []))) =
  firstn (N.to_nat n) (sort_spec E get k dir cs).
Proof.
  intros E get.
  exact (sorter_spec_cap E get (jcmp_refl show) (jcmp_antisym show) (jcmp_trans_le show) (jcmp_eq_l show)).
Qed.
Print Assumptions C08_topN_invisible.

(* a capped sorter followed by the limiter behaves like the uncapped sorter followed by the limiter *)
Theorem C08_sort_take : forall (E : Type) (get : E -> ctx E -> option json) k dir n sk lim post ss cs,
  nb E post = true -> (sk + lim <= n)%N ->
  run E get (SSort k dir (Some n) :: SLimit sk (Some lim) :: post) (StSort (Some n) [] :: StLimit 0 0 :: ss) cs =
  run E get (SLimit sk (Some lim) :: post) (StLimit 0 0 :: ss) (sort_spec E get k dir cs).
Proof.
  intros E get.
  exact (run_sort_cap E get (jcmp_refl show) (jcmp_antisym show) (jcmp_trans_le show) (jcmp_eq_l show)).
Qed.
Print Assumptions C08_sort_take.

(* non-vacuity: a pipeline of the shape jawk builds for --sort-by k2 --sort-by k1 --skip 1 --take 2 --merge *)
Example C08_shape_inhabited : forall (E : Type) (k1 k2 : E),
  wfp E [SSort k2 Asc None; SSort k1 Desc (Some 3%N); SLimit 1 (Some 2%N); SMerge].
Proof.
  intros E k1 k2. cbn. repeat split; try (left; reflexivity).
  - right. eauto.
  - exists 1%N, 2%N, [SMerge]. repeat split. reflexivity. 
Qed.

(* the whole program: two runs of go that differ only in --skip/--take (one input without read errors, --on-error=ignore, any configuration that builds) *)
From Jawk Require Import Base Json Reader Ctx Printer Expr Chain PipelineSpec Go ProgramProofs.

(* without a collector: the rows written with --skip S --take T are exactly rows S..S+T-1 of the rows written without them (the run without them builds, starts with the same header and succeeds) *)
Theorem C08_program_slice :
  forall (cf : cfg) (fname : option str) (evs : list ev) (b : bool) (p : printer)
      (sts : list stage) (hdr : list byte),
    c_on_error cf = OnIgnore ->
    Forall (fun e : ev => e <> EErr) evs ->
    build_pipeline cf = Some (p, sts) ->
    start_output p (titles expr sts []) (c_rowsep cf) = Some hdr ->
    (forall t : N, c_take cf = Some t -> (c_skip cf + t <= 18446744073709551615)%N) ->
    c_group cf = None ->
    exists sts0 : list stage,
      build_pipeline (no_limit cf) = Some (p, sts0) /\
      start_output p (titles expr sts0 []) (c_rowsep (no_limit cf)) = Some hdr /\
      (let cs := fst (fst (ctxs_of_input cf fname evs)) in
       let nt := length (titles expr sts []) in
       let rows0 := spec expr get sts0 cs in
       spec expr get sts cs = slice (c_skip cf) (c_take cf) rows0 /\
       g_result (go (no_limit cf) [(fname, evs)] b) = GOk /\
       g_events (go (no_limit cf) [(fname, evs)] b) = hdr_events hdr ++ emit cf p nt rows0 /\
       g_result (go cf [(fname, evs)] b) = GOk /\
       g_events (go cf [(fname, evs)] b) =
       hdr_events hdr ++ slice (c_skip cf) (c_take cf) (emit cf p nt rows0)).
Proof. exact program_slice. Qed.
Print Assumptions C08_program_slice.

(* with --group-by/--merge: the single collection is built from that slice of the ungrouped, unlimited rows *)
Theorem C08_program_slice_collect :
  forall (cf : cfg) (g : option (list byte)) (fname : option str) (evs : list ev)
      (b : bool) (p : printer) (sts : list stage) (hdr : list byte),
    c_group cf = Some g ->
    c_on_error cf = OnIgnore ->
    Forall (fun e : ev => e <> EErr) evs ->
    build_pipeline cf = Some (p, sts) ->
    start_output p (titles expr sts []) (c_rowsep cf) = Some hdr ->
    (forall t : N, c_take cf = Some t -> (c_skip cf + t <= 18446744073709551615)%N) ->
    exists (pre00 : list stage) (o : option expr),
      group_key g = Some o /\
      hdr = [] /\
      build_pipeline (no_group (no_limit cf)) = Some (p, pre00) /\
      start_output p (titles expr pre00 []) (c_rowsep (no_group (no_limit cf))) = Some [] /\
      (let cs := fst (fst (ctxs_of_input cf fname evs)) in
       let rows00 := spec expr get pre00 cs in
       g_result (go (no_group (no_limit cf)) [(fname, evs)] b) = GOk /\
       g_events (go (no_group (no_limit cf)) [(fname, evs)] b) =
       emit cf p (length (titles expr pre00 [])) rows00 /\
       g_result (go cf [(fname, evs)] b) = GOk /\
       g_events (go cf [(fname, evs)] b) =
       [OOut
          (print_row p 0 (c_rowsep cf)
             (new_with_no_context (collection o (slice (c_skip cf) (c_take cf) rows00))))]).
Proof. exact program_slice_collect. Qed.
Print Assumptions C08_program_slice_collect.

Theorem C08_program_limit :
  forall (cf : cfg) (fname : option str) (evs : list ev) (b : bool) (p : printer)
      (sts : list stage) (hdr : list byte),
    c_on_error cf = OnIgnore ->
    Forall (fun e : ev => e <> EErr) evs ->
    build_pipeline cf = Some (p, sts) ->
    start_output p (titles expr sts []) (c_rowsep cf) = Some hdr ->
    (forall t : N, c_take cf = Some t -> (c_skip cf + t <= 18446744073709551615)%N) ->
    exists pre0 post : list stage,
      build_pipeline (no_limit cf) = Some (p, pre0 ++ post) /\
      start_output p (titles expr (pre0 ++ post) []) (c_rowsep (no_limit cf)) = Some hdr /\
      titles expr (pre0 ++ post) [] = titles expr sts [] /\
      build_kind cf KGroup = Some post /\
      (let cs := fst (fst (ctxs_of_input cf fname evs)) in
       let nt := length (titles expr sts []) in
       let rows0 := spec expr get pre0 cs in
       spec expr get sts cs = spec expr get post (slice (c_skip cf) (c_take cf) rows0) /\
       g_result (go (no_limit cf) [(fname, evs)] b) = GOk /\
       g_events (go (no_limit cf) [(fname, evs)] b) =
       hdr_events hdr ++ emit cf p nt (spec expr get post rows0) /\
       g_result (go cf [(fname, evs)] b) = GOk /\
       g_events (go cf [(fname, evs)] b) =
       hdr_events hdr ++ emit cf p nt (spec expr get post (slice (c_skip cf) (c_take cf) rows0))).
Proof. exact program_limit. Qed.
Print Assumptions C08_program_limit.

(* several inputs (file arguments): the whole-program slice theorems for ANY list of inputs *)
From Jawk Require Import Base F64 Json Reader JsonParser Ctx Printer Fn Expr Chain ExprParser Go PipelineSpec OrderProofs SorterProofs ChainProofs GroupUniqProofs GoProofs BuildProofs FilesProofs ProgramProofs ProgramFilesProofs.

(* the limited run and the unlimited run over the same list of inputs: same header, the rows behind the limiter are built from rows S..S+T-1 of the rows in front of it *)
Theorem C08_program_limit_files :
  forall (cf : cfg) (ins : list (option str * list ev)) (b : bool) (p : printer)
      (sts : list stage) (hdr : list byte),
    c_on_error cf = OnIgnore ->
    Forall (fun i : option str * list ev => Forall (fun e : ev => e <> EErr) (snd i)) ins ->
    build_pipeline cf = Some (p, sts) ->
    start_output p (titles expr sts []) (c_rowsep cf) = Some hdr ->
    (forall t : N, c_take cf = Some t -> (c_skip cf + t <= 18446744073709551615)%N) ->
    exists pre0 post : list stage,
      build_pipeline (no_limit cf) = Some (p, pre0 ++ post) /\
      start_output p (titles expr (pre0 ++ post) []) (c_rowsep (no_limit cf)) = Some hdr /\
      titles expr (pre0 ++ post) [] = titles expr sts [] /\
      build_kind cf KGroup = Some post /\
      (let cs := fst (ctxs_of_inputs cf ins 0) in
       let nt := length (titles expr sts []) in
       let rows0 := spec expr get pre0 cs in
       spec expr get sts cs = spec expr get post (slice (c_skip cf) (c_take cf) rows0) /\
       g_result (go (no_limit cf) ins b) = GOk /\
       g_events (go (no_limit cf) ins b) = hdr_events hdr ++ emit cf p nt (spec expr get post rows0) /\
       g_result (go cf ins b) = GOk /\
       g_events (go cf ins b) =
       hdr_events hdr ++ emit cf p nt (spec expr get post (slice (c_skip cf) (c_take cf) rows0))).
Proof. exact program_limit_files. Qed.
Print Assumptions C08_program_limit_files.

(* without a collector: the rows of the limited run are rows S..S+T-1 of the rows of the unlimited run, over any list of inputs *)
Theorem C08_program_slice_files :
  forall (cf : cfg) (ins : list (option str * list ev)) (b : bool) (p : printer)
      (sts : list stage) (hdr : list byte),
    c_on_error cf = OnIgnore ->
    Forall (fun i : option str * list ev => Forall (fun e : ev => e <> EErr) (snd i)) ins ->
    build_pipeline cf = Some (p, sts) ->
    start_output p (titles expr sts []) (c_rowsep cf) = Some hdr ->
    (forall t : N, c_take cf = Some t -> (c_skip cf + t <= 18446744073709551615)%N) ->
    c_group cf = None ->
    exists sts0 : list stage,
      build_pipeline (no_limit cf) = Some (p, sts0) /\
      start_output p (titles expr sts0 []) (c_rowsep (no_limit cf)) = Some hdr /\
      (let cs := fst (ctxs_of_inputs cf ins 0) in
       let nt := length (titles expr sts []) in
       let rows0 := spec expr get sts0 cs in
       spec expr get sts cs = slice (c_skip cf) (c_take cf) rows0 /\
       g_result (go (no_limit cf) ins b) = GOk /\
       g_events (go (no_limit cf) ins b) = hdr_events hdr ++ emit cf p nt rows0 /\
       g_result (go cf ins b) = GOk /\
       g_events (go cf ins b) = hdr_events hdr ++ slice (c_skip cf) (c_take cf) (emit cf p nt rows0)).
Proof. exact program_slice_files. Qed.
Print Assumptions C08_program_slice_files.

(* with a collector: the one collection is built from that slice of the ungrouped unlimited rows, over any list of inputs *)
Theorem C08_program_slice_collect_files :
  forall (cf : cfg) (g : option (list byte)) (ins : list (option str * list ev))
      (b : bool) (p : printer) (sts : list stage) (hdr : list byte),
    c_group cf = Some g ->
    c_on_error cf = OnIgnore ->
    Forall (fun i : option str * list ev => Forall (fun e : ev => e <> EErr) (snd i)) ins ->
    build_pipeline cf = Some (p, sts) ->
    start_output p (titles expr sts []) (c_rowsep cf) = Some hdr ->
    (forall t : N, c_take cf = Some t -> (c_skip cf + t <= 18446744073709551615)%N) ->
    exists (pre00 : list stage) (o : option expr),
      group_key g = Some o /\
      hdr = [] /\
      build_pipeline (no_group (no_limit cf)) = Some (p, pre00) /\
      start_output p (titles expr pre00 []) (c_rowsep (no_group (no_limit cf))) = Some [] /\
      (let cs := fst (ctxs_of_inputs cf ins 0) in
       let rows00 := spec expr get pre00 cs in
       g_result (go (no_group (no_limit cf)) ins b) = GOk /\
       g_events (go (no_group (no_limit cf)) ins b) = emit cf p (length (titles expr pre00 [])) rows00 /\
       g_result (go cf ins b) = GOk /\
       g_events (go cf ins b) =
       [OOut
          (print_row p 0 (c_rowsep cf)
             (new_with_no_context (collection o (slice (c_skip cf) (c_take cf) rows00))))]).
Proof. exact program_slice_collect_files. Qed.
Print Assumptions C08_program_slice_collect_files.
