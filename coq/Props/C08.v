(* C08 — --skip S --take T pick exactly rows S..S+T-1 of the unlimited result. *)
From Jawk Require Import Base Json Ctx Printer Chain PipelineSpec OrderProofs SorterProofs ChainProofs.

(* the limiter stage is firstn T . skipn S, whatever follows it *)
Theorem C08_limiter : forall (E : Type) (get : E -> ctx E -> option json) sk tk (post : list (stage E)) ss cs,
  nb E post = true ->
  run E get (SLimit sk tk :: post) (StLimit 0 0 :: ss) cs = run E get post ss (limit_spec E sk tk cs).
Proof. intros E get sk tk post ss cs H. exact (run_limit E get sk tk post ss cs H). Qed.
Print Assumptions C08_limiter.

(* with a limiter anywhere in a well-shaped pipeline, the rows are rows S..S+T-1 of what the stages before it
   produce without it (sorting capacities removed), passed through the stages after it (group/merge) *)
Theorem C08_slice : forall (E : Type) (get : E -> ctx E -> option json) (pre post : list (stage E)) sk tk cs,
  wfp E (pre ++ SLimit sk tk :: post) -> wfp E (map (uncap E) pre) ->
  run E get (pre ++ SLimit sk tk :: post) (map (init_state E) (pre ++ SLimit sk tk :: post)) cs =
  spec E get post (limit_spec E sk tk
     (run E get (map (uncap E) pre) (map (init_state E) (map (uncap E) pre)) cs)).
Proof.
  intros E get pre post sk tk cs H1 H2.
  rewrite (run_spec E get (jcmp_refl show) (jcmp_antisym show) (jcmp_trans_le show) (jcmp_eq_l show) _ H1).
  rewrite (run_spec E get (jcmp_refl show) (jcmp_antisym show) (jcmp_trans_le show) (jcmp_eq_l show) _ H2).
  rewrite spec_app, spec_uncap. reflexivity.
Qed.
Print Assumptions C08_slice.

(* the top-N shortcut of the sorter is invisible: with capacity n the buffer flushes to the first n rows of
   the full stable sort, ties included *)
Theorem C08_topN_invisible : forall (E : Type) (get : E -> ctx E -> option json) k dir n cs,
  flush E dir (snd (fold_left (sort_step E get k dir) cs (Some n, []))) =
  firstn (N.to_nat n) (sort_spec E get k dir cs).
Proof.
  intros E get.
  exact (sorter_spec_cap E get (jcmp_refl show) (jcmp_antisym show) (jcmp_trans_le show) (jcmp_eq_l show)).
Qed.
Print Assumptions C08_topN_invisible.

(* a capped sorter followed by the limiter behaves like the uncapped sorter followed by the limiter *)
Theorem C08_sort_take : forall (E : Type) (get : E -> ctx E -> option json) k dir n sk lim post ss cs,
  nb E post = true -> (sk + lim <= n)%N ->
  run E get (SSort k dir (Some n) :: SLimit sk (Some lim) :: post) (StSort (Some n) [] :: StLimit 0 0 :: ss) cs =
  run E get (SLimit sk (Some lim) :: post) (StLimit 0 0 :: ss) (sort_spec E get k dir cs).
Proof.
  intros E get.
  exact (run_sort_cap E get (jcmp_refl show) (jcmp_antisym show) (jcmp_trans_le show) (jcmp_eq_l show)).
Qed.
Print Assumptions C08_sort_take.

(* non-vacuity: a pipeline of the shape jawk builds for --sort-by k2 --sort-by k1 --skip 1 --take 2 --merge *)
Example C08_shape_inhabited : forall (E : Type) (k1 k2 : E),
  wfp E [SSort k2 Asc None; SSort k1 Desc (Some 3%N); SLimit 1 (Some 2%N); SMerge].
Proof.
  intros E k1 k2. cbn. repeat split; try (left; reflexivity).
  - right. eauto.
  - exists 1%N, 2%N, [SMerge]. repeat split. reflexivity. 
Qed.
