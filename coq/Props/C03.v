(* C03 — the pipeline is the documented stage composition in the documented order.
   Only statements, closed by `exact`, each followed by its assumptions. *)
From Jawk Require Import Base Json Ctx Printer Chain PipelineSpec OrderProofs SorterProofs ChainProofs.

(* for every expression semantics `get`, every well-shaped pipeline and every input sequence, running the
   chain of stage processes (start/process/complete with Break) equals applying the documented stages as
   pure list transformations, in order *)
Theorem C03_refines : forall (E : Type) (get : E -> ctx E -> option json) (sts : list (stage E)),
  wfp E sts -> forall cs : list (ctx E),
  run E get sts (map (init_state E) sts) cs = spec E get sts cs.
Proof.
  intros E get.
  exact (run_spec E get (jcmp_refl show) (jcmp_antisym show) (jcmp_trans_le show) (jcmp_eq_l show)).
Qed.
Print Assumptions C03_refines.

(* the specification composes stage by stage: the order of the list is the order of application *)
Theorem C03_spec_compose : forall (E : Type) (get : E -> ctx E -> option json) (a b : list (stage E)) cs,
  spec E get (a ++ b) cs = spec E get b (spec E get a cs).
Proof. exact spec_app. Qed.
Print Assumptions C03_spec_compose.

(* an absent option adds no stage: the empty pipeline is the identity *)
Theorem C03_absent_identity : forall (E : Type) (get : E -> ctx E -> option json) cs, spec E get [] cs = cs.
Proof. reflexivity. Qed.
Print Assumptions C03_absent_identity.

(* the sorting capacity (an optimisation used with --take) is not part of the specification *)
Theorem C03_caps_invisible : forall (E : Type) (get : E -> ctx E -> option json) sts cs,
  spec E get (map (uncap E) sts) cs = spec E get sts cs.
Proof. exact spec_uncap. Qed.
Print Assumptions C03_caps_invisible.
