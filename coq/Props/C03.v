(* C03 — the pipeline is the documented stage composition in the documented order.
   Only statements, closed by `exact`, each followed by its assumptions. *)
From Jawk Require Import Base Json Reader Ctx Printer Expr Chain PipelineSpec OrderProofs SorterProofs ChainProofs Go GoProofs BuildProofs.

(* for every expression semantics `get`, every well-shaped pipeline and every input sequence, running the
   chain of stage processes (start/process/complete with Break) equals applying the documented stages as
   pure list transformations, in order *)
Theorem C03_refines : forall (E : Type) (get : E -> Ctx.ctx E -> option json) (sts : list (Chain.stage E)),
  wfp E sts -> forall cs : list (Ctx.ctx E),
  run E get sts (map (init_state E) sts) cs = spec E get sts cs.
Proof.
  intros E get.
  exact (run_spec E get (jcmp_refl show) (jcmp_antisym show) (jcmp_trans_le show) (jcmp_eq_l show)).
Qed.
Print Assumptions C03_refines.

(* the specification composes stage by stage: the order of the list is the order of application *)
Theorem C03_spec_compose : forall (E : Type) (get : E -> Ctx.ctx E -> option json) (a b : list (Chain.stage E)) cs,
  spec E get (a ++ b) cs = spec E get b (spec E get a cs).
Proof. exact spec_app. Qed.
Print Assumptions C03_spec_compose.

(* an absent option adds no stage: the empty pipeline is the identity *)
Theorem C03_absent_identity : forall (E : Type) (get : E -> Ctx.ctx E -> option json) cs, spec E get [] cs = cs.
Proof. reflexivity. Qed.
Print Assumptions C03_absent_identity.

(* the sorting capacity (an optimisation used with --take) is not part of the specification *)
Theorem C03_caps_invisible : forall (E : Type) (get : E -> Ctx.ctx E -> option json) sts cs,
  spec E get (map (uncap E) sts) cs = spec E get sts cs.
Proof. exact spec_uncap. Qed.
Print Assumptions C03_caps_invisible.

(* the whole program on one input under --on-error=ignore: the rows written are the rows of `run` over the
   contexts of the parsed values, after the header; combined with C03_refines, they are the rows of the
   documented composition *)
Theorem C03_go : forall (cf : cfg) (fname : option str) (evs : list ev) (b : bool) p sts hdr,
  c_on_error cf = OnIgnore -> Forall (fun e => e <> EErr) evs ->
  build_pipeline cf = Some (p, sts) ->
  start_output p (titles expr sts []) (c_rowsep cf) = Some hdr ->
  wfp expr sts ->
  let cs := fst (fst (ctxs_of_input cf fname evs)) in
  g_result (go cf [(fname, evs)] b) = GOk /\
  g_events (go cf [(fname, evs)] b) =
    (match hdr with [] => [] | _ => [OOut hdr] end) ++
    emit cf p (length (titles expr sts [])) (spec expr get sts cs).
Proof.
  intros cf fname evs b p sts hdr H1 H2 H3 H4 Hw cs.
  destruct (go_run_ignore cf fname evs b p sts hdr H1 H2 H3 H4) as [R Ev]. split; [exact R|].
  rewrite Ev. unfold cs.
  rewrite (run_spec expr get (jcmp_refl show) (jcmp_antisym show) (jcmp_trans_le show) (jcmp_eq_l show) sts Hw).
  reflexivity.
Qed.
Print Assumptions C03_go.

(* every pipeline Master::go builds has the shape the refinement theorem needs *)
Theorem C03_build_shape : forall c p sts,
  build_pipeline c = Some (p, sts) ->
  (forall t, c_take c = Some t -> (c_skip c + t <= 18446744073709551615)%N) ->
  wfp expr sts.
Proof. exact build_wfp. Qed.
Print Assumptions C03_build_shape.

(* end to end: for every configuration that builds, on one input without read errors under --on-error=ignore,
   the rows written are the header followed by the rows of the documented composition of stages applied to
   the contexts of the parsed values *)
Theorem C03_program : forall (cf : cfg) (fname : option str) (evs : list ev) (b : bool) p sts hdr,
  c_on_error cf = OnIgnore -> Forall (fun e => e <> EErr) evs ->
  build_pipeline cf = Some (p, sts) ->
  start_output p (titles expr sts []) (c_rowsep cf) = Some hdr ->
  (forall t, c_take cf = Some t -> (c_skip cf + t <= 18446744073709551615)%N) ->
  let cs := fst (fst (ctxs_of_input cf fname evs)) in
  g_result (go cf [(fname, evs)] b) = GOk /\
  g_events (go cf [(fname, evs)] b) =
    (match hdr with [] => [] | _ => [OOut hdr] end) ++
    emit cf p (length (titles expr sts [])) (spec expr get sts cs).
Proof.
  intros cf fname evs b p sts hdr H1 H2 H3 H4 Hb.
  exact (C03_go cf fname evs b p sts hdr H1 H2 H3 H4 (build_wfp cf p sts H3 Hb)).
Qed.
Print Assumptions C03_program.
