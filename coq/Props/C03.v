(* C03 — the pipeline is the documented stage composition in the documented order.
   Only statements, closed by `exact`, each followed by its assumptions. *)
From Jawk Require Import Base Json Reader Ctx Printer Expr Chain PipelineSpec OrderProofs SorterProofs ChainProofs Go GoProofs BuildProofs.

(* for every expression semantics `get`, every well-shaped pipeline and every input sequence, running the
   chain of stage processes (start/process/complete with Break) equals applying the documented stages as
   pure list transformations, in order *)
Theorem C03_refines : forall (E : Type) (get : E -> Ctx.ctx E -> option json) (sts : list (Chain.stage E)),
  wfp E sts -> forall cs : list (Ctx.ctx E),
  run E get sts (map (init_state E) sts) cs = spec E get sts cs.
Proof.
  intros E get.
  exact (run_spec E get (jcmp_refl show) (jcmp_antisym show) (jcmp_trans_le show) (jcmp_eq_l show)).
Qed.
Print Assumptions C03_refines.

(* the specification composes stage by stage: the order of the list is the order of application *)
Theorem C03_spec_compose : forall (E : Type) (get : E -> Ctx.ctx E -> option json) (a b : list (Chain.stage E)) cs,
  spec E get (a ++ b) cs = spec E get b (spec E get a cs).
Proof. exact spec_app. Qed.
Print Assumptions C03_spec_compose.

(* an absent option adds no stage: the empty pipeline is the identity *)
Theorem C03_absent_identity : forall (E : Type) (get : E -> Ctx.ctx E -> option json) cs, spec E get [] cs = cs.
Proof. reflexivity. Qed.
Print Assumptions C03_absent_identity.

(* the sorting capacity (an optimisation used with --take) is not part of the specification *)
Theorem C03_caps_invisible : forall (E : Type) (get : E -> Ctx.ctx E -> option json) sts cs,
  spec E get (map (uncap E) sts) cs = spec E get sts cs.
Proof. exact spec_uncap. Qed.
Print Assumptions C03_caps_invisible.

(* the whole program on one input under --on-error=ignore: the rows written are the rows of `run` over the
   contexts of the parsed values, after the header; combined with C03_refines, they are the rows of the
   documented composition *)
Theorem C03_go : forall (cf : cfg) (fname : option str) (evs : list ev) (b : bool) p sts hdr,
  c_on_error cf = OnIgnore -> Forall (fun e => e <> EErr) evs ->
  build_pipeline cf = Some (p, sts) ->
  start_output p (titles expr sts []) (c_rowsep cf) = Some hdr ->
  wfp expr sts ->
  let cs := fst (fst (ctxs_of_input cf fname evs)) in
  g_result (go cf [(fname, evs)] b) = GOk /\
  g_events (go cf [(fname, evs)] b) =
    (match hdr with [] => [] | _ => [OOut hdr] end) ++
    emit cf p (length (titles expr sts [])) (spec expr get sts cs).
Proof.
  intros cf fname evs b p sts hdr H1 H2 H3 H4 Hw cs.
  destruct (go_run_ignore cf fname evs b p sts hdr H1 H2 H3 H4) as [R Ev]. split; [exact R|].
  rewrite Ev. unfold cs.
  rewrite (run_spec expr get (jcmp_refl show) (jcmp_antisym show) (jcmp_trans_le show) (jcmp_eq_l show) sts Hw).
  reflexivity.
Qed.
Print Assumptions C03_go.

(* every pipeline Master::go builds has the shape the refinement theorem needs *)
Theorem C03_build_shape : forall c p sts,
  build_pipeline c = Some (p, sts) ->
  (forall t, c_take c = Some t -> (c_skip c + t <= 18446744073709551615)%N) ->
  wfp expr sts.
Proof. exact build_wfp. Qed.
Print Assumptions C03_build_shape.

(* end to end: for every configuration that builds, on one input without read errors under --on-error=ignore,
   the rows written are the header followed by the rows of the documented composition of stages applied to
   the contexts of the parsed values *)
Theorem C03_program : forall (cf : cfg) (fname : option str) (evs : list ev) (b : bool) p sts hdr,
  c_on_error cf = OnIgnore -> Forall (fun e => e <> EErr) evs ->
  build_pipeline cf = Some (p, sts) ->
  start_output p (titles expr sts []) (c_rowsep cf) = Some hdr ->
  (forall t, c_take cf = Some t -> (c_skip cf + t <= 18446744073709551615)%N) ->
  let cs := fst (fst (ctxs_of_input cf fname evs)) in
  g_result (go cf [(fname, evs)] b) = GOk /\
  g_events (go cf [(fname, evs)] b) =
    (match hdr with [] => [] | _ => [OOut hdr] end) ++
    emit cf p (length (titles expr sts [])) (spec expr get sts cs).
Proof.
  intros cf fname evs b p sts hdr H1 H2 H3 H4 Hb.
  exact (C03_go cf fname evs b p sts hdr H1 H2 H3 H4 (build_wfp cf p sts H3 Hb)).
Qed.
Print Assumptions C03_program.

(* several inputs (file arguments read one after the other), pipelines that never stop the reader (no --take, or
   --take behind --sort-by): the rows written are the header followed by the rows of the documented composition
   applied to the contexts of ALL inputs in order, the record index running on across inputs and the index inside
   the file starting again at 0 (`ctxs_of_inputs`) *)
From Jawk Require Import FilesProofs FilesTakeProofs.
Theorem C03_program_files_nb : forall (cf : cfg) (ins : list (option str * list ev)) (b : bool) p sts hdr,
  c_on_error cf = OnIgnore ->
  Forall (fun i => Forall (fun e => e <> EErr) (snd i)) ins ->
  build_pipeline cf = Some (p, sts) ->
  start_output p (titles expr sts []) (c_rowsep cf) = Some hdr ->
  ChainProofs.nb expr sts = true ->
  g_result (go cf ins b) = GOk /\
  g_events (go cf ins b) =
    (match hdr with [] => [] | _ => [OOut hdr] end) ++
    emit cf p (length (titles expr sts []))
      (Chain.run expr get sts (map (init_state expr) sts) (fst (ctxs_of_inputs cf ins 0))).
Proof. exact go_files_ignore. Qed.
Print Assumptions C03_program_files_nb.

(* once a limiter that is not behind a sorter has answered Break, the pipeline is dead: whatever is fed to it
   afterwards (the values of the following inputs are still parsed and handed to it) produces no row and leaves
   what `complete` will emit unchanged -- for every well-shaped pipeline *)
Theorem C03_break_dead : forall T, wfp expr T -> forall ss c ss1 o,
  process expr get T ss c = (ss1, o, Break) -> dead T ss1.
Proof. exact process_break_dead. Qed.
Print Assumptions C03_break_dead.

Theorem C03_dead_stays : forall T ss c, dead T ss ->
  exists ss' d, process expr get T ss c = (ss', [], d) /\ dead T ss' /\
                complete expr get T ss' = complete expr get T ss.
Proof. exact dead_stays. Qed.
Print Assumptions C03_dead_stays.

(* end to end for ANY list of inputs and EVERY configuration that builds (with or without --take, sorted or
   not): under --on-error=ignore and without read errors the rows written are the header followed by the rows
   of the documented composition of stages applied to the contexts of all inputs in order *)
Theorem C03_program_files : forall (cf : cfg) (ins : list (option str * list ev)) (b : bool) p sts hdr,
  c_on_error cf = OnIgnore ->
  Forall (fun i => Forall (fun e => e <> EErr) (snd i)) ins ->
  build_pipeline cf = Some (p, sts) ->
  start_output p (titles expr sts []) (c_rowsep cf) = Some hdr ->
  (forall t, c_take cf = Some t -> (c_skip cf + t <= 18446744073709551615)%N) ->
  g_result (go cf ins b) = GOk /\
  g_events (go cf ins b) =
    (match hdr with [] => [] | _ => [OOut hdr] end) ++
    emit cf p (length (titles expr sts [])) (spec expr get sts (fst (ctxs_of_inputs cf ins 0))).
Proof.
  intros cf ins b p sts hdr H1 H2 H3 H4 Hb.
  pose proof (build_wfp cf p sts H3 Hb) as Hw.
  destruct (go_files_ignore_wfp cf ins b p sts hdr H1 H2 H3 H4 Hw) as [R Ev]. split; [exact R|].
  rewrite Ev.
  rewrite (run_spec expr get (jcmp_refl show) (jcmp_antisym show) (jcmp_trans_le show) (jcmp_eq_l show) sts Hw).
  reflexivity.
Qed.
Print Assumptions C03_program_files.

(* the contexts of a list of inputs split where the list splits: the second part is numbered from where the
   first stopped; one input is the single-input function *)
Theorem C03_inputs_app : forall cf a b idx,
  fst (ctxs_of_inputs cf (a ++ b) idx) =
  fst (ctxs_of_inputs cf a idx) ++
  fst (ctxs_of_inputs cf b (idx + N.of_nat (length (fst (ctxs_of_inputs cf a idx))))).
Proof. exact ctxs_of_inputs_app. Qed.
Print Assumptions C03_inputs_app.

Theorem C03_inputs_one : forall cf fname evs,
  fst (ctxs_of_inputs cf [(fname, evs)] 0) = fst (fst (ctxs_of_input cf fname evs)).
Proof. exact ctxs_of_inputs_one. Qed.
Print Assumptions C03_inputs_one.
