(* C15 — csv/text rows have one field per selection and csv is machine-readable. *)
From Jawk Require Import Base Json Ctx Printer Expr Go CsvReader CsvProofs.

(* text and csv: a row is the fields of the selections, joined by the item separator, then the row separator;
   with N selections there are exactly N fields (an absent value is an empty field or the keyword) *)
Theorem C15_fields : forall (o : text_opts) (n k : nat) (rowsep : list byte) (c : Ctx.ctx expr),
  length (to_list c) = n ->
  exists fs, length fs = n /\ fs = map (text_field o) (to_list c) /\
             print_row (PText o) (S k) rowsep c = join_fields (items_sep o) fs ++ rowsep.
Proof. exact fields_count. Qed.
Print Assumptions C15_fields.

(* csv: an RFC 4180 reader that ignores the blank after each comma (Spec/CsvReader.v) recovers, field for
   field, string contents, the decimal spelling of numbers, True/False/null, and the concise JSON text of
   arrays and objects, whatever quotes, commas or line breaks the data contains; and leaves the rest untouched *)
Theorem C15_csv_read : forall (vs : list (option json)) (rest : list N),
  vs <> [] -> Forall scalar_field vs ->
  csv_read_record (join_fields [44%N; 32%N] (map (text_field csv_opts) vs) ++ [10%N] ++ rest)
  = Some (map expected_field vs, rest).
Proof. exact csv_row_readable. Qed.
Print Assumptions C15_csv_read.

Theorem C15_csv_row : forall (k : nat) (c : Ctx.ctx expr) (rest : list byte),
  to_list c <> [] -> Forall scalar_field (to_list c) ->
  csv_read_record (print_row (PText csv_opts) (S k) [10%N] c ++ rest) = Some (map expected_field (to_list c), rest).
Proof. exact csv_print_row_readable. Qed.
Print Assumptions C15_csv_row.

(* the header row lists the selection names in order; csv without selections is rejected *)
Theorem C15_header : forall (ts : list str) (rest : list byte), ts <> [] ->
  exists hdr, start_output (PText csv_opts) ts [10%N] = Some hdr /\
              csv_read_record (hdr ++ rest) = Some (map (fun t => FQuoted (utf8_encode t)) ts, rest).
Proof. exact csv_header_readable. Qed.
Theorem C15_no_titles_rejected : forall rowsep, start_output (PText csv_opts) [] rowsep = None.
Proof. exact start_output_csv_nil. Qed.
Print Assumptions C15_header.
