(* C01 — stream fidelity: every input JSON value comes out once, in order, unchanged. *)
From Jawk Require Import Base F64 Json Reader JsonParser Stream Printer Render ReaderLemmas ParserProofs Go GoProofs.

(* for every sequence of spelling trees of the RFC 8259 grammar (any insignificant whitespace, any escape
   spelling incl. per-digit hex case, any number spelling incl. upper-case exponents and signs, distinct
   member names), separated by legal separators, the read loop yields exactly the denoted values, in order,
   once each, and no error *)
Theorem C01_stream : forall (lead : ws) (l : list (sjson * ws)) (vs : list json),
  stream_wf lead l ->
  Forall2 (fun tw v => value_of (fst tw) = Some v) l vs ->
  values_of_bytes (lead ++ render_stream l) = (vs, 0%N).
Proof. exact values_of_stream. Qed.
Print Assumptions C01_stream.

(* one value: the parser consumes exactly the text of the value (plus leading whitespace) and leaves what
   follows untouched — no value is split in two or merged with a neighbour *)
Theorem C01_value : forall fuel t v (w tl : list byte) r,
  wf t -> value_of t = Some v -> ws_ok w -> follow t tl -> rd_ok r ->
  view r = w ++ render t ++ tl -> (2 * length (view r) < fuel)%nat ->
  exists r', parse_value fuel r = (POk v, r') /\ view r' = tl /\ rd_ok r'.
Proof. exact parse_value_render. Qed.
Print Assumptions C01_value.

(* the whole program with no options: exactly one row per value, in input order, each row the one-line text
   of the value (which C02 shows denotes that value), and the run succeeds *)
Theorem C01_rows : forall (lead : ws) (l : list (sjson * ws)) (vs : list json),
  stream_wf lead l ->
  Forall2 (fun tw v => value_of (fst tw) = Some v) l vs ->
  let g := go default_cfg [(None, map EB (lead ++ render_stream l))] true in
  g_result g = GOk /\ g_events g = map (fun v => OOut (print_json OneLine false v ++ [10%N])) vs.
Proof. exact go_default_rows. Qed.
Print Assumptions C01_rows.

(* non-vacuity: 1E2 "é" [ true ,{"a":-0.5e+1}] is a well-formed stream *)
Example C01_example :
  values_of_bytes [49;69;50;32;34;92;117;48;48;69;57;34;91;32;116;114;117;101;32;44;123;34;97;34;58;45;48;46;53;101;43;49;125;93]%N
  = ([JNum (NPos 100); JStr [233%N]; JArr [JBool true; JObj [([97%N], JNum (NNeg (-5)))]]], 0%N).
Proof. vm_compute. reflexivity. Qed.

(* numbers: the double a decimal text denotes is the nearest one (ties to even), exactly, for every ratio; the rounding is monotone *)
From Coq Require Import QArith Qabs.
From Jawk Require Import Base F64 F64Proofs.

(* the finite result of rounding n/d is at least as close to n/d as every other finite double *)
Theorem C01_round_nearest :
  forall n d : Z,
    (0 < n)%Z ->
    (0 < d)%Z ->
    (round_mag n d < inf_bits)%Z ->
    forall b : Z,
    (0 <= b < inf_bits)%Z ->
    forall x y : Q,
    mag_value (round_mag n d) = Some x ->
    mag_value b = Some y -> Qabs ((n # Z.to_pos d) - x) <= Qabs ((n # Z.to_pos d) - y).
Proof. exact round_mag_nearest. Qed.
Print Assumptions C01_round_nearest.

(* when two doubles are equally close the one with the even mantissa is returned *)
Theorem C01_round_ties_even :
  forall n d : Z,
    (0 < n)%Z ->
    (0 < d)%Z ->
    (round_mag n d < inf_bits)%Z ->
    forall b : Z,
    (0 <= b < inf_bits)%Z ->
    forall x y : Q,
    mag_value (round_mag n d) = Some x ->
    mag_value b = Some y ->
    ~ y == x ->
    Qabs ((n # Z.to_pos d) - x) == Qabs ((n # Z.to_pos d) - y) -> (round_mag n d mod 2)%Z = 0%Z.
Proof. exact round_mag_ties_even. Qed.
Print Assumptions C01_round_ties_even.

(* infinity exactly from the IEEE overflow threshold 2^1024 - 2^970 on *)
Theorem C01_round_overflow :
  forall n d : Z,
    (0 < n)%Z -> (0 < d)%Z -> round_mag n d = inf_bits <-> ((2 ^ 1024 - 2 ^ 970) * d <= n)%Z.
Proof. exact round_mag_overflow. Qed.
Print Assumptions C01_round_overflow.

(* a ratio that is a double is returned unchanged *)
Theorem C01_round_exact :
  forall (n d b : Z) (y : Q),
    (0 < n)%Z ->
    (0 < d)%Z -> (0 <= b < inf_bits)%Z -> mag_value b = Some y -> y == n # Z.to_pos d -> round_mag n d = b.
Proof. exact round_mag_exact. Qed.
Print Assumptions C01_round_exact.

(* rounding never reverses the order of two ratios *)
Theorem C01_round_monotone :
  forall n1 d1 n2 d2 : Z,
    (0 < n1)%Z ->
    (0 < d1)%Z ->
    (0 < n2)%Z -> (0 < d2)%Z -> (n1 * d2 <= n2 * d1)%Z -> (round_mag n1 d1 <= round_mag n2 d2)%Z.
Proof. exact round_mag_monotone. Qed.
Print Assumptions C01_round_monotone.

(* with sign: infinity from the threshold on, otherwise the nearest finite double *)
Theorem C01_ratio_correct :
  forall (neg : bool) (n d : Z),
    (0 < n)%Z ->
    (0 < d)%Z ->
    ((2 ^ 1024 - 2 ^ 970) * d <= n)%Z /\ f_decode (f_of_ratio neg n d) = FInf neg \/
    (n < (2 ^ 1024 - 2 ^ 970) * d)%Z /\
    (exists m e : Z,
       f_decode (f_of_ratio neg n d) = FFin neg m e /\
       (forall (b : Z) (y : Q),
        (0 <= b < inf_bits)%Z ->
        mag_value b = Some y ->
        Qabs ((n # Z.to_pos d) - inject_Z m * pow2 e) <= Qabs ((n # Z.to_pos d) - y))).
Proof. exact f_of_ratio_correct. Qed.
Print Assumptions C01_ratio_correct.

(* decimal text: the reader feeds the rounding the exact decimal value, shortcuts for huge and tiny exponents included *)
From Coq Require Import QArith Qabs.
From Jawk Require Import Base F64 F64Proofs FloatText.

(* side condition: the exponent has at most 6 significant digits (longer ones are clamped to 100000, as Rust clamps at 65536) *)
Theorem C01_dec2flt_correct :
  forall (txt : list N) (d : dec),
    dec_split txt = Some d ->
    dec_valid d = true ->
    dec_unclamped d ->
    let m := Z.of_N (N_of_digits (d_int d ++ d_frac d)) in
    let adj := (dec_exp_val d - Z.of_nat (length (d_frac d)))%Z in
    dec2flt txt =
    Some
      (if (m =? 0)%Z
       then with_sign (d_neg d) 0
       else f_of_ratio (d_neg d) (m * 10 ^ Z.max adj 0) (10 ^ Z.max (- adj) 0)).
Proof. exact dec2flt_correct. Qed.
Print Assumptions C01_dec2flt_correct.

Theorem C01_dec2flt_nearest :
  forall (txt : list N) (d : dec),
    dec_split txt = Some d ->
    dec_valid d = true ->
    dec_unclamped d ->
    let m := Z.of_N (N_of_digits (d_int d ++ d_frac d)) in
    let adj := (dec_exp_val d - Z.of_nat (length (d_frac d)))%Z in
    let n := (m * 10 ^ Z.max adj 0)%Z in
    let dn := (10 ^ Z.max (- adj) 0)%Z in
    (0 < m)%Z ->
    exists bits : N,
      dec2flt txt = Some bits /\
      (((2 ^ 1024 - 2 ^ 970) * dn <= n)%Z /\ f_decode bits = FInf (d_neg d) \/
       (n < (2 ^ 1024 - 2 ^ 970) * dn)%Z /\
       (exists fm fe : Z,
          f_decode bits = FFin (d_neg d) fm fe /\
          (forall (b : Z) (y : Q),
           (0 <= b < inf_bits)%Z ->
           mag_value b = Some y ->
           Qabs ((n # Z.to_pos dn) - inject_Z fm * pow2 fe) <= Qabs ((n # Z.to_pos dn) - y)))).
Proof. exact dec2flt_nearest. Qed.
Print Assumptions C01_dec2flt_nearest.

(* separators: two tokens may touch whenever the second one announces itself (a number or a word directly followed by [ { or a quote); the stream theorems hold under this weaker, exact condition *)
From Jawk Require Import Base Json Reader JsonParser Stream Printer Render Go GoProofs TouchProofs.

Theorem C01_stream_touching :
  forall (lead : ws) (l : list (sjson * ws)) (vs : list json),
    stream_wf' lead l ->
    Forall2 (fun (tw : sjson * ws) (v : json) => value_of (fst tw) = Some v) l vs ->
    values_of_bytes (lead ++ render_stream l) = (vs, 0%N).
Proof. exact values_of_stream_touching. Qed.
Print Assumptions C01_stream_touching.

Theorem C01_rows_touching :
  forall (lead : ws) (l : list (sjson * ws)) (vs : list json),
    stream_wf' lead l ->
    Forall2 (fun (tw : sjson * ws) (v : json) => value_of (fst tw) = Some v) l vs ->
    let g := go default_cfg [(None, map EB (lead ++ render_stream l))] true in
    g_result g = GOk /\ g_events g = map (fun v : json => OOut (print_json OneLine false v ++ [10%N])) vs.
Proof. exact go_default_rows_touching. Qed.
Print Assumptions C01_rows_touching.

(* the old condition implies the new one *)
Theorem C01_separators_weaker :
  forall (lead : ws) (l : list (sjson * ws)), stream_wf lead l -> stream_wf' lead l.
Proof. exact stream_wf_weaker. Qed.
Print Assumptions C01_separators_weaker.

(* the default configuration over any list of inputs *)
From Jawk Require Import Base F64 Json Reader JsonParser Ctx Printer Fn Expr Chain ExprParser Go PipelineSpec OrderProofs SorterProofs ChainProofs GoProofs BuildProofs FilesProofs LocalFilesProofs.

(* no options, any list of inputs without read errors: success, and exactly one one-line row per value of every input, in order *)
Theorem C01_rows_files :
  forall (ins : list (option str * list ev)) (b : bool),
    Forall (fun i : option str * list ev => Forall (fun e : ev => e <> EErr) (snd i)) ins ->
    g_result (go default_cfg ins b) = GOk /\
    g_events (go default_cfg ins b) =
    emit default_cfg (PJson OneLine false) 0 (fst (ctxs_of_inputs default_cfg ins 0)).
Proof. exact go_default_rows_files. Qed.
Print Assumptions C01_rows_files.
