(* C01 — stream fidelity: every input JSON value comes out once, in order, unchanged. *)
From Jawk Require Import Base F64 Json Reader JsonParser Stream Printer Render ReaderLemmas ParserProofs Go GoProofs.

(* for every sequence of spelling trees of the RFC 8259 grammar (any insignificant whitespace, any escape
   spelling incl. per-digit hex case, any number spelling incl. upper-case exponents and signs, distinct
   member names), separated by legal separators, the read loop yields exactly the denoted values, in order,
   once each, and no error *)
Theorem C01_stream : forall (lead : ws) (l : list (sjson * ws)) (vs : list json),
  stream_wf lead l ->
  Forall2 (fun tw v => value_of (fst tw) = Some v) l vs ->
  values_of_bytes (lead ++ render_stream l) = (vs, 0%N).
Proof. exact values_of_stream. Qed.
Print Assumptions C01_stream.

(* one value: the parser consumes exactly the text of the value (plus leading whitespace) and leaves what
   follows untouched — no value is split in two or merged with a neighbour *)
Theorem C01_value : forall fuel t v (w tl : list byte) r,
  wf t -> value_of t = Some v -> ws_ok w -> follow t tl -> rd_ok r ->
  view r = w ++ render t ++ tl -> (2 * length (view r) < fuel)%nat ->
  exists r', parse_value fuel r = (POk v, r') /\ view r' = tl /\ rd_ok r'.
Proof. exact parse_value_render. Qed.
Print Assumptions C01_value.

(* the whole program with no options: exactly one row per value, in input order, each row the one-line text
   of the value (which C02 shows denotes that value), and the run succeeds *)
Theorem C01_rows : forall (lead : ws) (l : list (sjson * ws)) (vs : list json),
  stream_wf lead l ->
  Forall2 (fun tw v => value_of (fst tw) = Some v) l vs ->
  let g := go default_cfg [(None, map EB (lead ++ render_stream l))] true in
  g_result g = GOk /\ g_events g = map (fun v => OOut (print_json OneLine false v ++ [10%N])) vs.
Proof. exact go_default_rows. Qed.
Print Assumptions C01_rows.

(* non-vacuity: 1E2 "é" [ true ,{"a":-0.5e+1}] is a well-formed stream *)
Example C01_example :
  values_of_bytes [49;69;50;32;34;92;117;48;48;69;57;34;91;32;116;114;117;101;32;44;123;34;97;34;58;45;48;46;53;101;43;49;125;93]%N
  = ([JNum (NPos 100); JStr [233%N]; JArr [JBool true; JObj [([97%N], JNum (NNeg (-5)))]]], 0%N).
Proof. vm_compute. reflexivity. Qed.
