(* C02 — every JSON output row is valid JSON for its value in all styles. *)
From Jawk Require Import Base F64 Json Reader Stream Printer Render PrinterProofs Go GoProofs RoundTrip.

(* every printed row is, by construction, the rendering of a well-formed spelling tree of the RFC 8259
   grammar whose value is exactly the value printed: in each style, with or without --utf8-strings.
   `printable` excludes the recorded known findings (code points >= U+10000 with ASCII output, non-finite
   numbers) and carries, for floats, the decidable side condition flt_okb (the printed digits read back
   as the same double) *)
Theorem C02_wellformed : forall (st : jstyle) (utf8 : bool) (v : json) (d : nat),
  printable utf8 v ->
  print_json_at st utf8 d v = render (canon st utf8 d v) /\
  wf (canon st utf8 d v) /\ value_of (canon st utf8 d v) = Some v.
Proof. exact print_is_render. Qed.
Print Assumptions C02_wellformed.

(* concise: no insignificant whitespace at all *)
Theorem C02_shape_concise : forall (utf8 : bool) (v : json) (d : nat),
  ws_all (fun w => w = []) (canon Consise utf8 d v).
Proof. exact concise_no_ws. Qed.
Print Assumptions C02_shape_concise.

(* one-line: no line break anywhere in the row, so the row separator frames rows unambiguously *)
Theorem C02_shape_oneline : forall (utf8 : bool) (v : json) (d : nat),
  printable utf8 v ->
  ~ In 10%N (print_json_at OneLine utf8 d v) /\ ~ In 13%N (print_json_at OneLine utf8 d v).
Proof. exact oneline_no_linebreak. Qed.
Print Assumptions C02_shape_oneline.

Theorem C02_shape_concise_nolinebreak : forall (utf8 : bool) (v : json) (d : nat),
  printable utf8 v ->
  ~ In 10%N (print_json_at Consise utf8 d v) /\ ~ In 13%N (print_json_at Consise utf8 d v).
Proof. exact concise_no_linebreak. Qed.
Print Assumptions C02_shape_concise_nolinebreak.

(* pretty: the only whitespace is a blank after ':' and newline + two spaces per nesting level *)
Theorem C02_shape_pretty : forall (utf8 : bool) (v : json) (d : nat),
  ws_all (fun w => w = [] \/ w = [32%N] \/ exists k, w = 10%N :: concat (repeat [32%N; 32%N] k))
         (canon Pretty utf8 d v).
Proof. exact pretty_ws. Qed.
Print Assumptions C02_shape_pretty.

(* composition with C01: jawk's own parser reads the printed rows back as exactly the values printed, in every
   style, with either value of --utf8-strings *)
Theorem C02_roundtrip : forall st utf8 vs, Forall (printable utf8) vs ->
  values_of_bytes (concat (map (fun v => print_json st utf8 v ++ [10%N]) vs)) = (vs, 0%N).
Proof. exact print_parse_roundtrip. Qed.
Print Assumptions C02_roundtrip.

(* feeding jawk's output back into jawk with the same (default) options reproduces it byte for byte *)
Theorem C02_fixpoint : forall vs, Forall (printable false) vs ->
  let out := concat (map (fun v => print_json OneLine false v ++ [10%N]) vs) in
  let g := go default_cfg [(None, map EB out)] true in
  g_result g = GOk /\ concat (map (fun e => match e with OOut b => b | OErr _ => [] end) (g_events g)) = out.
Proof. exact go_fixpoint. Qed.
Print Assumptions C02_fixpoint.

(* floats: the side condition flt_okb (inside printable) is discharged for every finite double that From<f64> leaves a float; printing then reading a finite double is the identity *)
From Jawk Require Import Base F64 Json PrinterProofs FloatText FloatOk.

(* the shortest positional text of a finite double reads back as the same bit pattern *)
Theorem C02_float_roundtrip :
  forall (bits : N) (s : bool) (m e : Z),
    f_decode bits = FFin s m e -> (bits < 18446744073709551616)%N -> dec2flt (flt2dec bits) = Some bits.
Proof. exact flt2dec_dec2flt. Qed.
Print Assumptions C02_float_roundtrip.

(* the digit search never runs out of fuel (17 digits always suffice) and its result rounds back to the double *)
Theorem C02_float_shortest :
  forall (bits : N) (s : bool) (m e : Z),
    f_decode bits = FFin s m e ->
    (0 < m)%Z ->
    let
    '(c, p) := shortest m e in
     (0 < c)%Z /\ (let '(cn, cd) := mul_pow10 c 1 p in round_mag cn cd = f_mag (Z.of_N bits)).
Proof. exact shortest_roundtrips. Qed.
Print Assumptions C02_float_shortest.

(* the decidable side condition holds for every finite double that is not normalised to an integer *)
Theorem C02_float_printable :
  forall (f : N) (s : bool) (m e : Z),
    (f < 18446744073709551616)%N -> f_decode f = FFin s m e -> num_of_f f = NFlt f -> flt_okb f = true.
Proof. exact flt_okb_finite. Qed.
Print Assumptions C02_float_printable.

(* every number From<f64> produces from a finite pattern satisfies num_ok, the number part of printable *)
Theorem C02_number_printable :
  forall (f : N) (s : bool) (m e : Z),
    (f < 18446744073709551616)%N -> f_decode f = FFin s m e -> num_ok (num_of_f f).
Proof. exact num_of_f_ok. Qed.
Print Assumptions C02_number_printable.

(* closing the loop with the parser: every value the parser returns from any byte stream is printable, so the round trip needs no hypothesis with --utf8-strings, and only the absence of astral code points (K1) without it *)
From Jawk Require Import Base Json Reader JsonParser Stream Printer Go PrinterProofs ParsedPrintable.

(* unconditional: every value of every input stream (malformed regions included) is printable with --utf8-strings *)
Theorem C02_parsed_printable :
  forall (bs : list byte) (vs : list json) (n : N),
    values_of_bytes bs = (vs, n) -> Forall (printable true) vs.
Proof. exact values_printable_utf8. Qed.
Print Assumptions C02_parsed_printable.

(* for every input stream and every style, printing what was parsed and parsing it again gives the same values and no error *)
Theorem C02_parsed_roundtrip :
  forall (st : jstyle) (bs : list byte),
    let vs := fst (values_of_bytes bs) in
    values_of_bytes (concat (map (fun v : json => print_json st true v ++ [10%N]) vs)) = (vs, 0%N).
Proof. exact parsed_roundtrip. Qed.
Print Assumptions C02_parsed_roundtrip.

Theorem C02_parsed_roundtrip_ascii :
  forall (st : jstyle) (bs : list byte),
    let vs := fst (values_of_bytes bs) in
    Forall no_astral vs ->
    values_of_bytes (concat (map (fun v : json => print_json st false v ++ [10%N]) vs)) = (vs, 0%N).
Proof. exact parsed_roundtrip_ascii. Qed.
Print Assumptions C02_parsed_roundtrip_ascii.

(* the default-options fixpoint for every input stream without astral code points *)
Theorem C02_parsed_fixpoint :
  forall bs : list byte,
    let vs := fst (values_of_bytes bs) in
    Forall no_astral vs ->
    let out := concat (map (fun v : json => print_json OneLine false v ++ [10%N]) vs) in
    let g := go GoProofs.default_cfg [(None, map EB out)] true in
    g_result g = GOk /\
    concat (map (fun e : oev => match e with
                                | OOut b => b
                                | OErr _ => []
                                end) (g_events g)) = out.
Proof. exact parsed_fixpoint. Qed.
Print Assumptions C02_parsed_fixpoint.

(* no non-finite number can come from the input (K2 needs arithmetic) *)
Theorem C02_parsed_finite :
  forall (bs : list byte) (vs : list json) (n : N),
    values_of_bytes bs = (vs, n) -> Forall nums_finite vs.
Proof. exact values_nums_finite. Qed.
Print Assumptions C02_parsed_finite.

(* K1: without --utf8-strings the hypothesis cannot be dropped *)
Theorem C02_astral_refuted :
  ~
    (forall bs : list byte,
     let vs := fst (values_of_bytes bs) in
     values_of_bytes (concat (map (fun v : json => print_json OneLine false v ++ [10%N]) vs)) = (vs, 0%N)).
Proof. exact parsed_roundtrip_ascii_unconditional_refuted. Qed.
Print Assumptions C02_astral_refuted.

(* the whole program: default output fed back into jawk reproduces it *)
From Jawk Require Import Base F64 Json Reader JsonParser Stream Ctx Printer Fn Expr Chain ExprParser Go GoProofs ParsedPrintable GoFixpointProofs.

(* no options, every input byte stream: success, and the events are exactly one one-line printed row per value the stream denotes (values_of_bytes), in order *)
Theorem C02_program_rows :
  forall (bs : list byte) (b : bool),
    g_result (go default_cfg [(None, map EB bs)] b) = GOk /\
    g_events (go default_cfg [(None, map EB bs)] b) =
    map (fun v : json => OOut (print_json OneLine false v ++ [10%N])) (fst (values_of_bytes bs)).
Proof. exact go_default_events. Qed.
Print Assumptions C02_program_rows.

(* feeding the standard output of a default run back into a default run reproduces it event for event, for every input byte stream whose values contain no astral code point (exactly known finding K1) *)
Theorem C02_program_fixpoint :
  forall (bs : list byte) (b : bool),
    Forall no_astral (fst (values_of_bytes bs)) ->
    let g1 := go default_cfg [(None, map EB bs)] b in
    let g2 := go default_cfg [(None, map EB (stdout_of (g_events g1)))] b in
    g_result g1 = GOk /\ g_result g2 = GOk /\ g_events g2 = g_events g1.
Proof. exact go_default_fixpoint. Qed.
Print Assumptions C02_program_fixpoint.

(* the read loop of Master *)
Theorem C02_loop_is_stream :
  forall (fuel : nat) (r : reader) (fname : option str) (idx infile : N),
    no_eerr r ->
    io r = false ->
    map input (fst (fst (read_ctxs fuel false r fname idx infile))) = fst (read_all fuel r) /\
    snd (fst (read_ctxs fuel false r fname idx infile)) = snd (read_all fuel r).
Proof. exact read_ctxs_read_all. Qed.
Print Assumptions C02_loop_is_stream.
