(* C14 — --take stops reading. *)
From Jawk Require Import Base Json Ctx Printer Chain PipelineSpec OrderProofs SorterProofs ChainProofs.
From Coq Require Import Lia.

(* once the chain has answered Break the read loop stops: whatever follows in the input (arbitrarily long)
   changes nothing *)
Theorem C14_rest_irrelevant : forall (E : Type) (get : E -> ctx E -> option json) sts ss cs ss1 o,
  feed E get sts cs ss = (ss1, o, Break) -> forall rest,
  run E get sts ss (cs ++ rest) = run E get sts ss cs.
Proof. exact run_break_prefix'. Qed.
Print Assumptions C14_rest_irrelevant.

(* a streaming prefix (set, split, filter, select, unique) in front of the limiter: Break is answered, and
   reaches the read loop, as soon as the prefix has delivered S + max T 1 rows to the limiter *)
Theorem C14_break_reaches_reader : forall (E : Type) (get : E -> ctx E -> option json)
    (pre post : list (stage E)) sk lim cs ssT,
  forallb (streaming E) pre = true -> nb E post = true ->
  snd (feed E get (pre ++ SLimit sk (Some lim) :: post) cs
            (map (init_state E) pre ++ StLimit 0 0 :: ssT)) =
  if (N.to_nat sk + N.to_nat (N.max 1 lim) <=? length (spec E get pre cs))%nat then Break else Continue.
Proof.
  intros E get pre post sk lim cs ssT Hs Hnb.
  rewrite (feed_streaming_decision E get pre Hs).
  rewrite (limit_break E get sk lim post Hnb) by lia.
  rewrite !N.sub_0_r. reflexivity.
Qed.
Print Assumptions C14_break_reaches_reader.
