(* C14 — --take stops reading. *)
From Jawk Require Import Base Json Ctx Printer Chain PipelineSpec OrderProofs SorterProofs ChainProofs.
From Coq Require Import Lia.

(* once the chain has answered Break the read loop stops: whatever follows in the input (arbitrarily long)
   changes nothing *)
Theorem C14_rest_irrelevant : forall (E : Type) (get : E -> ctx E -> option json) sts ss cs ss1 o,
  feed E get sts cs ss = (ss1, o, Break) -> forall rest,
  run E get sts ss (cs ++ rest) = run E get sts ss cs.
Proof. exact run_break_prefix'. Qed.
Print Assumptions C14_rest_irrelevant.

(* a streaming prefix (set, split, filter, select, unique) in front of the limiter: Break is answered, and
   reaches the read loop, as soon as the prefix has delivered S + max T 1 rows to the limiter *)
Theorem C14_break_reaches_reader : forall (E : Type) (get : E -> ctx E -> option json)
    (pre post : list (stage E)) sk lim cs ssT,
  forallb (streaming E) pre = true -> nb E post = true ->
  snd (feed E get (pre ++ SLimit sk (Some lim) :: post) cs
            (map (init_state E) pre ++ StLimit 0 0 :: ssT)) =
  if (N.to_nat sk + N.to_nat (N.max 1 lim) <=? length (spec E get pre cs))%nat then Break else Continue.
Proof.
  intros E get pre post sk lim cs ssT Hs Hnb.
  rewrite (feed_streaming_decision E get pre Hs).
  rewrite (limit_break E get sk lim post Hnb) by lia.
  rewrite !N.sub_0_r. reflexivity.
Qed.
Print Assumptions C14_break_reaches_reader.

(* the whole program: bytes after the point where the reader stopped are never looked at *)
From Jawk Require Import Reader Expr Go LocalityProofs.

(* if the run over pre++rest1 consumed at most |pre| bytes, every other continuation gives the same events, result and number of bytes pulled *)
Theorem C14_go_rest_irrelevant :
  forall (cf : cfg) (fname : option Base.str) (pre rest1 rest2 : list Base.byte)
      (b : bool) (p : printer) (sts : list stage) (hdr : list Base.byte),
    build_pipeline cf = Some (p, sts) ->
    start_output p (Chain.titles expr sts nil) (c_rowsep cf) = Some hdr ->
    let evs1 := List.map EB (pre ++ rest1) in
    let evs2 := List.map EB (pre ++ rest2) in
    consumed
      (snd
         (read_input cf p sts (length (Chain.titles expr sts nil)) (input_fuel evs1) 
            (mk_reader evs1) fname (List.map (Chain.init_state expr) sts) BinNums.N0 BinNums.N0)) <=
    length pre ->
    g_events (go cf ((fname, evs1) :: nil) b) = g_events (go cf ((fname, evs2) :: nil) b) /\
    g_result (go cf ((fname, evs1) :: nil) b) = g_result (go cf ((fname, evs2) :: nil) b) /\
    g_pulled (go cf ((fname, evs1) :: nil) b) = g_pulled (go cf ((fname, evs2) :: nil) b).
Proof. exact go_take_independent_of_rest. Qed.
Print Assumptions C14_go_rest_irrelevant.

(* known finding K6: over a LIST of inputs the statement "once T rows have been emitted nothing more is consumed"
   is false of the faithful model (and of the code: the check replays the witness on the real binary with a named
   pipe as second file): the only row comes from the first input (8 bytes) and all 24 bytes of the second one are
   pulled afterwards.  Inside one input the statement holds (C14_go_rest_irrelevant). *)
From Jawk Require Import K6Witness.
Theorem C14_later_inputs_refuted :
  exists cf ins, c_take cf = Some 1%N /\ c_sort cf = nil /\ c_group cf = None /\
    g_result (go cf ins false) = GOk /\
    g_events (go cf ins false) = (OOut (123 :: 34 :: 97 :: 34 :: 58 :: 32 :: 49 :: 125 :: 10 :: nil)%N :: nil) /\
    g_pulled (go cf ins false) = (8 :: 24 :: nil)%N /\
    (exists n1 e1 n2 e2, ins = ((n1, e1) :: (n2, e2) :: nil) /\ length e1 = 8 /\ length e2 = 24).
Proof. exact later_inputs_read_after_break. Qed.
Print Assumptions C14_later_inputs_refuted.
