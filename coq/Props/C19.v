(* C19 — 64-bit integers survive untouched; number-as-string arithmetic is exact.
   (the decimal arithmetic theorems are added from Proofs/NasProofs.v) *)
From Jawk Require Import Base F64 Json Reader Stream Printer Render PrinterProofs Go GoProofs RoundTrip.

(* integers in [-2^63, 2^64) pass through printing and parsing without any change of value: the parser never
   takes the floating-point detour for them, the printer prints their exact digits *)
Theorem C19_int_roundtrip_pos : forall n, (n <= 18446744073709551615)%N ->
  values_of_bytes (print_json OneLine false (JNum (NPos n)) ++ [10%N]) = ([JNum (NPos n)], 0%N).
Proof. exact int_roundtrip_pos. Qed.
Theorem C19_int_roundtrip_neg : forall z, (-9223372036854775808 <= z < 0)%Z ->
  values_of_bytes (print_json OneLine false (JNum (NNeg z)) ++ [10%N]) = ([JNum (NNeg z)], 0%N).
Proof. exact int_roundtrip_neg. Qed.
Print Assumptions C19_int_roundtrip_neg.

(* the digits printed are the decimal digits of the integer (no conversion) *)
Theorem C19_digits : forall n, N_of_digits (digits_of_N n) = n.
Proof. exact N_of_digits_of_N. Qed.
Print Assumptions C19_digits.

(* boundary instances *)
Example C19_u64_max : values_of_bytes [49;56;52;52;54;55;52;52;48;55;51;55;48;57;53;53;49;54;49;53]%N = ([JNum (NPos 18446744073709551615)], 0%N).
Proof. vm_compute. reflexivity. Qed.
Example C19_i64_min : values_of_bytes [45;57;50;50;51;51;55;50;48;51;54;56;53;52;55;55;53;56;48;56]%N = ([JNum (NNeg (-9223372036854775808))], 0%N).
Proof. vm_compute. reflexivity. Qed.
Example C19_2p53p1 : values_of_bytes [57;48;48;55;49;57;57;50;53;52;55;52;48;57;57;51]%N = ([JNum (NPos 9007199254740993)], 0%N).
Proof. vm_compute. reflexivity. Qed.
