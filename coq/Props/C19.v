(* C19 — 64-bit integers survive untouched; number-as-string arithmetic is exact.
   (the decimal arithmetic theorems are added from Proofs/NasProofs.v) *)
From Coq Require Import QArith Qabs.
From Jawk Require Import Base F64 Json Reader Stream Printer Render PrinterProofs Go GoProofs RoundTrip Fn FunBase FunsNas NasProofs.

(* integers in [-2^63, 2^64) pass through printing and parsing without any change of value: the parser never
   takes the floating-point detour for them, the printer prints their exact digits *)
Theorem C19_int_roundtrip_pos : forall n, (n <= 18446744073709551615)%N ->
  values_of_bytes (print_json OneLine false (JNum (NPos n)) ++ [10%N]) = ([JNum (NPos n)], 0%N).
Proof. exact int_roundtrip_pos. Qed.
Theorem C19_int_roundtrip_neg : forall z, (-9223372036854775808 <= z < 0)%Z ->
  values_of_bytes (print_json OneLine false (JNum (NNeg z)) ++ [10%N]) = ([JNum (NNeg z)], 0%N).
Proof. exact int_roundtrip_neg. Qed.
Print Assumptions C19_int_roundtrip_neg.

(* the digits printed are the decimal digits of the integer (no conversion) *)
Theorem C19_digits : forall n, N_of_digits (digits_of_N n) = n.
Proof. exact N_of_digits_of_N. Qed.
Print Assumptions C19_digits.

(* boundary instances *)
Example C19_u64_max : values_of_bytes [49;56;52;52;54;55;52;52;48;55;51;55;48;57;53;53;49;54;49;53]%N = ([JNum (NPos 18446744073709551615)], 0%N).
Proof. vm_compute. reflexivity. Qed.
Example C19_i64_min : values_of_bytes [45;57;50;50;51;51;55;50;48;51;54;56;53;52;55;55;53;56;48;56]%N = ([JNum (NNeg (-9223372036854775808))], 0%N).
Proof. vm_compute. reflexivity. Qed.
Example C19_2p53p1 : values_of_bytes [57;48;48;55;49;57;57;50;53;52;55;52;48;57;57;51]%N = ([JNum (NPos 9007199254740993)], 0%N).
Proof. vm_compute. reflexivity. Qed.

(* ---------- number-as-string arithmetic is exact: dec_value is the rational a decimal denotes ---------- *)

Theorem C19_nas_add_exact :
  forall a b : Z * Z, dec_value (dec_add a b) == dec_value a + dec_value b.
Proof. exact dec_add_exact. Qed.
Print Assumptions C19_nas_add_exact.

Theorem C19_nas_sub_exact :
  forall a b : Z * Z, dec_value (dec_sub a b) == dec_value a - dec_value b.
Proof. exact dec_sub_exact. Qed.
Print Assumptions C19_nas_sub_exact.

Theorem C19_nas_mul_exact :
  forall a b : Z * Z, dec_value (dec_mul a b) == dec_value a * dec_value b.
Proof. exact dec_mul_exact. Qed.
Print Assumptions C19_nas_mul_exact.

Theorem C19_nas_abs_exact :
  forall a : Z * Z, dec_value (dec_abs a) == Qabs (dec_value a).
Proof. exact dec_abs_exact. Qed.
Print Assumptions C19_nas_abs_exact.

(* the comparison functions agree with exact rational comparison *)
Theorem C19_nas_cmp_exact :
  forall a b : Z * Z, dec_cmp a b = (dec_value a ?= dec_value b).
Proof. exact dec_cmp_exact. Qed.
Print Assumptions C19_nas_cmp_exact.

Theorem C19_nas_normalize_value :
  forall a : Z * Z, dec_value (dec_normalize a) == dec_value a.
Proof. exact dec_normalize_value. Qed.
Print Assumptions C19_nas_normalize_value.

(* spelling independence: equal values have the same normal form *)
Theorem C19_nas_normalize_canonical :
  forall a b : Z * Z, dec_value a == dec_value b -> dec_normalize a = dec_normalize b.
Proof. exact dec_normalize_canonical. Qed.
Print Assumptions C19_nas_normalize_canonical.

(* the functions themselves, on strings that parse *)
Theorem C19_nas_add :
  forall (s1 s2 : list N) (a b : Z * Z),
    dec_parse s1 = Some a ->
    dec_parse s2 = Some b ->
    sem_nas FNas_add [jstr s1; jstr s2] = Some (Some (JStr (dec_show (dec_normalize (dec_add a b))))).
Proof. exact sem_nas_add2. Qed.
Print Assumptions C19_nas_add.

Theorem C19_nas_mul :
  forall (s1 s2 : list N) (a b : Z * Z),
    dec_parse s1 = Some a ->
    dec_parse s2 = Some b ->
    sem_nas FNas_mul [jstr s1; jstr s2] = Some (Some (JStr (dec_show (dec_normalize (dec_mul a b))))).
Proof. exact sem_nas_mul2. Qed.
Print Assumptions C19_nas_mul.

Theorem C19_nas_compare :
  forall (f : fn) (t : comparison -> bool) (s1 s2 : list N) (a b : Z * Z),
    nas_cmp_test f = Some t ->
    dec_parse s1 = Some a ->
    dec_parse s2 = Some b ->
    sem_nas f [jstr s1; jstr s2] = Some (Some (JBool (t (dec_value a ?= dec_value b)))).
Proof. exact sem_nas_compare. Qed.
Print Assumptions C19_nas_compare.

(* two spellings of the same values give the same result (leading or trailing zeros, exponents) *)
Theorem C19_nas_spelling :
  forall (f : fn) (s1 s2 s1' s2' : list N) (a b a' b' : Z * Z),
    nas_binary f = true ->
    dec_parse s1 = Some a ->
    dec_parse s2 = Some b ->
    dec_parse s1' = Some a' ->
    dec_parse s2' = Some b' ->
    dec_value a == dec_value a' ->
    dec_value b == dec_value b' -> sem_nas f [jstr s1; jstr s2] = sem_nas f [jstr s1'; jstr s2'].
Proof. exact sem_nas_spelling2. Qed.
Print Assumptions C19_nas_spelling.

(* what is printed reads back as the same value *)
Theorem C19_nas_show_parse :
  forall m sc : Z,
    fits_i64 sc = true ->
    exists d' : Z * Z, dec_parse (dec_show (m, sc)) = Some d' /\ dec_value d' == dec_value (m, sc).
Proof. exact dec_show_parse. Qed.
Print Assumptions C19_nas_show_parse.
