(* C06 — noise between values never changes them; --on-error policies do what they say. Garbage tokens are made of bytes that cannot start a JSON value (everything except whitespace, n t f quote - [ { 0-9; includes } ] , : . e E + and bytes >= 128) *)
From Jawk Require Import Base Json Reader JsonParser Stream Ctx Printer Expr Chain Go Render ReaderLemmas ParserProofs TotalityProofs NoiseProofs GoProofs.

(* the catch-all arm consumes exactly the offending byte and reports one recoverable error *)
Theorem C06_garbage_byte_consumed :
  forall (fuel : nat) (w : list byte) (b : byte) (tl : list byte) (r : reader),
    rd_ok r ->
    ws_ok w ->
    garbage_byte b = true ->
    view r = w ++ b :: tl ->
    0 < fuel -> exists r' : reader, parse_value fuel r = (PErr, r') /\ view r' = tl /\ rd_ok r'.
Proof. exact garbage_step. Qed.
Print Assumptions C06_garbage_byte_consumed.

(* values of the woven stream are exactly the values of the clean stream, one error per garbage byte, at least one per garbage token *)
Theorem C06_values_unchanged :
  forall (lead : ws) (l : list (sitem * ws)) (vs : list json),
    ws_ok lead ->
    weave_ok l ->
    Forall2 (fun (t : sjson) (v : json) => value_of t = Some v) (weave_values l) vs ->
    fst (values_of_bytes (lead ++ weave l)) = vs /\
    snd (values_of_bytes (lead ++ weave l)) = N.of_nat (garbage_count l) /\
    garbage_tokens l <= garbage_count l.
Proof. exact noise_invisible. Qed.
Print Assumptions C06_values_unchanged.

(* removing the noise gives a well-formed clean stream with the same values and zero errors *)
Theorem C06_noise_removed :
  forall (lead : ws) (l : list (sitem * ws)) (vs : list json),
    ws_ok lead ->
    weave_ok l ->
    Forall2 (fun (t : sjson) (v : json) => value_of t = Some v) (weave_values l) vs ->
    stream_wf (lead ++ strip_lead l) (strip l) /\
    values_of_bytes ((lead ++ strip_lead l) ++ render_stream (strip l)) = (vs, 0%N) /\
    values_of_bytes (lead ++ weave l) = (vs, N.of_nat (garbage_count l)).
Proof. exact noise_removed. Qed.
Print Assumptions C06_noise_removed.

(* noise regions before the first value, between values and after the last one *)
Theorem C06_regions :
  forall (lead : ws) (n0 : noise) (l : vstream) (vs : list json),
    ws_ok lead ->
    noise_ok n0 ->
    vstream_ok l ->
    Forall2 (fun (twn : sjson * ws * noise) (v : json) => value_of (fst (fst twn)) = Some v) l vs ->
    values_of_bytes (lead ++ noise_bytes n0 ++ vstream_bytes l) =
    (vs, N.of_nat (noise_count n0 + vstream_noise l)).
Proof. exact noise_invisible_regions. Qed.
Print Assumptions C06_regions.

(* a clean stream produces no error at all *)
Theorem C06_clean_quiet :
  forall (lead : ws) (l : list (sjson * ws)) (vs : list json),
    stream_wf lead l ->
    Forall2 (fun (tw : sjson * ws) (v : json) => value_of (fst tw) = Some v) l vs ->
    values_of_bytes (lead ++ render_stream l) = (vs, 0%N).
Proof. exact values_of_stream. Qed.
Print Assumptions C06_clean_quiet.

(* the four policies, for the whole program *)
From Jawk Require Import LocalityProofs.

(* ignore/stdout/stderr: the run succeeds; rows are those of the chain over the parsed values, interleaved with one diagnostic per malformed region on the chosen stream *)
Theorem C06_policy :
  forall (cf : Go.cfg) (fname : option Base.str) (evs : list Reader.ev) (b : bool)
      (p : Go.printer) (sts : list (Chain.stage Expr.expr)) (hdr : list Base.byte),
    Go.c_on_error cf <> Go.OnPanic ->
    List.Forall (fun e : Reader.ev => e <> Reader.EErr) evs ->
    Go.build_pipeline cf = Some (p, sts) ->
    Go.start_output p (Chain.titles Expr.expr sts nil) (Go.c_rowsep cf) = Some hdr ->
    (forall (ss : list (Chain.sstate Expr.expr)) (c : Ctx.ctx Expr.expr),
     snd (Chain.process Expr.expr Expr.get sts ss c) = Chain.Continue) ->
    let cs := fst (fst (Go.ctxs_of_input cf fname evs)) in
    let nerr := BinNat.N.to_nat (snd (fst (Go.ctxs_of_input cf fname evs))) in
    Go.g_result (Go.go cf ((fname, evs) :: nil) b) = Go.GOk /\
    (exists z : list Go.oev,
       Go.g_events (Go.go cf ((fname, evs) :: nil) b) = (hdr_events hdr ++ z)%list /\
       shuffle
         (Go.emit cf p (length (Chain.titles Expr.expr sts nil))
            (Chain.run Expr.expr Expr.get sts (List.map (Chain.init_state Expr.expr) sts) cs))
         (errs (Go.c_on_error cf) nerr) z).
Proof. exact go_run_policy. Qed.
Print Assumptions C06_policy.

Theorem C06_policy_stderr :
  forall (cf : Go.cfg) (fname : option Base.str) (evs : list Reader.ev) (b : bool)
      (p : Go.printer) (sts : list (Chain.stage Expr.expr)) (hdr : list Base.byte),
    Go.c_on_error cf = Go.OnStderr ->
    List.Forall (fun e : Reader.ev => e <> Reader.EErr) evs ->
    Go.build_pipeline cf = Some (p, sts) ->
    Go.start_output p (Chain.titles Expr.expr sts nil) (Go.c_rowsep cf) = Some hdr ->
    (forall (ss : list (Chain.sstate Expr.expr)) (c : Ctx.ctx Expr.expr),
     snd (Chain.process Expr.expr Expr.get sts ss c) = Chain.Continue) ->
    let g := Go.go cf ((fname, evs) :: nil) b in
    Go.g_result g = Go.GOk /\
    List.filter is_out (Go.g_events g) =
    (hdr_events hdr ++
     Go.emit cf p (length (Chain.titles Expr.expr sts nil))
       (Chain.run Expr.expr Expr.get sts (List.map (Chain.init_state Expr.expr) sts)
          (fst (fst (Go.ctxs_of_input cf fname evs)))))%list /\
    List.filter (fun e : Go.oev => negb (is_out e)) (Go.g_events g) =
    List.repeat (Go.OErr Go.error_line) (BinNat.N.to_nat (snd (fst (Go.ctxs_of_input cf fname evs)))).
Proof. exact go_run_stderr. Qed.
Print Assumptions C06_policy_stderr.

Theorem C06_policy_stdout :
  forall (cf : Go.cfg) (fname : option Base.str) (evs : list Reader.ev) (b : bool)
      (p : Go.printer) (sts : list (Chain.stage Expr.expr)) (hdr : list Base.byte),
    Go.c_on_error cf = Go.OnStdout ->
    List.Forall (fun e : Reader.ev => e <> Reader.EErr) evs ->
    Go.build_pipeline cf = Some (p, sts) ->
    Go.start_output p (Chain.titles Expr.expr sts nil) (Go.c_rowsep cf) = Some hdr ->
    (forall (ss : list (Chain.sstate Expr.expr)) (c : Ctx.ctx Expr.expr),
     snd (Chain.process Expr.expr Expr.get sts ss c) = Chain.Continue) ->
    let g := Go.go cf ((fname, evs) :: nil) b in
    Go.g_result g = Go.GOk /\
    (exists z : list Go.oev,
       Go.g_events g = (hdr_events hdr ++ z)%list /\
       shuffle
         (Go.emit cf p (length (Chain.titles Expr.expr sts nil))
            (Chain.run Expr.expr Expr.get sts (List.map (Chain.init_state Expr.expr) sts)
               (fst (fst (Go.ctxs_of_input cf fname evs)))))
         (List.repeat (Go.OOut Go.error_line)
            (BinNat.N.to_nat (snd (fst (Go.ctxs_of_input cf fname evs))))) z).
Proof. exact go_run_stdout. Qed.
Print Assumptions C06_policy_stdout.

(* panic: the run fails at the first malformed region, having written exactly the rows of the values before it *)
Theorem C06_policy_panic :
  forall (cf : Go.cfg) (fname : option Base.str) (evs : list Reader.ev) (b : bool)
      (p : Go.printer) (sts : list (Chain.stage Expr.expr)) (hdr : list Base.byte),
    Go.c_on_error cf = Go.OnPanic ->
    Go.build_pipeline cf = Some (p, sts) ->
    Go.start_output p (Chain.titles Expr.expr sts nil) (Go.c_rowsep cf) = Some hdr ->
    (forall (ss : list (Chain.sstate Expr.expr)) (c : Ctx.ctx Expr.expr),
     snd (Chain.process Expr.expr Expr.get sts ss c) = Chain.Continue) ->
    BinNat.N.lt BinNums.N0 (snd (fst (Go.ctxs_of_input cf fname evs))) ->
    let pre :=
      fst
        (read_ctxs_pre (Go.input_fuel evs) (Go.c_only_objs cf) (Reader.mk_reader evs) fname BinNums.N0
           BinNums.N0) in
    Go.g_result (Go.go cf ((fname, evs) :: nil) b) = Go.GErrJson /\
    Go.g_events (Go.go cf ((fname, evs) :: nil) b) =
    (hdr_events hdr ++
     Go.emit cf p (length (Chain.titles Expr.expr sts nil))
       (snd (Chain.feed_all Expr.expr Expr.get sts (List.map (Chain.init_state Expr.expr) sts) pre)))%list /\
    (exists tl : list (Ctx.ctx Expr.expr), fst (fst (Go.ctxs_of_input cf fname evs)) = (pre ++ tl)%list).
Proof. exact go_run_panic. Qed.
Print Assumptions C06_policy_panic.

(* several inputs: the policy theorem for ANY list of inputs *)
From Jawk Require Import Base F64 Json Reader JsonParser Ctx Printer Fn Expr Chain ExprParser Go GoProofs LocalityProofs FilesProofs PolicyFilesProofs.

(* every policy but panic, any list of inputs, a pipeline that never stops the reader: success, and the events are the header followed by an interleaving of the rows of the chain over the values of all inputs with one diagnostic per malformed region of any input *)
Theorem C06_policy_files :
  forall (cf : cfg) (ins : list (option str * list ev)) (b : bool) (p : printer)
      (sts : list stage) (hdr : list byte),
    c_on_error cf <> OnPanic ->
    Forall (fun i : option str * list ev => Forall (fun e : ev => e <> EErr) (snd i)) ins ->
    build_pipeline cf = Some (p, sts) ->
    start_output p (titles expr sts []) (c_rowsep cf) = Some hdr ->
    (forall (ss : list sstate) (c : ctx), snd (process expr get sts ss c) = Continue) ->
    g_result (go cf ins b) = GOk /\
    (exists z : list oev,
       g_events (go cf ins b) = match hdr with
                                | [] => []
                                | _ :: _ => [OOut hdr]
                                end ++ z /\
       shuffle
         (emit cf p (length (titles expr sts []))
            (run expr get sts (map (init_state expr) sts) (fst (ctxs_of_inputs cf ins 0))))
         (errs (c_on_error cf) (N.to_nat (errs_of_inputs cf ins 0))) z).
Proof. exact go_files_policy. Qed.
Print Assumptions C06_policy_files.

(* for one input the error count is that of ctxs_of_input *)
Theorem C06_errs_one :
  forall (cf : cfg) (fname : option str) (evs : list ev),
    errs_of_inputs cf [(fname, evs)] 0 = snd (fst (ctxs_of_input cf fname evs)).
Proof. exact errs_of_inputs_one. Qed.
Print Assumptions C06_errs_one.

(* several inputs: --on-error=panic over ANY list of inputs *)
From Jawk Require Import Base F64 Json Reader JsonParser Ctx Printer Fn Expr Chain ExprParser Go GoProofs ChainProofs LocalityProofs FilesProofs PolicyFilesProofs PanicFilesProofs.

(* panic over any list of inputs, a pipeline that never stops the reader: the run fails at the first malformed region of any input having written exactly the rows of the values before it (no completion), and succeeds with the rows of the chain when there is none *)
Theorem C06_policy_panic_files :
  forall (cf : cfg) (ins : list (option str * list ev)) (b : bool) (p : printer)
      (sts : list stage) (hdr : list byte),
    c_on_error cf = OnPanic ->
    Forall (fun i : option str * list ev => Forall (fun e : ev => e <> EErr) (snd i)) ins ->
    build_pipeline cf = Some (p, sts) ->
    start_output p (titles expr sts []) (c_rowsep cf) = Some hdr ->
    (forall (ss : list sstate) (c : ctx), snd (process expr get sts ss c) = Continue) ->
    let cs := fst (ctxs_until_error cf ins 0) in
    if snd (ctxs_until_error cf ins 0)
    then
     g_result (go cf ins b) = GErrJson /\
     g_events (go cf ins b) =
     match hdr with
     | [] => []
     | _ :: _ => [OOut hdr]
     end ++
     emit cf p (length (titles expr sts []))
       (snd (fst (feed expr get sts cs (map (init_state expr) sts))))
    else
     g_result (go cf ins b) = GOk /\
     g_events (go cf ins b) =
     match hdr with
     | [] => []
     | _ :: _ => [OOut hdr]
     end ++ emit cf p (length (titles expr sts [])) (run expr get sts (map (init_state expr) sts) cs).
Proof. exact go_files_panic. Qed.
Print Assumptions C06_policy_panic_files.

(* the values handed to the pipeline before the failure are a prefix of those the other policies hand to it *)
Theorem C06_panic_prefix_files :
  forall (cf : cfg) (ins : list (option str * list ev)) (idx : N),
    exists tl : list ctx, fst (ctxs_of_inputs cf ins idx) = fst (ctxs_until_error cf ins idx) ++ tl.
Proof. exact ctxs_until_error_prefix. Qed.
Print Assumptions C06_panic_prefix_files.

(* the run fails whenever some input has a malformed region *)
Theorem C06_panic_hit_files :
  forall (cf : cfg) (ins : list (option str * list ev)) (idx : N),
    (0 < errs_of_inputs cf ins idx)%N -> snd (ctxs_until_error cf ins idx) = true.
Proof. exact ctxs_until_error_hit. Qed.
Print Assumptions C06_panic_hit_files.

(* without a malformed region panic behaves as ignore *)
Theorem C06_panic_clean_files :
  forall (cf : cfg) (ins : list (option str * list ev)) (b : bool) (p : printer)
      (sts : list stage) (hdr : list byte),
    c_on_error cf = OnPanic ->
    Forall (fun i : option str * list ev => Forall (fun e : ev => e <> EErr) (snd i)) ins ->
    build_pipeline cf = Some (p, sts) ->
    start_output p (titles expr sts []) (c_rowsep cf) = Some hdr ->
    (forall (ss : list sstate) (c : ctx), snd (process expr get sts ss c) = Continue) ->
    snd (ctxs_until_error cf ins 0) = false ->
    g_result (go cf ins b) = GOk /\
    g_events (go cf ins b) =
    match hdr with
    | [] => []
    | _ :: _ => [OOut hdr]
    end ++
    emit cf p (length (titles expr sts []))
      (run expr get sts (map (init_state expr) sts) (fst (ctxs_of_inputs cf ins 0))).
Proof. exact go_files_panic_clean. Qed.
Print Assumptions C06_panic_clean_files.
