(* C06 — noise between values never changes them; --on-error policies do what they say. Garbage tokens are made of bytes that cannot start a JSON value (everything except whitespace, n t f quote - [ { 0-9; includes } ] , : . e E + and bytes >= 128) *)
From Jawk Require Import Base Json Reader JsonParser Stream Ctx Printer Expr Chain Go Render ReaderLemmas ParserProofs TotalityProofs NoiseProofs GoProofs.

(* the catch-all arm consumes exactly the offending byte and reports one recoverable error *)
Theorem C06_garbage_byte_consumed :
  forall (fuel : nat) (w : list byte) (b : byte) (tl : list byte) (r : reader),
    rd_ok r ->
    ws_ok w ->
    garbage_byte b = true ->
    view r = w ++ b :: tl ->
    0 < fuel -> exists r' : reader, parse_value fuel r = (PErr, r') /\ view r' = tl /\ rd_ok r'.
Proof. exact garbage_step. Qed.
Print Assumptions C06_garbage_byte_consumed.

(* values of the woven stream are exactly the values of the clean stream, one error per garbage byte, at least one per garbage token *)
Theorem C06_values_unchanged :
  forall (lead : ws) (l : list (sitem * ws)) (vs : list json),
    ws_ok lead ->
    weave_ok l ->
    Forall2 (fun (t : sjson) (v : json) => value_of t = Some v) (weave_values l) vs ->
    fst (values_of_bytes (lead ++ weave l)) = vs /\
    snd (values_of_bytes (lead ++ weave l)) = N.of_nat (garbage_count l) /\
    garbage_tokens l <= garbage_count l.
Proof. exact noise_invisible. Qed.
Print Assumptions C06_values_unchanged.

(* removing the noise gives a well-formed clean stream with the same values and zero errors *)
Theorem C06_noise_removed :
  forall (lead : ws) (l : list (sitem * ws)) (vs : list json),
    ws_ok lead ->
    weave_ok l ->
    Forall2 (fun (t : sjson) (v : json) => value_of t = Some v) (weave_values l) vs ->
    stream_wf (lead ++ strip_lead l) (strip l) /\
    values_of_bytes ((lead ++ strip_lead l) ++ render_stream (strip l)) = (vs, 0%N) /\
    values_of_bytes (lead ++ weave l) = (vs, N.of_nat (garbage_count l)).
Proof. exact noise_removed. Qed.
Print Assumptions C06_noise_removed.

(* noise regions before the first value, between values and after the last one *)
Theorem C06_regions :
  forall (lead : ws) (n0 : noise) (l : vstream) (vs : list json),
    ws_ok lead ->
    noise_ok n0 ->
    vstream_ok l ->
    Forall2 (fun (twn : sjson * ws * noise) (v : json) => value_of (fst (fst twn)) = Some v) l vs ->
    values_of_bytes (lead ++ noise_bytes n0 ++ vstream_bytes l) =
    (vs, N.of_nat (noise_count n0 + vstream_noise l)).
Proof. exact noise_invisible_regions. Qed.
Print Assumptions C06_regions.

(* a clean stream produces no error at all *)
Theorem C06_clean_quiet :
  forall (lead : ws) (l : list (sjson * ws)) (vs : list json),
    stream_wf lead l ->
    Forall2 (fun (tw : sjson * ws) (v : json) => value_of (fst tw) = Some v) l vs ->
    values_of_bytes (lead ++ render_stream l) = (vs, 0%N).
Proof. exact values_of_stream. Qed.
Print Assumptions C06_clean_quiet.
