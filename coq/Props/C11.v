(* C11 — stateless pipelines are record-local. *)
From Jawk Require Import Base Json Ctx Printer Chain PipelineSpec OrderProofs SorterProofs ChainProofs.

(* pipelines made of --set, --split-by, --filter, --select: the output for a sequence is the concatenation
   of the outputs for each record on its own *)
Theorem C11_local : forall (E : Type) (get : E -> ctx E -> option json) (sts : list (stage E)),
  forallb (stateless E) sts = true -> forall cs,
  run E get sts (map (init_state E) sts) cs =
  flat_map (fun c => run E get sts (map (init_state E) sts) [c]) cs.
Proof.
  intros E get sts H cs.
  pose proof (run_spec E get (jcmp_refl show) (jcmp_antisym show) (jcmp_trans_le show) (jcmp_eq_l show) sts
               (stateless_wfp E sts H)) as R.
  rewrite R, (spec_stateless_local E get sts H).
  apply flat_map_ext. intros c. rewrite R. reflexivity.
Qed.
Print Assumptions C11_local.

Theorem C11_concat : forall (E : Type) (get : E -> ctx E -> option json) (sts : list (stage E)),
  forallb (stateless E) sts = true -> forall a b,
  run E get sts (map (init_state E) sts) (a ++ b) =
  run E get sts (map (init_state E) sts) a ++ run E get sts (map (init_state E) sts) b.
Proof.
  intros E get sts H a b.
  pose proof (run_spec E get (jcmp_refl show) (jcmp_antisym show) (jcmp_trans_le show) (jcmp_eq_l show) sts
               (stateless_wfp E sts H)) as R.
  rewrite !R. apply (spec_stateless_app E get sts H).
Qed.
Print Assumptions C11_concat.
