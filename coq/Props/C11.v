(* C11 — stateless pipelines are record-local. *)
From Jawk Require Import Base Json Ctx Printer Chain PipelineSpec OrderProofs SorterProofs ChainProofs.

(* pipelines made of --set, --split-by, --filter, --select: the output for a sequence is the concatenation
   of the outputs for each record on its own *)
Theorem C11_local : forall (E : Type) (get : E -> ctx E -> option json) (sts : list (stage E)),
  forallb (stateless E) sts = true -> forall cs,
  run E get sts (map (init_state E) sts) cs =
  flat_map (fun c => run E get sts (map (init_state E) sts) [c]) cs.
Proof.
  intros E get sts H cs.
  pose proof (run_spec E get (jcmp_refl show) (jcmp_antisym show) (jcmp_trans_le show) (jcmp_eq_l show) sts
               (stateless_wfp E sts H)) as R.
  rewrite R, (spec_stateless_local E get sts H).
  apply flat_map_ext. intros c. rewrite R. reflexivity.
Qed.
Print Assumptions C11_local.

Theorem C11_concat : forall (E : Type) (get : E -> ctx E -> option json) (sts : list (stage E)),
  forallb (stateless E) sts = true -> forall a b,
  run E get sts (map (init_state E) sts) (a ++ b) =
  run E get sts (map (init_state E) sts) a ++ run E get sts (map (init_state E) sts) b.
Proof.
  intros E get sts H a b.
  pose proof (run_spec E get (jcmp_refl show) (jcmp_antisym show) (jcmp_trans_le show) (jcmp_eq_l show) sts
               (stateless_wfp E sts H)) as R.
  rewrite !R. apply (spec_stateless_app E get sts H).
Qed.
Print Assumptions C11_concat.

(* the whole program over any list of inputs, stateless pipelines (set, split, filter, select) *)
From Jawk Require Import Base F64 Json Reader JsonParser Ctx Printer Fn Expr Chain ExprParser Go PipelineSpec OrderProofs SorterProofs ChainProofs GoProofs BuildProofs FilesProofs LocalFilesProofs.

(* the rows written over any list of inputs are the concatenation, value by value, of the rows each value gives alone (the value's context carries its position; nothing else of the history enters) *)
Theorem C11_program_local_files :
  forall (cf : cfg) (ins : list (option str * list ev)) (b : bool) (p : printer)
      (sts : list stage) (hdr : list byte),
    c_on_error cf = OnIgnore ->
    Forall (fun i : option str * list ev => Forall (fun e : ev => e <> EErr) (snd i)) ins ->
    build_pipeline cf = Some (p, sts) ->
    start_output p (titles expr sts []) (c_rowsep cf) = Some hdr ->
    (forall t : N, c_take cf = Some t -> (c_skip cf + t <= 18446744073709551615)%N) ->
    forallb (stateless expr) sts = true ->
    g_events (go cf ins b) =
    match hdr with
    | [] => []
    | _ :: _ => [OOut hdr]
    end ++
    concat
      (map (fun c : ctx => emit cf p (length (titles expr sts [])) (spec expr get sts [c]))
         (fst (ctxs_of_inputs cf ins 0))).
Proof. exact program_local_files. Qed.
Print Assumptions C11_program_local_files.

(* splitting the list of inputs splits the rows: out(A ++ B) = out(A) ++ out(B), B numbered from where A stopped *)
Theorem C11_program_concat_files :
  forall (cf : cfg) (insA insB : list (option str * list ev)) (b : bool) (p : printer)
      (sts : list stage) (hdr : list byte),
    c_on_error cf = OnIgnore ->
    Forall (fun i : option str * list ev => Forall (fun e : ev => e <> EErr) (snd i)) (insA ++ insB) ->
    build_pipeline cf = Some (p, sts) ->
    start_output p (titles expr sts []) (c_rowsep cf) = Some hdr ->
    (forall t : N, c_take cf = Some t -> (c_skip cf + t <= 18446744073709551615)%N) ->
    forallb (stateless expr) sts = true ->
    g_events (go cf (insA ++ insB) b) =
    match hdr with
    | [] => []
    | _ :: _ => [OOut hdr]
    end ++
    emit cf p (length (titles expr sts [])) (spec expr get sts (fst (ctxs_of_inputs cf insA 0))) ++
    emit cf p (length (titles expr sts []))
      (spec expr get sts
         (fst (ctxs_of_inputs cf insB (N.of_nat (length (fst (ctxs_of_inputs cf insA 0))))))).
Proof. exact program_concat_files. Qed.
Print Assumptions C11_program_concat_files.
