(* C13 — an expression means the same in every position, alias, spelling and cache size.
   Table facts tied to the source (the parse/show theorems are added from Proofs/ExprParseProofs.v). *)
From Jawk Require Import Base Json Reader Ctx Printer Fn Expr Chain ExprParser Go TableProofs.

(* every option position uses the same expression reader and the same evaluator: in the model by construction
   (parse_whole / parse_selection / parse_sorter / parse_preset all call read_getter; every stage calls get) *)
Theorem C13_one_reader_filter_split_group : forall src,
  parse_whole src =
  match read_getter (expr_fuel src) (eat_whitespace (reader_of_bytes src)) with
  | (Some e, r) => let '(c, _) := peek (eat_whitespace r) in match c with None => Some e | Some _ => None end
  | (None, _) => None
  end.
Proof. reflexivity. Qed.

(* every name and alias of the table generated from the source resolves to a known function *)
Theorem C13_table_known :
  forallb (fun e => match fn_of_canonical (snd (fst (fst e))) with FUnknown _ => false | _ => true end)
          Gen.FnTable.fn_table = true.
Proof. exact fn_table_known. Qed.
Theorem C13_table_counts : length Gen.FnTable.fn_table = 192%nat /\ Gen.FnTable.fn_count = 111%N.
Proof. exact fn_table_counts. Qed.
Print Assumptions C13_table_known.
