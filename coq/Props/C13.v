(* C13 — an expression means the same in every position, alias, spelling and cache size.
   Table facts tied to the source (the parse/show theorems are added from Proofs/ExprParseProofs.v). *)
From Jawk Require Import Base Json Reader JsonParser Ctx Printer Fn Expr Chain ExprParser Go Render ShowExpr ReaderLemmas ParserProofs ExprParseProofs FnTableOk.

(* every option position uses the same expression reader and the same evaluator: in the model by construction
   (parse_whole / parse_selection / parse_sorter / parse_preset all call read_getter; every stage calls get) *)
Theorem C13_one_reader_filter_split_group : forall src,
  parse_whole src =
  match read_getter (expr_fuel src) (eat_whitespace (reader_of_bytes src)) with
  | (Some e, r) => let '(c, _) := peek (eat_whitespace r) in match c with None => Some e | Some _ => None end
  | (None, _) => None
  end.
Proof. reflexivity. Qed.

(* every name and alias of the table generated from the source resolves to a known function *)
Theorem C13_table_known :
  forallb (fun e => match fn_of_canonical (snd (fst (fst e))) with FUnknown _ => false | _ => true end)
          Gen.FnTable.fn_table = true.
Proof. exact fn_table_known. Qed.
Theorem C13_table_counts : length Gen.FnTable.fn_table = 192%nat /\ Gen.FnTable.fn_count = 111%N.
Proof. exact fn_table_counts. Qed.
Print Assumptions C13_table_known.

(* for every well-formed spelling tree x of an expression (any alias, any run of blanks and commas between arguments, the leading-dot sugar, any JSON spelling of literals) the reader returns exactly expr_of x and leaves what follows untouched *)
Theorem C13_read_getter_show :
  forall (fuel : nat) (x : sexpr) (e : expr) (w tl : list byte) (r : reader),
    xwf x ->
    expr_of x = Some e ->
    xfollow x tl ->
    Render.ws_ok w ->
    rd_ok r ->
    view r = w ++ show x ++ tl ->
    2 * length (view r) < fuel ->
    exists r' : reader,
      read_getter fuel r = (Some e, r') /\ view r' = tl /\ rd_ok r' /\ cur r' = hd_error tl.
Proof. exact read_getter_show. Qed.
Print Assumptions C13_read_getter_show.

(* --filter / --split-by / --group-by *)
Theorem C13_parse_whole_show :
  forall (x : sexpr) (e : expr) (w w' : list byte),
    xwf x -> expr_of x = Some e -> Render.ws_ok w -> Render.ws_ok w' -> parse_whole (w ++ show x ++ w') = Some e.
Proof. exact parse_whole_show. Qed.
Print Assumptions C13_parse_whole_show.

(* --select *)
Theorem C13_parse_selection_show :
  forall (x : sexpr) (e : expr) (w w' : list byte) (s : str),
    xwf x ->
    expr_of x = Some e ->
    Render.ws_ok w ->
    Render.ws_ok w' ->
    utf8_decode (w ++ show x ++ w') = Some s -> parse_selection (w ++ show x ++ w') = Some (e, s).
Proof. exact parse_selection_show. Qed.
Print Assumptions C13_parse_selection_show.

(* --sort-by with the documented direction suffixes in any letter case *)
Theorem C13_parse_sorter_show :
  forall (x : sexpr) (e : expr) (w tl : list byte) (dir : direction),
    xwf x ->
    expr_of x = Some e -> Render.ws_ok w -> dir_suffix tl dir -> parse_sorter (w ++ show x ++ tl) = Some (e, dir).
Proof. exact parse_sorter_show. Qed.
Print Assumptions C13_parse_sorter_show.

(* whichever alias of a function is used *)
Theorem C13_alias_same_expr :
  forall (n1 n2 : list byte) (dot : bool) (args : list (pad * sexpr)) (close : pad)
      (c : list byte) (mn1 : N) (mx1 : option N) (mn2 : N) (mx2 : option N),
    find_function n1 fn_table = Some (c, mn1, mx1) ->
    find_function n2 fn_table = Some (c, mn2, mx2) ->
    expr_of (XCall n1 dot args close) = expr_of (XCall n2 dot args close).
Proof. exact alias_same_expr. Qed.
Print Assumptions C13_alias_same_expr.

(* whether arguments are separated by spaces or commas *)
Theorem C13_separators_same_expr :
  forall (name : list byte) (dot : bool) (args args' : list (pad * sexpr)) (close close' : pad),
    Forall2 (fun a b : pad * sexpr => expr_of (snd a) = expr_of (snd b)) args args' ->
    expr_of (XCall name dot args close) = expr_of (XCall name dot args' close').
Proof. exact separators_same_expr. Qed.
Print Assumptions C13_separators_same_expr.

(* whether (.f x) or (f . x) is written *)
Theorem C13_dot_sugar_same_expr :
  forall (name : list byte) (args : list (pad * sexpr)) (close s : pad) (h : bool) (close' : pad),
    expr_of (XCall name true args close) =
    expr_of (XCall name false ((s, XExtract 0 (PRoot h)) :: args) close').
Proof. exact dot_sugar_same_expr. Qed.
Print Assumptions C13_dot_sugar_same_expr.

Theorem C13_same_tree_same_reading :
  forall (x y : sexpr) (e : expr) (fuel fuel' : nat) (w w' tl tl' : list byte) (r r' : reader),
    xwf x ->
    xwf y ->
    expr_of x = Some e ->
    expr_of y = expr_of x ->
    xfollow x tl ->
    xfollow y tl' ->
    Render.ws_ok w ->
    Render.ws_ok w' ->
    rd_ok r ->
    rd_ok r' ->
    view r = w ++ show x ++ tl ->
    view r' = w' ++ show y ++ tl' ->
    2 * length (view r) < fuel ->
    2 * length (view r') < fuel' ->
    fst (read_getter fuel r) = Some e /\ fst (read_getter fuel' r') = Some e.
Proof. exact same_tree_same_reading. Qed.
Print Assumptions C13_same_tree_same_reading.

(* the 192 names and aliases of the table generated from the source are pairwise distinct *)
Theorem C13_fn_names_nodup :
  NoDup (map e_name fn_table).
Proof. exact fn_names_nodup. Qed.
Print Assumptions C13_fn_names_nodup.

Theorem C13_alias_resolves :
  forall e : list N * list N * N * option N,
    In e fn_table -> find_function (e_name e) fn_table = Some (e_canon e, e_min e, e_max e).
Proof. exact alias_resolves. Qed.
Print Assumptions C13_alias_resolves.

Theorem C13_canonical_known :
  forallb
      (fun e : entry => match fn_of_canonical (e_canon e) with
                        | FUnknown _ => false
                        | _ => true
                        end) fn_table = true.
Proof. exact canonical_known. Qed.
Print Assumptions C13_canonical_known.

(* the regular-expression cache is transparent: for every history of patterns and every capacity the results are those of compiling each pattern afresh *)
From Jawk Require Import RegexCache MiscProofs.

Theorem C13_cache_transparent :
  forall (R : Type) (compile : Base.str -> R) (cap : nat) (ps : list Base.str),
    fst (run_history R compile cap nil ps) = List.map compile ps.
Proof. exact CacheTransparent.history_transparent. Qed.
Print Assumptions C13_cache_transparent.

Theorem C13_cache_size_irrelevant :
  forall (R : Type) (compile : Base.str -> R) (cap1 cap2 : nat) (c1 c2 : cache R) (ps : list Base.str),
    CacheTransparent.sound R compile c1 ->
    CacheTransparent.sound R compile c2 ->
    fst (run_history R compile cap1 c1 ps) = fst (run_history R compile cap2 c2 ps).
Proof. exact CacheTransparent.history_cap_irrelevant. Qed.
Print Assumptions C13_cache_size_irrelevant.

Theorem C13_cache_step :
  forall (R : Type) (compile : Base.str -> R) (cap : nat) (c : cache R) (p : Base.str),
    CacheTransparent.sound R compile c -> fst (compile_regex R compile cap c p) = compile p.
Proof. exact CacheTransparent.cache_transparent. Qed.
Print Assumptions C13_cache_step.

Theorem C13_cache_bounded :
  forall (R : Type) (compile : Base.str -> R) (cap : nat) (ps : list Base.str),
    length (snd (run_history R compile cap nil ps)) <= cap.
Proof. exact CacheTransparent.history_length. Qed.
Print Assumptions C13_cache_bounded.

Theorem C13_cache_distinct :
  forall (R : Type) (compile : Base.str -> R) (cap : nat) (ps : list Base.str),
    CacheTransparent.distinct R (snd (run_history R compile cap nil ps)).
Proof. exact CacheTransparent.history_distinct. Qed.
Print Assumptions C13_cache_distinct.
