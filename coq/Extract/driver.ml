(* driver.ml — runs the extracted model on cases in a line-oriented text format (see vp/cases.py).
   Hand-written glue: conversions between OCaml strings/ints and the extracted N / nat / lists. *)
open Model

let rec pos_of_int n = if n = 1 then XH else if n land 1 = 0 then XO (pos_of_int (n lsr 1)) else XI (pos_of_int (n lsr 1))
let n_of_int n = if n <= 0 then N0 else Npos (pos_of_int n)
let rec int_of_pos = function XH -> 1 | XO p -> 2 * int_of_pos p | XI p -> 2 * int_of_pos p + 1
let int_of_n = function N0 -> 0 | Npos p -> int_of_pos p
(* decimal string -> N without overflow: digit by digit *)
let n_of_dec (s : string) : n =
  let acc = ref N0 in
  String.iter (fun ch -> acc := N.add (N.mul !acc (n_of_int 10)) (n_of_int (Char.code ch - 48))) s; !acc
let rec dec_of_n (x : n) : string =
  let ten = n_of_int 10 in
  match x with
  | N0 -> "0"
  | _ -> let q = N.div x ten and r = N.modulo x ten in
         (match q with N0 -> "" | _ -> dec_of_n q) ^ string_of_int (int_of_n r)

let unhex (s : string) : n list =
  let v c = match c with '0'..'9' -> Char.code c - 48 | 'a'..'f' -> Char.code c - 87 | 'A'..'F' -> Char.code c - 55 | _ -> 0 in
  let l = String.length s / 2 in
  List.init l (fun i -> n_of_int (v s.[2*i] * 16 + v s.[2*i+1]))
let hex (bs : n list) : string =
  let b = Buffer.create 64 in
  List.iter (fun x -> Buffer.add_string b (Printf.sprintf "%02x" (int_of_n x))) bs; Buffer.contents b

let words s = List.filter (fun w -> w <> "") (String.split_on_char ' ' s)

type st = {
  mutable on_error : on_error; mutable select : n list list; mutable filter : n list option;
  mutable split : n list option; mutable group : n list option option; mutable sort : n list list;
  mutable skip : n; mutable take : n option; mutable unique : bool; mutable set : n list list;
  mutable only_objs : bool; mutable style : out_style; mutable rowsep : n list;
  mutable json_opts : (jstyle * bool) option; mutable text_opts : text_opts option;
  mutable inputs : (n list option * ev list) list; mutable stdin : bool;
  mutable oroom : n option; mutable eroom : n option; mutable id : string }

let fresh () = { on_error = OnIgnore; select = []; filter = None; split = None; group = None; sort = [];
  skip = N0; take = None; unique = false; set = []; only_objs = false; style = StyleJson; rowsep = [n_of_int 10];
  json_opts = None; text_opts = None; inputs = []; stdin = true; oroom = None; eroom = None; id = "" }

let res_name = function GOk -> "ok" | GErrConfig -> "err:config" | GErrStart -> "err:start"
  | GErrJson -> "err:json" | GErrIo -> "err:io"

let kv s = match String.index_opt s '=' with
  | Some i -> (String.sub s 0 i, String.sub s (i+1) (String.length s - i - 1)) | None -> (s, "")

let run (s : st) =
  let cf = { c_on_error = s.on_error; c_select = List.rev s.select; c_filter = s.filter; c_split = s.split;
             c_group = s.group; c_sort = List.rev s.sort; c_skip = s.skip; c_take = s.take; c_unique = s.unique;
             c_set = List.rev s.set; c_only_objs = s.only_objs; c_style = s.style; c_rowsep = s.rowsep;
             c_json_opts = s.json_opts; c_text_opts = s.text_opts } in
  let ins = List.rev s.inputs in
  let g = go cf ins s.stdin in
  let ((o, e), failed) = apply_rooms g.g_events [] [] s.oroom s.eroom in
  let r = if failed then GErrIo else g.g_result in
  Printf.printf "RESULT %s %s %s %s %s %d\n" s.id (res_name r) ("x" ^ hex o) ("x" ^ hex e)
    (String.concat "," ("p" :: List.map dec_of_n g.g_pulled)) (if g.g_stdin_opened then 1 else 0)

let () =
  let s = ref (fresh ()) in
  (try while true do
    let line = input_line Stdlib.stdin in
    match words line with
    | ["CASE"; id] -> s := fresh (); !s.id <- id
    | ["END"] -> (try run !s with Stack_overflow -> Printf.printf "RESULT %s stackoverflow x x p 0\n" !s.id); Stdlib.flush Stdlib.stdout
    | ["on_error"; v] -> !s.on_error <- (match v with "panic" -> OnPanic | "stderr" -> OnStderr | "stdout" -> OnStdout | _ -> OnIgnore)
    | ["select"; h] -> !s.select <- unhex h :: !s.select
    | ["select"] -> !s.select <- [] :: !s.select
    | ["filter"; h] -> !s.filter <- Some (unhex h)
    | ["filter"] -> !s.filter <- Some []
    | ["split"; h] -> !s.split <- Some (unhex h)
    | ["split"] -> !s.split <- Some []
    | ["group"; h] -> !s.group <- Some (Some (unhex h))
    | ["group"] -> !s.group <- Some (Some [])
    | ["merge"] -> !s.group <- Some None
    | ["sort"; h] -> !s.sort <- unhex h :: !s.sort
    | ["sort"] -> !s.sort <- [] :: !s.sort
    | ["skip"; v] -> !s.skip <- n_of_dec v
    | ["take"; v] -> !s.take <- Some (n_of_dec v)
    | ["unique"] -> !s.unique <- true
    | ["set"; h] -> !s.set <- unhex h :: !s.set
    | ["set"] -> !s.set <- [] :: !s.set
    | ["only_objs"] -> !s.only_objs <- true
    | ["style"; v] -> !s.style <- (match v with "csv" -> StyleCsv | "text" -> StyleText | _ -> StyleJson)
    | ["rowsep"; h] -> !s.rowsep <- unhex h
    | ["rowsep"] -> !s.rowsep <- []
    | ["json_opts"; st; u] ->
        !s.json_opts <- Some ((match st with "consise" -> Consise | "pretty" -> Pretty | _ -> OneLine), u = "1")
    | "text_opts" :: kvs ->
        let d = default_text_opts in
        let o = ref d in
        List.iter (fun w -> let (k, v) = kv w in
          let b = unhex v in
          o := (match k with
            | "items_sep" -> { !o with items_sep = b } | "prefix" -> { !o with str_prefix = b }
            | "postfix" -> { !o with str_postfix = b } | "headers" -> { !o with headers = (v = "1") }
            | "null" -> { !o with null_kw = b } | "true" -> { !o with true_kw = b } | "false" -> { !o with false_kw = b }
            | "missing" -> { !o with missing_kw = Some b }
            | "escape" -> (match utf8_decode b with
                           | Some (c :: rest) -> { !o with escapes = !o.escapes @ [(c, utf8_encode rest)] }
                           | _ -> !o)
            | _ -> !o)) kvs;
        !s.text_opts <- Some !o
    | "input" :: name :: rest ->
        let nm = if name = "-" then None else (match utf8_decode (unhex name) with Some x -> Some x | None -> None) in
        let strip h = if String.length h > 0 && h.[0] = 'x' then String.sub h 1 (String.length h - 1) else h in
        let (data, fail) = match rest with
          | [h; f] -> (unhex (strip h), Some (int_of_string f)) | [h] -> (unhex (strip h), None) | _ -> ([], None) in
        let evs = List.map (fun b -> EB b) data in
        let evs = match fail with
          | Some k -> (List.filteri (fun i _ -> i < k) evs) @ [EErr]
          | None -> evs in
        !s.inputs <- (nm, evs) :: !s.inputs
    | ["stdin"; v] -> !s.stdin <- (v = "1")
    | ["out_room"; v] -> !s.oroom <- Some (n_of_dec v)
    | ["err_room"; v] -> !s.eroom <- Some (n_of_dec v)
    | _ -> ()
  done with End_of_file -> ())
