(* Extraction of the executable model to OCaml. ExtrOcamlBasic only: bool, option, list, prod,
   unit, sumbool map to OCaml natives; N, Z, positive, nat stay the extracted inductives. *)
From Jawk Require Import Base F64 Json Reader JsonParser Ctx Printer Expr Chain ExprParser Go.
Require Import Extraction ExtrOcamlBasic.
Extraction Blacklist List String Int.
Extraction "model.ml" run_with_rooms go apply_rooms next_json_value reader_of_bytes mk_reader
  print_json flt2dec dec2flt jcmpS jeqb hash_feed parse_whole parse_selection get
  utf8_decode utf8_encode Chain.run Chain.process Chain.complete show.
