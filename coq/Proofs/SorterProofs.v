(* SorterProofs.v — the sorter stage (BTreeMap<JsonValue, VecDeque<Context>> with the top-N shortcut)
   flushes to the stable insertion sort of the rows seen (cut to the capacity), in both directions;
   and `isort` is characterised: permutation, sorted, stable — and these three determine the result. *)
From Jawk Require Import Base F64 Json Ctx Printer Chain PipelineSpec.
From Coq Require Import Permutation Sorted.
#[local] Arguments N.sub : simpl never.
#[local] Arguments N.eqb : simpl never.

(* ====================================================================== *)
(* generic facts about `ins`                                               *)
(* ====================================================================== *)
Section InsLemmas.
Context {A : Type} (le : A -> A -> bool).

Lemma ins_app_le x l1 l2 :
  Forall (fun y => le y x = true) l1 -> ins le x (l1 ++ l2) = l1 ++ ins le x l2.
Proof.
  induction l1 as [|y l1 IH]; intros H; [reflexivity|].
  inversion H as [|? ? Hy Hl]; subst. cbn [app ins]. rewrite Hy, IH; auto.
Qed.

Lemma ins_all_gt x l : Forall (fun y => le y x = false) l -> ins le x l = x :: l.
Proof.
  destruct l as [|y l]; intros H; [reflexivity|].
  inversion H as [|? ? Hy Hl]; subst. cbn [ins]. rewrite Hy. reflexivity.
Qed.

Lemma ins_all_le x l : Forall (fun y => le y x = true) l -> ins le x l = l ++ [x].
Proof.
  intros H. rewrite <- (app_nil_r l) at 1. rewrite ins_app_le by exact H. reflexivity.
Qed.

Lemma ins_app_stop x l1 l2 :
  Forall (fun y => le y x = false) l2 -> ins le x (l1 ++ l2) = ins le x l1 ++ l2.
Proof.
  intros H. induction l1 as [|y l1 IH].
  - cbn [app ins]. apply ins_all_gt. exact H.
  - cbn [app ins]. destruct (le y x); [rewrite IH|]; reflexivity.
Qed.

Lemma ins_nonempty x l : ins le x l <> [].
Proof. destruct l as [|y l]; cbn [ins]; [discriminate|]. destruct (le y x); discriminate. Qed.

Lemma ins_length x l : length (ins le x l) = S (length l).
Proof.
  induction l as [|y l IH]; cbn [ins]; [reflexivity|].
  destruct (le y x); cbn [length]; rewrite ?IH; reflexivity.
Qed.

Lemma ins_split x l : exists l1 l2, l = l1 ++ l2 /\ ins le x l = l1 ++ x :: l2.
Proof.
  induction l as [|y l (l1 & l2 & H1 & H2)].
  - exists [], []. split; reflexivity.
  - cbn [ins]. destruct (le y x).
    + exists (y :: l1), l2. rewrite H2, H1 at 1. split; reflexivity.
    + exists [], (y :: l). split; reflexivity.
Qed.

(* the heart of the top-N shortcut *)
Lemma topn_step x (l : list A) n :
  n <= length l -> removelast (ins le x (firstn n l)) = firstn n (ins le x l).
Proof.
  revert n; induction l as [|y l IH]; intros n H.
  - cbn [length] in H. assert (n = 0)%nat by lia. subst. reflexivity.
  - destruct n as [|n]; [cbn; destruct (le y x); reflexivity|].
    cbn [length] in H. cbn [firstn ins]. destruct (le y x) eqn:Eyx.
    + cbn [firstn]. pose proof (ins_nonempty x (firstn n l)) as Hne.
      destruct (ins le x (firstn n l)) as [|z zs] eqn:Ez; [congruence|].
      change (removelast (y :: z :: zs)) with (y :: removelast (z :: zs)).
      rewrite <- Ez, IH by lia. reflexivity.
    + change (firstn (S n) (x :: y :: l)) with (x :: firstn n (y :: l)).
      change (removelast (x :: y :: firstn n l)) with (x :: removelast (firstn (S n) (y :: l))).
      rewrite removelast_firstn by (cbn [length]; lia). reflexivity.
Qed.

Lemma isort_snoc l x : isort le (l ++ [x]) = ins le x (isort le l).
Proof. unfold isort. rewrite fold_left_app. reflexivity. Qed.
End InsLemmas.

(* ====================================================================== *)
(* the sorter                                                              *)
(* ====================================================================== *)
Section Sorter.
Variable E : Type.
Variable get : E -> ctx E -> option json.

Hypothesis cmp_refl : forall a, jcmpS a a = Eq.
Hypothesis cmp_antisym : forall a b, jcmpS a b = CompOpp (jcmpS b a).
Hypothesis cmp_trans_le : forall a b c, jcmpS a b <> Gt -> jcmpS b c <> Gt -> jcmpS a c <> Gt.
Hypothesis cmp_eq_l : forall a b c, jcmpS a b = Eq -> jcmpS a c = jcmpS b c.

Notation cmp := jcmpS.
Notation row := (ctx E).
Notation bkts := (buckets E).

(* the state transition of the SSort case of Chain.process *)
Definition sort_step (k : E) (dir : direction) (st : option N * buckets E) (c : ctx E)
  : option N * buckets E :=
  match get k c with
  | Some kv => let d1 := binsert E kv c (snd st) in
               match fst st with
               | None => (None, d1)
               | Some sp => if (sp =? 0)%N
                            then (Some 0%N, match dir with Asc => bdrop_last E d1 | Desc => bdrop_first E d1 end)
                            else (Some (sp - 1)%N, d1)
               end
  | None => st
  end.

Lemma process_sort : forall k dir cap sts ss sp data c,
  process E get (SSort k dir cap :: sts) (StSort sp data :: ss) c =
  (StSort (fst (sort_step k dir (sp, data) c)) (snd (sort_step k dir (sp, data) c)) :: ss, [], Continue).
Proof.
  intros. unfold sort_step. cbn [process fst snd].
  destruct (get k c) as [kv|]; [|reflexivity].
  destruct sp as [sp|]; [|reflexivity].
  destruct (sp =? 0)%N; reflexivity.
Qed.

(* ---------- order facts ---------- *)
Lemma cmp_gt_lt a b : cmp a b = Lt -> cmp b a = Gt.
Proof. intros H. rewrite cmp_antisym, H. reflexivity. Qed.
Lemma cmp_lt_gt a b : cmp a b = Gt -> cmp b a = Lt.
Proof. intros H. rewrite cmp_antisym, H. reflexivity. Qed.
Lemma cmp_eq_sym a b : cmp a b = Eq -> cmp b a = Eq.
Proof. intros H. rewrite cmp_antisym, H. reflexivity. Qed.
Lemma cmp_eq_r a b c : cmp b c = Eq -> cmp a b = cmp a c.
Proof.
  intros H. rewrite (cmp_antisym a b), (cmp_antisym a c).
  f_equal. apply cmp_eq_l. exact H.
Qed.

(* the comparison outcome `c = cmp x y` makes y <= x in direction dir ... *)
Definition cle (dir : direction) (c : comparison) : bool :=
  match dir, c with
  | Asc, Lt => false
  | Desc, Gt => false
  | _, _ => true
  end.

Lemma dir_le_cle dir a b : dir_le dir a b = cle dir (cmp b a).
Proof.
  destruct dir; unfold dir_le, cle; fold jcmpS; [|reflexivity].
  rewrite (cmp_antisym a b). destruct (cmp b a); reflexivity.
Qed.

Section Key.
Variable k : E.
Definition key (c : row) : json := match get k c with Some kv => kv | None => JNull end.
Definition rle (dir : direction) (x y : row) : bool := dir_le dir (key x) (key y).

Lemma rle_cle dir y x : rle dir y x = cle dir (cmp (key x) (key y)).
Proof. apply dir_le_cle. Qed.

(* ---------- well-formed bucket lists ---------- *)
Definition bucket_ok (kb : json * list row) : Prop :=
  snd kb <> [] /\ Forall (fun r => cmp (key r) (fst kb) = Eq) (snd kb).
Definition wf (d : bkts) : Prop :=
  StronglySorted (fun a b => cmp (fst a) (fst b) = Lt) d /\ Forall bucket_ok d.

Lemma wf_nil : wf [].
Proof. split; constructor. Qed.

Lemma wf_cons kb d : wf (kb :: d) ->
  bucket_ok kb /\ Forall (fun kb' => cmp (fst kb) (fst kb') = Lt) d /\ wf d.
Proof.
  intros [Hs Hb]. inversion Hs; subst. inversion Hb; subst.
  split; [assumption|]. split; [assumption|]. split; assumption.
Qed.

Lemma wf_cons_intro kb d :
  bucket_ok kb -> Forall (fun kb' => cmp (fst kb) (fst kb') = Lt) d -> wf d -> wf (kb :: d).
Proof. intros Hb Hlt [Hs Hf]. split; constructor; assumption. Qed.

Lemma flush_asc_cons kb (d : bkts) : flush E Asc (kb :: d) = rev (snd kb) ++ flush E Asc d.
Proof. reflexivity. Qed.

Lemma flush_desc_app (a b : bkts) : flush E Desc (a ++ b) = flush E Desc b ++ flush E Desc a.
Proof. unfold flush. rewrite rev_app_distr, map_app, concat_app. reflexivity. Qed.

Lemma flush_desc_cons kb (d : bkts) : flush E Desc (kb :: d) = flush E Desc d ++ rev (snd kb).
Proof.
  change (kb :: d) with ([kb] ++ d). rewrite flush_desc_app.
  unfold flush at 2. cbn [rev app map concat]. rewrite app_nil_r. reflexivity.
Qed.

Lemma flush_nil dir : flush E dir [] = [].
Proof. destruct dir; reflexivity. Qed.

(* rows of a well-formed bucket list compare like their bucket keys *)
Lemma bucket_rows (a : json) (P : comparison -> Prop) kb :
  bucket_ok kb -> P (cmp a (fst kb)) -> Forall (fun y => P (cmp a (key y))) (rev (snd kb)).
Proof.
  intros [_ Hb] HP. apply Forall_rev. eapply Forall_impl; [|exact Hb]. cbn beta.
  intros y Hy. rewrite (cmp_eq_r _ _ _ Hy). exact HP.
Qed.

Lemma flush_rows dir (a : json) (P : comparison -> Prop) (d : bkts) :
  wf d -> Forall (fun kb => P (cmp a (fst kb))) d ->
  Forall (fun y => P (cmp a (key y))) (flush E dir d).
Proof.
  induction d as [|kb d IH]; intros Hwf Hall; [rewrite flush_nil; constructor|].
  apply wf_cons in Hwf as (Hb & _ & Hwf). inversion Hall as [|? ? Hk Hd]; subst.
  destruct dir.
  - rewrite flush_asc_cons. apply Forall_app. split; [apply bucket_rows; assumption|auto].
  - rewrite flush_desc_cons. apply Forall_app. split; [auto|apply bucket_rows; assumption].
Qed.

Lemma Forall_lt_trans k0 k' (d : bkts) :
  cmp k0 k' = Lt -> Forall (fun kb' => cmp k' (fst kb') = Lt) d ->
  Forall (fun kb' => cmp k0 (fst kb') = Lt) d.
Proof.
  intros Hk. apply Forall_impl. intros kb H.
  destruct (cmp k0 (fst kb)) eqn:E0; auto.
  - rewrite (cmp_eq_l _ _ _ E0) in Hk. rewrite (cmp_gt_lt _ _ H) in Hk. discriminate.
  - exfalso. apply (cmp_trans_le (fst kb) k0 k'); try congruence.
    + rewrite (cmp_lt_gt _ _ E0). discriminate.
    + apply cmp_gt_lt. exact H.
Qed.

(* ---------- binsert: well-formedness ---------- *)
Lemma binsert_wf kv r (d : bkts) : cmp (key r) kv = Eq -> wf d ->
  wf (binsert E kv r d) /\
  (forall k0, cmp k0 kv = Lt -> Forall (fun kb' => cmp k0 (fst kb') = Lt) d ->
              Forall (fun kb' => cmp k0 (fst kb') = Lt) (binsert E kv r d)).
Proof.
  intros Hr. induction d as [|[k' b] d IH]; intros Hwf.
  - cbn [binsert]. split.
    + apply wf_cons_intro; [|constructor|apply wf_nil].
      split; cbn [fst snd]; [discriminate|]. constructor; [exact Hr|constructor].
    + intros k0 Hk0 _. constructor; [exact Hk0|constructor].
  - pose proof (wf_cons _ _ Hwf) as ([Hne Hb] & Hlt & Hwf'). cbn [fst snd] in Hne, Hb, Hlt.
    cbn [binsert]. destruct (cmp kv k') eqn:E0.
    + (* Eq *) split.
      * apply wf_cons_intro; [|exact Hlt|exact Hwf'].
        split; cbn [fst snd]; [discriminate|]. constructor; [|exact Hb].
        rewrite <- (cmp_eq_r _ _ _ E0). exact Hr.
      * intros k0 Hk0 Hall. inversion Hall; subst. constructor; assumption.
    + (* Lt *) split.
      * apply wf_cons_intro; [| |exact Hwf].
        -- split; cbn [fst snd]; [discriminate|]. constructor; [exact Hr|constructor].
        -- constructor; [exact E0|]. apply (Forall_lt_trans _ _ _ E0 Hlt).
      * intros k0 Hk0 Hall. constructor; assumption.
    + (* Gt *) destruct (IH Hwf') as (IHwf & IHlt). split.
      * apply wf_cons_intro; [split; assumption| |exact IHwf].
        apply IHlt; [apply cmp_lt_gt; exact E0|exact Hlt].
      * intros k0 Hk0 Hall. inversion Hall; subst. constructor; auto.
Qed.

(* ---------- binsert: what it does to the flushed list ---------- *)
Lemma binsert_flush dir kv r (d : bkts) : cmp (key r) kv = Eq -> wf d ->
  flush E dir (binsert E kv r d) = ins (rle dir) r (flush E dir d).
Proof.
  intros Hr.
  assert (Hrk : forall x, cmp (key r) x = cmp kv x) by (intros x; apply cmp_eq_l; exact Hr).
  induction d as [|[k' b] d IH]; intros Hwf.
  - cbn [binsert]. rewrite flush_nil. destruct dir; reflexivity.
  - pose proof (wf_cons _ _ Hwf) as (Hbok & Hlt & Hwf'). cbn [fst] in Hlt.
    assert (Hrows : forall (P : comparison -> Prop) (v : bool) l,
              (forall c, P c -> cle dir c = v) ->
              Forall (fun y => P (cmp (key r) (key y))) l ->
              Forall (fun y => rle dir y r = v) l).
    { intros P v l HP. apply Forall_impl. intros y Hy. rewrite rle_cle. apply HP. exact Hy. }
    cbn [binsert]. destruct (cmp kv k') eqn:E0.
    + (* Eq: r joins the bucket of k' as its newest row *)
      assert (Hb : Forall (fun y => rle dir y r = true) (rev b)).
      { apply (Hrows (fun c => c = Eq)); [intros c ->; destruct dir; reflexivity|].
        apply (bucket_rows (key r) (fun c => c = Eq) (k', b) Hbok). cbn [fst]. rewrite Hrk. exact E0. }
      assert (Hd : Forall (fun y => cmp (key r) (key y) = Lt) (flush E dir d)).
      { apply (flush_rows dir (key r) (fun c => c = Lt) d Hwf').
        eapply Forall_impl; [|exact Hlt]. cbn beta. intros kb Hkb.
        rewrite Hrk, (cmp_eq_l _ _ _ E0). exact Hkb. }
      destruct dir.
      * rewrite !flush_asc_cons. cbn [snd rev]. rewrite <- app_assoc. cbn [app].
        rewrite ins_app_le by exact Hb. f_equal. symmetry. apply ins_all_gt.
        apply (Hrows (fun c => c = Lt)); [intros c ->; reflexivity|exact Hd].
      * rewrite !flush_desc_cons. cbn [snd rev]. rewrite app_assoc. symmetry. apply ins_all_le.
        apply Forall_app. split; [|exact Hb].
        apply (Hrows (fun c => c = Lt)); [intros c ->; reflexivity|exact Hd].
    + (* Lt: a new smallest bucket *)
      assert (Hd : Forall (fun y => cmp (key r) (key y) = Lt) (flush E dir ((k', b) :: d))).
      { apply (flush_rows dir (key r) (fun c => c = Lt) _ Hwf).
        constructor; [cbn [fst]; rewrite Hrk; exact E0|].
        eapply Forall_impl; [|apply (Forall_lt_trans _ _ _ E0 Hlt)].
        cbn beta. intros kb Hkb. rewrite Hrk. exact Hkb. }
      destruct dir.
      * rewrite flush_asc_cons. cbn [snd rev app]. symmetry. apply ins_all_gt.
        apply (Hrows (fun c => c = Lt)); [intros c ->; reflexivity|exact Hd].
      * rewrite flush_desc_cons. cbn [snd rev app]. symmetry. apply ins_all_le.
        apply (Hrows (fun c => c = Lt)); [intros c ->; reflexivity|exact Hd].
    + (* Gt: go on *)
      assert (Hb : Forall (fun y => cmp (key r) (key y) = Gt) (rev b)).
      { apply (bucket_rows (key r) (fun c => c = Gt) (k', b) Hbok). cbn [fst]. rewrite Hrk. exact E0. }
      destruct dir.
      * rewrite !flush_asc_cons. cbn [snd]. rewrite (IH Hwf'). symmetry. apply ins_app_le.
        apply (Hrows (fun c => c = Gt)); [intros c ->; reflexivity|exact Hb].
      * rewrite !flush_desc_cons. cbn [snd]. rewrite (IH Hwf'). symmetry. apply ins_app_stop.
        apply (Hrows (fun c => c = Gt)); [intros c ->; reflexivity|exact Hb].
Qed.

(* ---------- the top-N shortcut removes exactly the last flushed row ---------- *)
Lemma flush_asc_nonempty (d : bkts) : wf d -> d <> [] -> flush E Asc d <> [].
Proof.
  destruct d as [|[k0 b] d]; intros Hwf Hne; [congruence|].
  apply wf_cons in Hwf as ([Hb _] & _ & _). cbn [snd] in Hb. rewrite flush_asc_cons. cbn [snd].
  destruct b as [|x b]; [congruence|]. cbn [rev]. intros H.
  apply app_eq_nil in H as [H _]. apply app_eq_nil in H as [_ H]. discriminate.
Qed.

Lemma bdrop_last_spec (d : bkts) : wf d ->
  wf (bdrop_last E d) /\ flush E Asc (bdrop_last E d) = removelast (flush E Asc d) /\
  (forall k0, Forall (fun kb' => cmp k0 (fst kb') = Lt) d ->
              Forall (fun kb' => cmp k0 (fst kb') = Lt) (bdrop_last E d)).
Proof.
  induction d as [|[k0 b] d IH]; intros Hwf.
  - cbn. repeat split; auto; constructor.
  - pose proof (wf_cons _ _ Hwf) as ([Hne Hb] & Hlt & Hwf'). cbn [fst snd] in Hne, Hb, Hlt.
    destruct d as [|kb2 d].
    + (* single bucket *)
      cbn [bdrop_last]. unfold drop_front. cbn [fst snd].
      destruct b as [|x [|y b']]; [congruence| |].
      * cbn. repeat split; auto; constructor.
      * split; [|split].
        -- apply wf_cons_intro; [|constructor|apply wf_nil].
           split; cbn [fst snd]; [discriminate|]. inversion Hb; assumption.
        -- rewrite !flush_asc_cons. cbn [snd]. unfold flush. cbn [map concat]. rewrite !app_nil_r.
           change (rev (x :: y :: b')) with (rev (y :: b') ++ [x]).
           rewrite removelast_last. reflexivity.
        -- intros k1 H. inversion H; subst. constructor; auto.
    + destruct (IH Hwf') as (IHwf & IHflat & IHlt).
      change (bdrop_last E ((k0, b) :: kb2 :: d)) with ((k0, b) :: bdrop_last E (kb2 :: d)).
      split; [|split].
      * apply wf_cons_intro; [split; assumption| |exact IHwf]. apply IHlt. exact Hlt.
      * rewrite (flush_asc_cons (k0, b) (bdrop_last E (kb2 :: d))), (flush_asc_cons (k0, b) (kb2 :: d)).
        cbn [snd]. rewrite IHflat.
        rewrite removelast_app; [reflexivity|]. apply flush_asc_nonempty; [exact Hwf'|discriminate].
      * intros k1 H. inversion H; subst. constructor; auto.
Qed.

Lemma bdrop_first_spec (d : bkts) : wf d ->
  wf (bdrop_first E d) /\ flush E Desc (bdrop_first E d) = removelast (flush E Desc d).
Proof.
  destruct d as [|[k0 b] d]; intros Hwf.
  - split; [exact Hwf|reflexivity].
  - pose proof (wf_cons _ _ Hwf) as ([Hne Hb] & Hlt & Hwf'). cbn [fst snd] in Hne, Hb, Hlt.
    unfold bdrop_first, drop_front. cbn [fst snd].
    destruct b as [|x [|y b']]; [congruence| |].
    + cbn [app]. split; [exact Hwf'|].
      rewrite flush_desc_cons. cbn [snd rev app]. rewrite removelast_last. reflexivity.
    + cbn [app]. split.
      * apply wf_cons_intro; [|exact Hlt|exact Hwf'].
        split; cbn [fst snd]; [discriminate|]. inversion Hb; assumption.
      * rewrite !flush_desc_cons. cbn [snd].
        change (rev (x :: y :: b')) with (rev (y :: b') ++ [x]).
        rewrite app_assoc, removelast_last. reflexivity.
Qed.

Definition bdrop (dir : direction) (d : bkts) : bkts :=
  match dir with Asc => bdrop_last E d | Desc => bdrop_first E d end.

Lemma bdrop_spec dir (d : bkts) : wf d ->
  wf (bdrop dir d) /\ flush E dir (bdrop dir d) = removelast (flush E dir d).
Proof.
  intros Hwf. destruct dir; cbn [bdrop].
  - destruct (bdrop_last_spec d Hwf) as (H1 & H2 & _). split; assumption.
  - apply bdrop_first_spec. exact Hwf.
Qed.

(* ---------- the specification, as a fold over the rows ---------- *)
Definition spec_step (dir : direction) (acc : list row) (c : row) : list row :=
  match get k c with Some _ => ins (rle dir) c acc | None => acc end.

Definition pair_ok (p : json * row) : Prop := fst p = key (snd p).

Lemma map_snd_ins dir p (l : list (json * row)) : pair_ok p -> Forall pair_ok l ->
  map snd (ins (fun a b => dir_le dir (fst a) (fst b)) p l) = ins (rle dir) (snd p) (map snd l) /\
  Forall pair_ok (ins (fun a b => dir_le dir (fst a) (fst b)) p l).
Proof.
  intros Hp. induction l as [|q l IH]; intros Hl.
  - split; [reflexivity|]. constructor; [exact Hp|constructor].
  - inversion Hl as [|? ? Hq Hl']; subst. destruct (IH Hl') as [IH1 IH2].
    cbn [ins map]. unfold rle at 1. rewrite <- Hp, <- Hq.
    destruct (dir_le dir (fst q) (fst p)).
    + cbn [map]. rewrite IH1. split; [reflexivity|]. constructor; assumption.
    + split; [reflexivity|]. constructor; assumption.
Qed.

Lemma keyed_fold dir cs : forall acc, Forall pair_ok acc ->
  map snd (fold_left (fun acc x => ins (fun a b => dir_le dir (fst a) (fst b)) x acc)
                     (keyed E get k cs) acc)
  = fold_left (spec_step dir) cs (map snd acc).
Proof.
  induction cs as [|c cs IH]; intros acc Hacc; [reflexivity|].
  change (keyed E get k (c :: cs))
    with ((match get k c with Some kv => [(kv, c)] | None => [] end) ++ keyed E get k cs).
  cbn [fold_left]. unfold spec_step at 2. destruct (get k c) as [kv|] eqn:Eg.
  - cbn [app fold_left].
    assert (Hp : pair_ok (kv, c)) by (unfold pair_ok, key; cbn [fst snd]; rewrite Eg; reflexivity).
    destruct (map_snd_ins dir (kv, c) acc Hp Hacc) as [H1 H2].
    rewrite (IH _ H2), H1. reflexivity.
  - cbn [app]. apply IH. exact Hacc.
Qed.

Lemma sort_spec_fold dir cs : sort_spec E get k dir cs = fold_left (spec_step dir) cs [].
Proof. unfold sort_spec, isort. rewrite keyed_fold by constructor. reflexivity. Qed.

(* ---------- invariants ---------- *)
Definition InvN (dir : direction) (st : option N * bkts) (S0 : list row) : Prop :=
  wf (snd st) /\ flush E dir (snd st) = S0 /\ fst st = None.

Definition InvC (dir : direction) (m : nat) (st : option N * bkts) (S0 : list row) : Prop :=
  wf (snd st) /\ flush E dir (snd st) = firstn m S0 /\
  exists sp, fst st = Some sp /\ N.to_nat sp = m - length S0.

Lemma key_of_get c kv : get k c = Some kv -> cmp (key c) kv = Eq.
Proof. intros H. unfold key. rewrite H. apply cmp_refl. Qed.

Lemma stepN dir st S0 c : InvN dir st S0 -> InvN dir (sort_step k dir st c) (spec_step dir S0 c).
Proof.
  intros (Hwf & Hflat & Hsp). destruct st as [o d]. cbn [fst snd] in *. subst o.
  unfold sort_step, spec_step. destruct (get k c) as [kv|] eqn:Eg; cbn [fst snd].
  - pose proof (key_of_get _ _ Eg) as Hk.
    split; [apply (binsert_wf kv c d Hk Hwf)|]. split; [|reflexivity].
    cbn [snd]. rewrite (binsert_flush dir kv c d Hk Hwf), Hflat. reflexivity.
  - split; [exact Hwf|]. split; [exact Hflat|reflexivity].
Qed.

Lemma stepC dir m st S0 c :
  InvC dir m st S0 -> InvC dir m (sort_step k dir st c) (spec_step dir S0 c).
Proof.
  intros (Hwf & Hflat & sp & Hsp & Hn). destruct st as [o d]. cbn [fst snd] in *. subst o.
  unfold sort_step, spec_step. destruct (get k c) as [kv|] eqn:Eg; cbn [fst snd].
  - pose proof (key_of_get _ _ Eg) as Hk.
    destruct (binsert_wf kv c d Hk Hwf) as [Hwf1 _].
    pose proof (binsert_flush dir kv c d Hk Hwf) as Hflat1.
    destruct (N.eqb_spec sp 0) as [H0|H0].
    + (* full *)
      change (match dir with Asc => bdrop_last E (binsert E kv c d)
                           | Desc => bdrop_first E (binsert E kv c d) end)
        with (bdrop dir (binsert E kv c d)).
      destruct (bdrop_spec dir _ Hwf1) as [Hwf2 Hflat2].
      split; [exact Hwf2|]. split.
      * cbn [snd]. rewrite Hflat2, Hflat1, Hflat. apply topn_step. lia.
      * exists 0%N. split; [reflexivity|]. rewrite ins_length. lia.
    + (* room left *)
      split; [exact Hwf1|]. split.
      * cbn [snd]. rewrite Hflat1, Hflat.
        rewrite !firstn_all2; [reflexivity| rewrite ins_length; lia | lia].
      * exists (sp - 1)%N. split; [reflexivity|]. rewrite ins_length. lia.
  - split; [exact Hwf|]. split; [exact Hflat|]. exists sp. split; [reflexivity|exact Hn].
Qed.

Lemma sorter_nocap_k dir cs :
  flush E dir (snd (fold_left (sort_step k dir) cs (None, []))) = sort_spec E get k dir cs.
Proof.
  rewrite sort_spec_fold.
  assert (G : forall st S0, InvN dir st S0 ->
            InvN dir (fold_left (sort_step k dir) cs st) (fold_left (spec_step dir) cs S0)).
  { induction cs as [|c cs IH]; intros st S0 H; [exact H|].
    cbn [fold_left]. apply IH. apply stepN. exact H. }
  destruct (G (None, []) []) as (_ & H & _); [|exact H].
  split; [apply wf_nil|]. split; [apply flush_nil|reflexivity].
Qed.

Lemma sorter_cap_k dir n cs :
  flush E dir (snd (fold_left (sort_step k dir) cs (Some n, []))) =
  firstn (N.to_nat n) (sort_spec E get k dir cs).
Proof.
  rewrite sort_spec_fold.
  assert (G : forall st S0, InvC dir (N.to_nat n) st S0 ->
            InvC dir (N.to_nat n) (fold_left (sort_step k dir) cs st) (fold_left (spec_step dir) cs S0)).
  { induction cs as [|c cs IH]; intros st S0 H; [exact H|].
    cbn [fold_left]. apply IH. apply stepC. exact H. }
  destruct (G (Some n, []) []) as (_ & H & _); [|exact H].
  split; [apply wf_nil|]. split; [cbn [snd]; rewrite flush_nil, firstn_nil; reflexivity|].
  exists n. split; [reflexivity|]. cbn [length]. lia.
Qed.
End Key.

Theorem sorter_spec_nocap : forall k dir cs,
  flush E dir (snd (fold_left (sort_step k dir) cs (None, []))) = sort_spec E get k dir cs.
Proof. exact sorter_nocap_k. Qed.

Theorem sorter_spec_cap : forall k dir n cs,
  flush E dir (snd (fold_left (sort_step k dir) cs (Some n, []))) =
  firstn (N.to_nat n) (sort_spec E get k dir cs).
Proof. exact sorter_cap_k. Qed.


(* ---------- dir_le is a total preorder (both directions), hence so is the order on keyed rows ---------- *)
Lemma dir_le_asc_iff a b : dir_le Asc a b = true <-> cmp a b <> Gt.
Proof. unfold dir_le; fold jcmpS. destruct (cmp a b); split; congruence. Qed.

Lemma dir_le_desc a b : dir_le Desc a b = dir_le Asc b a.
Proof. reflexivity. Qed.

Lemma dir_le_total dir a b : dir_le dir a b = true \/ dir_le dir b a = true.
Proof.
  assert (H : forall x y, dir_le Asc x y = true \/ dir_le Asc y x = true).
  { intros x y. unfold dir_le; fold jcmpS. rewrite (cmp_antisym y x).
    destruct (cmp x y); cbn [CompOpp]; auto. }
  destruct dir; [apply H|]. rewrite !dir_le_desc. apply H.
Qed.

Lemma dir_le_trans dir a b c : dir_le dir a b = true -> dir_le dir b c = true -> dir_le dir a c = true.
Proof.
  destruct dir; rewrite ?dir_le_desc, !dir_le_asc_iff; intros H1 H2.
  - exact (cmp_trans_le _ _ _ H1 H2).
  - exact (cmp_trans_le _ _ _ H2 H1).
Qed.

Lemma keyed_le_total dir (X : Type) (a b : json * X) :
  (fun a b : json * X => dir_le dir (fst a) (fst b)) a b = true \/
  (fun a b : json * X => dir_le dir (fst a) (fst b)) b a = true.
Proof. apply dir_le_total. Qed.

Lemma keyed_le_trans dir (X : Type) (a b c : json * X) :
  (fun a b : json * X => dir_le dir (fst a) (fst b)) a b = true ->
  (fun a b : json * X => dir_le dir (fst a) (fst b)) b c = true ->
  (fun a b : json * X => dir_le dir (fst a) (fst b)) a c = true.
Proof. apply dir_le_trans. Qed.

End Sorter.


(* ====================================================================== *)
(* what `isort` is: a permutation, sorted, stable — and nothing else is     *)
(* ====================================================================== *)
Section ListFacts.
Context {A : Type}.

Lemma filter_comm (P Q : A -> bool) l : filter P (filter Q l) = filter Q (filter P l).
Proof.
  induction l as [|a l IH]; [reflexivity|]. cbn [filter].
  destruct (Q a) eqn:Eq, (P a) eqn:Ep; cbn [filter]; rewrite ?Eq, ?Ep, IH; reflexivity.
Qed.

Lemma filter_filter (P Q : A -> bool) l : filter P (filter Q l) = filter (fun w => P w && Q w) l.
Proof.
  induction l as [|a l IH]; [reflexivity|]. cbn [filter].
  destruct (Q a) eqn:Eq; cbn [filter]; rewrite IH; destruct (P a); reflexivity.
Qed.

Lemma Forall_filter_self (P : A -> bool) l : Forall (fun a => P a = true) (filter P l).
Proof. apply Forall_forall. intros a Ha. apply filter_In in Ha. apply Ha. Qed.

Lemma Forall_filter (R : A -> Prop) (P : A -> bool) l : Forall R l -> Forall R (filter P l).
Proof.
  rewrite !Forall_forall. intros H a Ha. apply filter_In in Ha. apply H, Ha.
Qed.

Lemma perm_filter (P : A -> bool) l l' : Permutation l l' -> Permutation (filter P l) (filter P l').
Proof.
  induction 1 as [|a l l' _ IH|a b l|l l' l'' _ IH1 _ IH2].
  - constructor.
  - cbn [filter]. destruct (P a); [constructor|]; exact IH.
  - cbn [filter]. destruct (P a), (P b); try reflexivity. constructor.
  - etransitivity; eassumption.
Qed.

Lemma sorted_filter (R : A -> A -> Prop) (P : A -> bool) l :
  StronglySorted R l -> StronglySorted R (filter P l).
Proof.
  induction 1 as [|a l Hs IH Hf]; [constructor|]. cbn [filter].
  destruct (P a); [|exact IH]. constructor; [exact IH|]. apply Forall_filter. exact Hf.
Qed.

Lemma sorted_restrict (R R' : A -> A -> Prop) (P : A -> Prop) l :
  (forall a b, P a -> P b -> R a b -> R' a b) ->
  Forall P l -> StronglySorted R l -> StronglySorted R' l.
Proof.
  intros HR HP. induction 1 as [|a l Hs IH Hf]; [constructor|].
  inversion HP as [|? ? Pa Pl]; subst. constructor; [exact (IH Pl)|].
  rewrite Forall_forall in *. intros b Hb. apply HR; auto.
Qed.
End ListFacts.

Section IsortChar.
Context {A : Type}.

Section One.
Variable le : A -> A -> bool.
Local Notation sorted := (StronglySorted (fun a b => le a b = true)).
Local Notation eqv x := (fun y => le x y && le y x).

Lemma ins_perm x l : Permutation (ins le x l) (x :: l).
Proof.
  induction l as [|y l IH]; [reflexivity|]. cbn [ins]. destruct (le y x); [|reflexivity].
  etransitivity; [apply perm_skip, IH|apply perm_swap].
Qed.

Theorem isort_perm : forall l, Permutation (isort le l) l.
Proof.
  induction l as [|x l IH] using rev_ind; [reflexivity|].
  rewrite isort_snoc. etransitivity; [apply ins_perm|].
  etransitivity; [apply perm_skip, IH|apply Permutation_cons_append].
Qed.

Hypothesis le_total : forall a b, le a b = true \/ le b a = true.
Hypothesis le_trans : forall a b c, le a b = true -> le b c = true -> le a c = true.

Lemma le_refl a : le a a = true.
Proof. destruct (le_total a a); assumption. Qed.

Lemma ins_sorted x l : sorted l -> sorted (ins le x l).
Proof.
  induction 1 as [|y l Hs IH Hf]; [repeat constructor|].
  cbn [ins]. destruct (le y x) eqn:Eyx.
  - constructor; [exact IH|].
    eapply Permutation_Forall; [apply Permutation_sym, ins_perm|]. constructor; assumption.
  - assert (Hxy : le x y = true) by (destruct (le_total x y); congruence).
    constructor; [constructor; assumption|]. constructor; [exact Hxy|].
    eapply Forall_impl; [|exact Hf]. cbn beta. intros z Hz. exact (le_trans _ _ _ Hxy Hz).
Qed.

Theorem isort_sorted : forall l, sorted (isort le l).
Proof.
  induction l as [|x l IH] using rev_ind; [constructor|].
  rewrite isort_snoc. apply ins_sorted. exact IH.
Qed.

Lemma ins_filter x z l : sorted l ->
  filter (eqv x) (ins le z l) = filter (eqv x) l ++ (if le x z && le z x then [z] else []).
Proof.
  induction 1 as [|y l Hs IH Hf]; [cbn [ins filter app]; destruct (le x z && le z x); reflexivity|].
  cbn [ins]. destruct (le y z) eqn:Eyz.
  - cbn [filter]. rewrite IH. destruct (le x y && le y x); reflexivity.
  - cbn [filter]. destruct (le x z && le z x) eqn:Exz; [|rewrite app_nil_r; reflexivity].
    apply andb_true_iff in Exz as [Hxz Hzx].
    assert (Hnone : forall w, le y w = true -> le x w && le w x = false).
    { intros w Hyw. destruct (le x w && le w x) eqn:Exw; [|reflexivity].
      apply andb_true_iff in Exw as [Hxw Hwx].
      rewrite (le_trans _ _ _ Hyw (le_trans _ _ _ Hwx Hxz)) in Eyz. discriminate. }
    rewrite (Hnone y (le_refl y)).
    assert (Hl : filter (eqv x) l = []).
    { clear IH Hs. induction l as [|w l IHl]; [reflexivity|].
      inversion Hf as [|? ? Hw Hl]; subst. cbn [filter]. rewrite (Hnone w Hw). exact (IHl Hl). }
    rewrite Hl. reflexivity.
Qed.

Theorem isort_stable : forall l x,
  filter (fun y => le x y && le y x) (isort le l) = filter (fun y => le x y && le y x) l.
Proof.
  induction l as [|z l IH] using rev_ind; intros x; [reflexivity|].
  rewrite isort_snoc, ins_filter by apply isort_sorted.
  rewrite filter_app, IH. cbn [filter]. reflexivity.
Qed.

(* a sorted list is determined by its elements and the order inside each equivalence class *)
Lemma sorted_stable_unique : forall l1 l2,
  Permutation l1 l2 -> sorted l1 -> sorted l2 ->
  (forall x, filter (eqv x) l1 = filter (eqv x) l2) -> l1 = l2.
Proof.
  induction l1 as [|a t1 IH]; intros l2 Hp H1 H2 Hf.
  - apply Permutation_nil in Hp. subst. reflexivity.
  - destruct l2 as [|b t2]; [apply Permutation_sym, Permutation_nil in Hp; discriminate|].
    inversion H1 as [|? ? Hs1 Ha]; subst. inversion H2 as [|? ? Hs2 Hb]; subst.
    assert (Hab : le a b = true).
    { assert (Hin : In b (a :: t1)) by (eapply Permutation_in; [apply Permutation_sym, Hp|left; reflexivity]).
      destruct Hin as [<-|Hin]; [apply le_refl|]. rewrite Forall_forall in Ha. apply Ha, Hin. }
    assert (Hba : le b a = true).
    { assert (Hin : In a (b :: t2)) by (eapply Permutation_in; [exact Hp|left; reflexivity]).
      destruct Hin as [<-|Hin]; [apply le_refl|]. rewrite Forall_forall in Hb. apply Hb, Hin. }
    assert (a = b).
    { pose proof (Hf a) as Hfa. cbn [filter] in Hfa. rewrite le_refl, Hab, Hba in Hfa.
      cbn [andb] in Hfa. congruence. }
    subst b. f_equal. apply IH; [eapply Permutation_cons_inv; exact Hp|assumption|assumption|].
    intros x. pose proof (Hf x) as Hfx. cbn [filter] in Hfx.
    destruct (le x a && le a x); congruence.
Qed.

Theorem isort_unique : forall l l',
  Permutation l' l -> sorted l' ->
  (forall x, filter (fun y => le x y && le y x) l' = filter (fun y => le x y && le y x) l) ->
  l' = isort le l.
Proof.
  intros l l' Hp Hs Hf. apply sorted_stable_unique.
  - etransitivity; [exact Hp|apply Permutation_sym, isort_perm].
  - exact Hs.
  - apply isort_sorted.
  - intros x. rewrite isort_stable. apply Hf.
Qed.

Lemma le_shift_l x z w : le x z = true -> le z x = true -> le x w = le z w.
Proof. intros H1 H2. apply eq_true_iff_eq. split; intros H; eapply le_trans; eauto. Qed.
Lemma le_shift_r x z w : le x z = true -> le z x = true -> le w x = le w z.
Proof. intros H1 H2. apply eq_true_iff_eq. split; intros H; eapply le_trans; eauto. Qed.
End One.

(* sorting by the minor key, then stably by the major key, is the lexicographic sort *)
Section Lex.
Variables le1 le2 : A -> A -> bool.
Hypothesis le1_total : forall a b, le1 a b = true \/ le1 b a = true.
Hypothesis le1_trans : forall a b c, le1 a b = true -> le1 b c = true -> le1 a c = true.
Hypothesis le2_total : forall a b, le2 a b = true \/ le2 b a = true.
Hypothesis le2_trans : forall a b c, le2 a b = true -> le2 b c = true -> le2 a c = true.

Definition lex (a b : A) : bool := le1 a b && (negb (le1 b a) || le2 a b).

Lemma lex_total a b : lex a b = true \/ lex b a = true.
Proof.
  unfold lex. destruct (le1_total a b) as [H|H], (le2_total a b) as [H'|H']; rewrite ?H, ?H';
    destruct (le1 a b), (le1 b a), (le2 a b), (le2 b a); cbn; auto; discriminate.
Qed.

Lemma lex_trans a b c : lex a b = true -> lex b c = true -> lex a c = true.
Proof.
  unfold lex. intros Hab Hbc.
  apply andb_true_iff in Hab as [Hab1 Hab2]. apply andb_true_iff in Hbc as [Hbc1 Hbc2].
  apply andb_true_iff. split; [exact (le1_trans _ _ _ Hab1 Hbc1)|].
  destruct (le1 c a) eqn:Hca; [|reflexivity]. cbn [negb orb].
  rewrite (le1_trans _ _ _ Hca Hab1) in Hbc2. rewrite (le1_trans _ _ _ Hbc1 Hca) in Hab2.
  cbn [negb orb] in Hab2, Hbc2. exact (le2_trans _ _ _ Hab2 Hbc2).
Qed.

Lemma lex_class x y l :
  filter (fun w => le2 y w && le2 w y) (filter (fun w => le1 x w && le1 w x) (isort lex l)) =
  filter (fun w => le2 y w && le2 w y) (filter (fun w => le1 x w && le1 w x) l).
Proof.
  rewrite !filter_filter.
  set (Q := fun w => (le2 y w && le2 w y) && (le1 x w && le1 w x)).
  destruct (filter Q l) as [|z rest] eqn:EQ.
  - apply Permutation_nil. rewrite <- EQ. apply perm_filter, Permutation_sym, isort_perm.
  - rewrite <- EQ.
    assert (Hz : Q z = true).
    { assert (Hin : In z (filter Q l)) by (rewrite EQ; left; reflexivity).
      apply filter_In in Hin. apply Hin. }
    unfold Q in Hz. apply andb_true_iff in Hz as [Hz2 Hz1].
    apply andb_true_iff in Hz2 as [Hyz Hzy]. apply andb_true_iff in Hz1 as [Hxz Hzx].
    assert (HQ : forall w, Q w = lex z w && lex w z).
    { intros w. unfold Q, lex.
      rewrite (le_shift_l le2 le2_trans y z w Hyz Hzy), (le_shift_r le2 le2_trans y z w Hyz Hzy).
      rewrite (le_shift_l le1 le1_trans x z w Hxz Hzx), (le_shift_r le1 le1_trans x z w Hxz Hzx).
      destruct (le1 z w), (le1 w z), (le2 z w), (le2 w z); reflexivity. }
    rewrite (filter_ext _ _ HQ (isort lex l)), (filter_ext _ _ HQ l).
    apply isort_stable; [exact lex_total|exact lex_trans].
Qed.

Theorem isort_lex_aux : forall l, isort le1 (isort le2 l) = isort lex l.
Proof.
  intros l. apply (sorted_stable_unique le1 le1_total).
  - etransitivity; [apply isort_perm|]. etransitivity; [apply isort_perm|].
    apply Permutation_sym, isort_perm.
  - apply isort_sorted; assumption.
  - apply (sorted_restrict (fun a b => lex a b = true) _ (fun _ => True)).
    + intros a b _ _ H. unfold lex in H. apply andb_true_iff in H. apply H.
    + apply Forall_forall. intros; exact I.
    + apply isort_sorted; [exact lex_total|exact lex_trans].
  - intros x. rewrite (isort_stable le1 le1_total le1_trans).
    apply (sorted_stable_unique le2 le2_total).
    + apply perm_filter. etransitivity; [apply isort_perm|apply Permutation_sym, isort_perm].
    + apply sorted_filter. apply isort_sorted; assumption.
    + apply (sorted_restrict (fun a b => lex a b = true) _ (fun w => le1 x w && le1 w x = true)).
      * intros a b Ha Hb H. unfold lex in H.
        apply andb_true_iff in Ha as [Hxa Hax]. apply andb_true_iff in Hb as [Hxb Hbx].
        apply andb_true_iff in H as [_ H].
        rewrite (le1_trans _ _ _ Hbx Hxa) in H. exact H.
      * apply Forall_filter_self.
      * apply sorted_filter. apply isort_sorted; [exact lex_total|exact lex_trans].
    + intros y. rewrite lex_class.
      rewrite (filter_comm _ _ (isort le2 l)), (isort_stable le2 le2_total le2_trans).
      apply filter_comm.
Qed.
End Lex.

Theorem isort_lex : forall (le1 le2 : A -> A -> bool) l,
  (forall a b, le1 a b = true \/ le1 b a = true) ->
  (forall a b c, le1 a b = true -> le1 b c = true -> le1 a c = true) ->
  (forall a b, le2 a b = true \/ le2 b a = true) ->
  (forall a b c, le2 a b = true -> le2 b c = true -> le2 a c = true) ->
  isort le1 (isort le2 l) = isort (fun a b => le1 a b && (negb (le1 b a) || le2 a b)) l.
Proof. intros le1 le2 l T1 R1 T2 R2. exact (isort_lex_aux le1 le2 T1 R1 T2 R2 l). Qed.
End IsortChar.

Print Assumptions process_sort.
Print Assumptions sorter_spec_nocap.
Print Assumptions sorter_spec_cap.
Print Assumptions isort_perm.
Print Assumptions isort_sorted.
Print Assumptions isort_stable.
Print Assumptions isort_unique.
Print Assumptions isort_lex.
Print Assumptions dir_le_total.
Print Assumptions dir_le_trans.
