From Jawk Require Import Base F64 Json Ctx Printer Chain PipelineSpec.
From Coq Require Import Permutation Sorted.
About binsert. About bdrop_last. About bdrop_first. About flush. About process. About jcmpS. About buckets. About ins. About isort. About sort_spec. About keyed. About dir_le. About drop_front. About ctx.
Check removelast_firstn. Check firstn_map. Check removelast_last. Check removelast_app.
Check Permutation_Forall.
