(* FilesProofs.v — go_run_ignore generalised from one input to a list of inputs, for pipelines that never
   answer Break (nb): the events of `go` are the header followed by the rows of Chain.run over the contexts of
   all the inputs, the record index running on across inputs. *)
From Jawk Require Import Base F64 Json Reader JsonParser Ctx Printer Fn Expr Chain ExprParser Go PipelineSpec.
From Jawk Require Import OrderProofs SorterProofs ChainProofs GoProofs BuildProofs.
From Coq Require Import Lia.
Local Open Scope N_scope.

(* the contexts of a list of inputs: the record index runs on across inputs, the index inside the file restarts *)
Fixpoint ctxs_of_inputs (cf : cfg) (ins : list (option str * list ev)) (idx : N) : list ctx * bool :=
  match ins with
  | [] => ([], false)
  | (fname, evs) :: t =>
      let '(cs, _, b) := read_ctxs (input_fuel evs) (c_only_objs cf) (mk_reader evs) fname idx 0 in
      let '(cs2, b2) := ctxs_of_inputs cf t (idx + N.of_nat (length cs)) in
      (cs ++ cs2, b || b2)
  end.

Lemma read_ctxs_mk_no_stop (cf : cfg) fname evs idx : Forall (fun e => e <> EErr) evs ->
  snd (read_ctxs (input_fuel evs) (c_only_objs cf) (mk_reader evs) fname idx 0) = false.
Proof.
  intros H. apply read_ctxs_no_stop.
  - intros E. discriminate E.
  - exact H.
  - reflexivity.
  - unfold m, input_fuel, mk_reader. cbn [eof rest]. lia.
Qed.

Section CoreNb.
Variables (cf : cfg) (p : printer) (sts : list stage) (nt : nat).
Hypothesis Hign : c_on_error cf = OnIgnore.
Hypothesis Hnb : nb expr sts = true.

Lemma read_input_feed : forall fuel r fname ss idx infile,
  no_eerr r -> io r = false ->
  snd (read_ctxs fuel (c_only_objs cf) r fname idx infile) = false ->
  let cs := fst (fst (read_ctxs fuel (c_only_objs cf) r fname idx infile)) in
  exists r', read_input cf p sts nt fuel r fname ss idx infile =
    (fst (fst (feed expr get sts cs ss)), emit cf p nt (snd (fst (feed expr get sts cs ss))),
     idx + N.of_nat (length cs), None, r').
Proof.
  induction fuel as [|f IH]; intros r fname ss idx infile Hn Hio Hb.
  - cbn in Hb. discriminate.
  - cbn [read_input read_ctxs] in *. cbv zeta in *.
    destruct (next_json_value r) as [res r1] eqn:E.
    destruct (next_json_value_clean r res r1 Hn Hio E) as [Hn1 Hio1].
    rewrite Hio1 in *.
    destruct res as [v| | |].
    + destruct (c_only_objs cf && negb (is_container v)).
      * apply IH; assumption.
      * set (c := new_with_input v _) in *.
        specialize (IH r1 fname).
        destruct (read_ctxs f (c_only_objs cf) r1 fname (idx + 1) (infile + 1)) as [[cs e] b] eqn:Ec.
        cbn [fst snd] in *. rewrite feed_cons.
        pose proof (nb_continue expr get sts Hnb ss c) as Hd.
        destruct (process expr get sts ss c) as [[ss1 o] d]. cbn [snd] in Hd. subst d.
        destruct (IH ss1 (idx + 1) (infile + 1) Hn1 Hio1) as (r2 & E2).
        { rewrite Ec. exact Hb. }
        rewrite E2. rewrite Ec. cbn [fst].
        destruct (feed expr get sts cs ss1) as [[ss2 o2] d2]. cbn [fst snd].
        exists r2. rewrite emit_app. cbn [length]. rewrite Nat2N.inj_succ.
        replace (idx + 1 + N.of_nat (length cs)) with (idx + N.succ (N.of_nat (length cs))) by lia.
        reflexivity.
    + exists r1. cbn [fst snd length]. rewrite feed_nil. cbn [fst snd emit map N.of_nat].
      rewrite N.add_0_r. reflexivity.
    + rewrite Hign.
      specialize (IH r1 fname ss idx infile Hn1 Hio1).
      destruct (read_ctxs f (c_only_objs cf) r1 fname idx infile) as [[cs e] b] eqn:Ec.
      cbn [fst snd] in *. destruct (IH Hb) as (r2 & E2).
      rewrite E2. exists r2. reflexivity.
    + cbn in Hb. discriminate.
Qed.

Lemma feed_continue cs ss : snd (feed expr get sts cs ss) = Continue.
Proof. apply feed_decision_nb. apply nb_continue. exact Hnb. Qed.

Lemma read_files_feed : forall ins ss idx,
  Forall (fun i => Forall (fun e => e <> EErr) (snd i)) ins ->
  exists pl, read_files cf p sts nt ins ss idx =
    (fst (fst (feed expr get sts (fst (ctxs_of_inputs cf ins idx)) ss)),
     emit cf p nt (snd (fst (feed expr get sts (fst (ctxs_of_inputs cf ins idx)) ss))), None, pl).
Proof.
  induction ins as [|[fname evs] t IH]; intros ss idx Hall.
  - cbn [read_files ctxs_of_inputs fst]. rewrite feed_nil. exists []. reflexivity.
  - inversion Hall as [|? ? Hevs Ht]; subst. cbn [snd] in Hevs.
    cbn [read_files ctxs_of_inputs].
    pose proof (read_ctxs_mk_no_stop cf fname evs idx Hevs) as Hns.
    destruct (read_input_feed (input_fuel evs) (mk_reader evs) fname ss idx 0
                (no_eerr_mk evs Hevs) eq_refl Hns) as (r' & E).
    rewrite E. clear E.
    destruct (read_ctxs (input_fuel evs) (c_only_objs cf) (mk_reader evs) fname idx 0) as [[cs e] b].
    cbn [fst snd] in *.
    pose proof (feed_continue cs ss) as Hd1.
    destruct (IH (fst (fst (feed expr get sts cs ss))) (idx + N.of_nat (length cs)) Ht) as (pl & E2).
    rewrite E2. clear E2.
    destruct (ctxs_of_inputs cf t (idx + N.of_nat (length cs))) as [cs2 b2]. cbn [fst].
    rewrite feed_app.
    destruct (feed expr get sts cs ss) as [[ss1 o1] d1]. cbn [fst snd] in *. subst d1.
    destruct (feed expr get sts cs2 ss1) as [[ss2 o2] d2]. cbn [fst snd].
    exists (pulled r' :: pl). rewrite emit_app. reflexivity.
Qed.
End CoreNb.

Theorem go_files_ignore : forall (cf : cfg) (ins : list (option str * list ev)) (b : bool) p sts hdr,
  c_on_error cf = OnIgnore ->
  Forall (fun i => Forall (fun e => e <> EErr) (snd i)) ins ->
  build_pipeline cf = Some (p, sts) ->
  start_output p (titles expr sts []) (c_rowsep cf) = Some hdr ->
  nb expr sts = true ->
  g_result (go cf ins b) = GOk /\
  g_events (go cf ins b) =
    (match hdr with [] => [] | _ => [OOut hdr] end) ++
    emit cf p (length (titles expr sts []))
      (Chain.run expr get sts (map (init_state expr) sts) (fst (ctxs_of_inputs cf ins 0))).
Proof.
  intros cf ins b p sts hdr Hign Hall Hbp Hst Hnb.
  unfold go. rewrite Hbp. cbv zeta. rewrite Hst.
  destruct (read_files_feed cf p sts (length (titles expr sts [])) Hign Hnb ins
              (map (init_state expr) sts) 0 Hall) as (pl & E).
  rewrite E. cbn [g_result g_events]. split; [reflexivity|].
  rewrite run_feed.
  destruct (feed expr get sts (fst (ctxs_of_inputs cf ins 0)) (map (init_state expr) sts)) as [[ss' o] d].
  cbn [fst snd]. rewrite emit_app. reflexivity.
Qed.

(* one input: the list version agrees with the single-input function *)
Lemma ctxs_of_inputs_one cf fname evs :
  fst (ctxs_of_inputs cf [(fname, evs)] 0) = fst (fst (ctxs_of_input cf fname evs)).
Proof.
  cbn [ctxs_of_inputs]. unfold ctxs_of_input.
  destruct (read_ctxs (input_fuel evs) (c_only_objs cf) (mk_reader evs) fname 0 0) as [[cs e] b].
  cbn [fst]. apply app_nil_r.
Qed.

(* without read errors no input stops the loop *)
Lemma ctxs_of_inputs_no_stop cf ins idx :
  Forall (fun i => Forall (fun e => e <> EErr) (snd i)) ins -> snd (ctxs_of_inputs cf ins idx) = false.
Proof.
  revert idx. induction ins as [|[fname evs] t IH]; intros idx Hall; [reflexivity|].
  inversion Hall as [|? ? Hevs Ht]; subst. cbn [snd] in Hevs.
  cbn [ctxs_of_inputs].
  pose proof (read_ctxs_mk_no_stop cf fname evs idx Hevs) as Hns.
  destruct (read_ctxs (input_fuel evs) (c_only_objs cf) (mk_reader evs) fname idx 0) as [[cs e] b].
  cbn [snd] in Hns. subst b.
  specialize (IH (idx + N.of_nat (length cs)) Ht).
  destruct (ctxs_of_inputs cf t (idx + N.of_nat (length cs))) as [cs2 b2]. cbn [snd] in *. subst b2.
  reflexivity.
Qed.

(* splitting the list of inputs: the second part is numbered from where the first stopped *)
Lemma ctxs_of_inputs_app cf a b idx :
  fst (ctxs_of_inputs cf (a ++ b) idx) =
  fst (ctxs_of_inputs cf a idx) ++
  fst (ctxs_of_inputs cf b (idx + N.of_nat (length (fst (ctxs_of_inputs cf a idx))))).
Proof.
  revert idx. induction a as [|[fname evs] t IH]; intros idx.
  - cbn [app ctxs_of_inputs fst length N.of_nat]. rewrite N.add_0_r. reflexivity.
  - cbn [app ctxs_of_inputs].
    destruct (read_ctxs (input_fuel evs) (c_only_objs cf) (mk_reader evs) fname idx 0) as [[cs e] b0].
    specialize (IH (idx + N.of_nat (length cs))).
    destruct (ctxs_of_inputs cf (t ++ b) (idx + N.of_nat (length cs))) as [cs3 b3].
    destruct (ctxs_of_inputs cf t (idx + N.of_nat (length cs))) as [cs2 b2].
    cbn [fst] in *. rewrite IH, app_assoc, app_length, Nat2N.inj_add, N.add_assoc. reflexivity.
Qed.

Print Assumptions go_files_ignore.
