(* TableProofs.v — obligations that tie constants of the model to tables regenerated from /repo/src on every
   run (extractor/gen_tables.py). A change of the Rust source that alters one of these facts makes this
   file fail to compile. *)
From Jawk Require Import Base Json Reader JsonParser Printer Chain Fn Expr ExprParser Go.
From Jawk Require Gen.FnTable Gen.TypeRank Gen.ByteSets Gen.PrinterTables Gen.StageOrder Gen.MainWiring.
Local Open Scope N_scope.

(* all byte values *)
Definition all_bytes : list N := map N.of_nat (seq 0 256).
Lemma all_bytes_complete b : b < 256 -> In b all_bytes.
Proof.
  intros H. unfold all_bytes. apply in_map_iff. exists (N.to_nat b). split; [apply N2Nat.id|].
  apply in_seq. lia.
Qed.
Lemma sweep (P : N -> bool) : forallb P all_bytes = true -> forall b, b < 256 -> P b = true.
Proof. intros H b Hb. rewrite forallb_forall in H. apply H, all_bytes_complete, Hb. Qed.

Definition memb (b : N) (l : list N) : bool := existsb (N.eqb b) l.

(* type ranks: null < bool < string < number < object < array *)
Lemma rank_ok :
  map type_rank [JNull; JBool true; JStr []; JNum (NPos 0); JObj []; JArr []] = Gen.TypeRank.type_ranks.
Proof. reflexivity. Qed.
Lemma rank_documented : Gen.TypeRank.type_ranks = [0; 1; 2; 3; 4; 5].
Proof. reflexivity. Qed.

(* whitespace, digits, exponent markers of the reader / parser *)
Lemma ws_ok : forall b, b < 256 -> Bool.eqb (is_ws b) (memb b Gen.ByteSets.ws_bytes) = true.
Proof. apply sweep. vm_compute. reflexivity. Qed.
Lemma digit_ok : forall b, b < 256 -> Bool.eqb (is_digit b) (memb b Gen.ByteSets.digit_bytes) = true.
Proof. apply sweep. vm_compute. reflexivity. Qed.
Lemma exp_marker_ok : forall b, b < 256 -> Bool.eqb (is_exp_marker b) (memb b Gen.ByteSets.exponent_markers) = true.
Proof. apply sweep. vm_compute. reflexivity. Qed.
(* RFC 8259: both e and E *)
Lemma exp_marker_rfc : memb 101 Gen.ByteSets.exponent_markers = true /\ memb 69 Gen.ByteSets.exponent_markers = true.
Proof. split; reflexivity. Qed.

(* the value dispatch of next_json_value: which first bytes start which kind of value.
   model_kind mirrors the N.eqb chain of JsonParser.parse_value *)
Definition model_kind (b : N) : N :=
  if b =? 116 then 1 else if b =? 102 then 2 else if b =? 110 then 3 else if b =? 34 then 4
  else if (b =? 45) || is_digit b then 5 else if b =? 91 then 6 else if b =? 123 then 7 else 0.
Fixpoint table_kind (b : N) (t : list (list N * N)) : N :=
  match t with [] => 0 | (bs, k) :: t' => if memb b bs then k else table_kind b t' end.
Lemma dispatch_ok : forall b, b < 256 -> N.eqb (model_kind b) (table_kind b Gen.ByteSets.dispatch) = true.
Proof. apply sweep. vm_compute. reflexivity. Qed.

(* escapes: the parser's table is the table in the source; the printer's escapes invert it *)
Lemma parser_escapes_ok : escape_table = Gen.ByteSets.parser_escapes.
Proof. reflexivity. Qed.
Lemma printer_escapes_ok : print_escapes = Gen.PrinterTables.printer_escapes.
Proof. reflexivity. Qed.
Lemma escapes_inverse :
  forallb (fun e => match assoc_N (snd e) escape_table with Some c => N.eqb c (fst e) | None => false end) print_escapes = true.
Proof. reflexivity. Qed.
Lemma printer_literal_condition_ok : Gen.PrinterTables.literal_condition = 1 /\ Gen.PrinterTables.unicode_escape_format = 1.
Proof. split; reflexivity. Qed.

(* the order in which Master::go wraps the stages, and start / read / complete / flush *)
Definition kind_code (k : stage_kind) : N :=
  match k with KGroup => 1 | KLimit => 2 | KSort => 3 | KUniq => 4 | KSelect => 5 | KFilter => 6 | KSplit => 7 | KPreSet => 8 end.
Lemma stage_order_ok : Gen.StageOrder.go_sequence = [0] ++ map kind_code wrap_order ++ [9; 10; 11; 12].
Proof. reflexivity. Qed.
Lemma stage_order_documented :
  rev wrap_order = [KPreSet; KSplit; KFilter; KSelect; KUniq; KSort; KLimit; KGroup].
Proof. reflexivity. Qed.
Lemma wrapping_details_ok :
  Gen.StageOrder.selections_wrapped_in_reverse = true /\ Gen.StageOrder.only_first_sorter_capped = true.
Proof. split; reflexivity. Qed.

(* main: rows to stdout, diagnostics to stderr, failure = message on stderr and a non-zero exit status *)
Lemma main_wiring_ok :
  Gen.MainWiring.rows_stream = 1 /\ Gen.MainWiring.diagnostics_stream = 2 /\
  Gen.MainWiring.error_message_to_stderr_and_exit_code = Some (-1)%Z.
Proof. repeat split; reflexivity. Qed.

(* the function table: every name resolves to a known function (none falls through to FUnknown) *)
Lemma fn_table_known :
  forallb (fun e => match fn_of_canonical (snd (fst (fst e))) with FUnknown _ => false | _ => true end)
          Gen.FnTable.fn_table = true.
Proof. vm_compute. reflexivity. Qed.
Lemma fn_table_counts : length Gen.FnTable.fn_table = 192%nat /\ Gen.FnTable.fn_count = 111.
Proof. split; reflexivity. Qed.
