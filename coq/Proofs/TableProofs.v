(* TableProofs.v — all table obligations (see Tables/*.v, one file per generated table) *)
From Jawk Require Export RankOk BytesOk EscapesOk StageOrderOk MainWiringOk FnTableOk.
