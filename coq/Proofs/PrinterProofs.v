(* PrinterProofs.v — every row the JSON printer writes is a text of the RFC 8259 language
   (Spec/Render.v) that denotes exactly the value printed; whitespace shape of the three styles. *)
From Coq Require Import List NArith ZArith Bool Lia ZifyBool.
From Jawk Require Import Base F64 Json Printer Render.
Import ListNotations.
Local Open Scope N_scope.

Ltac Zify.zify_post_hook ::= Z.to_euclidean_division_equations.
Arguments N.add : simpl never.
Arguments N.mul : simpl never.
Arguments N.sub : simpl never.
Arguments N.div : simpl never.
Arguments N.modulo : simpl never.
Arguments N.eqb : simpl never.
Arguments N.ltb : simpl never.
Arguments N.leb : simpl never.
Arguments N.pow : simpl never.

(* ================================================================== *)
(* 1. generic helpers                                                  *)
(* ================================================================== *)

Lemma list_eqb_N_eq : forall a b : list N, list_eqb N.eqb a b = true -> a = b.
Proof.
  induction a as [|x a IH]; destruct b as [|y b]; simpl; intros H; try discriminate; auto.
  apply andb_true_iff in H. destruct H as [H1 H2].
  apply N.eqb_eq in H1. subst. f_equal. auto.
Qed.

Lemma size_nat_pos_gt : forall p, (Npos p < 2 ^ N.of_nat (Pos.size_nat p)).
Proof.
  induction p; cbn [Pos.size_nat]; rewrite Nat2N.inj_succ, N.pow_succ_r'; try lia.
Qed.

Lemma size_nat_gt : forall n, n < 2 ^ N.of_nat (N.size_nat n).
Proof.
  destruct n as [|p]; [cbn; lia|]. apply size_nat_pos_gt.
Qed.

(* ================================================================== *)
(* 2. decimal digits                                                   *)
(* ================================================================== *)

Inductive dig_rep : list N -> N -> Prop :=
| dr_one n : n < 10 -> dig_rep [48 + n] n
| dr_more n ds : 10 <= n -> dig_rep ds (n / 10) -> dig_rep (ds ++ [48 + n mod 10]) n.

Lemma digits_fuel_rep : forall f n acc, n < 2 ^ N.of_nat f ->
  exists ds, dig_rep ds n /\ digits_fuel (S f) n acc = ds ++ acc.
Proof.
  induction f as [|f IH]; intros n acc Hn.
  - cbn [N.of_nat] in Hn. rewrite N.pow_0_r in Hn.
    assert (n = 0) by lia. subst. exists [48 + 0]. split; [constructor; lia|reflexivity].
  - cbn [digits_fuel]. destruct (N.ltb_spec n 10) as [Hlt|Hge].
    + exists [48 + n]. split; [constructor; auto|reflexivity].
    + rewrite Nat2N.inj_succ, N.pow_succ_r' in Hn.
      destruct (IH (n / 10) ((48 + n mod 10) :: acc)) as [ds [Hr He]]; [lia|].
      exists (ds ++ [48 + n mod 10]). split; [constructor; auto|].
      cbn [digits_fuel] in He. rewrite He, <- app_assoc. reflexivity.
Qed.

Lemma digits_of_N_rep : forall n, dig_rep (digits_of_N n) n.
Proof.
  intros n. unfold digits_of_N.
  destruct (digits_fuel_rep (N.size_nat n) n [] (size_nat_gt n)) as [ds [Hr He]].
  rewrite He, app_nil_r. exact Hr.
Qed.

Lemma N_of_digits_acc_snoc : forall ds d a,
  N_of_digits_acc (ds ++ [d]) a = N_of_digits_acc ds a * 10 + (d - 48).
Proof. induction ds as [|x ds IH]; intros; simpl; auto. Qed.

Lemma dig_rep_val : forall ds n, dig_rep ds n -> N_of_digits ds = n.
Proof.
  unfold N_of_digits. induction 1.
  - simpl. lia.
  - rewrite N_of_digits_acc_snoc, IHdig_rep. lia.
Qed.

Lemma dig_rep_digits : forall ds n, dig_rep ds n -> Forall (fun b => is_digit b = true) ds.
Proof.
  induction 1.
  - constructor; [|constructor]. unfold is_digit. lia.
  - apply Forall_app. split; auto. constructor; [|constructor]. unfold is_digit. lia.
Qed.

Lemma dig_rep_head : forall ds n, dig_rep ds n ->
  exists d t, ds = d :: t /\ (d = 48 -> n = 0 /\ t = []).
Proof.
  induction 1.
  - exists (48 + n), []. split; auto. intros; split; auto; lia.
  - destruct IHdig_rep as [d [t [E Hd]]]. subst ds.
    exists d, (t ++ [48 + n mod 10]). split; [reflexivity|].
    intros Hd'. destruct (Hd Hd') as [Hz _]. lia.
Qed.

Lemma N_of_digits_of_N : forall n, N_of_digits (digits_of_N n) = n.
Proof. intros. apply dig_rep_val, digits_of_N_rep. Qed.

Lemma digits_of_N_int_ok : forall n, int_ok (digits_of_N n).
Proof.
  intros n. pose proof (digits_of_N_rep n) as Hr.
  destruct (dig_rep_head _ _ Hr) as [d [t [E Hd]]].
  pose proof (dig_rep_digits _ _ Hr) as Hdig.
  unfold int_ok, digits_ok. rewrite E in *.
  split; [split; [discriminate|exact Hdig]|].
  destruct t; auto. intros Hd'. destruct (Hd Hd') as [_ Ht]. discriminate.
Qed.

(* ================================================================== *)
(* 3. hexadecimal digits                                               *)
(* ================================================================== *)

Lemma hex_fuel_indep : forall f g n acc, n < 2 ^ N.of_nat f -> n < 2 ^ N.of_nat g ->
  hex_fuel (S f) n acc = hex_fuel (S g) n acc.
Proof.
  induction f as [|f IH]; intros g n acc Hf Hg.
  - cbn [N.of_nat] in Hf. rewrite N.pow_0_r in Hf. assert (n = 0) by lia. subst. reflexivity.
  - cbn [hex_fuel]. destruct (N.ltb_spec n 16) as [Hlt|Hge]; [reflexivity|].
    destruct g as [|g].
    + cbn [N.of_nat] in Hg. rewrite N.pow_0_r in Hg. lia.
    + rewrite Nat2N.inj_succ, N.pow_succ_r' in Hf, Hg.
      apply (IH g); lia.
Qed.

Lemma hex_digit_char : forall d, hex_digit d = hex_char false d.
Proof. reflexivity. Qed.

Lemma hex4_small : forall c, c < 65536 ->
  hex4 c = [hex_char false (c / 4096); hex_char false ((c / 256) mod 16);
            hex_char false ((c / 16) mod 16); hex_char false (c mod 16)].
Proof.
  intros c Hc. unfold hex4, hex_of_N.
  rewrite (hex_fuel_indep (N.size_nat c) 16 c []); [|apply size_nat_gt|exact Hc].
  cbn [hex_fuel].
  repeat match goal with |- context [hex_char false ?x] => change (hex_char false x) with (hex_digit x) end.
  destruct (N.ltb_spec c 16) as [H1|H1].
  { cbn [length Nat.sub repeat app].
    replace (c / 4096) with 0 by lia. replace (c / 256) with 0 by lia.
    replace (c / 16) with 0 by lia. replace (c mod 16) with c by lia. reflexivity. }
  destruct (N.ltb_spec (c / 16) 16) as [H2|H2].
  { cbn [length Nat.sub repeat app].
    replace (c / 4096) with 0 by lia. replace (c / 256) with 0 by lia.
    replace ((c / 16) mod 16) with (c / 16) by lia. reflexivity. }
  destruct (N.ltb_spec (c / 16 / 16) 16) as [H3|H3].
  { cbn [length Nat.sub repeat app].
    replace (c / 4096) with 0 by lia. replace (c / 256) with (c / 16 / 16) by lia.
    replace ((c / 16 / 16) mod 16) with (c / 16 / 16) by lia. reflexivity. }
  destruct (N.ltb_spec (c / 16 / 16 / 16) 16) as [H4|H4]; [|lia].
  cbn [length Nat.sub repeat app].
  replace (c / 4096) with (c / 16 / 16 / 16) by lia.
  replace (c / 256) with (c / 16 / 16) by lia. reflexivity.
Qed.

(* ================================================================== *)
(* 4. string characters                                                *)
(* ================================================================== *)

(* the 8 code points that have a two-character escape *)
Definition is_esc (c : N) : bool :=
  (c =? 34) || (c =? 92) || (c =? 47) || (c =? 8) || (c =? 12) || (c =? 10) || (c =? 13) || (c =? 9).
Definition is_plain (c : N) : bool := (32 <=? c) && (c <=? 126).
Definition is_lit (utf8 : bool) (c : N) : bool := (utf8 && (32 <=? c)) || is_plain c.

Definition canon_char (utf8 : bool) (c : N) : schar :=
  if is_esc c then CEsc c
  else if is_lit utf8 c then CLit c
  else CUni c false false false false.

(* a character the printer spells correctly: a scalar value, and (recorded known defect: astral
   code points are printed as backslash-u followed by 5 hex digits) below 65536 when it has to be
   written as a backslash-u escape in ASCII mode *)
Definition char_ok (utf8 : bool) (c : N) : Prop :=
  is_scalar c = true /\
  (utf8 = false -> is_esc c = false -> is_plain c = false -> c < 65536).

Lemma esc_cases : forall c,
  (is_esc c = true /\ exists l, assoc_esc c print_escapes = Some l /\
                               esc_letter c two_char_escapes = Some l) \/
  (is_esc c = false /\ assoc_esc c print_escapes = None /\
   c <> 34 /\ c <> 92 /\ c <> 10 /\ c <> 13).
Proof.
  intros c. unfold is_esc, print_escapes, two_char_escapes. cbn [assoc_esc esc_letter].
  destruct (N.eqb_spec c 34); [left; split; [reflexivity|eexists; split; reflexivity]|].
  destruct (N.eqb_spec c 92); [left; split; [reflexivity|eexists; split; reflexivity]|].
  destruct (N.eqb_spec c 47); [left; split; [reflexivity|eexists; split; reflexivity]|].
  destruct (N.eqb_spec c 8); [left; split; [reflexivity|eexists; split; reflexivity]|].
  destruct (N.eqb_spec c 12); [left; split; [reflexivity|eexists; split; reflexivity]|].
  destruct (N.eqb_spec c 10); [left; split; [reflexivity|eexists; split; reflexivity]|].
  destruct (N.eqb_spec c 13); [left; split; [reflexivity|eexists; split; reflexivity]|].
  destruct (N.eqb_spec c 9); [left; split; [reflexivity|eexists; split; reflexivity]|].
  right. repeat split; auto.
Qed.

Lemma not_lit_small : forall utf8 c, char_ok utf8 c -> is_esc c = false -> is_lit utf8 c = false ->
  c < 65536.
Proof.
  intros utf8 c [_ H] He Hl. unfold is_lit in Hl.
  apply orb_false_iff in Hl. destruct Hl as [H1 H2].
  destruct utf8.
  - cbn [andb] in H1. lia.
  - auto.
Qed.

Lemma print_char_render : forall utf8 c, char_ok utf8 c ->
  print_char utf8 c = render_char (canon_char utf8 c).
Proof.
  intros utf8 c Hok. unfold print_char, canon_char.
  destruct (esc_cases c) as [[He [l [Ha Hl]]]|[He [Ha _]]]; rewrite He, Ha.
  - cbn [render_char]. rewrite Hl. reflexivity.
  - change ((utf8 && (32 <=? c)) || ((32 <=? c) && (c <=? 126))) with (is_lit utf8 c).
    destruct (is_lit utf8 c) eqn:Hlit.
    + reflexivity.
    + cbn [render_char]. rewrite hex4_small; [reflexivity|].
      eapply not_lit_small; eauto.
Qed.

Lemma canon_char_ok : forall utf8 c, char_ok utf8 c -> schar_ok (canon_char utf8 c).
Proof.
  intros utf8 c Hok. unfold canon_char.
  destruct (esc_cases c) as [[He [l [Ha Hl]]]|[He [Ha [N1 [N2 _]]]]]; rewrite He.
  - cbn [schar_ok]. rewrite Hl. discriminate.
  - destruct (is_lit utf8 c) eqn:Hlit.
    + cbn [schar_ok]. destruct Hok as [Hs _]. repeat split; auto.
      unfold is_lit, is_plain in Hlit. lia.
    + cbn [schar_ok]. split; [eapply not_lit_small; eauto|apply Hok].
Qed.

Lemma canon_char_val : forall utf8 c, char_val (canon_char utf8 c) = c.
Proof.
  intros. unfold canon_char. destruct (is_esc c); [reflexivity|].
  destruct (is_lit utf8 c); reflexivity.
Qed.

Lemma print_string_render : forall utf8 s, Forall (char_ok utf8) s ->
  print_string utf8 s = render_str (map (canon_char utf8) s).
Proof.
  intros utf8 s H. unfold print_string, render_str. f_equal. f_equal.
  induction H as [|c s Hc Hs IH]; [reflexivity|].
  cbn [flat_map map]. rewrite IH, print_char_render by assumption. reflexivity.
Qed.

Lemma canon_str_ok : forall utf8 s, Forall (char_ok utf8) s ->
  Forall schar_ok (map (canon_char utf8) s).
Proof.
  intros utf8 s H. induction H; cbn [map]; constructor; auto using canon_char_ok.
Qed.

Lemma canon_str_val : forall utf8 s, str_val (map (canon_char utf8) s) = s.
Proof.
  intros. unfold str_val. induction s as [|c s IH]; [reflexivity|].
  cbn [map]. rewrite canon_char_val, IH. reflexivity.
Qed.

(* ================================================================== *)
(* 5. numbers                                                          *)
(* ================================================================== *)

Fixpoint span_digits (l : list byte) : list byte * list byte :=
  match l with
  | b :: t => if is_digit b then (let (a, r) := span_digits t in (b :: a, r)) else ([], l)
  | [] => ([], [])
  end.

(* split a positional decimal text: ['-'] digits ['.' digits] *)
Definition snum_of_text (txt : list byte) : option snum :=
  let (neg, t) := match txt with
                  | b :: t' => if b =? 45 then (true, t') else (false, txt)
                  | [] => (false, txt)
                  end in
  let (ip, t1) := span_digits t in
  match t1 with
  | [] => Some {| sn_neg := neg; sn_int := ip; sn_frac := None; sn_exp := None |}
  | b :: t2 =>
      if b =? 46 then
        let (fp, t3) := span_digits t2 in
        match t3 with
        | [] => Some {| sn_neg := neg; sn_int := ip; sn_frac := Some fp; sn_exp := None |}
        | _ => None
        end
      else None
  end.

Definition digits_okb (ds : list byte) : bool :=
  match ds with [] => false | _ => forallb is_digit ds end.
Definition int_okb (ds : list byte) : bool :=
  digits_okb ds && match ds with d :: _ :: _ => negb (d =? 48) | _ => true end.
Definition snum_okb (n : snum) : bool :=
  int_okb (sn_int n) &&
  match sn_frac n with Some f => digits_okb f | None => true end &&
  match sn_exp n with Some (_, _, e) => digits_okb e | None => true end.

Lemma digits_okb_ok : forall ds, digits_okb ds = true -> digits_ok ds.
Proof.
  intros ds H. unfold digits_okb in H. split.
  - destruct ds; [discriminate|discriminate].
  - apply Forall_forall. destruct ds; [discriminate|].
    intros x Hx. rewrite forallb_forall in H. auto.
Qed.

Lemma int_okb_ok : forall ds, int_okb ds = true -> int_ok ds.
Proof.
  intros ds H. unfold int_okb in H. apply andb_true_iff in H. destruct H as [H1 H2].
  split; [apply digits_okb_ok; auto|].
  destruct ds as [|d [|e t]]; auto.
  destruct (N.eqb_spec d 48); [discriminate|auto].
Qed.

Lemma snum_okb_ok : forall n, snum_okb n = true -> snum_ok n.
Proof.
  intros n H. unfold snum_okb in H.
  apply andb_true_iff in H. destruct H as [H H3].
  apply andb_true_iff in H. destruct H as [H1 H2].
  unfold snum_ok. split; [apply int_okb_ok; auto|]. split.
  - destruct (sn_frac n); auto using digits_okb_ok.
  - destruct (sn_exp n) as [[[u s] e]|]; auto using digits_okb_ok.
Qed.

(* syntactic equality of numbers (Json.num_eqb is the semantic one) *)
Definition num_same (a b : num) : bool :=
  match a, b with
  | NPos x, NPos y => x =? y
  | NNeg x, NNeg y => (x =? y)%Z
  | NFlt x, NFlt y => x =? y
  | _, _ => false
  end.
Definition onum_same (a b : option num) : bool :=
  match a, b with
  | Some x, Some y => num_same x y
  | None, None => true
  | _, _ => false
  end.

Lemma onum_same_eq : forall a b, onum_same a b = true -> a = b.
Proof.
  intros [[x|x|x]|] [[y|y|y]|]; cbn [onum_same num_same]; intros H; try discriminate; auto.
  - apply N.eqb_eq in H. subst. reflexivity.
  - apply Z.eqb_eq in H. subst. reflexivity.
  - apply N.eqb_eq in H. subst. reflexivity.
Qed.

(* the side condition on doubles: the positional text Rust prints is a legal JSON number
   that reads back as the same double (fails e.g. for NaN, inf, and for integral doubles
   inside the integer range, which From<f64> never produces) *)
Definition flt_okb (f : N) : bool :=
  match snum_of_text (flt2dec f) with
  | Some n => snum_okb n && list_eqb N.eqb (render_num n) (flt2dec f)
              && onum_same (num_val n) (Some (NFlt f))
  | None => false
  end.

Lemma flt_okb_spec : forall f, flt_okb f = true ->
  exists n, snum_of_text (flt2dec f) = Some n /\ snum_ok n /\
            render_num n = flt2dec f /\ num_val n = Some (NFlt f).
Proof.
  intros f H. unfold flt_okb in H.
  destruct (snum_of_text (flt2dec f)) as [n|]; [|discriminate].
  apply andb_true_iff in H. destruct H as [H H3].
  apply andb_true_iff in H. destruct H as [H1 H2].
  exists n. split; [reflexivity|]. split; [apply snum_okb_ok; auto|].
  split; [apply list_eqb_N_eq; auto|apply onum_same_eq; auto].
Qed.

Definition snum_int (neg : bool) (ds : list byte) : snum :=
  {| sn_neg := neg; sn_int := ds; sn_frac := None; sn_exp := None |}.

Definition canon_num (n : num) : snum :=
  match n with
  | NPos n => snum_int false (digits_of_N n)
  | NNeg z => snum_int true (digits_of_N (Z.to_N (- z)))
  | NFlt f => match snum_of_text (flt2dec f) with Some n => n | None => snum_int false [48] end
  end.

Definition num_ok (n : num) : Prop :=
  match n with
  | NPos n => n <= 18446744073709551615
  | NNeg z => (-9223372036854775808 <= z < 0)%Z
  | NFlt f => flt_okb f = true
  end.

Lemma render_snum_int : forall neg ds,
  render_num (snum_int neg ds) = (if neg then [45] else []) ++ ds.
Proof.
  intros. unfold render_num, snum_int. cbn [sn_neg sn_int sn_frac sn_exp].
  rewrite !app_nil_r. reflexivity.
Qed.

Lemma snum_int_ok : forall neg n, snum_ok (snum_int neg (digits_of_N n)).
Proof.
  intros. unfold snum_ok, snum_int. cbn [sn_neg sn_int sn_frac sn_exp].
  split; [apply digits_of_N_int_ok|split; exact I].
Qed.

Lemma print_num_render : forall n, num_ok n -> print_num n = render_num (canon_num n).
Proof.
  intros [n|z|f] H; cbn [print_num canon_num num_ok] in *.
  - rewrite render_snum_int. reflexivity.
  - rewrite render_snum_int. destruct z as [|p|p]; try lia. reflexivity.
  - destruct (flt_okb_spec f H) as [n [E [_ [R _]]]]. rewrite E. auto.
Qed.

Lemma canon_num_ok : forall n, num_ok n -> snum_ok (canon_num n).
Proof.
  intros [n|z|f] H; cbn [canon_num num_ok] in *.
  - apply snum_int_ok.
  - apply snum_int_ok.
  - destruct (flt_okb_spec f H) as [n [E [O _]]]. rewrite E. auto.
Qed.

Lemma canon_num_val : forall n, num_ok n -> num_val (canon_num n) = Some n.
Proof.
  intros [n|z|f] H; cbn [canon_num num_ok] in *.
  - unfold num_val, snum_int. cbn [sn_neg sn_int sn_frac sn_exp].
    rewrite N_of_digits_of_N. destruct (N.leb_spec n 18446744073709551615); [reflexivity|lia].
  - unfold num_val, snum_int. cbn [sn_neg sn_int sn_frac sn_exp].
    rewrite N_of_digits_of_N.
    destruct (N.eqb_spec (Z.to_N (- z)) 0) as [Hz|Hz]; [lia|].
    destruct (Z.leb_spec (Z.of_N (Z.to_N (- z))) 9223372036854775808); [|lia].
    f_equal. f_equal. lia.
  - destruct (flt_okb_spec f H) as [n [E [_ [_ V]]]]. rewrite E. auto.
Qed.

(* ================================================================== *)
(* 6. the canonical spelling tree                                      *)
(* ================================================================== *)

(* the blank after a comma (OneLine) and after a colon (OneLine, Pretty) *)
Definition sep_ws (st : jstyle) : ws := match st with OneLine => [32] | _ => [] end.
Definition colon_ws (st : jstyle) : ws := match st with Consise => [] | _ => [32] end.
(* whitespace before an element / member: the blank after the preceding comma, then the indentation *)
Definition lead (st : jstyle) (d : nat) (first : bool) : ws :=
  (if first then [] else sep_ws st) ++ indent st (S d).
(* whitespace after an element: the indentation of the closing bracket after the last one *)
Definition trail {A} (st : jstyle) (d : nat) (more : list A) : ws :=
  match more with [] => indent st d | _ => [] end.

Fixpoint deco_arr (st : jstyle) (d : nat) (first : bool) (l : list sjson) : list (ws * sjson * ws) :=
  match l with
  | [] => []
  | t :: more => (lead st d first, t, trail st d more) :: deco_arr st d false more
  end.
Fixpoint deco_obj (st : jstyle) (d : nat) (first : bool) (l : list (list schar * sjson))
  : list (ws * list schar * ws * (ws * sjson * ws)) :=
  match l with
  | [] => []
  | (k, t) :: more => (lead st d first, k, [], (colon_ws st, t, trail st d more)) :: deco_obj st d false more
  end.

Fixpoint canon (st : jstyle) (utf8 : bool) (d : nat) (v : json) {struct v} : sjson :=
  match v with
  | JNull => SNull
  | JBool true => STrue
  | JBool false => SFalse
  | JNum n => SNum (canon_num n)
  | JStr s => SStr (map (canon_char utf8) s)
  | JArr [] => SArr0 []
  | JArr l => SArr (deco_arr st d true (map (canon st utf8 (S d)) l))
  | JObj [] => SObj0 []
  | JObj m => SObj (deco_obj st d true
                      (map (fun kv => (map (canon_char utf8) (fst kv), canon st utf8 (S d) (snd kv))) m))
  end.

(* ---------- strong induction on json ---------- *)
Section JsonInd.
Variable P : json -> Prop.
Hypothesis Hnull : P JNull.
Hypothesis Hbool : forall b, P (JBool b).
Hypothesis Hstr : forall s, P (JStr s).
Hypothesis Hnum : forall n, P (JNum n).
Hypothesis Hobj : forall m, Forall (fun kv => P (snd kv)) m -> P (JObj m).
Hypothesis Harr : forall l, Forall P l -> P (JArr l).

Fixpoint json_ind' (v : json) : P v :=
  match v with
  | JNull => Hnull
  | JBool b => Hbool b
  | JStr s => Hstr s
  | JNum n => Hnum n
  | JObj m => Hobj m ((fix go (m : list (str * json)) : Forall (fun kv => P (snd kv)) m :=
                         match m with
                         | [] => Forall_nil _
                         | kv :: t => Forall_cons kv (json_ind' (snd kv)) (go t)
                         end) m)
  | JArr l => Harr l ((fix go (l : list json) : Forall P l :=
                         match l with
                         | [] => Forall_nil _
                         | x :: t => Forall_cons x (json_ind' x) (go t)
                         end) l)
  end.
End JsonInd.

(* ---------- printable values ---------- *)
Fixpoint printable (utf8 : bool) (v : json) {struct v} : Prop :=
  match v with
  | JNull | JBool _ => True
  | JStr s => Forall (char_ok utf8) s
  | JNum n => num_ok n
  | JArr l => (fix all (l : list json) : Prop :=
                 match l with [] => True | x :: t => printable utf8 x /\ all t end) l
  | JObj m => NoDup (map fst m) /\
              (fix all (m : list (str * json)) : Prop :=
                 match m with
                 | [] => True
                 | kv :: t => Forall (char_ok utf8) (fst kv) /\ printable utf8 (snd kv) /\ all t
                 end) m
  end.

Lemma printable_arr : forall utf8 l, printable utf8 (JArr l) <-> Forall (printable utf8) l.
Proof.
  intros utf8 l. cbn [printable]. induction l as [|x t IH].
  - split; constructor.
  - split.
    + intros [H1 H2]. constructor; [exact H1|apply IH; exact H2].
    + intros H. inversion H; subst. split; [assumption|apply IH; assumption].
Qed.

Lemma printable_obj : forall utf8 m, printable utf8 (JObj m) <->
  NoDup (map fst m) /\ Forall (fun kv => Forall (char_ok utf8) (fst kv) /\ printable utf8 (snd kv)) m.
Proof.
  intros utf8 m. cbn [printable].
  apply and_iff_compat_l. induction m as [|kv t IH].
  - split; constructor.
  - split.
    + intros [H1 [H2 H3]]. constructor; [split; assumption|apply IH; exact H3].
    + intros H. inversion H as [|? ? [H1 H2] H3]; subst. split; [assumption|].
      split; [assumption|apply IH; assumption].
Qed.

(* ================================================================== *)
(* 7. unfolding equations for the nested fixpoints                     *)
(* ================================================================== *)

Definition p_items (st : jstyle) (d : nat) (pr : json -> list byte) :=
  fix items (l : list json) : list byte :=
    match l with
    | [] => []
    | [x] => indent st (S d) ++ pr x
    | x :: t => indent st (S d) ++ pr x ++ comma st ++ items t
    end.
Definition p_members (st : jstyle) (utf8 : bool) (d : nat) (pr : json -> list byte) :=
  fix members (m : list (str * json)) : list byte :=
    match m with
    | [] => []
    | [(k, x)] => indent st (S d) ++ print_string utf8 k ++ colon st ++ pr x
    | (k, x) :: t => indent st (S d) ++ print_string utf8 k ++ colon st ++ pr x
                     ++ comma st ++ members t
    end.

Lemma print_arr_eq : forall st utf8 d x t,
  print_json_at st utf8 d (JArr (x :: t)) =
  91 :: p_items st d (print_json_at st utf8 (S d)) (x :: t) ++ indent st d ++ [93].
Proof. reflexivity. Qed.
Lemma print_obj_eq : forall st utf8 d kv t,
  print_json_at st utf8 d (JObj (kv :: t)) =
  123 :: p_members st utf8 d (print_json_at st utf8 (S d)) (kv :: t) ++ indent st d ++ [125].
Proof. reflexivity. Qed.

Lemma comma_eq : forall st, comma st = 44 :: sep_ws st.
Proof. destruct st; reflexivity. Qed.
Lemma colon_eq : forall st, colon st = 58 :: colon_ws st.
Proof. destruct st; reflexivity. Qed.

Lemma p_items_cons : forall st d pr x t,
  p_items st d pr (x :: t) =
  indent st (S d) ++ pr x ++ match t with [] => [] | _ => 44 :: sep_ws st ++ p_items st d pr t end.
Proof.
  intros. destruct t; cbn [p_items]; [rewrite app_nil_r; reflexivity|].
  rewrite comma_eq. reflexivity.
Qed.
Lemma p_members_cons : forall st utf8 d pr k x t,
  p_members st utf8 d pr ((k, x) :: t) =
  indent st (S d) ++ print_string utf8 k ++ 58 :: colon_ws st ++ pr x ++
  match t with [] => [] | _ => 44 :: sep_ws st ++ p_members st utf8 d pr t end.
Proof.
  intros. destruct t; cbn [p_members]; rewrite colon_eq; [rewrite app_nil_r; reflexivity|].
  rewrite comma_eq. reflexivity.
Qed.

Definition r_items :=
  fix ri (items : list (ws * sjson * ws)) : list byte :=
    match items with
    | [] => [93]
    | (wb, t, wa) :: more =>
        wb ++ render t ++ wa ++ match more with [] => [] | _ => [44] end ++ ri more
    end.
Definition r_members :=
  fix rm (ms : list (ws * list schar * ws * (ws * sjson * ws))) : list byte :=
    match ms with
    | [] => [125]
    | (wk, k, wc, (wb, t, wa)) :: more =>
        wk ++ render_str k ++ wc ++ [58] ++ wb ++ render t ++ wa
        ++ match more with [] => [] | _ => [44] end ++ rm more
    end.
Lemma render_arr_eq : forall items, render (SArr items) = 91 :: r_items items.
Proof. reflexivity. Qed.
Lemma render_obj_eq : forall ms, render (SObj ms) = 123 :: r_members ms.
Proof. reflexivity. Qed.
Lemma r_items_cons : forall wb t wa more,
  r_items ((wb, t, wa) :: more) =
  wb ++ render t ++ wa ++ match more with [] => [] | _ => [44] end ++ r_items more.
Proof. reflexivity. Qed.
Lemma r_members_cons : forall wk k wc wb t wa more,
  r_members ((wk, k, wc, (wb, t, wa)) :: more) =
  wk ++ render_str k ++ wc ++ [58] ++ wb ++ render t ++ wa
  ++ match more with [] => [] | _ => [44] end ++ r_members more.
Proof. reflexivity. Qed.

Definition v_items :=
  fix vi (items : list (ws * sjson * ws)) : option (list json) :=
    match items with
    | [] => Some []
    | (_, t, _) :: more =>
        match value_of t, vi more with Some v, Some vs => Some (v :: vs) | _, _ => None end
    end.
Definition v_members :=
  fix vm (ms : list (ws * list schar * ws * (ws * sjson * ws))) : option (list (str * json)) :=
    match ms with
    | [] => Some []
    | (_, k, _, (_, t, _)) :: more =>
        match value_of t, vm more with Some v, Some vs => Some ((str_val k, v) :: vs) | _, _ => None end
    end.
Lemma value_arr_eq : forall items, value_of (SArr items) = option_map JArr (v_items items).
Proof. reflexivity. Qed.
Lemma value_obj_eq : forall ms, value_of (SObj ms) = option_map JObj (v_members ms).
Proof. reflexivity. Qed.

Definition w_items :=
  fix wi (items : list (ws * sjson * ws)) : Prop :=
    match items with
    | [] => True
    | (wb, t, wa) :: more => ws_ok wb /\ wf t /\ ws_ok wa /\ wi more
    end.
Definition w_members :=
  fix wm (ms : list (ws * list schar * ws * (ws * sjson * ws))) : Prop :=
    match ms with
    | [] => True
    | (wk, k, wc, (wb, t, wa)) :: more =>
        ws_ok wk /\ Forall schar_ok k /\ ws_ok wc /\ ws_ok wb /\ wf t /\ ws_ok wa /\ wm more
    end.
Lemma wf_arr_eq : forall items, wf (SArr items) = (items <> [] /\ w_items items).
Proof. reflexivity. Qed.
Lemma wf_obj_eq : forall ms, wf (SObj ms) =
  (ms <> [] /\ NoDup (map (fun m => str_val (snd (fst (fst m)))) ms) /\ w_members ms).
Proof. reflexivity. Qed.

(* ================================================================== *)
(* 8. print = render . canon                                           *)
(* ================================================================== *)

Ltac norm_app := repeat progress (rewrite <- ?app_assoc; cbn [app]).

Lemma items_render : forall st d pr cn l (first : bool),
  Forall (fun x => pr x = render (cn x)) l -> l <> [] ->
  (if first then @nil byte else sep_ws st) ++ p_items st d pr l ++ indent st d ++ [93] =
  r_items (deco_arr st d first (map cn l)).
Proof.
  intros st d pr cn. induction l as [|x t IH]; intros first HF Hne; [congruence|].
  inversion HF as [|? ? Hx Ht]; subst.
  rewrite p_items_cons. cbn [map deco_arr]. rewrite r_items_cons, <- Hx. unfold lead.
  destruct t as [|y t'].
  - cbn [map trail deco_arr r_items]. rewrite <- !app_assoc. cbn [app]. reflexivity.
  - rewrite <- (IH false Ht) by discriminate.
    cbn [map trail deco_arr app]. rewrite <- ?app_assoc. cbn [app]. rewrite <- ?app_assoc.
    reflexivity.
Qed.

Lemma members_render : forall st utf8 d pr cn m (first : bool),
  Forall (fun kv => Forall (char_ok utf8) (fst kv) /\ pr (snd kv) = render (cn (snd kv))) m ->
  m <> [] ->
  (if first then @nil byte else sep_ws st) ++ p_members st utf8 d pr m ++ indent st d ++ [125] =
  r_members (deco_obj st d first
               (map (fun kv => (map (canon_char utf8) (fst kv), cn (snd kv))) m)).
Proof.
  intros st utf8 d pr cn. induction m as [|[k x] t IH]; intros first HF Hne; [congruence|].
  inversion HF as [|? ? [Hk Hx] Ht]; subst. cbn [fst snd] in Hk, Hx.
  rewrite p_members_cons. cbn [map deco_obj fst snd]. rewrite r_members_cons, <- Hx.
  rewrite <- print_string_render by assumption. unfold lead.
  destruct t as [|y t'].
  - cbn [map trail deco_obj r_members]. norm_app. reflexivity.
  - rewrite <- (IH false Ht) by discriminate. destruct y as [k' y].
    cbn [map trail deco_obj]. norm_app. reflexivity.
Qed.

Theorem print_render_eq : forall st utf8 v d, printable utf8 v ->
  print_json_at st utf8 d v = render (canon st utf8 d v).
Proof.
  intros st utf8 v. induction v as [| b | s | n | m IH | l IH] using json_ind'; intros d Hp.
  - reflexivity.
  - destruct b; reflexivity.
  - cbn [print_json_at canon render]. apply print_string_render. exact Hp.
  - cbn [print_json_at canon render]. apply print_num_render. exact Hp.
  - apply printable_obj in Hp. destruct Hp as [_ Hp].
    destruct m as [|kv t]; [reflexivity|].
    rewrite print_obj_eq.
    change (canon st utf8 d (JObj (kv :: t))) with
      (SObj (deco_obj st d true
               (map (fun kv => (map (canon_char utf8) (fst kv), canon st utf8 (S d) (snd kv))) (kv :: t)))).
    rewrite render_obj_eq. f_equal.
    rewrite <- members_render with (pr := print_json_at st utf8 (S d)); [reflexivity| |discriminate].
    rewrite Forall_forall in *. intros kv' Hin. destruct (Hp kv' Hin) as [Hk Hx].
    split; [exact Hk|]. apply IH; assumption.
  - apply printable_arr in Hp.
    destruct l as [|x t]; [reflexivity|].
    rewrite print_arr_eq.
    change (canon st utf8 d (JArr (x :: t))) with
      (SArr (deco_arr st d true (map (canon st utf8 (S d)) (x :: t)))).
    rewrite render_arr_eq. f_equal.
    rewrite <- items_render with (pr := print_json_at st utf8 (S d)); [reflexivity| |discriminate].
    rewrite Forall_forall in *. intros x' Hin. apply IH; auto.
Qed.

(* ================================================================== *)
(* 9. the canonical tree is well formed                                *)
(* ================================================================== *)

Lemma ws_ok_indent : forall st n, ws_ok (indent st n).
Proof.
  intros st n. destruct st; try constructor.
  - reflexivity.
  - induction n as [|n IH]; cbn [repeat concat app]; [constructor|].
    constructor; [reflexivity|]. constructor; [reflexivity|]. exact IH.
Qed.
Lemma ws_ok_sep : forall st, ws_ok (sep_ws st).
Proof. destruct st; repeat constructor. Qed.
Lemma ws_ok_colon : forall st, ws_ok (colon_ws st).
Proof. destruct st; repeat constructor. Qed.
Lemma ws_ok_lead : forall st d first, ws_ok (lead st d first).
Proof.
  intros. unfold lead, ws_ok. apply Forall_app. split; [|apply ws_ok_indent].
  destruct first; [constructor|apply ws_ok_sep].
Qed.
Lemma ws_ok_trail : forall A st d (more : list A), ws_ok (trail st d more).
Proof. intros. destruct more; [apply ws_ok_indent|constructor]. Qed.

Lemma w_items_cons : forall wb t wa more,
  w_items ((wb, t, wa) :: more) = (ws_ok wb /\ wf t /\ ws_ok wa /\ w_items more).
Proof. reflexivity. Qed.
Lemma w_members_cons : forall wk k wc wb t wa more,
  w_members ((wk, k, wc, (wb, t, wa)) :: more) =
  (ws_ok wk /\ Forall schar_ok k /\ ws_ok wc /\ ws_ok wb /\ wf t /\ ws_ok wa /\ w_members more).
Proof. reflexivity. Qed.

Lemma deco_arr_wf : forall st d cn l first,
  Forall (fun x : json => wf (cn x)) l -> w_items (deco_arr st d first (map cn l)).
Proof.
  intros st d cn. induction l as [|x t IH]; intros first H; [exact I|].
  inversion H; subst. cbn [map deco_arr]. rewrite w_items_cons.
  split; [apply ws_ok_lead|]. split; [assumption|]. split; [apply ws_ok_trail|]. apply IH; assumption.
Qed.

Lemma deco_obj_wf : forall st utf8 d cn m first,
  Forall (fun kv : str * json => Forall (char_ok utf8) (fst kv) /\ wf (cn (snd kv))) m ->
  w_members (deco_obj st d first (map (fun kv => (map (canon_char utf8) (fst kv), cn (snd kv))) m)).
Proof.
  intros st utf8 d cn. induction m as [|[k x] t IH]; intros first H; [exact I|].
  inversion H as [|? ? [Hk Hx] Ht]; subst. cbn [fst snd] in Hk, Hx.
  cbn [map deco_obj fst snd]. rewrite w_members_cons.
  split; [apply ws_ok_lead|]. split; [apply canon_str_ok; assumption|].
  split; [constructor|]. split; [apply ws_ok_colon|]. split; [assumption|].
  split; [apply ws_ok_trail|]. apply IH; assumption.
Qed.

Lemma deco_obj_names : forall st utf8 d cn (m : list (str * json)) first,
  map (fun m => str_val (snd (fst (fst m))))
      (deco_obj st d first (map (fun kv => (map (canon_char utf8) (fst kv), cn (snd kv))) m))
  = map fst m.
Proof.
  intros st utf8 d cn. induction m as [|[k x] t IH]; intros first; [reflexivity|].
  cbn [map deco_obj fst snd]. rewrite canon_str_val, IH. reflexivity.
Qed.

Theorem canon_wf : forall st utf8 v d, printable utf8 v -> wf (canon st utf8 d v).
Proof.
  intros st utf8 v. induction v as [| b | s | n | m IH | l IH] using json_ind'; intros d Hp.
  - exact I.
  - destruct b; exact I.
  - cbn [canon wf]. apply canon_str_ok. exact Hp.
  - cbn [canon wf]. cbn [printable] in Hp. split; [apply canon_num_ok; exact Hp|].
    rewrite canon_num_val by exact Hp. discriminate.
  - apply printable_obj in Hp. destruct Hp as [Hnd Hp].
    destruct m as [|kv t]; [constructor|].
    change (canon st utf8 d (JObj (kv :: t))) with
      (SObj (deco_obj st d true
               (map (fun kv => (map (canon_char utf8) (fst kv), canon st utf8 (S d) (snd kv))) (kv :: t)))).
    rewrite wf_obj_eq. split; [destruct kv; discriminate|]. split.
    + rewrite deco_obj_names. exact Hnd.
    + apply deco_obj_wf. rewrite Forall_forall in *. intros kv' Hin.
      destruct (Hp kv' Hin) as [Hk Hx]. split; [exact Hk|]. apply IH; assumption.
  - apply printable_arr in Hp.
    destruct l as [|x t]; [constructor|].
    change (canon st utf8 d (JArr (x :: t))) with
      (SArr (deco_arr st d true (map (canon st utf8 (S d)) (x :: t)))).
    rewrite wf_arr_eq. split; [discriminate|].
    apply deco_arr_wf. rewrite Forall_forall in *. intros x' Hin. apply IH; auto.
Qed.

(* ================================================================== *)
(* 10. the canonical tree denotes the value printed                    *)
(* ================================================================== *)

Lemma v_items_cons : forall wb t wa more,
  v_items ((wb, t, wa) :: more) =
  match value_of t, v_items more with Some v, Some vs => Some (v :: vs) | _, _ => None end.
Proof. reflexivity. Qed.
Lemma v_members_cons : forall wk k wc wb t wa more,
  v_members ((wk, k, wc, (wb, t, wa)) :: more) =
  match value_of t, v_members more with Some v, Some vs => Some ((str_val k, v) :: vs) | _, _ => None end.
Proof. reflexivity. Qed.

Lemma deco_arr_value : forall st d cn l first,
  Forall (fun x : json => value_of (cn x) = Some x) l ->
  v_items (deco_arr st d first (map cn l)) = Some l.
Proof.
  intros st d cn. induction l as [|x t IH]; intros first H; [reflexivity|].
  inversion H as [|? ? Hx Ht]; subst. cbn [map deco_arr].
  rewrite v_items_cons, Hx, (IH false Ht). reflexivity.
Qed.

Lemma deco_obj_value : forall st utf8 d cn (m : list (str * json)) first,
  Forall (fun kv => value_of (cn (snd kv)) = Some (snd kv)) m ->
  v_members (deco_obj st d first (map (fun kv => (map (canon_char utf8) (fst kv), cn (snd kv))) m))
  = Some m.
Proof.
  intros st utf8 d cn. induction m as [|[k x] t IH]; intros first H; [reflexivity|].
  inversion H as [|? ? Hx Ht]; subst. cbn [snd] in Hx. cbn [map deco_obj fst snd].
  rewrite v_members_cons, Hx, (IH false Ht), canon_str_val. reflexivity.
Qed.

Theorem canon_value : forall st utf8 v d, printable utf8 v ->
  value_of (canon st utf8 d v) = Some v.
Proof.
  intros st utf8 v. induction v as [| b | s | n | m IH | l IH] using json_ind'; intros d Hp.
  - reflexivity.
  - destruct b; reflexivity.
  - cbn [canon value_of]. rewrite canon_str_val. reflexivity.
  - cbn [canon value_of]. cbn [printable] in Hp. rewrite canon_num_val by exact Hp. reflexivity.
  - apply printable_obj in Hp. destruct Hp as [_ Hp].
    destruct m as [|kv t]; [reflexivity|].
    change (canon st utf8 d (JObj (kv :: t))) with
      (SObj (deco_obj st d true
               (map (fun kv => (map (canon_char utf8) (fst kv), canon st utf8 (S d) (snd kv))) (kv :: t)))).
    rewrite value_obj_eq, deco_obj_value; [reflexivity|].
    rewrite Forall_forall in *. intros kv' Hin. apply IH; [assumption|]. apply (Hp kv' Hin).
  - apply printable_arr in Hp.
    destruct l as [|x t]; [reflexivity|].
    change (canon st utf8 d (JArr (x :: t))) with
      (SArr (deco_arr st d true (map (canon st utf8 (S d)) (x :: t)))).
    rewrite value_arr_eq, deco_arr_value; [reflexivity|].
    rewrite Forall_forall in *. intros x' Hin. apply IH; auto.
Qed.

Theorem print_is_render : forall st utf8 v d, printable utf8 v ->
  print_json_at st utf8 d v = render (canon st utf8 d v) /\
  wf (canon st utf8 d v) /\
  value_of (canon st utf8 d v) = Some v.
Proof.
  intros. split; [apply print_render_eq; assumption|].
  split; [apply canon_wf; assumption|apply canon_value; assumption].
Qed.

(* ================================================================== *)
(* 11. whitespace shape of the three styles                            *)
(* ================================================================== *)

Fixpoint ws_all (P : ws -> Prop) (t : sjson) {struct t} : Prop :=
  match t with
  | SNull | STrue | SFalse | SNum _ | SStr _ => True
  | SArr0 w | SObj0 w => P w
  | SArr items =>
      (fix go (items : list (ws * sjson * ws)) : Prop :=
         match items with
         | [] => True
         | (wb, t, wa) :: more => P wb /\ ws_all P t /\ P wa /\ go more
         end) items
  | SObj ms =>
      (fix go (ms : list (ws * list schar * ws * (ws * sjson * ws))) : Prop :=
         match ms with
         | [] => True
         | (wk, k, wc, (wb, t, wa)) :: more =>
             P wk /\ P wc /\ P wb /\ ws_all P t /\ P wa /\ go more
         end) ms
  end.

Definition a_items (P : ws -> Prop) :=
  fix go (items : list (ws * sjson * ws)) : Prop :=
    match items with
    | [] => True
    | (wb, t, wa) :: more => P wb /\ ws_all P t /\ P wa /\ go more
    end.
Definition a_members (P : ws -> Prop) :=
  fix go (ms : list (ws * list schar * ws * (ws * sjson * ws))) : Prop :=
    match ms with
    | [] => True
    | (wk, k, wc, (wb, t, wa)) :: more =>
        P wk /\ P wc /\ P wb /\ ws_all P t /\ P wa /\ go more
    end.
Lemma ws_all_arr_eq : forall P items, ws_all P (SArr items) = a_items P items.
Proof. reflexivity. Qed.
Lemma ws_all_obj_eq : forall P ms, ws_all P (SObj ms) = a_members P ms.
Proof. reflexivity. Qed.
Lemma a_items_cons : forall P wb t wa more,
  a_items P ((wb, t, wa) :: more) = (P wb /\ ws_all P t /\ P wa /\ a_items P more).
Proof. reflexivity. Qed.
Lemma a_members_cons : forall P wk k wc wb t wa more,
  a_members P ((wk, k, wc, (wb, t, wa)) :: more) =
  (P wk /\ P wc /\ P wb /\ ws_all P t /\ P wa /\ a_members P more).
Proof. reflexivity. Qed.

Section WsAll.
Variables (P : ws -> Prop) (st : jstyle).
Hypothesis P_nil : P [].
Hypothesis P_lead : forall d first, P (lead st d first).
Hypothesis P_indent : forall d, P (indent st d).
Hypothesis P_colon : P (colon_ws st).

Lemma P_trail : forall A d (more : list A), P (trail st d more).
Proof. intros. destruct more; [apply P_indent|apply P_nil]. Qed.

Lemma deco_arr_ws_all : forall d cn (l : list json) first,
  Forall (fun x => ws_all P (cn x)) l -> a_items P (deco_arr st d first (map cn l)).
Proof.
  intros d cn. induction l as [|x t IH]; intros first H; [exact I|].
  inversion H; subst. cbn [map deco_arr]. rewrite a_items_cons.
  split; [apply P_lead|]. split; [assumption|]. split; [apply P_trail|]. apply IH; assumption.
Qed.

Lemma deco_obj_ws_all : forall utf8 d cn (m : list (str * json)) first,
  Forall (fun kv => ws_all P (cn (snd kv))) m ->
  a_members P (deco_obj st d first (map (fun kv => (map (canon_char utf8) (fst kv), cn (snd kv))) m)).
Proof.
  intros utf8 d cn. induction m as [|[k x] t IH]; intros first H; [exact I|].
  inversion H as [|? ? Hx Ht]; subst. cbn [snd] in Hx. cbn [map deco_obj fst snd].
  rewrite a_members_cons.
  split; [apply P_lead|]. split; [apply P_nil|]. split; [apply P_colon|].
  split; [assumption|]. split; [apply P_trail|]. apply IH; assumption.
Qed.

Theorem canon_ws_all : forall utf8 v d, ws_all P (canon st utf8 d v).
Proof.
  intros utf8 v. induction v as [| b | s | n | m IH | l IH] using json_ind'; intros d.
  - exact I.
  - destruct b; exact I.
  - exact I.
  - exact I.
  - destruct m as [|kv t]; [exact P_nil|].
    change (canon st utf8 d (JObj (kv :: t))) with
      (SObj (deco_obj st d true
               (map (fun kv => (map (canon_char utf8) (fst kv), canon st utf8 (S d) (snd kv))) (kv :: t)))).
    rewrite ws_all_obj_eq. apply deco_obj_ws_all.
    rewrite Forall_forall in *. intros kv' Hin. apply IH; assumption.
  - destruct l as [|x t]; [exact P_nil|].
    change (canon st utf8 d (JArr (x :: t))) with
      (SArr (deco_arr st d true (map (canon st utf8 (S d)) (x :: t)))).
    rewrite ws_all_arr_eq. apply deco_arr_ws_all.
    rewrite Forall_forall in *. intros x' Hin. apply IH; assumption.
Qed.
End WsAll.

(* Consise: no whitespace at all *)
Theorem concise_no_ws : forall utf8 v d, ws_all (fun w => w = []) (canon Consise utf8 d v).
Proof.
  intros. apply canon_ws_all; try reflexivity.
  intros d' first. destruct first; reflexivity.
Qed.

(* OneLine: nothing but single blanks (after ',' and ':') *)
Theorem oneline_ws : forall utf8 v d, ws_all (fun w => w = [] \/ w = [32]) (canon OneLine utf8 d v).
Proof.
  intros. apply canon_ws_all; auto.
  intros d' first. destruct first; auto.
Qed.

(* Pretty: a single blank after ':', otherwise a line feed followed by two blanks per level *)
Theorem pretty_ws : forall utf8 v d,
  ws_all (fun w => w = [] \/ w = [32] \/ exists k, w = 10 :: concat (repeat [32; 32] k))
         (canon Pretty utf8 d v).
Proof.
  intros. apply canon_ws_all; auto.
  - intros d' first. right. right. exists (S d'). destruct first; reflexivity.
  - intros d'. right. right. exists d'. reflexivity.
Qed.

(* ================================================================== *)
(* 12. OneLine and Consise rows contain no line break                  *)
(* ================================================================== *)

Definition nl (b : byte) : Prop := b <> 10 /\ b <> 13.

Lemma digit_nl : forall b, is_digit b = true -> nl b.
Proof. intros b H. unfold is_digit in H. unfold nl. lia. Qed.

Lemma digits_nl : forall ds, Forall (fun b => is_digit b = true) ds -> Forall nl ds.
Proof. intros ds H. eapply Forall_impl; [|exact H]. apply digit_nl. Qed.

Lemma utf8_nl : forall c, c <> 10 -> c <> 13 -> Forall nl (utf8_encode_char c).
Proof.
  intros c H1 H2. unfold utf8_encode_char.
  destruct (N.ltb_spec c 128); [repeat constructor; assumption|].
  destruct (N.ltb_spec c 2048); [repeat constructor; lia|].
  destruct (N.ltb_spec c 65536); repeat constructor; lia.
Qed.

Lemma hex_char_nl : forall u d, nl (hex_char u d).
Proof.
  intros u d. unfold hex_char, nl. destruct (N.ltb_spec d 10); [lia|]. destruct u; lia.
Qed.

Lemma assoc_esc_ge : forall c l, assoc_esc c print_escapes = Some l -> 34 <= l.
Proof.
  intros c l. unfold print_escapes. cbn [assoc_esc].
  repeat match goal with |- context [N.eqb ?a ?b] => destruct (N.eqb a b) end;
    intros H; inversion H; lia.
Qed.

Lemma print_char_nl : forall utf8 c, char_ok utf8 c -> Forall nl (print_char utf8 c).
Proof.
  intros utf8 c Hok. unfold print_char.
  destruct (esc_cases c) as [[He [l [Ha Hl]]]|[He [Ha [_ [_ [N1 N2]]]]]]; rewrite Ha.
  - pose proof (assoc_esc_ge _ _ Ha). repeat constructor; unfold nl; lia.
  - change ((utf8 && (32 <=? c)) || ((32 <=? c) && (c <=? 126))) with (is_lit utf8 c).
    destruct (is_lit utf8 c) eqn:Hlit.
    + apply utf8_nl; assumption.
    + rewrite hex4_small by (eapply not_lit_small; eauto).
      repeat constructor; try apply hex_char_nl; unfold nl; lia.
Qed.

Lemma print_string_nl : forall utf8 s, Forall (char_ok utf8) s -> Forall nl (print_string utf8 s).
Proof.
  intros utf8 s H. unfold print_string. constructor; [unfold nl; lia|].
  apply Forall_app. split; [|repeat constructor; unfold nl; lia].
  induction H as [|c s Hc Hs IH]; [constructor|].
  cbn [flat_map]. apply Forall_app. split; [apply print_char_nl; assumption|exact IH].
Qed.

Lemma digits_of_N_nl : forall n, Forall nl (digits_of_N n).
Proof. intros. apply digits_nl. eapply dig_rep_digits. apply digits_of_N_rep. Qed.

Lemma render_num_nl : forall n, snum_ok n -> Forall nl (render_num n).
Proof.
  intros [neg i fr ex] [[[_ Hi] _] [Hf He]]. unfold render_num.
  cbn [sn_neg sn_int sn_frac sn_exp] in *.
  apply Forall_app. split; [destruct neg; repeat constructor; unfold nl; lia|].
  apply Forall_app. split; [apply digits_nl; assumption|].
  apply Forall_app. split.
  - destruct fr as [f|]; [|constructor]. constructor; [unfold nl; lia|].
    apply digits_nl. apply Hf.
  - destruct ex as [[[up sg] e]|]; [|constructor].
    constructor; [destruct up; unfold nl; lia|].
    apply Forall_app. split; [|apply digits_nl; apply He].
    destruct sg as [[|]|]; repeat constructor; unfold nl; lia.
Qed.

Lemma print_num_nl : forall n, num_ok n -> Forall nl (print_num n).
Proof.
  intros [n|z|f] H; cbn [print_num num_ok] in *.
  - apply digits_of_N_nl.
  - destruct z; cbn [digits_of_Z].
    + repeat constructor; unfold nl; lia.
    + apply digits_of_N_nl.
    + constructor; [unfold nl; lia|apply digits_of_N_nl].
  - destruct (flt_okb_spec f H) as [n [_ [O [R _]]]]. rewrite <- R. apply render_num_nl; assumption.
Qed.

Lemma indent_nl : forall st n, st <> Pretty -> Forall nl (indent st n).
Proof. intros st n H. destruct st; [constructor|constructor|congruence]. Qed.
Lemma sep_nl : forall st, Forall nl (sep_ws st).
Proof. destruct st; repeat constructor; unfold nl; lia. Qed.
Lemma colon_ws_nl : forall st, Forall nl (colon_ws st).
Proof. destruct st; repeat constructor; unfold nl; lia. Qed.

Lemma p_items_nl : forall st d pr l, st <> Pretty ->
  Forall (fun x => Forall nl (pr x)) l -> Forall nl (p_items st d pr l).
Proof.
  intros st d pr l Hst. induction l as [|x t IH]; intros H; [constructor|].
  inversion H as [|? ? Hx Ht]; subst. rewrite p_items_cons.
  apply Forall_app. split; [apply indent_nl; assumption|].
  apply Forall_app. split; [assumption|].
  destruct t as [|y t']; [constructor|].
  constructor; [unfold nl; lia|]. apply Forall_app. split; [apply sep_nl|apply IH; assumption].
Qed.

Lemma p_members_nl : forall st utf8 d pr m, st <> Pretty ->
  Forall (fun kv => Forall (char_ok utf8) (fst kv) /\ Forall nl (pr (snd kv))) m ->
  Forall nl (p_members st utf8 d pr m).
Proof.
  intros st utf8 d pr m Hst. induction m as [|[k x] t IH]; intros H; [constructor|].
  inversion H as [|? ? [Hk Hx] Ht]; subst. cbn [fst snd] in Hk, Hx. rewrite p_members_cons.
  apply Forall_app. split; [apply indent_nl; assumption|].
  apply Forall_app. split; [apply print_string_nl; assumption|].
  constructor; [unfold nl; lia|].
  apply Forall_app. split; [apply colon_ws_nl|].
  apply Forall_app. split; [assumption|].
  destruct t as [|y t']; [constructor|].
  constructor; [unfold nl; lia|]. apply Forall_app. split; [apply sep_nl|apply IH; assumption].
Qed.

Theorem print_no_linebreak : forall st utf8 v d, st <> Pretty -> printable utf8 v ->
  Forall nl (print_json_at st utf8 d v).
Proof.
  intros st utf8 v d Hst. revert d.
  induction v as [| b | s | n | m IH | l IH] using json_ind'; intros d Hp.
  - repeat constructor; unfold nl; lia.
  - destruct b; repeat constructor; unfold nl; lia.
  - apply print_string_nl. exact Hp.
  - apply print_num_nl. exact Hp.
  - apply printable_obj in Hp. destruct Hp as [_ Hp].
    destruct m as [|kv t]; [repeat constructor; unfold nl; lia|].
    rewrite print_obj_eq. constructor; [unfold nl; lia|].
    apply Forall_app. split.
    + apply p_members_nl; [assumption|]. rewrite Forall_forall in *. intros kv' Hin.
      destruct (Hp kv' Hin) as [Hk Hx]. split; [exact Hk|]. apply IH; assumption.
    + apply Forall_app. split; [apply indent_nl; assumption|repeat constructor; unfold nl; lia].
  - apply printable_arr in Hp.
    destruct l as [|x t]; [repeat constructor; unfold nl; lia|].
    rewrite print_arr_eq. constructor; [unfold nl; lia|].
    apply Forall_app. split.
    + apply p_items_nl; [assumption|]. rewrite Forall_forall in *. intros x' Hin. apply IH; auto.
    + apply Forall_app. split; [apply indent_nl; assumption|repeat constructor; unfold nl; lia].
Qed.

Lemma nl_not_in : forall l, Forall nl l -> ~ In 10 l /\ ~ In 13 l.
Proof.
  intros l H. rewrite Forall_forall in H.
  split; intros Hin; destruct (H _ Hin) as [H1 H2]; congruence.
Qed.

Theorem oneline_no_linebreak : forall utf8 v d, printable utf8 v ->
  ~ In 10 (print_json_at OneLine utf8 d v) /\ ~ In 13 (print_json_at OneLine utf8 d v).
Proof. intros. apply nl_not_in, print_no_linebreak; [discriminate|assumption]. Qed.

Theorem concise_no_linebreak : forall utf8 v d, printable utf8 v ->
  ~ In 10 (print_json_at Consise utf8 d v) /\ ~ In 13 (print_json_at Consise utf8 d v).
Proof. intros. apply nl_not_in, print_no_linebreak; [discriminate|assumption]. Qed.

(* ================================================================== *)
(* 12b. the exact annotations, by depth                                *)
(* ================================================================== *)

Lemma canon_arr_cons : forall st utf8 d x t,
  canon st utf8 d (JArr (x :: t)) = SArr (deco_arr st d true (map (canon st utf8 (S d)) (x :: t))).
Proof. reflexivity. Qed.
Lemma canon_obj_cons : forall st utf8 d kv t,
  canon st utf8 d (JObj (kv :: t)) =
  SObj (deco_obj st d true
          (map (fun kv => (map (canon_char utf8) (fst kv), canon st utf8 (S d) (snd kv))) (kv :: t))).
Proof. reflexivity. Qed.

(* Pretty, container at depth d: a line feed and 2*(d+1) blanks before every element / member name,
   a line feed and 2*d blanks after the last element (before the closing bracket), nothing else
   except the blank after ':' *)
Lemma lead_pretty : forall d first, lead Pretty d first = 10 :: concat (repeat [32; 32] (S d)).
Proof. intros. destruct first; reflexivity. Qed.
Lemma trail_pretty : forall A d (more : list A),
  trail Pretty d more = match more with [] => 10 :: concat (repeat [32; 32] d) | _ => [] end.
Proof. reflexivity. Qed.
(* OneLine: a blank before every element but the first, nothing after *)
Lemma lead_oneline : forall d first, lead OneLine d first = if first then [] else [32].
Proof. intros. destruct first; reflexivity. Qed.
Lemma trail_oneline : forall A d (more : list A), trail OneLine d more = [].
Proof. intros. destruct more; reflexivity. Qed.

(* ================================================================== *)
(* 13. the hypotheses are satisfiable                                  *)
(* ================================================================== *)

Lemma char_ok_bmp : forall utf8 c, is_scalar c = true -> c < 65536 -> char_ok utf8 c.
Proof. intros utf8 c H1 H2. split; auto. Qed.

(* 0.1, 2.5, 5e-324 (smallest subnormal), 1.7976931348623157e308 (largest finite), -2.5 *)
Example flt_ok_0_1 : flt_okb 4591870180066957722 = true.
Proof. vm_compute. reflexivity. Qed.
Example flt_ok_2_5 : flt_okb 4612811918334230528 = true.
Proof. vm_compute. reflexivity. Qed.
Example flt_ok_min : flt_okb 1 = true.
Proof. vm_compute. reflexivity. Qed.
Example flt_ok_max : flt_okb 9218868437227405311 = true.
Proof. vm_compute. reflexivity. Qed.
Example flt_ok_neg_2_5 : flt_okb 13836183955189006336 = true.
Proof. vm_compute. reflexivity. Qed.
(* the side condition does exclude what it should: NaN, +inf, and the double 3.0
   (which prints as "3" and reads back as the integer 3) *)
Example flt_ok_nan : flt_okb 9221120237041090560 = false.
Proof. vm_compute. reflexivity. Qed.
Example flt_ok_inf : flt_okb 9218868437227405312 = false.
Proof. vm_compute. reflexivity. Qed.
Example flt_ok_3_0 : flt_okb 4613937818241073152 = false.
Proof. vm_compute. reflexivity. Qed.

Example snum_of_text_ex :
  snum_of_text [45; 50; 46; 53] =
  Some {| sn_neg := true; sn_int := [50]; sn_frac := Some [53]; sn_exp := None |}.
Proof. vm_compute. reflexivity. Qed.

(* {"a\"": ["\"\né/", 0, 18446744073709551615, -9223372036854775808, 0.1, [], {}], "b": null} *)
Definition sample : json :=
  JObj [([97; 34], JArr [JStr [34; 10; 233; 47]; JNum (NPos 0); JNum (NPos 18446744073709551615);
                         JNum (NNeg (-9223372036854775808)); JNum (NFlt 4591870180066957722);
                         JArr []; JObj []]);
        ([98], JNull)].

Example sample_printable : forall utf8, printable utf8 sample.
Proof.
  intros utf8. cbn [printable sample num_ok map fst snd]. repeat split;
    try lia; try exact flt_ok_0_1;
    try (repeat (constructor; try (apply char_ok_bmp; reflexivity)); fail).
  constructor; [|constructor; [|constructor]].
  - intros [H|[]]. discriminate.
  - intros [].
Qed.

Example sample_oneline :
  print_json_at OneLine false 0 sample =
  [123; 34; 97; 92; 34; 34; 58; 32; 91; 34; 92; 34; 92; 110; 92; 117; 48; 48; 101; 57; 92; 47; 34;
   44; 32; 48; 44; 32; 49; 56; 52; 52; 54; 55; 52; 52; 48; 55; 51; 55; 48; 57; 53; 53; 49; 54; 49;
   53; 44; 32; 45; 57; 50; 50; 51; 51; 55; 50; 48; 51; 54; 56; 53; 52; 55; 55; 53; 56; 48; 56; 44;
   32; 48; 46; 49; 44; 32; 91; 93; 44; 32; 123; 125; 93; 44; 32; 34; 98; 34; 58; 32; 110; 117; 108;
   108; 125].
Proof. vm_compute. reflexivity. Qed.

Example sample_pretty_utf8 :
  print_json_at Pretty true 0 sample = render (canon Pretty true 0 sample) /\
  value_of (canon Pretty true 0 sample) = Some sample.
Proof. vm_compute. split; reflexivity. Qed.

Print Assumptions print_is_render.
Print Assumptions concise_no_ws.
Print Assumptions oneline_ws.
Print Assumptions pretty_ws.
Print Assumptions oneline_no_linebreak.
Print Assumptions concise_no_linebreak.
Print Assumptions sample_printable.
