(* GroupUniqProofs.v — what --group-by / --merge / --unique compute (Spec/PipelineSpec.v),
   characterised independently of the folds that define them.
   Part 1: group_spec = "for each distinct string key in first-seen order, the rows with that key in
           arrival order"; merge_spec; the empty cases.
   Part 2: jeqb on canonical values with the same member order is Leibniz equality (hence hash-coherent);
           dedup_from keeps exactly the first occurrences. *)
From Jawk Require Import Base F64 Json Ctx Printer Chain PipelineSpec.
From Coq Require Import Permutation.

(* ================================================================================================ *)
(* strings                                                                                          *)
(* ================================================================================================ *)
Lemma gu_str_eqb_eq (a : str) : forall b, str_eqb a b = true <-> a = b.
Proof.
  unfold str_eqb. induction a as [|x a IH]; intros [|y b]; cbn [list_eqb].
  - split; reflexivity.
  - split; [discriminate|congruence].
  - split; [discriminate|congruence].
  - rewrite Bool.andb_true_iff, N.eqb_eq, IH. split.
    + intros [-> ->]. reflexivity.
    + intros H. injection H as -> ->. split; reflexivity.
Qed.
Lemma gu_str_eqb_refl (a : str) : str_eqb a a = true.
Proof. apply gu_str_eqb_eq. reflexivity. Qed.
Lemma gu_str_eqb_neq (a b : str) : a <> b -> str_eqb a b = false.
Proof. intros H. destruct (str_eqb a b) eqn:Eab; [|reflexivity]. apply gu_str_eqb_eq in Eab. contradiction. Qed.
Lemma gu_str_eqb_false (a b : str) : str_eqb a b = false -> a <> b.
Proof. intros H ->. rewrite gu_str_eqb_refl in H. discriminate H. Qed.
Lemma gu_str_eqb_sym (a b : str) : str_eqb a b = str_eqb b a.
Proof.
  destruct (str_eqb a b) eqn:Eab.
  - apply gu_str_eqb_eq in Eab. subst b. symmetry. apply gu_str_eqb_refl.
  - symmetry. apply gu_str_eqb_neq. intros ->. rewrite gu_str_eqb_refl in Eab. discriminate Eab.
Qed.
Definition str_in_dec (x : str) (l : list str) : {In x l} + {~ In x l} :=
  in_dec (list_eq_dec N.eq_dec) x l.

(* ---------- first occurrences of a list of strings ---------- *)
Fixpoint first_seen (l : list str) : list str :=
  match l with
  | [] => []
  | x :: t => x :: filter (fun y => negb (str_eqb y x)) (first_seen t)
  end.

Lemma first_seen_In x l : In x (first_seen l) <-> In x l.
Proof.
  induction l as [|a l IH]; cbn [first_seen In]; [tauto|]. split.
  - intros [->|H]; [left; reflexivity|]. apply filter_In in H as [H _]. right. apply IH. exact H.
  - intros [->|H]; [left; reflexivity|].
    destruct (str_eqb x a) eqn:Exa.
    + apply gu_str_eqb_eq in Exa. left. symmetry. exact Exa.
    + right. apply filter_In. split; [apply IH; exact H|]. rewrite Exa. reflexivity.
Qed.

Lemma first_seen_NoDup l : NoDup (first_seen l).
Proof.
  induction l as [|a l IH]; cbn [first_seen]; constructor.
  - intros H. apply filter_In in H as [_ H]. rewrite gu_str_eqb_refl in H. discriminate H.
  - apply NoDup_filter. exact IH.
Qed.

Lemma first_seen_snoc_notin x l : ~ In x l -> first_seen (l ++ [x]) = first_seen l ++ [x].
Proof.
  induction l as [|a l IH]; intros Hn; [reflexivity|].
  cbn [app first_seen]. f_equal.
  rewrite IH by (intros H; apply Hn; right; exact H).
  rewrite filter_app. cbn [filter].
  rewrite gu_str_eqb_neq by (intros ->; apply Hn; left; reflexivity). reflexivity.
Qed.

Lemma first_seen_snoc_in x l : In x l -> first_seen (l ++ [x]) = first_seen l.
Proof.
  induction l as [|a l IH]; intros Hi; [destruct Hi|].
  cbn [app first_seen]. f_equal.
  destruct (str_in_dec x l) as [Hl|Hl].
  - rewrite IH by exact Hl. reflexivity.
  - destruct Hi as [->|Hi]; [|contradiction].
    rewrite first_seen_snoc_notin by exact Hl.
    rewrite filter_app. cbn [filter]. rewrite gu_str_eqb_refl. cbn [negb]. apply app_nil_r.
Qed.

(* every element of l is, up to first_seen, already there: the characterisation by positions *)
Lemma first_seen_app_old l1 l2 : (forall x, In x l2 -> In x l1) -> first_seen (l1 ++ l2) = first_seen l1.
Proof.
  revert l1. induction l2 as [|x l2 IH]; intros l1 H; [rewrite app_nil_r; reflexivity|].
  change (x :: l2) with ([x] ++ l2). rewrite app_assoc. rewrite IH.
  - apply first_seen_snoc_in. apply H. left. reflexivity.
  - intros y Hy. apply in_or_app. left. apply H. right. exact Hy.
Qed.

(* ================================================================================================ *)
(* PART 1 — --group-by / --merge                                                                    *)
(* ================================================================================================ *)
Section GroupMerge.
Variable E : Type.
Variable get : E -> ctx E -> option json.
Notation ctx := (ctx E).

(* the grouping key of a row: present and a string, else the row is dropped *)
Definition skey (k : E) (c : ctx) : option str :=
  match get k c with Some (JStr n) => Some n | _ => None end.
(* the row's key is the string n *)
Definition has_key (k : E) (n : str) (c : ctx) : bool :=
  match skey k c with Some n' => str_eqb n' n | None => false end.
(* the string keys of the rows, in arrival order, with repetitions *)
Definition keys_of (k : E) (cs : list ctx) : list str :=
  flat_map (fun c => match skey k c with Some n => [n] | None => [] end) cs.
(* the row survives grouping *)
Definition survives (k : E) (c : ctx) : bool :=
  match skey k c with Some _ => true | None => false end.

Lemma keys_of_app k a b : keys_of k (a ++ b) = keys_of k a ++ keys_of k b.
Proof. apply flat_map_app. Qed.

Lemma keys_of_one k c : keys_of k [c] = match skey k c with Some n => [n] | None => [] end.
Proof. unfold keys_of. cbn [flat_map]. apply app_nil_r. Qed.

Lemma keys_of_In k n cs : In n (keys_of k cs) <-> exists c, In c cs /\ skey k c = Some n.
Proof.
  unfold keys_of. rewrite in_flat_map. split; intros [c [Hc H]]; exists c; (split; [exact Hc|]).
  - destruct (skey k c) as [m|]; [|destruct H]. destruct H as [->|[]]. reflexivity.
  - rewrite H. left. reflexivity.
Qed.

Lemma has_key_notin k n cs : ~ In n (keys_of k cs) -> filter (has_key k n) cs = [].
Proof.
  intros Hn. induction cs as [|c cs IH]; [reflexivity|].
  cbn [filter]. unfold has_key at 1. destruct (skey k c) as [m|] eqn:Hs.
  - destruct (str_eqb m n) eqn:Emn.
    + exfalso. apply gu_str_eqb_eq in Emn. subst m. apply Hn. apply keys_of_In. exists c.
      split; [left; reflexivity|exact Hs].
    + apply IH. intros H. apply Hn. change (c :: cs) with ([c] ++ cs). rewrite keys_of_app.
      apply in_or_app. right. exact H.
  - apply IH. intros H. apply Hn. change (c :: cs) with ([c] ++ cs). rewrite keys_of_app.
    apply in_or_app. right. exact H.
Qed.

(* a row belongs to exactly one key *)
Lemma has_key_iff k n c : has_key k n c = true <-> skey k c = Some n.
Proof.
  unfold has_key. destruct (skey k c) as [m|]; [|split; discriminate].
  rewrite gu_str_eqb_eq. split; [intros ->; reflexivity|intros H; injection H as ->; reflexivity].
Qed.

(* ---------- group_add on a table with distinct keys ---------- *)
Lemma group_add_in (g : str -> list json) n v : forall fs, NoDup fs -> In n fs ->
  group_add n v (map (fun m => (m, g m)) fs) =
  map (fun m => (m, g m ++ (if str_eqb n m then [v] else []))) fs.
Proof.
  induction fs as [|a fs IH]; intros Hnd Hin; [destruct Hin|].
  inversion Hnd as [|a' fs' Hna Hnd']; subst a' fs'.
  cbn [map group_add]. destruct (str_eqb n a) eqn:Ena.
  - apply gu_str_eqb_eq in Ena. subst a. f_equal.
    apply map_ext_in. intros m Hm.
    rewrite gu_str_eqb_neq by (intros ->; contradiction). rewrite app_nil_r. reflexivity.
  - rewrite app_nil_r. f_equal. apply IH; [exact Hnd'|].
    destruct Hin as [->|Hin]; [|exact Hin]. rewrite gu_str_eqb_refl in Ena. discriminate Ena.
Qed.

Lemma group_add_notin (g : str -> list json) n v : forall fs, ~ In n fs ->
  group_add n v (map (fun m => (m, g m)) fs) = map (fun m => (m, g m)) fs ++ [(n, [v])].
Proof.
  induction fs as [|a fs IH]; intros Hn; [reflexivity|].
  cbn [map group_add app]. rewrite gu_str_eqb_neq by (intros ->; apply Hn; left; reflexivity).
  f_equal. apply IH. intros H. apply Hn. right. exact H.
Qed.

(* ---------- the fold ---------- *)
Definition gstep (k : E) (d : list (str * list json)) (c : ctx) : list (str * list json) :=
  match get k c with Some (JStr n) => group_add n (build c) d | _ => d end.
Definition gtable (k : E) (cs : list ctx) : list (str * list json) :=
  map (fun n => (n, map build (filter (has_key k n) cs))) (first_seen (keys_of k cs)).

Lemma gstep_skey k d c :
  gstep k d c = match skey k c with Some n => group_add n (build c) d | None => d end.
Proof. unfold gstep, skey. destruct (get k c) as [[| | n | | |]|]; reflexivity. Qed.

Lemma group_fold_char k cs : fold_left (gstep k) cs [] = gtable k cs.
Proof.
  induction cs as [|c cs IH] using rev_ind; [reflexivity|].
  rewrite fold_left_app. cbn [fold_left]. rewrite IH, gstep_skey. unfold gtable.
  rewrite keys_of_app, keys_of_one.
  destruct (skey k c) as [n|] eqn:Hs.
  - assert (Hf : forall m, filter (has_key k m) (cs ++ [c]) =
                           filter (has_key k m) cs ++ (if str_eqb n m then [c] else [])).
    { intros m. rewrite filter_app. f_equal. cbn [filter]. unfold has_key. rewrite Hs.
      destruct (str_eqb n m); reflexivity. }
    destruct (str_in_dec n (keys_of k cs)) as [Hin|Hnin].
    + rewrite first_seen_snoc_in by exact Hin.
      rewrite (group_add_in (fun m => map build (filter (has_key k m) cs)))
        by (try apply first_seen_NoDup; apply first_seen_In; exact Hin).
      apply map_ext. intros m. rewrite Hf, map_app.
      destruct (str_eqb n m); reflexivity.
    + rewrite first_seen_snoc_notin by exact Hnin.
      rewrite (group_add_notin (fun m => map build (filter (has_key k m) cs)))
        by (rewrite first_seen_In; exact Hnin).
      rewrite map_app. f_equal.
      * apply map_ext_in. intros m Hm. rewrite Hf.
        rewrite gu_str_eqb_neq by (intros ->; apply Hnin; apply first_seen_In; exact Hm).
        rewrite app_nil_r. reflexivity.
      * cbn [map]. rewrite Hf, gu_str_eqb_refl, (has_key_notin k n cs Hnin). reflexivity.
  - rewrite app_nil_r. apply map_ext. intros m. rewrite filter_app. cbn [filter].
    unfold has_key at 3. rewrite Hs, app_nil_r. reflexivity.
Qed.

(* --group-by: one object; its keys are the distinct string keys in first-seen order; the array under
   a key holds the rows with that key, in arrival order *)
Theorem group_spec_char : forall k cs,
  group_spec E get k cs =
  JObj (map (fun n => (n, JArr (map build (filter (has_key k n) cs)))) (first_seen (keys_of k cs))).
Proof.
  intros k cs. unfold group_spec. f_equal.
  change (fold_left _ cs []) with (fold_left (gstep k) cs []).
  rewrite group_fold_char. unfold gtable. rewrite map_map. reflexivity.
Qed.

(* the same statement with every definition unfolded, as in the property text *)
Theorem group_spec_char_unfolded : forall k cs,
  group_spec E get k cs =
  JObj (map (fun n => (n, JArr (map build
              (filter (fun c => match skey k c with Some n' => str_eqb n' n | None => false end) cs))))
            (first_seen (flat_map (fun c => match skey k c with Some n => [n] | None => [] end) cs))).
Proof. exact group_spec_char. Qed.

Theorem group_keys_nodup : forall k cs, NoDup (first_seen (keys_of k cs)).
Proof. intros k cs. apply first_seen_NoDup. Qed.

(* the keys of the emitted object are exactly the string keys of the rows *)
Theorem group_keys_complete : forall k cs n,
  In n (first_seen (keys_of k cs)) <-> exists c, In c cs /\ skey k c = Some n.
Proof. intros k cs n. rewrite first_seen_In. apply keys_of_In. Qed.

(* ---------- partition ---------- *)
Lemma filter_disjoint_perm {A} (p q : A -> bool) : forall l,
  (forall x, In x l -> p x = true -> q x = false) ->
  Permutation (filter p l ++ filter q l) (filter (fun x => p x || q x) l).
Proof.
  induction l as [|a l IH]; intros Hd; [constructor|].
  assert (IH' := IH (fun x Hx => Hd x (or_intror Hx))).
  cbn [filter]. destruct (p a) eqn:Hp.
  - rewrite (Hd a (or_introl eq_refl) Hp). cbn [orb app]. constructor. exact IH'.
  - cbn [orb]. destruct (q a).
    + eapply Permutation_trans; [apply Permutation_sym, Permutation_middle|]. constructor. exact IH'.
    + exact IH'.
Qed.

Lemma group_partition_gen k cs : forall ns, NoDup ns ->
  Permutation (concat (map (fun n => filter (has_key k n) cs) ns))
              (filter (fun c => match skey k c with Some n => existsb (str_eqb n) ns | None => false end) cs).
Proof.
  induction ns as [|n ns IH]; intros Hnd.
  - cbn [map concat existsb]. induction cs as [|c cs IHc]; [constructor|].
    cbn [filter]. destruct (skey k c); exact IHc.
  - inversion Hnd as [|n' ns' Hn Hnd']; subst n' ns'.
    cbn [map concat]. eapply Permutation_trans; [apply Permutation_app_head, IH, Hnd'|].
    eapply Permutation_trans; [apply filter_disjoint_perm|].
    + intros c _ Hc. apply has_key_iff in Hc. rewrite Hc.
      destruct (existsb (str_eqb n) ns) eqn:Hex; [|reflexivity].
      apply existsb_exists in Hex as [m [Hm Hnm]]. apply gu_str_eqb_eq in Hnm. subst m. contradiction.
    + erewrite filter_ext; [apply Permutation_refl|].
      intros c. unfold has_key. destruct (skey k c) as [m|]; [|reflexivity].
      cbn [existsb]. reflexivity.
Qed.

(* the arrays, concatenated in key order, are a rearrangement of the surviving rows: every row with a
   string key occurs in exactly one array, exactly once; all other rows occur nowhere *)
Theorem group_partition : forall k cs,
  Permutation (concat (map (fun n => filter (has_key k n) cs) (first_seen (keys_of k cs))))
              (filter (survives k) cs).
Proof.
  intros k cs.
  eapply Permutation_trans; [apply group_partition_gen, first_seen_NoDup|].
  erewrite filter_ext_in; [apply Permutation_refl|].
  intros c Hc. unfold survives. destruct (skey k c) as [n|] eqn:Hs; [|reflexivity].
  apply existsb_exists. exists n. split; [|apply gu_str_eqb_refl].
  apply first_seen_In. apply keys_of_In. exists c. split; assumption.
Qed.

(* a surviving row sits under its own key and under no other *)
Theorem group_row_home : forall k c n, skey k c = Some n ->
  forall n', has_key k n' c = true <-> n' = n.
Proof.
  intros k c n Hs n'. rewrite has_key_iff, Hs. split; [intros H; injection H as ->; reflexivity|intros ->; reflexivity].
Qed.

Theorem group_empty : forall k, group_spec E get k [] = JObj [].
Proof. reflexivity. Qed.
(* no row survives: still one (empty) object *)
Theorem group_none_survive : forall k cs, (forall c, In c cs -> skey k c = None) -> group_spec E get k cs = JObj [].
Proof.
  intros k cs H. rewrite group_spec_char.
  assert (Hk : keys_of k cs = []).
  { induction cs as [|c cs IH]; [reflexivity|]. unfold keys_of. cbn [flat_map].
    rewrite (H c (or_introl eq_refl)). cbn [app]. apply IH. intros c' Hc'. apply H. right. exact Hc'. }
  rewrite Hk. reflexivity.
Qed.

Theorem merge_empty : merge_spec E [] = JArr [].
Proof. reflexivity. Qed.
(* --merge: one array, every row, arrival order *)
Theorem merge_spec_char : forall cs, merge_spec E cs = JArr (map build cs).
Proof. reflexivity. Qed.

(* both stages emit exactly one value, whatever the input *)
Theorem group_stage_one : forall k cs,
  stage_spec E get (SGroup k) cs = [new_with_no_context (group_spec E get k cs)].
Proof. reflexivity. Qed.
Theorem merge_stage_one : forall cs,
  stage_spec E get SMerge cs = [new_with_no_context (merge_spec E cs)].
Proof. reflexivity. Qed.
End GroupMerge.

(* ================================================================================================ *)
(* PART 2 — --unique                                                                                *)
(* ================================================================================================ *)

(* ---------- (a) the = function on canonical values ---------- *)
(* nested induction on json *)
Fixpoint gu_json_ind (P : json -> Prop)
  (HNull : P JNull) (HBool : forall b, P (JBool b)) (HStr : forall s, P (JStr s))
  (HNum : forall n, P (JNum n))
  (HObj : forall m, Forall (fun kv => P (snd kv)) m -> P (JObj m))
  (HArr : forall l, Forall P l -> P (JArr l))
  (v : json) {struct v} : P v :=
  match v with
  | JNull => HNull
  | JBool b => HBool b
  | JStr s => HStr s
  | JNum n => HNum n
  | JObj m =>
      HObj m ((fix go (m : list (str * json)) : Forall (fun kv => P (snd kv)) m :=
                 match m with
                 | [] => Forall_nil _
                 | kv :: t =>
                     Forall_cons kv
                       (match kv as kv0 return P (snd kv0) with
                        | (k, u) => gu_json_ind P HNull HBool HStr HNum HObj HArr u
                        end) (go t)
                 end) m)
  | JArr l =>
      HArr l ((fix go (l : list json) : Forall P l :=
                 match l with
                 | [] => Forall_nil _
                 | u :: t => Forall_cons u (gu_json_ind P HNull HBool HStr HNum HObj HArr u) (go t)
                 end) l)
  end.

Section ListPreds.
Context {A B : Type}.
Variable P : A -> Prop.
Variable R : A -> B -> Prop.
(* Forall as a fixpoint, so that it can be used under a Fixpoint on json *)
Fixpoint all (l : list A) : Prop :=
  match l with [] => True | x :: t => P x /\ all t end.
(* R on corresponding elements, as far as both lists go *)
Fixpoint pairwise (x : list A) (y : list B) : Prop :=
  match x, y with
  | u :: x', v :: y' => R u v /\ pairwise x' y'
  | _, _ => True
  end.
Lemma all_Forall l : all l <-> Forall P l.
Proof.
  induction l as [|x l IH]; cbn [all]; split; intros H.
  - constructor.
  - exact I.
  - destruct H as [Hx Hl]. constructor; [exact Hx|apply IH; exact Hl].
  - inversion H as [|x' l' Hx Hl]; subst x' l'. split; [exact Hx|apply IH; exact Hl].
Qed.
End ListPreds.

(* numbers outside the property's excluded domain: unsigned integers as NPos, negative integers as NNeg
   (so no -0 and a single integer representation), everything else a double that is not NaN, not zero
   and not integral *)
Definition canon_num (n : num) : Prop :=
  match n with
  | NPos _ => True
  | NNeg z => (z < 0)%Z
  | NFlt f => f_is_nan f = false /\ f_is_zero f = false /\ f_integral f = None
  end.

Fixpoint canonical (v : json) : Prop :=
  match v with
  | JNum n => canon_num n
  | JObj m => NoDup (map fst m) /\ all (fun kv => canonical (snd kv)) m
  | JArr l => all canonical l
  | _ => True
  end.

(* objects list their members in the same order, recursively *)
Fixpoint same_order (a b : json) {struct a} : Prop :=
  match a, b with
  | JObj x, JObj y => map fst x = map fst y /\ pairwise (fun p q => same_order (snd p) (snd q)) x y
  | JArr x, JArr y => pairwise same_order x y
  | _, _ => True
  end.

Lemma num_eqb_canon a b : canon_num a -> canon_num b -> num_eqb a b = true -> a = b.
Proof.
  destruct a as [n|z|x], b as [n'|z'|y]; cbn [canon_num num_eqb]; intros Ha Hb H.
  - apply N.eqb_eq in H. subst n'. reflexivity.
  - apply Bool.andb_true_iff in H as [H _]. apply Z.eqb_eq in H. lia.
  - destruct Hb as [_ [_ Hi]]. unfold f_fract_zero_nonneg in H. rewrite Hi in H. discriminate H.
  - apply Bool.andb_true_iff in H as [H _]. apply Z.eqb_eq in H. lia.
  - apply Z.eqb_eq in H. subst z'. reflexivity.
  - destruct Hb as [_ [_ Hi]]. unfold f_fract_zero_nonpos in H. rewrite Hi in H. discriminate H.
  - destruct Ha as [_ [_ Hi]]. unfold f_fract_zero_nonneg in H. rewrite Hi in H. discriminate H.
  - destruct Ha as [_ [_ Hi]]. unfold f_fract_zero_nonpos in H. rewrite Hi in H. discriminate H.
  - destruct Ha as [Hn [Hz _]]. destruct Hb as [Hn' _]. unfold f_eqb in H.
    rewrite Hn, Hn', Hz in H. cbn [orb andb] in H. apply N.eqb_eq in H. subst y. reflexivity.
Qed.

Lemma num_eqb_canon_refl a : canon_num a -> num_eqb a a = true.
Proof.
  destruct a as [n|z|x]; cbn [canon_num num_eqb]; intros Ha.
  - apply N.eqb_refl.
  - apply Z.eqb_refl.
  - destruct Ha as [Hn [Hz _]]. unfold f_eqb. rewrite Hn, Hz. cbn [orb andb]. apply N.eqb_refl.
Qed.

(* unfolding equations for jeqb on containers *)
Section ObjIncl.
Variable y : list (str * json).
Fixpoint obj_incl (x : list (str * json)) : bool :=
  match x with
  | [] => true
  | (k, u) :: x' => match obj_get k y with Some v => jeqb u v | None => false end && obj_incl x'
  end.
End ObjIncl.

Lemma jeqb_obj x y : jeqb (JObj x) (JObj y) = Nat.eqb (length x) (length y) && obj_incl y x.
Proof. reflexivity. Qed.
Lemma jeqb_arr_cons u x v y : jeqb (JArr (u :: x)) (JArr (v :: y)) = jeqb u v && jeqb (JArr x) (JArr y).
Proof. reflexivity. Qed.

Lemma obj_get_nodup k v : forall m, NoDup (map fst m) -> In (k, v) m -> obj_get k m = Some v.
Proof.
  induction m as [|[k' v'] m IH]; intros Hnd Hin; [destruct Hin|].
  cbn [map fst] in Hnd. inversion Hnd as [|a l Hna Hnd']; subst a l.
  cbn [obj_get]. destruct Hin as [Heq|Hin].
  - injection Heq as -> ->. rewrite gu_str_eqb_refl. reflexivity.
  - rewrite gu_str_eqb_neq.
    + apply IH; assumption.
    + intros ->. apply Hna. apply (in_map fst) in Hin. exact Hin.
Qed.

Theorem jeqb_canonical_eq : forall a b,
  canonical a -> canonical b -> same_order a b -> jeqb a b = true -> a = b.
Proof.
  intros a. induction a as [| x | s | n | m IHm | l IHl] using gu_json_ind;
    intros b Ca Cb So Heq; destruct b as [| x' | s' | n' | m' | l']; try (cbn in Heq; discriminate Heq).
  - reflexivity.
  - cbn [jeqb] in Heq. apply Bool.eqb_prop in Heq. subst x'. reflexivity.
  - cbn [jeqb] in Heq. apply gu_str_eqb_eq in Heq. subst s'. reflexivity.
  - cbn [jeqb] in Heq. cbn [canonical] in Ca, Cb. f_equal. apply num_eqb_canon; assumption.
  - rewrite jeqb_obj in Heq. apply Bool.andb_true_iff in Heq as [_ Hincl].
    cbn [canonical] in Ca, Cb. destruct Ca as [_ Cm]. destruct Cb as [Hnd Cm'].
    cbn [same_order] in So. destruct So as [Hk Sp].
    f_equal.
    assert (core : forall x y,
      Forall (fun kv => forall b, canonical (snd kv) -> canonical b -> same_order (snd kv) b ->
                                  jeqb (snd kv) b = true -> snd kv = b) x ->
      all (fun kv => canonical (snd kv)) x -> all (fun kv => canonical (snd kv)) y ->
      map fst x = map fst y -> pairwise (fun p q => same_order (snd p) (snd q)) x y ->
      incl y m' -> obj_incl m' x = true -> x = y).
    { induction x as [|[k u] x IHx]; intros [|[k' v] y] HF Cx Cy Hks Hp Hin Hi;
        try reflexivity; try discriminate Hks.
      inversion HF as [|a l0 IHu HFx]; subst a l0. cbn [snd] in IHu.
      cbn [all snd] in Cx, Cy. destruct Cx as [Cu Cx]. destruct Cy as [Cv Cy].
      cbn [map fst] in Hks. injection Hks as <- Hks.
      cbn [pairwise snd] in Hp. destruct Hp as [Suv Hp].
      cbn [obj_incl] in Hi. apply Bool.andb_true_iff in Hi as [H1 H2].
      rewrite (obj_get_nodup k v m' Hnd) in H1 by (apply Hin; left; reflexivity).
      rewrite (IHu v Cu Cv Suv H1). f_equal.
      apply IHx; try assumption. intros z Hz. apply Hin. right. exact Hz. }
    apply core; try assumption. apply incl_refl.
  - cbn [canonical] in Ca, Cb. cbn [same_order] in So. f_equal.
    revert l' Ca Cb So Heq. induction l as [|u x IHx]; intros [|v y] Cx Cy Hp Heq;
      try reflexivity; try (cbn in Heq; discriminate Heq).
    inversion IHl as [|a l0 IHu HFx]; subst a l0.
    cbn [all] in Cx, Cy. destruct Cx as [Cu Cx]. destruct Cy as [Cv Cy].
    cbn [pairwise] in Hp. destruct Hp as [Suv Hp].
    rewrite jeqb_arr_cons in Heq. apply Bool.andb_true_iff in Heq as [H1 H2].
    rewrite (IHu v Cu Cv Suv H1). f_equal. apply IHx; assumption.
Qed.

Corollary hash_coherent : forall (mh : list hw -> N) a b,
  canonical a -> canonical b -> same_order a b -> jeqb a b = true -> hash_feed mh a = hash_feed mh b.
Proof. intros mh a b Ca Cb So H. rewrite (jeqb_canonical_eq a b Ca Cb So H). reflexivity. Qed.

Theorem jeqb_refl : forall a, canonical a -> jeqb a a = true.
Proof.
  intros a. induction a as [| x | s | n | m IHm | l IHl] using gu_json_ind; intros Ca.
  - reflexivity.
  - cbn [jeqb]. apply Bool.eqb_reflx.
  - cbn [jeqb]. apply gu_str_eqb_refl.
  - cbn [jeqb]. apply num_eqb_canon_refl. exact Ca.
  - rewrite jeqb_obj, Nat.eqb_refl. cbn [andb]. cbn [canonical] in Ca. destruct Ca as [Hnd Cm].
    assert (core : forall x, Forall (fun kv => canonical (snd kv) -> jeqb (snd kv) (snd kv) = true) x ->
                             all (fun kv => canonical (snd kv)) x -> incl x m -> obj_incl m x = true).
    { induction x as [|[k u] x IHx]; intros HF Cx Hin; [reflexivity|].
      inversion HF as [|a l0 IHu HFx]; subst a l0. cbn [snd] in IHu.
      cbn [all snd] in Cx. destruct Cx as [Cu Cx].
      cbn [obj_incl]. rewrite (obj_get_nodup k u m Hnd) by (apply Hin; left; reflexivity).
      rewrite (IHu Cu). cbn [andb]. apply IHx; try assumption.
      intros z Hz. apply Hin. right. exact Hz. }
    apply core; try assumption. apply incl_refl.
  - cbn [canonical] in Ca. induction l as [|u x IHx]; [reflexivity|].
    inversion IHl as [|a l0 IHu HFx]; subst a l0.
    cbn [all] in Ca. destruct Ca as [Cu Cx].
    rewrite jeqb_arr_cons, (IHu Cu). cbn [andb]. apply IHx; assumption.
Qed.

(* same_order is reflexive, so on a single value nothing is assumed *)
Lemma same_order_refl : forall a, same_order a a.
Proof.
  intros a. induction a as [| x | s | n | m IHm | l IHl] using gu_json_ind; try exact I.
  - cbn [same_order]. split; [reflexivity|].
    induction m as [|[k u] m IH]; [exact I|].
    inversion IHm as [|a l0 IHu HFx]; subst a l0. cbn [pairwise]. split; [exact IHu|apply IH; exact HFx].
  - cbn [same_order]. induction l as [|u l IH]; [exact I|].
    inversion IHl as [|a l0 IHu HFx]; subst a l0. cbn [pairwise]. split; [exact IHu|apply IH; exact HFx].
Qed.

(* (c) the key of a row without selections is its value, compared by the = function *)
Lemma ckey_value_is_eq : forall a b, ckey_eqb (KValue a) (KValue b) = jeqb a b.
Proof. reflexivity. Qed.

(* ---------- (b) dedup_from keeps exactly the first occurrences ---------- *)
Inductive sublist {A : Type} : list A -> list A -> Prop :=
| sl_nil : sublist [] []
| sl_skip x l1 l2 : sublist l1 l2 -> sublist l1 (x :: l2)
| sl_keep x l1 l2 : sublist l1 l2 -> sublist (x :: l1) (x :: l2).

Lemma sublist_In {A} (l1 l2 : list A) : sublist l1 l2 -> forall x, In x l1 -> In x l2.
Proof.
  induction 1 as [|y l1 l2 _ IH|y l1 l2 _ IH]; intros x Hx.
  - exact Hx.
  - right. apply IH. exact Hx.
  - destruct Hx as [->|Hx]; [left; reflexivity|right; apply IH; exact Hx].
Qed.

Section Dedup.
Variable E : Type.
Notation ctx := (ctx E).

(* the reference: a row is dropped iff SOME earlier row, kept or not, has an equal key *)
Fixpoint dedup_all (earlier : list ctx) (l : list ctx) : list ctx :=
  match l with
  | [] => []
  | c :: t => if existsb (fun c' => ckey_eqb (key c) (key c')) earlier
              then dedup_all (earlier ++ [c]) t
              else c :: dedup_all (earlier ++ [c]) t
  end.

(* no hypothesis: the result is a subsequence of the input (relative order kept, nothing added) *)
Theorem dedup_sublist : forall cs seen, sublist (dedup_from E seen cs) cs.
Proof.
  induction cs as [|c cs IH]; intros seen; cbn [dedup_from]; [constructor|].
  destruct (existsb (ckey_eqb (key c)) seen); constructor; apply IH.
Qed.

Lemma dedup_In cs seen c : In c (dedup_from E seen cs) -> In c cs.
Proof. apply sublist_In. apply dedup_sublist. Qed.

(* no hypothesis: a kept row's key differs (later-vs-earlier) from every remembered key and from the
   key of every row kept before it *)
Lemma dedup_fresh : forall cs seen,
  Forall (fun c => forall k, In k seen -> ckey_eqb (key c) k = false) (dedup_from E seen cs).
Proof.
  induction cs as [|c cs IH]; intros seen; cbn [dedup_from]; [constructor|].
  destruct (existsb (ckey_eqb (key c)) seen) eqn:Hex; [apply IH|].
  constructor.
  - intros k Hk. destruct (ckey_eqb (key c) k) eqn:Hck; [|reflexivity].
    assert (Ht : existsb (ckey_eqb (key c)) seen = true) by (apply existsb_exists; exists k; split; assumption).
    rewrite Ht in Hex. discriminate Hex.
  - eapply Forall_impl; [|apply (IH (key c :: seen))].
    intros c2 H k Hk. apply H. right. exact Hk.
Qed.

Theorem dedup_later_differs : forall cs seen,
  ForallOrdPairs (fun a b => ckey_eqb (key b) (key a) = false) (dedup_from E seen cs).
Proof.
  induction cs as [|c cs IH]; intros seen; cbn [dedup_from]; [constructor|].
  destruct (existsb (ckey_eqb (key c)) seen); [apply IH|].
  constructor; [|apply IH].
  eapply Forall_impl; [|apply (dedup_fresh cs (key c :: seen))].
  intros c2 H. apply H. left. reflexivity.
Qed.

(* the = function is only assumed to be an equivalence on the keys that occur (predicate P) *)
Variable P : ckey -> Prop.
Hypothesis eq_refl' : forall a, P a -> ckey_eqb a a = true.
Hypothesis eq_sym' : forall a b, P a -> P b -> ckey_eqb a b = true -> ckey_eqb b a = true.
Hypothesis eq_trans' : forall a b c, P a -> P b -> P c ->
  ckey_eqb a b = true -> ckey_eqb b c = true -> ckey_eqb a c = true.

Definition keys_ok (cs : list ctx) : Prop := Forall (fun c => P (key c)) cs.

(* what the remembered keys have to do with the rows already consumed *)
Definition seen_inv (earlier : list ctx) (seen : list ckey) : Prop :=
  keys_ok earlier /\
  (forall k, In k seen -> exists c', In c' earlier /\ k = key c') /\
  (forall c', In c' earlier -> exists k, In k seen /\ ckey_eqb (key c') k = true).

Lemma dedup_from_all : forall cs earlier seen, seen_inv earlier seen -> keys_ok cs ->
  dedup_from E seen cs = dedup_all earlier cs.
Proof using eq_refl' eq_trans'.
  induction cs as [|c t IH]; intros earlier seen Hinv Hok; [reflexivity|].
  destruct Hinv as [Hpe [Hs2e He2s]].
  inversion Hok as [|c0 t0 Hpc Hpt]; subst c0 t0.
  cbn [dedup_from dedup_all].
  assert (Hex : existsb (ckey_eqb (key c)) seen = existsb (fun c' => ckey_eqb (key c) (key c')) earlier).
  { apply Bool.eq_iff_eq_true. rewrite !existsb_exists. split.
    - intros [k [Hk Hck]]. destruct (Hs2e k Hk) as [c' [Hc' ->]]. exists c'. split; assumption.
    - intros [c' [Hc' Hcc]]. destruct (He2s c' Hc') as [k [Hk Hck]]. exists k. split; [exact Hk|].
      destruct (Hs2e k Hk) as [c'' [Hc'' ->]].
      apply (eq_trans' (key c) (key c') (key c'')); try assumption.
      + exact (proj1 (Forall_forall _ _) Hpe c' Hc').
      + exact (proj1 (Forall_forall _ _) Hpe c'' Hc''). }
  rewrite <- Hex.
  assert (Hpe' : keys_ok (earlier ++ [c])).
  { apply Forall_app. split; [exact Hpe|]. constructor; [exact Hpc|constructor]. }
  destruct (existsb (ckey_eqb (key c)) seen) eqn:Hd.
  - apply IH; [|exact Hpt]. split; [exact Hpe'|]. split.
    + intros k Hk. destruct (Hs2e k Hk) as [c' [Hc' ->]]. exists c'. split; [|reflexivity].
      apply in_or_app. left. exact Hc'.
    + intros c' Hc'. apply in_app_or in Hc' as [Hc'|[<-|[]]]; [apply He2s; exact Hc'|].
      apply existsb_exists in Hd as [k [Hk Hck]]. exists k. split; assumption.
  - f_equal. apply IH; [|exact Hpt]. split; [exact Hpe'|]. split.
    + intros k [<-|Hk].
      * exists c. split; [|reflexivity]. apply in_or_app. right. left. reflexivity.
      * destruct (Hs2e k Hk) as [c' [Hc' ->]]. exists c'. split; [|reflexivity].
        apply in_or_app. left. exact Hc'.
    + intros c' Hc'. apply in_app_or in Hc' as [Hc'|[<-|[]]].
      * destruct (He2s c' Hc') as [k [Hk Hck]]. exists k. split; [right; exact Hk|exact Hck].
      * exists (key c). split; [left; reflexivity|]. apply eq_refl'. exact Hpc.
Qed.

(* a row is dropped iff some earlier row — kept or not — has an equal key *)
Theorem dedup_first_occurrences : forall cs, keys_ok cs -> dedup_from E [] cs = dedup_all [] cs.
Proof using eq_refl' eq_trans'.
  intros cs Hok. apply dedup_from_all; [|exact Hok].
  split; [constructor|]. split.
  - intros k [].
  - intros c' [].
Qed.

(* no two rows of the result have equal keys, in either direction *)
Theorem dedup_nodup : forall cs seen, keys_ok cs ->
  ForallOrdPairs (fun a b => ckey_eqb (key a) (key b) = false /\ ckey_eqb (key b) (key a) = false)
                 (dedup_from E seen cs).
Proof using eq_sym'.
  intros cs seen Hok.
  assert (Hin : forall c, In c (dedup_from E seen cs) -> P (key c)).
  { intros c Hc. apply dedup_In in Hc. exact (proj1 (Forall_forall _ _) Hok c Hc). }
  pose proof (dedup_later_differs cs seen) as Hl.
  induction Hl as [|a l Ha Hl IH]; [constructor|].
  constructor.
  - apply Forall_forall. intros b Hb. pose proof (proj1 (Forall_forall _ _) Ha b Hb) as Hba.
    cbn beta in Hba. split; [|exact Hba].
    destruct (ckey_eqb (key a) (key b)) eqn:Hab; [|reflexivity].
    rewrite (eq_sym' (key a) (key b)) in Hba; [discriminate Hba| | |exact Hab].
    + apply Hin. left. reflexivity.
    + apply Hin. right. exact Hb.
  - apply IH. intros c Hc. apply Hin. right. exact Hc.
Qed.

(* nothing is lost: every input row has an equal-keyed representative in the result *)
Theorem dedup_complete : forall cs seen c, keys_ok cs -> In c cs ->
  existsb (ckey_eqb (key c)) seen = true \/
  exists c', In c' (dedup_from E seen cs) /\ ckey_eqb (key c) (key c') = true.
Proof using eq_refl'.
  induction cs as [|c0 cs IH]; intros seen c Hok Hc; [destruct Hc|].
  inversion Hok as [|c1 t0 Hpc Hpt]; subst c1 t0.
  cbn [dedup_from]. destruct (existsb (ckey_eqb (key c0)) seen) eqn:Hd.
  - destruct Hc as [->|Hc]; [left; exact Hd|]. apply IH; assumption.
  - destruct Hc as [->|Hc].
    + right. exists c. split; [left; reflexivity|apply eq_refl'; exact Hpc].
    + destruct (IH (key c0 :: seen) c Hpt Hc) as [H|[c' [Hc' H]]].
      * cbn [existsb] in H. apply Bool.orb_true_iff in H as [H|H].
        -- right. exists c0. split; [left; reflexivity|exact H].
        -- left. exact H.
      * right. exists c'. split; [right; exact Hc'|exact H].
Qed.
End Dedup.

(* ---------- the two halves together: rows without selections, canonical values, one member order ---------- *)
Theorem dedup_canonical : forall E (cs : list (ctx E)),
  (forall c, In c cs -> results c = [] /\ canonical (input c)) ->
  (forall c c', In c cs -> In c' cs -> same_order (input c) (input c')) ->
  (forall c c', In c cs -> In c' cs -> (ckey_eqb (key c) (key c') = true <-> input c = input c')) /\
  dedup_from E [] cs = dedup_all E [] cs /\
  ForallOrdPairs (fun a b => input a <> input b) (dedup_from E [] cs).
Proof.
  intros E cs Hc Hso.
  assert (Hkey : forall c, In c cs -> key c = KValue (input c)).
  { intros c Hin. unfold key. rewrite (proj1 (Hc c Hin)). reflexivity. }
  assert (Hiff : forall c c', In c cs -> In c' cs ->
                   (ckey_eqb (key c) (key c') = true <-> input c = input c')).
  { intros c c' Hi Hi'. rewrite (Hkey c Hi), (Hkey c' Hi'), ckey_value_is_eq. split.
    - apply jeqb_canonical_eq; [apply Hc; exact Hi|apply Hc; exact Hi'|apply Hso; assumption].
    - intros <-. apply jeqb_refl. apply Hc. exact Hi. }
  set (P := fun k : ckey => exists c, In c cs /\ k = key c).
  assert (Hok : keys_ok E P cs).
  { apply Forall_forall. intros c Hi. exists c. split; [exact Hi|reflexivity]. }
  split; [exact Hiff|]. split.
  - apply (dedup_first_occurrences E P); [| |exact Hok].
    + intros a [c [Hi ->]]. apply Hiff; [exact Hi|exact Hi|reflexivity].
    + intros a b c [ca [Ha ->]] [cb [Hb ->]] [cc [Hcc ->]] H1 H2.
      apply Hiff in H1; [|assumption|assumption]. apply Hiff in H2; [|assumption|assumption].
      apply Hiff; [assumption|assumption|]. rewrite H1. exact H2.
  - pose proof (dedup_later_differs E cs []) as Hl.
    assert (Hin : forall c, In c (dedup_from E [] cs) -> In c cs) by (intros c; apply dedup_In).
    induction Hl as [|a l Ha Hl IH]; [constructor|].
    constructor.
    + apply Forall_forall. intros b Hb Heq.
      pose proof (proj1 (Forall_forall _ _) Ha b Hb) as Hba. cbn beta in Hba.
      assert (Ht : ckey_eqb (key b) (key a) = true).
      { apply Hiff; [apply Hin; right; exact Hb|apply Hin; left; reflexivity|symmetry; exact Heq]. }
      rewrite Ht in Hba. discriminate Hba.
    + apply IH. intros c Hi. apply Hin. right. exact Hi.
Qed.

(* ================================================================================================ *)
Print Assumptions group_spec_char.
Print Assumptions group_spec_char_unfolded.
Print Assumptions group_keys_nodup.
Print Assumptions group_keys_complete.
Print Assumptions group_partition.
Print Assumptions group_row_home.
Print Assumptions group_empty.
Print Assumptions group_none_survive.
Print Assumptions merge_empty.
Print Assumptions merge_spec_char.
Print Assumptions jeqb_canonical_eq.
Print Assumptions hash_coherent.
Print Assumptions jeqb_refl.
Print Assumptions ckey_value_is_eq.
Print Assumptions dedup_sublist.
Print Assumptions dedup_later_differs.
Print Assumptions dedup_first_occurrences.
Print Assumptions dedup_nodup.
Print Assumptions dedup_complete.
Print Assumptions dedup_canonical.
