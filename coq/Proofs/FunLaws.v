(* FunLaws.v — property C04: every built-in function yields exactly the value, or "nothing",
   that its documentation (src/functions/**.rs, `add_description_line` / `add_example`) prescribes.

   The executable models (`core_sem`, `sem_coll`, `sem_num`, the binders inside `eval`) are
   characterised here against STANDARD LIBRARY list functions (firstn, skipn, rev, app, map,
   filter, length, nth_error, combine, seq, concat, forallb, existsb, Permutation, Sorted), for ALL
   arguments.  Each lemma is preceded by the documentation sentence it formalises.
   `pure_sem f vals = Some (Some v)` : f yields v;  `= Some None` : f yields jawk's "nothing". *)
From Jawk Require Import Base F64 F64Arith Json Ctx Printer Fn FunBase FunsColl FunsNum FunsNas Expr.
From Jawk Require Import OrderProofs.
From Coq Require Import Permutation Sorted.
Local Open Scope N_scope.

Arguments N.add : simpl never.
Arguments N.mul : simpl never.
Arguments N.sub : simpl never.
Arguments N.eqb : simpl never.
Arguments N.ltb : simpl never.
Arguments N.leb : simpl never.

(* ====================================================================================== *)
(* 0. Helpers: the usize-counter list functions are the standard ones                      *)
(* ====================================================================================== *)

Lemma take_n_firstn {A} (l : list A) : forall n, take_n n l = firstn (N.to_nat n) l.
Proof.
  induction l as [|x t IH]; intros n; cbn [take_n].
  - now rewrite firstn_nil.
  - destruct (N.eqb_spec n 0) as [->|Hn]; [reflexivity|].
    rewrite IH. replace (N.to_nat n) with (S (N.to_nat (N.pred n))) by lia. reflexivity.
Qed.

Lemma skip_n_skipn {A} (l : list A) : forall n, skip_n n l = skipn (N.to_nat n) l.
Proof.
  induction l as [|x t IH]; intros n; cbn [skip_n].
  - now rewrite skipn_nil.
  - destruct (N.eqb_spec n 0) as [->|Hn]; [reflexivity|].
    rewrite IH. replace (N.to_nat n) with (S (N.to_nat (N.pred n))) by lia. reflexivity.
Qed.

Lemma take_last_n_skipn {A} (n : N) (l : list A) :
  take_last_n n l = skipn (length l - N.to_nat n) l.
Proof.
  unfold take_last_n, len_N. rewrite skip_n_skipn. f_equal. lia.
Qed.

Lemma len_N_lt {A} (l : list A) (n : N) : (len_N l <? n) = (length l <? N.to_nat n)%nat.
Proof.
  unfold len_N. destruct (N.ltb_spec (N.of_nat (length l)) n) as [H|H];
    destruct (Nat.ltb_spec (length l) (N.to_nat n)) as [H'|H']; try reflexivity; lia.
Qed.

Lemma last_opt_rev {A} (l : list A) : last_opt l = hd_error (rev l).
Proof.
  induction l as [|x t IH]; [reflexivity|].
  destruct t as [|y t']; [reflexivity|].
  change (last_opt (x :: y :: t')) with (last_opt (y :: t')). rewrite IH.
  change (rev (x :: y :: t')) with (rev (y :: t') ++ [x]).
  destruct (rev (y :: t')) as [|z r] eqn:E; [|reflexivity].
  apply (f_equal (@length A)) in E. rewrite rev_length in E. discriminate E.
Qed.

Lemma last_opt_snoc {A} (l : list A) (x : A) : last_opt (l ++ [x]) = Some x.
Proof. rewrite last_opt_rev, rev_unit. reflexivity. Qed.

Lemma last_opt_last {A} (l : list A) (d : A) : l <> [] -> last_opt l = Some (last l d).
Proof.
  intros Hl. destruct (exists_last Hl) as (l' & x & ->).
  now rewrite last_opt_snoc, last_last.
Qed.

Lemma str_eqb_eq (a b : str) : str_eqb a b = true <-> a = b.
Proof.
  unfold str_eqb. revert b. induction a as [|x a IH]; intros [|y b]; cbn [list_eqb]; split;
    try discriminate; try reflexivity.
  - intros H. apply andb_true_iff in H as [H1 H2]. apply N.eqb_eq in H1. apply IH in H2. congruence.
  - intros H. injection H as -> ->. apply andb_true_iff. split; [apply N.eqb_refl|now apply IH].
Qed.

Lemma str_eqb_refl (a : str) : str_eqb a a = true.
Proof. now apply str_eqb_eq. Qed.

Lemma str_eqb_neq (a b : str) : a <> b -> str_eqb a b = false.
Proof.
  intros H. destruct (str_eqb a b) eqn:E; [|reflexivity]. apply str_eqb_eq in E. contradiction.
Qed.

(* the classes of argument values used in the "wrong type gives nothing" laws *)
Definition not_coll (v : option json) : Prop :=      (* neither an array, an object nor a string *)
  match v with Some (JArr _) | Some (JObj _) | Some (JStr _) => False | _ => True end.
Definition not_arr (v : option json) : Prop := match v with Some (JArr _) => False | _ => True end.
Definition not_obj (v : option json) : Prop := match v with Some (JObj _) => False | _ => True end.
Definition not_str (v : option json) : Prop := match v with Some (JStr _) => False | _ => True end.
Definition not_bool (v : option json) : Prop := match v with Some (JBool _) => False | _ => True end.
Definition not_num (v : option json) : Prop := match v with Some (JNum _) => False | _ => True end.
(* absent, not a number, negative, or fractional: `TryInto::<usize>` fails *)
Definition not_usize (v : option json) : Prop := usize_of v = None.

Lemma not_usize_cases v :
  not_usize v <-> match v with Some (JNum (NPos _)) => False | _ => True end.
Proof. unfold not_usize, usize_of. destruct v as [[| | |[]| |]|]; split; try easy. Qed.

Ltac psem :=
  cbv [pure_sem core_fn core_sem sem_coll sem_num sem_nas
       FunsColl.sub_sem take_sem take_last_sem coll_apply on_array on_object obj3 str_num_sem
       cmp_sem jb join_sem unary_sem guarded_sem FunsNum.sub_sem FunsNum.sum_sem
       arg nth_error usize_of as_f].

(* ====================================================================================== *)
(* 1. basic/collection: take, take_last, sub, size, get                                    *)
(* ====================================================================================== *)
Section Collection.

(* take: "Take the first N of element in an array, object of string" *)
Lemma take_list l n :
  pure_sem F_take [Some (JArr l); Some (JNum (NPos n))] = Some (Some (JArr (firstn (N.to_nat n) l))).
Proof. psem. now rewrite take_n_firstn. Qed.

Lemma take_obj m n :
  pure_sem F_take [Some (JObj m); Some (JNum (NPos n))] = Some (Some (JObj (firstn (N.to_nat n) m))).
Proof. psem. now rewrite take_n_firstn. Qed.

Lemma take_str s n :
  pure_sem F_take [Some (JStr s); Some (JNum (NPos n))] = Some (Some (JStr (firstn (N.to_nat n) s))).
Proof. psem. now rewrite take_n_firstn. Qed.

(* N = 0 *)
Lemma take_zero l : pure_sem F_take [Some (JArr l); Some (JNum (NPos 0))] = Some (Some (JArr [])).
Proof. rewrite take_list. reflexivity. Qed.

(* N = size and N > size: examples `(take [1, 2, 3, 4] 6)` = `[1, 2, 3, 4]` *)
Lemma take_all l n : (length l <= N.to_nat n)%nat ->
  pure_sem F_take [Some (JArr l); Some (JNum (NPos n))] = Some (Some (JArr l)).
Proof. intros H. rewrite take_list. now rewrite firstn_all2. Qed.

Lemma take_obj_all m n : (length m <= N.to_nat n)%nat ->
  pure_sem F_take [Some (JObj m); Some (JNum (NPos n))] = Some (Some (JObj m)).
Proof. intros H. rewrite take_obj. now rewrite firstn_all2. Qed.

(* order is preserved: the result is a prefix of the argument, of length min N size *)
Lemma take_prefix l n : exists rest,
  pure_sem F_take [Some (JArr l); Some (JNum (NPos n))] = Some (Some (JArr (firstn (N.to_nat n) l)))
  /\ l = firstn (N.to_nat n) l ++ rest
  /\ length (firstn (N.to_nat n) l) = Nat.min (N.to_nat n) (length l).
Proof.
  exists (skipn (N.to_nat n) l). split; [apply take_list|].
  split; [now rewrite firstn_skipn|apply firstn_length].
Qed.

(* take_last: "Take the last N of element in an array, object of string" *)
Lemma take_last_list l n :
  pure_sem F_take_last [Some (JArr l); Some (JNum (NPos n))]
  = Some (Some (JArr (skipn (length l - N.to_nat n) l))).
Proof. psem. now rewrite take_last_n_skipn. Qed.

Lemma take_last_obj m n :
  pure_sem F_take_last [Some (JObj m); Some (JNum (NPos n))]
  = Some (Some (JObj (skipn (length m - N.to_nat n) m))).
Proof. psem. now rewrite take_last_n_skipn. Qed.

Lemma take_last_str s n :
  pure_sem F_take_last [Some (JStr s); Some (JNum (NPos n))]
  = Some (Some (JStr (skipn (length s - N.to_nat n) s))).
Proof. psem. now rewrite take_last_n_skipn. Qed.

Lemma take_last_zero l :
  pure_sem F_take_last [Some (JArr l); Some (JNum (NPos 0))] = Some (Some (JArr [])).
Proof.
  rewrite take_last_list. change (N.to_nat 0) with O. rewrite Nat.sub_0_r.
  now rewrite skipn_all.
Qed.

Lemma take_last_all l n : (length l <= N.to_nat n)%nat ->
  pure_sem F_take_last [Some (JArr l); Some (JNum (NPos n))] = Some (Some (JArr l)).
Proof.
  intros H. rewrite take_last_list. replace (length l - N.to_nat n)%nat with O by lia. reflexivity.
Qed.

Lemma take_last_suffix l n : exists front,
  pure_sem F_take_last [Some (JArr l); Some (JNum (NPos n))]
  = Some (Some (JArr (skipn (length l - N.to_nat n) l)))
  /\ l = front ++ skipn (length l - N.to_nat n) l
  /\ length (skipn (length l - N.to_nat n) l) = Nat.min (N.to_nat n) (length l).
Proof.
  exists (firstn (length l - N.to_nat n) l). split; [apply take_last_list|].
  split; [now rewrite firstn_skipn|rewrite skipn_length; lia].
Qed.

(* the same boundaries for objects and strings *)
Lemma take_boundaries_obj_str m s n : (length m <= N.to_nat n)%nat -> (length s <= N.to_nat n)%nat ->
  pure_sem F_take [Some (JObj m); Some (JNum (NPos 0))] = Some (Some (JObj []))
  /\ pure_sem F_take [Some (JStr s); Some (JNum (NPos 0))] = Some (Some (JStr []))
  /\ pure_sem F_take [Some (JObj m); Some (JNum (NPos n))] = Some (Some (JObj m))
  /\ pure_sem F_take [Some (JStr s); Some (JNum (NPos n))] = Some (Some (JStr s))
  /\ pure_sem F_take_last [Some (JObj m); Some (JNum (NPos 0))] = Some (Some (JObj []))
  /\ pure_sem F_take_last [Some (JStr s); Some (JNum (NPos 0))] = Some (Some (JStr []))
  /\ pure_sem F_take_last [Some (JObj m); Some (JNum (NPos n))] = Some (Some (JObj m))
  /\ pure_sem F_take_last [Some (JStr s); Some (JNum (NPos n))] = Some (Some (JStr s)).
Proof.
  intros Hm Hs. rewrite !take_obj, !take_str, !take_last_obj, !take_last_str.
  change (N.to_nat 0) with O. rewrite !Nat.sub_0_r, !skipn_all.
  rewrite (firstn_all2 m Hm), (firstn_all2 s Hs).
  replace (length m - N.to_nat n)%nat with O by lia. replace (length s - N.to_nat n)%nat with O by lia.
  repeat split; reflexivity.
Qed.

(* take and take_last split the collection: (take l n) ++ (take_last l (size - n)) = l *)
Lemma take_take_last_partition (l : list json) (n : nat) : (n <= length l)%nat ->
  firstn n l ++ skipn (length l - (length l - n)) l = l.
Proof. intros H. replace (length l - (length l - n))%nat with n by lia. apply firstn_skipn. Qed.

(* sub: "creates a new list that start from the second arguments and has the size of the third" *)
Lemma sub_list l start len :
  pure_sem F_sub [Some (JArr l); Some (JNum (NPos start)); Some (JNum (NPos len))]
  = Some (Some (JArr (firstn (N.to_nat len) (skipn (N.to_nat start) l)))).
Proof. psem. now rewrite take_n_firstn, skip_n_skipn. Qed.

Lemma sub_obj m start len :
  pure_sem F_sub [Some (JObj m); Some (JNum (NPos start)); Some (JNum (NPos len))]
  = Some (Some (JObj (firstn (N.to_nat len) (skipn (N.to_nat start) m)))).
Proof. psem. now rewrite take_n_firstn, skip_n_skipn. Qed.

Lemma sub_str s start len :
  pure_sem F_sub [Some (JStr s); Some (JNum (NPos start)); Some (JNum (NPos len))]
  = Some (Some (JStr (firstn (N.to_nat len) (skipn (N.to_nat start) s)))).
Proof. psem. now rewrite take_n_firstn, skip_n_skipn. Qed.

(* example `(sub "123456" 2 0)` = "" : length 0 *)
Lemma sub_zero_len l start :
  pure_sem F_sub [Some (JArr l); Some (JNum (NPos start)); Some (JNum (NPos 0))] = Some (Some (JArr [])).
Proof. rewrite sub_list. reflexivity. Qed.

(* example `(sub [1, 2, 3, 4] 6 10)` = [] : start beyond the end *)
Lemma sub_start_beyond l start len : (length l <= N.to_nat start)%nat ->
  pure_sem F_sub [Some (JArr l); Some (JNum (NPos start)); Some (JNum (NPos len))] = Some (Some (JArr [])).
Proof. intros H. rewrite sub_list. rewrite skipn_all2 by exact H. now rewrite firstn_nil. Qed.

(* example `(sub [1, 2, 3, 4] 1 10)` = [2, 3, 4] : length beyond the end gives the whole tail *)
Lemma sub_len_beyond l start len : (length l <= N.to_nat start + N.to_nat len)%nat ->
  pure_sem F_sub [Some (JArr l); Some (JNum (NPos start)); Some (JNum (NPos len))]
  = Some (Some (JArr (skipn (N.to_nat start) l))).
Proof. intros H. rewrite sub_list. rewrite firstn_all2; [reflexivity|]. rewrite skipn_length. lia. Qed.

(* sub from 0 is take *)
Lemma sub_from_zero_is_take v len :
  pure_sem F_sub [v; Some (JNum (NPos 0)); Some (JNum (NPos len))]
  = pure_sem F_take [v; Some (JNum (NPos len))].
Proof.
  psem. destruct v as [[| | |n|m|l]|]; try reflexivity; rewrite !skip_n_skipn; reflexivity.
Qed.

(* size: "Get the number of element in an array, the number of keys in an object or the number of
   characters in a string." *)
Lemma size_arr l : pure_sem F_size [Some (JArr l)] = Some (Some (JNum (NPos (N.of_nat (length l))))).
Proof. reflexivity. Qed.
Lemma size_obj m : pure_sem F_size [Some (JObj m)] = Some (Some (JNum (NPos (N.of_nat (length m))))).
Proof. reflexivity. Qed.
Lemma size_str s : pure_sem F_size [Some (JStr s)] = Some (Some (JNum (NPos (N.of_nat (length s))))).
Proof. reflexivity. Qed.

(* get: "Get an item from an array by index or from a map by key." *)
Lemma nth_N_spec {A} (l : list A) : forall i, nth_N l i = nth_error l (N.to_nat i).
Proof.
  induction l as [|x l IH]; intros i; cbn [nth_N].
  - destruct (N.to_nat i); reflexivity.
  - destruct (N.eqb_spec i 0) as [->|Hi]; [reflexivity|].
    rewrite IH. replace (N.to_nat i) with (S (N.to_nat (i - 1))) by lia. reflexivity.
Qed.
Lemma get_arr l i : pure_sem F_get [Some (JArr l); Some (JNum (NPos i))] = Some (nth_error l (N.to_nat i)).
Proof. rewrite <- nth_N_spec. reflexivity. Qed.
Lemma get_obj m k : pure_sem F_get [Some (JObj m); Some (JStr k)] = Some (obj_get k m).
Proof. reflexivity. Qed.
(* example `(get ["a", "b", "c"] 100)` : nothing *)
Lemma get_arr_out_of_range l i : (length l <= N.to_nat i)%nat ->
  pure_sem F_get [Some (JArr l); Some (JNum (NPos i))] = Some None.
Proof. intros H. rewrite get_arr. f_equal. now apply nth_error_None. Qed.
Lemma get_arr_in_range l i : (N.to_nat i < length l)%nat ->
  exists v, pure_sem F_get [Some (JArr l); Some (JNum (NPos i))] = Some (Some v) /\ In v l.
Proof.
  intros H. rewrite get_arr. destruct (nth_error l (N.to_nat i)) as [v|] eqn:E.
  - exists v. split; [reflexivity|]. eapply nth_error_In; eassumption.
  - apply nth_error_None in E. lia.
Qed.

(* ---- wrong type / absent arguments give nothing, for every argument vector ---- *)
Lemma take_wrong_coll vals : not_coll (arg vals 0%nat) -> pure_sem F_take vals = Some None.
Proof.
  intros H. cbv [pure_sem core_fn sem_coll take_sem coll_apply].
  destruct (usize_of (arg vals 1%nat)); [|reflexivity].
  destruct (arg vals 0%nat) as [[| | | | |]|]; try reflexivity; destruct H.
Qed.
Lemma take_wrong_count vals : not_usize (arg vals 1%nat) -> pure_sem F_take vals = Some None.
Proof. intros H. cbv [pure_sem core_fn sem_coll take_sem]. now rewrite H. Qed.

Lemma take_last_wrong_coll vals : not_coll (arg vals 0%nat) -> pure_sem F_take_last vals = Some None.
Proof.
  intros H. cbv [pure_sem core_fn sem_coll take_last_sem coll_apply].
  destruct (usize_of (arg vals 1%nat)); [|reflexivity].
  destruct (arg vals 0%nat) as [[| | | | |]|]; try reflexivity; destruct H.
Qed.
Lemma take_last_wrong_count vals : not_usize (arg vals 1%nat) -> pure_sem F_take_last vals = Some None.
Proof. intros H. cbv [pure_sem core_fn sem_coll take_last_sem]. now rewrite H. Qed.

Lemma sub_wrong_coll vals : not_coll (arg vals 0%nat) -> pure_sem F_sub vals = Some None.
Proof.
  intros H. cbv [pure_sem core_fn sem_coll FunsColl.sub_sem coll_apply].
  destruct (usize_of (arg vals 1%nat)); [|reflexivity].
  destruct (usize_of (arg vals 2%nat)); [|reflexivity].
  destruct (arg vals 0%nat) as [[| | | | |]|]; try reflexivity; destruct H.
Qed.
Lemma sub_wrong_start vals : not_usize (arg vals 1%nat) -> pure_sem F_sub vals = Some None.
Proof. intros H. cbv [pure_sem core_fn sem_coll FunsColl.sub_sem]. now rewrite H. Qed.
Lemma sub_wrong_len vals : not_usize (arg vals 2%nat) -> pure_sem F_sub vals = Some None.
Proof.
  intros H. cbv [pure_sem core_fn sem_coll FunsColl.sub_sem]. rewrite H.
  now destruct (usize_of (arg vals 1%nat)).
Qed.

(* "50 is not an array, not an object nor a string." *)
Lemma size_wrong_type vals : not_coll (arg vals 0%nat) -> pure_sem F_size vals = Some None.
Proof.
  intros H. cbv [pure_sem core_fn core_sem].
  destruct (arg vals 0%nat) as [[| | | | |]|]; try reflexivity; destruct H.
Qed.

Lemma get_wrong_container vals :
  not_arr (arg vals 0%nat) -> not_obj (arg vals 0%nat) -> pure_sem F_get vals = Some None.
Proof.
  intros Ha Ho. cbv [pure_sem core_fn core_sem].
  destruct (arg vals 0%nat) as [[| | | | |]|]; try reflexivity; [destruct Ho|destruct Ha].
Qed.
Lemma get_arr_wrong_index l vals : arg vals 0%nat = Some (JArr l) -> not_usize (arg vals 1%nat) ->
  pure_sem F_get vals = Some None.
Proof. intros H0 H1. cbv [pure_sem core_fn core_sem]. now rewrite H0, H1. Qed.
Lemma get_obj_wrong_key m vals : arg vals 0%nat = Some (JObj m) -> not_str (arg vals 1%nat) ->
  pure_sem F_get vals = Some None.
Proof.
  intros H0 H1. cbv [pure_sem core_fn core_sem]. rewrite H0.
  destruct (arg vals 1%nat) as [[| | | | |]|]; try reflexivity; destruct H1.
Qed.

End Collection.

(* ====================================================================================== *)
(* 2. list/list_folding: first, last, all, any, join, sum                                  *)
(* ====================================================================================== *)
Section ListFolding.

(* first: "The first item in a list."  (examples: `(first [])` and `(first "text")` are nothing) *)
Lemma first_spec l : pure_sem F_first [Some (JArr l)] = Some (hd_error l).
Proof. reflexivity. Qed.
Lemma first_cons x l : pure_sem F_first [Some (JArr (x :: l))] = Some (Some x).
Proof. reflexivity. Qed.
Lemma first_empty : pure_sem F_first [Some (JArr [])] = Some None.
Proof. reflexivity. Qed.
Lemma first_wrong_type vals : not_arr (arg vals 0%nat) -> pure_sem F_first vals = Some None.
Proof.
  intros H. cbv [pure_sem core_fn sem_coll].
  destruct (arg vals 0%nat) as [[| | | | |]|]; try reflexivity; destruct H.
Qed.

(* last: "The last item in a list." *)
Lemma last_spec l : pure_sem F_last [Some (JArr l)] = Some (hd_error (rev l)).
Proof. cbv [pure_sem core_fn sem_coll arg nth_error]. now rewrite last_opt_rev. Qed.
Lemma last_snoc l x : pure_sem F_last [Some (JArr (l ++ [x]))] = Some (Some x).
Proof. rewrite last_spec, rev_unit. reflexivity. Qed.
Lemma last_nonempty l d : l <> [] -> pure_sem F_last [Some (JArr l)] = Some (Some (last l d)).
Proof. intros H. cbv [pure_sem core_fn sem_coll arg nth_error]. now rewrite (last_opt_last l d H). Qed.
Lemma last_empty : pure_sem F_last [Some (JArr [])] = Some None.
Proof. reflexivity. Qed.
Lemma last_wrong_type vals : not_arr (arg vals 0%nat) -> pure_sem F_last vals = Some None.
Proof.
  intros H. cbv [pure_sem core_fn sem_coll].
  destruct (arg vals 0%nat) as [[| | | | |]|]; try reflexivity; destruct H.
Qed.

(* all: "Check if all the items in a list are true. Will return false if the list is empty." *)
Lemma all_spec l :
  pure_sem F_all [Some (JArr l)]
  = Some (Some (JBool (match l with [] => false | _ => forallb is_true l end))).
Proof. reflexivity. Qed.
Lemma all_empty : pure_sem F_all [Some (JArr [])] = Some (Some (JBool false)).
Proof. reflexivity. Qed.
Lemma forallb_is_true_bools bs : forallb is_true (map JBool bs) = forallb (fun b => b) bs.
Proof. induction bs as [|[] t IH]; cbn; [reflexivity|exact IH|reflexivity]. Qed.
Lemma all_bools bs : bs <> [] ->
  pure_sem F_all [Some (JArr (map JBool bs))] = Some (Some (JBool (forallb (fun b => b) bs))).
Proof.
  intros H. rewrite all_spec, <- forallb_is_true_bools.
  destruct bs as [|b t]; [contradiction|reflexivity].
Qed.
(* a non-boolean element is "not true": examples `[1, 5, false, 1.1]` and `[true, true, 1, true]` *)
Lemma all_not_true_element l v : In v l -> v <> JBool true ->
  pure_sem F_all [Some (JArr l)] = Some (Some (JBool false)).
Proof.
  intros Hin Hv. rewrite all_spec. destruct l as [|x t]; [reflexivity|].
  do 3 f_equal. destruct (forallb is_true (x :: t)) eqn:E; [|reflexivity].
  rewrite forallb_forall in E. specialize (E v Hin).
  destruct v as [|[]| | | |]; try discriminate E. now contradiction Hv.
Qed.
Lemma all_true_iff l :
  pure_sem F_all [Some (JArr l)] = Some (Some (JBool true))
  <-> l <> [] /\ forall v, In v l -> v = JBool true.
Proof.
  rewrite all_spec. split.
  - intros H. destruct l as [|x t]; [discriminate H|]. split; [discriminate|].
    injection H as H. change (forallb is_true (x :: t) = true) in H.
    rewrite forallb_forall in H. intros v Hv. specialize (H v Hv).
    destruct v as [|[]| | | |]; try discriminate H. reflexivity.
  - intros [Hne Hall]. destruct l as [|x t]; [contradiction|]. do 3 f_equal.
    change (forallb is_true (x :: t) = true). apply forallb_forall. intros v Hv. now rewrite (Hall v Hv).
Qed.

(* any: "Check if any of item in a list is ture."  (example: `(any [])` = false) *)
Lemma any_spec l : pure_sem F_any [Some (JArr l)] = Some (Some (JBool (existsb is_true l))).
Proof. reflexivity. Qed.
Lemma any_empty : pure_sem F_any [Some (JArr [])] = Some (Some (JBool false)).
Proof. reflexivity. Qed.
Lemma existsb_is_true_bools bs : existsb is_true (map JBool bs) = existsb (fun b => b) bs.
Proof. induction bs as [|[] t IH]; cbn; [reflexivity|reflexivity|exact IH]. Qed.
Lemma any_bools bs :
  pure_sem F_any [Some (JArr (map JBool bs))] = Some (Some (JBool (existsb (fun b => b) bs))).
Proof. now rewrite any_spec, existsb_is_true_bools. Qed.
(* non-boolean elements are ignored: example `[1, 2, true, false, 4]` = true *)
Lemma any_true_iff l :
  pure_sem F_any [Some (JArr l)] = Some (Some (JBool true)) <-> In (JBool true) l.
Proof.
  rewrite any_spec. split.
  - intros H. injection H as H. apply existsb_exists in H as (v & Hv & Ht).
    destruct v as [|[]| | | |]; try discriminate Ht. exact Hv.
  - intros H. do 3 f_equal. apply existsb_exists. exists (JBool true). now split.
Qed.
Lemma all_wrong_type vals : not_arr (arg vals 0%nat) -> pure_sem F_all vals = Some None.
Proof.
  intros H. cbv [pure_sem core_fn sem_coll on_array].
  destruct (arg vals 0%nat) as [[| | | | |]|]; try reflexivity; destruct H.
Qed.
Lemma any_wrong_type vals : not_arr (arg vals 0%nat) -> pure_sem F_any vals = Some None.
Proof.
  intros H. cbv [pure_sem core_fn sem_coll on_array].
  destruct (arg vals 0%nat) as [[| | | | |]|]; try reflexivity; destruct H.
Qed.

(* join: "Join all the items in the list into a String. If list have non string items, it will
   return nuthing. If the second argument is ommited, the items will be seperated by comma." *)
Definition intercalate (sep : str) (ss : list str) : str :=
  match ss with [] => [] | s :: t => s ++ concat (map (app sep) t) end.

Lemma intercalate_cons sep s t : t <> [] -> intercalate sep (s :: t) = s ++ sep ++ intercalate sep t.
Proof.
  intros H. destruct t as [|u t]; [contradiction|]. cbn [intercalate map concat].
  now rewrite <- app_assoc.
Qed.

Lemma join_go_strings sep ss : forall first,
  join_go sep first (map JStr ss)
  = Some (if first then intercalate sep ss else concat (map (app sep) ss)).
Proof.
  induction ss as [|s t IH]; intros first; cbn [map join_go].
  - now destruct first.
  - rewrite (IH false). cbn [option_map]. destruct first; cbn [intercalate map concat]; [reflexivity|].
    now rewrite <- app_assoc.
Qed.

Lemma join_go_nonstring sep l : forall first,
  (exists v, In v l /\ forall s, v <> JStr s) -> join_go sep first l = None.
Proof.
  induction l as [|x t IH]; intros first (v & Hin & Hv); [destruct Hin|].
  destruct Hin as [->|Hin].
  - destruct v as [| |s| | |]; try reflexivity. now contradiction (Hv s).
  - destruct x as [| |s| | |]; try reflexivity. cbn [join_go].
    rewrite (IH false); [reflexivity|]. exists v. now split.
Qed.

Definition comma_space : str := [44; 32].     (* ", " *)

Lemma join_sep ss sep :
  pure_sem F_join [Some (JArr (map JStr ss)); Some (JStr sep)]
  = Some (Some (JStr (intercalate sep ss))).
Proof. psem. now rewrite join_go_strings. Qed.

Lemma join_default ss :
  pure_sem F_join [Some (JArr (map JStr ss))] = Some (Some (JStr (intercalate comma_space ss))).
Proof. psem. now rewrite join_go_strings. Qed.

Lemma join_nonstring_item l sepv : (exists v, In v l /\ forall s, v <> JStr s) ->
  pure_sem F_join [Some (JArr l); sepv] = Some None.
Proof. intros H. psem. destruct sepv as [[| | | | |]|]; try reflexivity. now rewrite join_go_nonstring. Qed.

(* a separator of the wrong type (or one that evaluates to nothing) gives nothing; the default ", " is used
   only when the argument is omitted *)
Lemma join_bad_sep_nothing a sepv : not_str sepv ->
  pure_sem F_join [a; sepv] = Some None.
Proof. intros H. psem. destruct sepv as [[| | | | |]|]; try reflexivity; destruct H. Qed.

Lemma join_wrong_type vals : not_arr (arg vals 0%nat) -> pure_sem F_join vals = Some None.
Proof.
  intros H. cbv [pure_sem core_fn sem_coll join_sem].
  destruct (arg vals 0%nat) as [[| | | | |]|]; try (destruct H; fail);
    match goal with |- context [match ?o with Some _ => _ | None => _ end] => destruct o end; reflexivity.
Qed.

(* sum: "Sum all the items in the list. If list have non numeric items, it will return nuthing." *)
Lemma sum_nonnumeric l : forallb is_num l = false -> pure_sem F_sum [Some (JArr l)] = Some None.
Proof. intros H. cbv [pure_sem core_fn sem_coll FunsColl.sum_sem arg nth_error]. now rewrite H. Qed.

Lemma sum_nonnumeric_item l v : In v l -> not_num (Some v) -> pure_sem F_sum [Some (JArr l)] = Some None.
Proof.
  intros Hin Hv. apply sum_nonnumeric. destruct (forallb is_num l) eqn:E; [|reflexivity].
  rewrite forallb_forall in E. specialize (E v Hin). destruct v; try discriminate E. destruct Hv.
Qed.

Lemma sum_wrong_type vals : not_arr (arg vals 0%nat) -> pure_sem F_sum vals = Some None.
Proof.
  intros H. cbv [pure_sem core_fn sem_coll FunsColl.sum_sem].
  destruct (arg vals 0%nat) as [[| | | | |]|]; try reflexivity; destruct H.
Qed.

(* example `(sum [])` = 0 *)
Lemma sum_empty : pure_sem F_sum [Some (JArr [])] = Some (Some (JNum (NPos 0))).
Proof. reflexivity. Qed.

(* on non-negative integers whose total is at most 2^53 the sum is the exact integer sum *)
Definition Nsum (ns : list N) : N := fold_right N.add 0 ns.

Lemma sum_exact_nats ns : forall acc, (0 <= acc)%Z -> (acc + Z.of_N (Nsum ns) <= p53)%Z ->
  sum_exact (map (fun n => JNum (NPos n)) ns) acc = Some (acc + Z.of_N (Nsum ns))%Z.
Proof.
  induction ns as [|n t IH]; intros acc Hacc Hle; cbn [map sum_exact Nsum fold_right].
  - f_equal. change (Z.of_N 0) with 0%Z. lia.
  - fold (Nsum t) in *. cbn [Nsum fold_right] in Hle. fold (Nsum t) in Hle.
    assert (Hs1 : small (Z.of_N n) = true) by (unfold small; apply Z.leb_le; lia).
    assert (Hs2 : small (acc + Z.of_N n) = true) by (unfold small; apply Z.leb_le; lia).
    rewrite Hs1, Hs2. cbn [andb]. rewrite IH by lia. f_equal. lia.
Qed.

Lemma forallb_is_num_nats ns : forallb is_num (map (fun n => JNum (NPos n)) ns) = true.
Proof. induction ns as [|n t IH]; [reflexivity|exact IH]. Qed.

Lemma sum_nats ns : (Z.of_N (Nsum ns) <= p53)%Z ->
  pure_sem F_sum [Some (JArr (map (fun n => JNum (NPos n)) ns))]
  = Some (Some (JNum (NPos (Nsum ns)))).
Proof.
  intros H. cbv [pure_sem core_fn sem_coll FunsColl.sum_sem arg nth_error].
  rewrite forallb_is_num_nats. cbn [negb]. rewrite (sum_exact_nats ns 0%Z) by lia.
  destruct (Z.ltb_spec (0 + Z.of_N (Nsum ns)) 0) as [Hlt|Hge]; [lia|].
  do 4 f_equal. lia.
Qed.

End ListFolding.

(* ====================================================================================== *)
(* 3. list/list_manipulations: pop, pop_first, push, push_front, reverese, indexed,         *)
(*    sort, sort_unique                                                                    *)
(* ====================================================================================== *)

(* ---- facts about the stable insertion sort `ssort` for an arbitrary comparison ---- *)
Section SsortFacts.
Context {A : Type} (cmp : A -> A -> comparison).
Definition cle (a b : A) : Prop := cmp a b <> Gt.
Hypothesis cmp_asym : forall a b, cmp a b = Gt -> cmp b a <> Gt.

Lemma sinsert_perm x l : Permutation (sinsert cmp x l) (x :: l).
Proof.
  induction l as [|y t IH]; cbn [sinsert]; [apply Permutation_refl|].
  destruct (cmp y x); try apply Permutation_refl;
    (eapply Permutation_trans; [apply perm_skip, IH|apply perm_swap]).
Qed.

Lemma ssort_fold_perm l : forall acc,
  Permutation (fold_left (fun acc x => sinsert cmp x acc) l acc) (l ++ acc).
Proof.
  induction l as [|x t IH]; intros acc; cbn [fold_left app]; [apply Permutation_refl|].
  eapply Permutation_trans; [apply IH|].
  eapply Permutation_trans; [apply Permutation_app_head, sinsert_perm|].
  apply Permutation_sym, Permutation_middle.
Qed.

Lemma ssort_perm l : Permutation (ssort cmp l) l.
Proof. unfold ssort. rewrite <- (app_nil_r l) at 2. apply ssort_fold_perm. Qed.

Lemma sinsert_hdrel y x t : HdRel cle y t -> cle y x -> HdRel cle y (sinsert cmp x t).
Proof.
  intros Hh Hyx. destruct t as [|z t']; cbn [sinsert]; [now constructor|].
  destruct (cmp z x); constructor; try exact Hyx; now inversion Hh.
Qed.

Lemma sinsert_sorted x l : Sorted cle l -> Sorted cle (sinsert cmp x l).
Proof.
  induction l as [|y t IH]; intros Hs; cbn [sinsert]; [repeat constructor|].
  inversion Hs as [|? ? Hst Hhd]; subst.
  destruct (cmp y x) eqn:E.
  - constructor; [now apply IH|]. apply sinsert_hdrel; [exact Hhd|]. unfold cle. now rewrite E.
  - constructor; [now apply IH|]. apply sinsert_hdrel; [exact Hhd|]. unfold cle. now rewrite E.
  - constructor; [exact Hs|]. constructor. now apply cmp_asym.
Qed.

Lemma ssort_sorted l : Sorted cle (ssort cmp l).
Proof.
  unfold ssort. assert (H : Sorted cle (@nil A)) by constructor. revert H. generalize (@nil A).
  induction l as [|x t IH]; intros acc Hacc; cbn [fold_left]; [exact Hacc|].
  apply IH. now apply sinsert_sorted.
Qed.

Lemma ssort_length l : length (ssort cmp l) = length l.
Proof. apply Permutation_length, ssort_perm. Qed.
End SsortFacts.

Section ListManipulations.

Lemma jcmpS_asym a b : jcmpS a b = Gt -> jcmpS b a <> Gt.
Proof. unfold jcmpS. intros H. rewrite (jcmp_antisym show b a), H. discriminate. Qed.

Lemma jcmpS_cle_trans : Relations_1.Transitive (cle jcmpS).
Proof. intros a b c Hab Hbc. exact (jcmp_trans_le show a b c Hab Hbc). Qed.

(* pop: "If the argument is a list, will return the list without it's last argument." *)
Lemma pop_spec l : pure_sem F_pop [Some (JArr l)] = Some (Some (JArr (removelast l))).
Proof. reflexivity. Qed.
Lemma pop_snoc l x : pure_sem F_pop [Some (JArr (l ++ [x]))] = Some (Some (JArr l)).
Proof. rewrite pop_spec. now rewrite removelast_last. Qed.
Lemma pop_empty : pure_sem F_pop [Some (JArr [])] = Some (Some (JArr [])).
Proof. reflexivity. Qed.

(* pop_first: "If the argument is a list, will return the list without it's first argument." *)
Lemma pop_first_spec l : pure_sem F_pop_first [Some (JArr l)] = Some (Some (JArr (tl l))).
Proof. reflexivity. Qed.
Lemma pop_first_cons x l : pure_sem F_pop_first [Some (JArr (x :: l))] = Some (Some (JArr l)).
Proof. reflexivity. Qed.
Lemma pop_first_empty : pure_sem F_pop_first [Some (JArr [])] = Some (Some (JArr [])).
Proof. reflexivity. Qed.

(* push: "If the first argument is a list, will iterate over all the other arguments and add them
   to the list if they exists." *)
Lemma push_spec l rest : pure_sem F_push (Some (JArr l) :: rest) = Some (Some (JArr (l ++ present rest))).
Proof. reflexivity. Qed.
Lemma present_all_some vs : present (map Some vs) = vs.
Proof. induction vs as [|v t IH]; [reflexivity|]. cbn [map present]. now rewrite IH. Qed.
Lemma push_values l vs :
  pure_sem F_push (Some (JArr l) :: map Some vs) = Some (Some (JArr (l ++ vs))).
Proof. now rewrite push_spec, present_all_some. Qed.
(* example `(push ["a"] (push 1 1))` = ["a"] : an absent argument is skipped *)
Lemma push_absent_skipped l rest :
  pure_sem F_push (Some (JArr l) :: None :: rest) = pure_sem F_push (Some (JArr l) :: rest).
Proof. reflexivity. Qed.

(* push_front: "Add items to the from of a list." — each argument in turn goes to the front, so
   `(push_front [] 1 2 3 4)` = [4, 3, 2, 1] *)
Lemma push_front_spec l rest :
  pure_sem F_push_front (Some (JArr l) :: rest) = Some (Some (JArr (rev (present rest) ++ l))).
Proof. reflexivity. Qed.
Lemma push_front_values l vs :
  pure_sem F_push_front (Some (JArr l) :: map Some vs) = Some (Some (JArr (rev vs ++ l))).
Proof. now rewrite push_front_spec, present_all_some. Qed.

(* reverese: "Reveres the order of a list." *)
Lemma reverese_spec l : pure_sem F_reverese [Some (JArr l)] = Some (Some (JArr (rev l))).
Proof. reflexivity. Qed.
Lemma reverese_involutive l :
  pure_sem F_reverese [Some (JArr (rev l))] = Some (Some (JArr l)).
Proof. now rewrite reverese_spec, rev_involutive. Qed.
Lemma reverese_nth (l : list json) i : (i < length l)%nat ->
  nth_error (rev l) i = nth_error l (length l - S i).
Proof.
  intros H. destruct (nth_error l (length l - S i)) as [v|] eqn:E.
  - rewrite (nth_error_nth' (rev l) v) by (now rewrite rev_length).
    rewrite rev_nth by exact H. f_equal. now apply nth_error_nth.
  - apply nth_error_None in E. lia.
Qed.

(* indexed: "each element in the new list is an object with two elements: `index` with the index
   of the element in the list, `value` with the element in the original list" *)
Definition indexed_item (p : nat * json) : json :=
  JObj [(k_value, snd p); (k_index, JNum (NPos (N.of_nat (fst p))))].

Lemma indexed_go_spec l : forall i,
  indexed_go i l = map indexed_item (combine (seq i (length l)) l).
Proof.
  induction l as [|v t IH]; intros i; [reflexivity|].
  cbn [indexed_go length seq combine map]. now rewrite IH.
Qed.

Lemma indexed_spec l :
  pure_sem F_indexed [Some (JArr l)]
  = Some (Some (JArr (map indexed_item (combine (seq 0 (length l)) l)))).
Proof. cbv [pure_sem core_fn sem_coll on_array arg nth_error]. now rewrite indexed_go_spec. Qed.

Lemma indexed_length l r : pure_sem F_indexed [Some (JArr l)] = Some (Some (JArr r)) -> length r = length l.
Proof.
  rewrite indexed_spec. intros H. injection H as <-.
  rewrite map_length, combine_length, seq_length. lia.
Qed.

Lemma indexed_nth l i v : nth_error l i = Some v ->
  exists r, pure_sem F_indexed [Some (JArr l)] = Some (Some (JArr r))
            /\ nth_error r i = Some (indexed_item (i, v)).
Proof.
  intros H. eexists. split; [apply indexed_spec|].
  assert (Hi : (i < length l)%nat) by (apply nth_error_Some; congruence).
  rewrite nth_error_map.
  assert (Hc : nth_error (combine (seq 0 (length l)) l) i = Some (i, v)).
  { rewrite (nth_error_nth' _ (O, v)) by (rewrite combine_length, seq_length; lia).
    rewrite combine_nth by apply seq_length. rewrite seq_nth by exact Hi.
    f_equal. f_equal. now apply nth_error_nth. }
  now rewrite Hc.
Qed.

(* sort: "If the first argument is a list, return list sorted." *)
Lemma sort_spec l : pure_sem F_sort [Some (JArr l)] = Some (Some (JArr (ssort jcmpS l))).
Proof. reflexivity. Qed.

Lemma sort_perm l : exists r,
  pure_sem F_sort [Some (JArr l)] = Some (Some (JArr r)) /\ Permutation r l.
Proof. exists (ssort jcmpS l). split; [reflexivity|apply ssort_perm]. Qed.

Lemma sort_sorted l : exists r,
  pure_sem F_sort [Some (JArr l)] = Some (Some (JArr r)) /\ Sorted (fun a b => jcmpS a b <> Gt) r.
Proof. exists (ssort jcmpS l). split; [reflexivity|]. apply (ssort_sorted jcmpS jcmpS_asym). Qed.

(* every earlier element is <= every later element *)
Lemma sort_strongly_sorted l : exists r,
  pure_sem F_sort [Some (JArr l)] = Some (Some (JArr r))
  /\ StronglySorted (fun a b => jcmpS a b <> Gt) r.
Proof.
  exists (ssort jcmpS l). split; [reflexivity|].
  apply Sorted_StronglySorted; [exact jcmpS_cle_trans|apply (ssort_sorted jcmpS jcmpS_asym)].
Qed.

Lemma sort_length l r : pure_sem F_sort [Some (JArr l)] = Some (Some (JArr r)) -> length r = length l.
Proof. rewrite sort_spec. intros H. injection H as <-. apply ssort_length. Qed.

(* sort_unique: "If the first argument is a list, return list sorted without duplicates." *)
Lemma sort_unique_spec l :
  pure_sem F_sort_unique [Some (JArr l)] = Some (Some (JArr (dedup (ssort jcmpS l)))).
Proof. reflexivity. Qed.

Lemma dedup_from_incl k l x : In x (dedup_from k l) -> In x l.
Proof.
  revert k. induction l as [|y t IH]; intros k H; [destruct H|]. cbn [dedup_from] in H.
  destruct (jeqb y k).
  - right. eapply IH. exact H.
  - destruct H as [->|H]; [now left|right; eapply IH; exact H].
Qed.
Lemma dedup_incl l x : In x (dedup l) -> In x l.
Proof.
  destruct l as [|y t]; [intros []|]. cbn [dedup]. intros [->|H]; [now left|].
  right. eapply dedup_from_incl. exact H.
Qed.

(* nothing but duplicates is removed: a dropped element equals (==) a retained one *)
Lemma dedup_from_covers k l x : In x l ->
  In x (dedup_from k l) \/ exists y, In y (k :: dedup_from k l) /\ jeqb x y = true.
Proof.
  revert k. induction l as [|z t IH]; intros k H; [destruct H|]. cbn [dedup_from].
  destruct (jeqb z k) eqn:E.
  - destruct H as [->|H].
    + right. exists k. split; [now left|exact E].
    + apply IH, H.
  - destruct H as [->|H]; [left; now left|].
    destruct (IH z H) as [Hin|(y & Hy & Hxy)]; [left; now right|].
    right. exists y. split; [now right|exact Hxy].
Qed.
Lemma dedup_covers l x : In x l -> In x (dedup l) \/ exists y, In y (dedup l) /\ jeqb x y = true.
Proof.
  destruct l as [|z t]; [intros []|]. cbn [dedup]. intros [->|H]; [left; now left|].
  destruct (dedup_from_covers z t x H) as [Hin|Hex]; [left; now right|right; exact Hex].
Qed.

(* no two neighbours of the result are equal (==) *)
Lemma dedup_from_no_adjacent k l :
  Sorted (fun a b => jeqb b a = false) (dedup_from k l)
  /\ HdRel (fun a b => jeqb b a = false) k (dedup_from k l).
Proof.
  revert k. induction l as [|z t IH]; intros k; cbn [dedup_from]; [split; constructor|].
  destruct (jeqb z k) eqn:E; [apply IH|].
  destruct (IH z) as [Hs Hh]. split; constructor; assumption.
Qed.
Lemma dedup_no_adjacent l : Sorted (fun a b => jeqb b a = false) (dedup l).
Proof.
  destruct l as [|z t]; [constructor|]. cbn [dedup].
  destruct (dedup_from_no_adjacent z t) as [Hs Hh]. now constructor.
Qed.

Lemma sort_unique_subset l : exists r,
  pure_sem F_sort_unique [Some (JArr l)] = Some (Some (JArr r))
  /\ (forall x, In x r -> In x l)
  /\ (forall x, In x l -> In x r \/ exists y, In y r /\ jeqb x y = true)
  /\ Sorted (fun a b => jeqb b a = false) r.
Proof.
  exists (dedup (ssort jcmpS l)). split; [reflexivity|]. split; [|split].
  - intros x Hx. apply dedup_incl in Hx.
    eapply Permutation_in; [apply ssort_perm|exact Hx].
  - intros x Hx. apply dedup_covers.
    eapply Permutation_in; [apply Permutation_sym, ssort_perm|exact Hx].
  - apply dedup_no_adjacent.
Qed.

(* wrong type: examples `(pop false)`, `(reverese 1)`, `(sort 344)`, `(indexed {})`, `(push -4 -4)` *)
Lemma list_manip_wrong_type f vals :
  In f [F_pop; F_pop_first; F_push; F_push_front; F_reverese; F_sort; F_sort_unique; F_indexed] ->
  not_arr (arg vals 0%nat) -> pure_sem f vals = Some None.
Proof.
  intros Hf H. cbv [In] in Hf.
  repeat (destruct Hf as [<-|Hf]; [cbv [pure_sem core_fn sem_coll on_array];
    destruct (arg vals 0%nat) as [[| | | | |]|]; try reflexivity; destruct H|]).
  destruct Hf.
Qed.
Lemma pop_wrong_type vals : not_arr (arg vals 0%nat) -> pure_sem F_pop vals = Some None.
Proof. apply list_manip_wrong_type. cbv [In]. tauto. Qed.
Lemma push_wrong_type vals : not_arr (arg vals 0%nat) -> pure_sem F_push vals = Some None.
Proof. apply list_manip_wrong_type. cbv [In]. tauto. Qed.

End ListManipulations.

(* ====================================================================================== *)
(* 4. list/list_producers: range, zip, cross                                               *)
(* ====================================================================================== *)
Section ListProducers.

(* range: "Create a new list with items from 0 to the second argument." example `(range 4)` = [0,1,2,3] *)
Lemma range_spec n :
  pure_sem F_range [Some (JNum (NPos n))]
  = Some (Some (JArr (map (fun i => JNum (NPos (N.of_nat i))) (seq 0 (N.to_nat n))))).
Proof. reflexivity. Qed.

Lemma range_length n r :
  pure_sem F_range [Some (JNum (NPos n))] = Some (Some (JArr r)) -> length r = N.to_nat n.
Proof. rewrite range_spec. intros H. injection H as <-. now rewrite map_length, seq_length. Qed.

Lemma range_nth n r i : (i < N.to_nat n)%nat ->
  pure_sem F_range [Some (JNum (NPos n))] = Some (Some (JArr r)) ->
  nth_error r i = Some (JNum (NPos (N.of_nat i))).
Proof.
  intros Hi. rewrite range_spec. intros H. injection H as <-.
  rewrite nth_error_map. rewrite (nth_error_nth' _ O) by (now rewrite seq_length).
  now rewrite seq_nth.
Qed.

Lemma range_zero : pure_sem F_range [Some (JNum (NPos 0))] = Some (Some (JArr [])).
Proof. reflexivity. Qed.

(* "If the second argument is not a positive integer, return nothing." (examples -4, [1,2,3,4]) *)
Lemma range_wrong_type vals : not_usize (arg vals 0%nat) -> pure_sem F_range vals = Some None.
Proof.
  intros H. apply not_usize_cases in H. cbv [pure_sem core_fn sem_coll].
  destruct (arg vals 0%nat) as [[| | |[]| |]|]; try reflexivity; destruct H.
Qed.

(* ---- zip / cross: "All the arguments must be lists." ---- *)
Lemma all_arrays_not_arr vals : (exists v, In v vals /\ not_arr v) -> all_arrays vals = None.
Proof.
  induction vals as [|x t IH]; intros (v & Hin & Hv); [destruct Hin|].
  destruct Hin as [->|Hin].
  - destruct v as [[| | | | |]|]; try reflexivity. destruct Hv.
  - cbn [all_arrays]. destruct x as [[| | | | |]|]; try reflexivity.
    rewrite IH; [reflexivity|]. exists v. now split.
Qed.
Lemma zip_wrong_type vals : (exists v, In v vals /\ not_arr v) -> pure_sem F_zip vals = Some None.
Proof. intros H. cbv [pure_sem core_fn sem_coll]. now rewrite all_arrays_not_arr. Qed.
Lemma cross_wrong_type vals : (exists v, In v vals /\ not_arr v) -> pure_sem F_cross vals = Some None.
Proof. intros H. cbv [pure_sem core_fn sem_coll]. now rewrite all_arrays_not_arr. Qed.

(* zip: "The output will be a list of object, with keys in the format ".i" where i is the index
   list."  The result is as long as the longest list; a list that is too short contributes no key
   (second example of the documentation). *)
Definition opt_entry (k : str) (o : option json) : list (str * json) :=
  match o with Some v => [(k, v)] | None => [] end.

Lemma zip_two_general l1 l2 :
  pure_sem F_zip [Some (JArr l1); Some (JArr l2)]
  = Some (Some (JArr (map (fun idx => JObj (opt_entry (dot_key 0) (nth_error l1 idx)
                                             ++ opt_entry (dot_key 1) (nth_error l2 idx)))
                          (seq 0 (Nat.max (length l1) (length l2)))))).
Proof.
  cbv [pure_sem core_fn sem_coll all_arrays option_map max_len fold_left].
  do 3 f_equal. apply map_ext. intros idx. cbn [zip_row].
  destruct (nth_error l1 idx), (nth_error l2 idx); reflexivity.
Qed.

Lemma map_seq_combine {A B C} (f : option A -> option B -> C) (l1 : list A) : forall (l2 : list B),
  length l1 = length l2 ->
  map (fun i => f (nth_error l1 i) (nth_error l2 i)) (seq 0 (length l1))
  = map (fun p => f (Some (fst p)) (Some (snd p))) (combine l1 l2).
Proof.
  induction l1 as [|a t IH]; intros [|b t2] Hlen; try discriminate Hlen; [reflexivity|].
  cbn [length seq map combine nth_error fst snd]. f_equal.
  rewrite <- seq_shift, map_map. cbn [nth_error]. apply IH. now injection Hlen.
Qed.

(* lists of the same length: zip is `combine`, element order preserved *)
Lemma zip_two_spec l1 l2 : length l1 = length l2 ->
  pure_sem F_zip [Some (JArr l1); Some (JArr l2)]
  = Some (Some (JArr (map (fun p => JObj [(dot_key 0, fst p); (dot_key 1, snd p)]) (combine l1 l2)))).
Proof.
  intros H. rewrite zip_two_general. rewrite <- H, Nat.max_id.
  rewrite (map_seq_combine (fun a b => JObj (opt_entry (dot_key 0) a ++ opt_entry (dot_key 1) b)) l1 l2 H).
  reflexivity.
Qed.

(* cross: "Join a few list (i.e. Cartesian product) into a new list. The output will be a list
   of object, with keys in the format ".i"."  The first list varies fastest (see the example). *)
Lemma flat_map_singleton {A B} (f : A -> B) l : flat_map (fun x => [f x]) l = map f l.
Proof. induction l as [|x t IH]; [reflexivity|]. cbn [flat_map map app]. now rewrite IH. Qed.
Lemma map_flat_map {A B C} (f : B -> C) (g : A -> list B) l :
  map f (flat_map g l) = flat_map (fun x => map f (g x)) l.
Proof. induction l as [|x t IH]; [reflexivity|]. cbn [flat_map]. now rewrite map_app, IH. Qed.

Lemma cross_two_spec l1 l2 :
  pure_sem F_cross [Some (JArr l1); Some (JArr l2)]
  = Some (Some (JArr (flat_map (fun b => map (fun a => JObj [(dot_key 0, a); (dot_key 1, b)]) l1) l2))).
Proof.
  cbv [pure_sem core_fn sem_coll all_arrays option_map cross_go].
  do 3 f_equal. cbn [map]. rewrite flat_map_singleton, map_flat_map.
  apply flat_map_ext. intros b. rewrite !map_map. apply map_ext. intros a. reflexivity.
Qed.

Lemma cross_two_length l1 l2 r :
  pure_sem F_cross [Some (JArr l1); Some (JArr l2)] = Some (Some (JArr r)) ->
  length r = (length l2 * length l1)%nat.
Proof.
  rewrite cross_two_spec. intros H. injection H as <-.
  induction l2 as [|b t IH]; [reflexivity|].
  cbn [flat_map]. rewrite app_length, map_length, IH. reflexivity.
Qed.

End ListProducers.

(* ====================================================================================== *)
(* 5. object: keys, values, entries, put, insert_if_absent, replace_if_exists,              *)
(*    sort_by_keys, sort_by_values                                                         *)
(* ====================================================================================== *)
Section Objects.

(* keys: "Get the list of keys from an object."  (member order) *)
Lemma keys_spec m : pure_sem F_keys [Some (JObj m)] = Some (Some (JArr (map JStr (map fst m)))).
Proof. cbv [pure_sem core_fn sem_coll on_object arg nth_error]. now rewrite map_map. Qed.

(* values: "Get the list of values from an object." *)
Lemma values_spec m : pure_sem F_values [Some (JObj m)] = Some (Some (JArr (map snd m))).
Proof. reflexivity. Qed.

(* entries: "Each item of the list will be an object with `key` and `value` entries".
   MEMBER ORDER: the code inserts `value` first and `key` second, so an entry prints as
   {"value": 1, "key": "key-1"}; the documentation example shows {"key": "key-1", "value": 1}
   (the example test compares IndexMaps, which ignores member order). *)
Definition entry_item (kv : str * json) : json := JObj [(k_value, snd kv); (k_key, JStr (fst kv))].
Lemma entries_spec m : pure_sem F_entries [Some (JObj m)] = Some (Some (JArr (map entry_item m))).
Proof. reflexivity. Qed.

Lemma keys_values_length m ks vs :
  pure_sem F_keys [Some (JObj m)] = Some (Some (JArr ks)) ->
  pure_sem F_values [Some (JObj m)] = Some (Some (JArr vs)) ->
  length ks = length m /\ length vs = length m.
Proof.
  rewrite keys_spec, values_spec. intros H1 H2. injection H1 as <-. injection H2 as <-.
  now rewrite !map_length.
Qed.

(* the i-th key, value and entry belong to the i-th member *)
Lemma keys_values_entries_nth m i k v : nth_error m i = Some (k, v) ->
  nth_error (map JStr (map fst m)) i = Some (JStr k)
  /\ nth_error (map snd m) i = Some v
  /\ nth_error (map entry_item m) i = Some (JObj [(k_value, v); (k_key, JStr k)]).
Proof.
  intros H. rewrite map_map, !nth_error_map, H. repeat split; reflexivity.
Qed.

Lemma object_to_list_wrong_type f vals : In f [F_keys; F_values; F_entries; F_sort_by_keys; F_sort_by_values] ->
  not_obj (arg vals 0%nat) -> pure_sem f vals = Some None.
Proof.
  intros Hf H. cbv [In] in Hf.
  repeat (destruct Hf as [<-|Hf]; [cbv [pure_sem core_fn sem_coll on_object];
    destruct (arg vals 0%nat) as [[| | | | |]|]; try reflexivity; destruct H|]).
  destruct Hf.
Qed.
Lemma keys_wrong_type vals : not_obj (arg vals 0%nat) -> pure_sem F_keys vals = Some None.
Proof. apply object_to_list_wrong_type. cbv [In]. tauto. Qed.
Lemma values_wrong_type vals : not_obj (arg vals 0%nat) -> pure_sem F_values vals = Some None.
Proof. apply object_to_list_wrong_type. cbv [In]. tauto. Qed.
Lemma entries_wrong_type vals : not_obj (arg vals 0%nat) -> pure_sem F_entries vals = Some None.
Proof. apply object_to_list_wrong_type. cbv [In]. tauto. Qed.

(* ---- IndexMap insert / get ---- *)
Lemma obj_get_insert_same k v m : obj_get k (obj_insert k v m) = Some v.
Proof.
  induction m as [|[k' v'] t IH]; cbn [obj_insert obj_get].
  - now rewrite str_eqb_refl.
  - destruct (str_eqb k k') eqn:E; cbn [obj_get]; rewrite E; [reflexivity|exact IH].
Qed.
Lemma obj_get_insert_other k k' v m : k' <> k -> obj_get k' (obj_insert k v m) = obj_get k' m.
Proof.
  intros Hne. induction m as [|[k2 v2] t IH]; cbn [obj_insert obj_get].
  - now rewrite (str_eqb_neq k' k Hne).
  - destruct (str_eqb k k2) eqn:E; cbn [obj_get].
    + apply str_eqb_eq in E. subst k2. now rewrite (str_eqb_neq k' k Hne).
    + destruct (str_eqb k' k2); [reflexivity|exact IH].
Qed.
(* insertion order: a present key keeps its place, a new key goes to the end *)
Lemma obj_insert_keys k v m :
  map fst (obj_insert k v m) = if obj_has k m then map fst m else map fst m ++ [k].
Proof.
  unfold obj_has. induction m as [|[k' v'] t IH]; cbn [obj_insert obj_get map fst app]; [reflexivity|].
  destruct (str_eqb k k') eqn:E; cbn [map fst]; [reflexivity|].
  rewrite IH. now destruct (obj_get k t).
Qed.
Lemma obj_insert_absent k v m : obj_has k m = false -> obj_insert k v m = m ++ [(k, v)].
Proof.
  unfold obj_has. induction m as [|[k' v'] t IH]; cbn [obj_insert obj_get app]; [reflexivity|].
  destruct (str_eqb k k'); [discriminate|]. intros H. now rewrite IH.
Qed.
Lemma obj_insert_length k v m :
  length (obj_insert k v m) = if obj_has k m then length m else S (length m).
Proof.
  rewrite <- (map_length fst), obj_insert_keys.
  destruct (obj_has k m); rewrite ?app_length, map_length; cbn [length]; lia.
Qed.

(* put: "Add a new entry to a map. If the object has that key, it will be replaced." *)
Lemma put_spec m k v :
  pure_sem F_put [Some (JObj m); Some (JStr k); Some v] = Some (Some (JObj (obj_insert k v m))).
Proof. reflexivity. Qed.
Lemma put_then_get m k v r :
  pure_sem F_put [Some (JObj m); Some (JStr k); Some v] = Some (Some r) ->
  pure_sem F_get [Some r; Some (JStr k)] = Some (Some v).
Proof. rewrite put_spec. intros H. injection H as <-. rewrite get_obj. now rewrite obj_get_insert_same. Qed.
Lemma put_other_keys_unchanged m k v k' : k' <> k ->
  pure_sem F_get [Some (JObj (obj_insert k v m)); Some (JStr k')]
  = pure_sem F_get [Some (JObj m); Some (JStr k')].
Proof. intros H. rewrite !get_obj. now rewrite obj_get_insert_other. Qed.

(* insert_if_absent: "Add a new entry to a map if it has no such key. If the object has that key,
   it will not be replaced." *)
Lemma insert_if_absent_spec m k v :
  pure_sem F_insert_if_absent [Some (JObj m); Some (JStr k); Some v]
  = Some (Some (JObj (match obj_get k m with Some _ => m | None => m ++ [(k, v)] end))).
Proof.
  cbv [pure_sem core_fn sem_coll obj3 arg nth_error]. unfold obj_has at 1.
  destruct (obj_get k m) eqn:E; [reflexivity|].
  rewrite obj_insert_absent; [reflexivity|]. unfold obj_has. now rewrite E.
Qed.

(* replace_if_exists: "Add a new entry to a map if it has such key. If the object dosen't has that
   key, it will not be replaced." *)
Lemma replace_if_exists_spec m k v :
  pure_sem F_replace_if_exists [Some (JObj m); Some (JStr k); Some v]
  = Some (Some (JObj (match obj_get k m with Some _ => obj_insert k v m | None => m end))).
Proof.
  cbv [pure_sem core_fn sem_coll obj3 arg nth_error]. unfold obj_has.
  now destruct (obj_get k m).
Qed.
Lemma replace_if_exists_keeps_keys m k v r :
  pure_sem F_replace_if_exists [Some (JObj m); Some (JStr k); Some v] = Some (Some (JObj r)) ->
  map fst r = map fst m.
Proof.
  rewrite replace_if_exists_spec. intros H. injection H as <-.
  destruct (obj_get k m) eqn:E; [|reflexivity].
  rewrite obj_insert_keys. unfold obj_has. now rewrite E.
Qed.

(* "The first argument should be an object. The second argument should be a key. The third
   argument should be a value." : otherwise nothing *)
Lemma obj3_wrong f vals : In f [F_put; F_insert_if_absent; F_replace_if_exists] ->
  not_obj (arg vals 0%nat) \/ not_str (arg vals 1%nat) \/ arg vals 2%nat = None ->
  pure_sem f vals = Some None.
Proof.
  intros Hf H. cbv [In] in Hf.
  repeat (destruct Hf as [<-|Hf]; [cbv [pure_sem core_fn sem_coll obj3];
    destruct (arg vals 0%nat) as [[| | | | |]|], (arg vals 1%nat) as [[| | | | |]|],
             (arg vals 2%nat) as [|]; try reflexivity;
    destruct H as [H|[H|H]]; solve [destruct H | discriminate H]|]).
  destruct Hf.
Qed.
Lemma put_wrong_type vals :
  not_obj (arg vals 0%nat) \/ not_str (arg vals 1%nat) \/ arg vals 2%nat = None ->
  pure_sem F_put vals = Some None.
Proof. apply obj3_wrong. cbv [In]. tauto. Qed.

(* sort_by_keys: "If the first argument is an object, return object sorted by it's keys." *)
Lemma str_cmp_fst_asym (a b : str * json) :
  str_cmp (fst a) (fst b) = Gt -> str_cmp (fst b) (fst a) <> Gt.
Proof.
  intros H. destruct (ord_ok_str (fst b)) as (_ & HA & _). rewrite (HA (fst a)), H. discriminate.
Qed.
Lemma sort_by_keys_spec m : exists r,
  pure_sem F_sort_by_keys [Some (JObj m)] = Some (Some (JObj r))
  /\ Permutation r m
  /\ Sorted (fun a b => str_cmp (fst a) (fst b) <> Gt) r.
Proof.
  exists (ssort (fun a b => str_cmp (fst a) (fst b)) m). split; [reflexivity|]. split.
  - apply ssort_perm.
  - apply (ssort_sorted (fun a b => str_cmp (fst a) (fst b)) str_cmp_fst_asym).
Qed.

(* sort_by_values: "If the first argument is an object, return object sorted by it's values." *)
Lemma sort_by_values_spec m : exists r,
  pure_sem F_sort_by_values [Some (JObj m)] = Some (Some (JObj r))
  /\ Permutation r m
  /\ Sorted (fun a b => jcmpS (snd a) (snd b) <> Gt) r.
Proof.
  exists (ssort (fun a b => jcmpS (snd a) (snd b)) m). split; [reflexivity|]. split.
  - apply ssort_perm.
  - apply (ssort_sorted (fun a b => jcmpS (snd a) (snd b))). intros a b. apply jcmpS_asym.
Qed.

End Objects.

(* ====================================================================================== *)
(* 6. string: concat, head, tail, split; type_group: as_*, is_*                            *)
(* ====================================================================================== *)
Section Strings.

(* concat: "Concat all string arguments." *)
Lemma all_strings_concat ss : all_strings (map (fun s => Some (JStr s)) ss) = Some (concat ss).
Proof. induction ss as [|s t IH]; [reflexivity|]. cbn [map all_strings concat]. now rewrite IH. Qed.
Lemma concat_spec ss :
  pure_sem F_concat (map (fun s => Some (JStr s)) ss) = Some (Some (JStr (concat ss))).
Proof. cbv [pure_sem core_fn sem_coll]. now rewrite all_strings_concat. Qed.
Lemma concat_two a b : pure_sem F_concat [Some (JStr a); Some (JStr b)] = Some (Some (JStr (a ++ b))).
Proof. cbv [pure_sem core_fn sem_coll all_strings option_map]. now rewrite app_nil_r. Qed.
(* example `(concat "one" " " 2)` : nothing *)
Lemma all_strings_not_str vals : (exists v, In v vals /\ not_str v) -> all_strings vals = None.
Proof.
  induction vals as [|x t IH]; intros (v & Hin & Hv); [destruct Hin|].
  destruct Hin as [->|Hin].
  - destruct v as [[| | | | |]|]; try reflexivity. destruct Hv.
  - cbn [all_strings]. destruct x as [[| | | | |]|]; try reflexivity.
    rewrite IH; [reflexivity|]. exists v. now split.
Qed.
Lemma concat_wrong_type vals : (exists v, In v vals /\ not_str v) -> pure_sem F_concat vals = Some None.
Proof. intros H. cbv [pure_sem core_fn sem_coll]. now rewrite all_strings_not_str. Qed.

(* head: "the returned value will be a string with the beggining of the first argument." *)
Lemma head_spec s n :
  pure_sem F_head [Some (JStr s); Some (JNum (NPos n))] = Some (Some (JStr (firstn (N.to_nat n) s))).
Proof. psem. now rewrite take_n_firstn. Qed.
Lemma head_is_take s n :
  pure_sem F_head [Some (JStr s); Some (JNum (NPos n))] = pure_sem F_take [Some (JStr s); Some (JNum (NPos n))].
Proof. now rewrite head_spec, take_str. Qed.
Lemma head_all s n : (length s <= N.to_nat n)%nat ->
  pure_sem F_head [Some (JStr s); Some (JNum (NPos n))] = Some (Some (JStr s)).
Proof. intros H. rewrite head_spec. now rewrite firstn_all2. Qed.

(* tail: "the returned value will be a string with the end of the first argument. See also
   take_last."  WHAT THE CODE DOES: it SKIPS the first N characters (it does not keep the last N),
   and returns the whole string when N exceeds the length. *)
Lemma tail_spec s n :
  pure_sem F_tail [Some (JStr s); Some (JNum (NPos n))]
  = Some (Some (JStr (if (length s <? N.to_nat n)%nat then s else skipn (N.to_nat n) s))).
Proof. psem. rewrite len_N_lt. now rewrite skip_n_skipn. Qed.
Lemma tail_length s n r : (N.to_nat n <= length s)%nat ->
  pure_sem F_tail [Some (JStr s); Some (JNum (NPos n))] = Some (Some (JStr r)) ->
  length r = (length s - N.to_nat n)%nat.
Proof.
  intros Hn. rewrite tail_spec. destruct (Nat.ltb_spec (length s) (N.to_nat n)) as [H|H]; [lia|].
  intros E. injection E as <-. apply skipn_length.
Qed.
(* head and tail with the same N split the string *)
Lemma head_tail_partition s n h t : (N.to_nat n <= length s)%nat ->
  pure_sem F_head [Some (JStr s); Some (JNum (NPos n))] = Some (Some (JStr h)) ->
  pure_sem F_tail [Some (JStr s); Some (JNum (NPos n))] = Some (Some (JStr t)) ->
  h ++ t = s.
Proof.
  intros Hn. rewrite head_spec, tail_spec.
  destruct (Nat.ltb_spec (length s) (N.to_nat n)) as [H|H]; [lia|].
  intros E1 E2. injection E1 as <-. injection E2 as <-. apply firstn_skipn.
Qed.
(* tail agrees with take_last exactly when N is half the length (the documented example:
   "test-123", 4), when N exceeds the length, or trivially; otherwise the two differ *)
Lemma tail_vs_take_last s n : (N.to_nat n <= length s)%nat ->
  (pure_sem F_tail [Some (JStr s); Some (JNum (NPos n))]
   = pure_sem F_take_last [Some (JStr s); Some (JNum (NPos n))])
  <-> length s = (2 * N.to_nat n)%nat.
Proof.
  intros Hn. rewrite tail_spec, take_last_str.
  destruct (Nat.ltb_spec (length s) (N.to_nat n)) as [H|H]; [lia|]. split.
  - intros E. injection E as E. apply (f_equal (@length N)) in E. rewrite !skipn_length in E. lia.
  - intros E. replace (length s - N.to_nat n)%nat with (N.to_nat n) by lia. reflexivity.
Qed.

Lemma str_num_wrong f vals : In f [F_head; F_tail] ->
  not_str (arg vals 0%nat) \/ not_usize (arg vals 1%nat) -> pure_sem f vals = Some None.
Proof.
  intros Hf H. rewrite not_usize_cases in H. cbv [In] in Hf.
  repeat (destruct Hf as [<-|Hf]; [cbv [pure_sem core_fn sem_coll str_num_sem];
    destruct (arg vals 0%nat) as [[| | | | |]|], (arg vals 1%nat) as [[| | |[]| |]|];
    try reflexivity; destruct H as [H|H]; destruct H|]).
  destruct Hf.
Qed.

(* split: "Split the string into array of strings." — joining the pieces with the separator
   gives the string back; an empty separator splits at every character boundary *)
Lemma split_spec s p :
  pure_sem F_split [Some (JStr s); Some (JStr p)] = Some (Some (JArr (map JStr (split_str s p)))).
Proof. reflexivity. Qed.

Lemma is_prefix_app p s : is_prefix p s = true -> exists rest, s = p ++ rest.
Proof.
  revert s. induction p as [|a p IH]; intros s H; [now exists s|].
  destruct s as [|b s]; [discriminate H|]. cbn [is_prefix] in H.
  apply andb_true_iff in H as [Hab Hp]. apply N.eqb_eq in Hab. subst b.
  destruct (IH s Hp) as (rest & ->). now exists rest.
Qed.
Lemma split_go_skip p q : forall cur rest, split_go p (length q) cur (q ++ rest) = split_go p O cur rest.
Proof.
  induction q as [|c q IH]; intros cur rest; [reflexivity|].
  cbn [length app split_go]. apply IH.
Qed.
Lemma split_go_nonempty p : forall s k cur, split_go p k cur s <> [].
Proof.
  induction s as [|c t IH]; intros k cur; cbn [split_go]; [discriminate|].
  destruct k; [|apply IH]. destruct (is_prefix p (c :: t)); [discriminate|apply IH].
Qed.

Lemma split_go_join p : p <> [] -> forall n s cur, (length s <= n)%nat ->
  intercalate p (split_go p O cur s) = cur ++ s.
Proof.
  intros Hp. induction n as [|n IH]; intros s cur Hlen.
  - destruct s; [|cbn [length] in Hlen; lia]. cbn. now rewrite !app_nil_r.
  - destruct s as [|c t]; [cbn; now rewrite !app_nil_r|].
    cbn [split_go]. destruct (is_prefix p (c :: t)) eqn:E.
    + destruct (is_prefix_app _ _ E) as (rest & Hs).
      destruct p as [|a p']; [contradiction|]. cbn [app] in Hs. injection Hs as -> ->.
      cbn [length pred]. rewrite split_go_skip.
      rewrite intercalate_cons by apply split_go_nonempty.
      rewrite IH; [reflexivity|]. cbn [length] in Hlen. rewrite app_length in Hlen. lia.
    + rewrite IH by (cbn [length] in Hlen; lia). now rewrite <- app_assoc.
Qed.

Lemma split_join s p : p <> [] -> intercalate p (split_str s p) = s.
Proof.
  intros Hp. unfold split_str. destruct p as [|a p']; [contradiction|].
  now rewrite (split_go_join (a :: p') Hp (length s) s []).
Qed.

(* (join (split s p) p) = s for a non-empty separator *)
Lemma split_then_join s p r : p <> [] ->
  pure_sem F_split [Some (JStr s); Some (JStr p)] = Some (Some r) ->
  pure_sem F_join [Some r; Some (JStr p)] = Some (Some (JStr s)).
Proof.
  intros Hp. rewrite split_spec. intros H. injection H as <-.
  rewrite join_sep. now rewrite split_join.
Qed.

Lemma split_empty_separator s :
  pure_sem F_split [Some (JStr s); Some (JStr [])]
  = Some (Some (JArr (map JStr ([] :: map (fun c => [c]) s ++ [[]])))).
Proof. reflexivity. Qed.

Lemma split_wrong_type vals : not_str (arg vals 0%nat) \/ not_str (arg vals 1%nat) ->
  pure_sem F_split vals = Some None.
Proof.
  intros H. cbv [pure_sem core_fn sem_coll].
  destruct (arg vals 0%nat) as [[| | | | |]|], (arg vals 1%nat) as [[| | | | |]|];
    try reflexivity; destruct H as [H|H]; destruct H.
Qed.

(* type_group/cast: "return the array if the argument is an array, nothing if it's not." etc. *)
Lemma as_array_spec v : pure_sem F_as_array [v] = Some (match v with Some (JArr l) => Some (JArr l) | _ => None end).
Proof. reflexivity. Qed.
Lemma as_boolean_spec v : pure_sem F_as_boolean [v] = Some (match v with Some (JBool b) => Some (JBool b) | _ => None end).
Proof. reflexivity. Qed.
Lemma as_number_spec v : pure_sem F_as_number [v] = Some (match v with Some (JNum n) => Some (JNum n) | _ => None end).
Proof. reflexivity. Qed.
Lemma as_object_spec v : pure_sem F_as_object [v] = Some (match v with Some (JObj m) => Some (JObj m) | _ => None end).
Proof. reflexivity. Qed.
Lemma as_string_spec v : pure_sem F_as_string [v] = Some (match v with Some (JStr s) => Some (JStr s) | _ => None end).
Proof. reflexivity. Qed.
(* a cast is the identity or nothing *)
Lemma cast_identity_or_nothing f v : In f [F_as_array; F_as_boolean; F_as_number; F_as_object; F_as_string] ->
  pure_sem f [v] = Some v \/ pure_sem f [v] = Some None.
Proof.
  intros Hf. cbv [In] in Hf.
  repeat (destruct Hf as [<-|Hf]; [destruct v as [[| | | | |]|]; (now left) || (now right)|]).
  destruct Hf.
Qed.

(* type_group/check_types: "return true if the argument is an array." etc.; never nothing *)
Lemma type_checks_spec v :
  pure_sem F_is_array [v] = Some (Some (JBool (match v with Some (JArr _) => true | _ => false end)))
  /\ pure_sem F_is_bool [v] = Some (Some (JBool (match v with Some (JBool _) => true | _ => false end)))
  /\ pure_sem F_is_number [v] = Some (Some (JBool (match v with Some (JNum _) => true | _ => false end)))
  /\ pure_sem F_is_object [v] = Some (Some (JBool (match v with Some (JObj _) => true | _ => false end)))
  /\ pure_sem F_is_string [v] = Some (Some (JBool (match v with Some (JStr _) => true | _ => false end)))
  /\ pure_sem F_is_null [v] = Some (Some (JBool (match v with Some JNull => true | _ => false end)))
  /\ pure_sem F_is_empty [v] = Some (Some (JBool (match v with Some _ => false | None => true end))).
Proof. repeat split; reflexivity. Qed.

(* exactly one of the six type tests holds of a present value *)
Lemma type_checks_partition (v : json) :
  length (filter (fun f => match pure_sem f [Some v] with Some (Some (JBool true)) => true | _ => false end)
                 [F_is_array; F_is_bool; F_is_number; F_is_object; F_is_string; F_is_null]) = 1%nat.
Proof. destruct v; reflexivity. Qed.

End Strings.

(* ====================================================================================== *)
(* 7. boolean/compare, boolean/logical, basic/flow                                         *)
(* ====================================================================================== *)
Section Booleans.

(* =, != : "Compare two value and return true if both are equals / not equals." *)
Lemma eq_spec a b : pure_sem F_eq [Some a; Some b] = Some (Some (JBool (jeqb a b))).
Proof. reflexivity. Qed.
Lemma neq_spec a b : pure_sem F_neq [Some a; Some b] = Some (Some (JBool (negb (jeqb a b)))).
Proof. reflexivity. Qed.

(* <, <=, >, >= : "return true if the first is smaller / smaller or equals / greater / greater or
   equals than the second" — w.r.t. the total order `jcmpS` of values (impl Ord for JsonValue) *)
Lemma cmp_functions a b :
  pure_sem F_lt [Some a; Some b] = Some (Some (JBool (match jcmpS a b with Lt => true | _ => false end)))
  /\ pure_sem F_lte [Some a; Some b] = Some (Some (JBool (match jcmpS a b with Gt => false | _ => true end)))
  /\ pure_sem F_gt [Some a; Some b] = Some (Some (JBool (match jcmpS a b with Gt => true | _ => false end)))
  /\ pure_sem F_gte [Some a; Some b] = Some (Some (JBool (match jcmpS a b with Lt => false | _ => true end))).
Proof. repeat split; reflexivity. Qed.

Lemma lt_iff a b : pure_sem F_lt [Some a; Some b] = Some (Some (JBool true)) <-> jcmpS a b = Lt.
Proof. destruct (cmp_functions a b) as (-> & _). destruct (jcmpS a b); split; congruence. Qed.
Lemma lte_iff a b : pure_sem F_lte [Some a; Some b] = Some (Some (JBool true)) <-> jcmpS a b <> Gt.
Proof. destruct (cmp_functions a b) as (_ & -> & _). destruct (jcmpS a b); split; congruence. Qed.
Lemma gt_iff a b : pure_sem F_gt [Some a; Some b] = Some (Some (JBool true)) <-> jcmpS a b = Gt.
Proof. destruct (cmp_functions a b) as (_ & _ & -> & _). destruct (jcmpS a b); split; congruence. Qed.
Lemma gte_iff a b : pure_sem F_gte [Some a; Some b] = Some (Some (JBool true)) <-> jcmpS a b <> Lt.
Proof. destruct (cmp_functions a b) as (_ & _ & _ & ->). destruct (jcmpS a b); split; congruence. Qed.

(* examples `(< 1 1)` = false, `(<= 1 1)` = true, `(> 1 1)` = false, `(>= 1 1)` = true *)
Lemma cmp_same a :
  pure_sem F_lt [Some a; Some a] = Some (Some (JBool false))
  /\ pure_sem F_lte [Some a; Some a] = Some (Some (JBool true))
  /\ pure_sem F_gt [Some a; Some a] = Some (Some (JBool false))
  /\ pure_sem F_gte [Some a; Some a] = Some (Some (JBool true)).
Proof.
  destruct (cmp_functions a a) as (-> & -> & -> & ->). unfold jcmpS. rewrite (jcmp_refl show a).
  repeat split; reflexivity.
Qed.

(* a < b is b > a, a <= b is b >= a *)
Lemma lt_gt_dual a b : pure_sem F_lt [Some a; Some b] = pure_sem F_gt [Some b; Some a].
Proof.
  destruct (cmp_functions a b) as (-> & _). destruct (cmp_functions b a) as (_ & _ & -> & _).
  unfold jcmpS. rewrite (jcmp_antisym show a b). now destruct (jcmp show b a).
Qed.
Lemma lte_gte_dual a b : pure_sem F_lte [Some a; Some b] = pure_sem F_gte [Some b; Some a].
Proof.
  destruct (cmp_functions a b) as (_ & -> & _). destruct (cmp_functions b a) as (_ & _ & _ & ->).
  unfold jcmpS. rewrite (jcmp_antisym show a b). now destruct (jcmp show b a).
Qed.
(* >= is the negation of <, <= is the negation of > *)
Lemma gte_not_lt a b bl :
  pure_sem F_lt [Some a; Some b] = Some (Some (JBool bl)) ->
  pure_sem F_gte [Some a; Some b] = Some (Some (JBool (negb bl))).
Proof.
  destruct (cmp_functions a b) as (-> & _ & _ & ->). intros H. injection H as <-.
  now destruct (jcmpS a b).
Qed.
(* values of different types compare by type: null < boolean < string < number < object < array *)
Lemma lt_by_type a b : (type_rank a < type_rank b)%N ->
  pure_sem F_lt [Some a; Some b] = Some (Some (JBool true)).
Proof. intros H. apply lt_iff. unfold jcmpS. now apply jcmp_rank. Qed.

(* an absent operand gives nothing; operands of different types never do *)
Lemma compare_absent f vals : In f [F_eq; F_neq; F_lt; F_lte; F_gt; F_gte] ->
  arg vals 0%nat = None \/ arg vals 1%nat = None -> pure_sem f vals = Some None.
Proof.
  intros Hf H. cbv [In] in Hf.
  repeat (destruct Hf as [<-|Hf]; [cbv [pure_sem core_fn core_sem cmp_sem];
    destruct (arg vals 0%nat), (arg vals 1%nat); try reflexivity;
    destruct H as [H|H]; discriminate H|]).
  destruct Hf.
Qed.
Lemma compare_present f a b : In f [F_eq; F_neq; F_lt; F_lte; F_gt; F_gte] ->
  exists r, pure_sem f [Some a; Some b] = Some (Some (JBool r)).
Proof.
  intros Hf. cbv [In] in Hf.
  repeat (destruct Hf as [<-|Hf]; [eexists; reflexivity|]). destruct Hf.
Qed.

(* not: "Return false if the argument is true and true if the argument is false." *)
Lemma not_spec b : pure_sem F_not [Some (JBool b)] = Some (Some (JBool (negb b))).
Proof. reflexivity. Qed.
Lemma not_wrong_type vals : not_bool (arg vals 0%nat) -> pure_sem F_not vals = Some None.
Proof.
  intros H. cbv [pure_sem core_fn core_sem].
  destruct (arg vals 0%nat) as [[| | | | |]|]; try reflexivity; destruct H.
Qed.

(* xor: "Return true if one, and only one, of the argument is true." *)
Lemma xor_spec a b : pure_sem F_xor [Some (JBool a); Some (JBool b)] = Some (Some (JBool (xorb a b))).
Proof. reflexivity. Qed.
Lemma xor_wrong_type vals : not_bool (arg vals 0%nat) \/ not_bool (arg vals 1%nat) ->
  pure_sem F_xor vals = Some None.
Proof.
  intros H. cbv [pure_sem core_fn core_sem].
  destruct (arg vals 0%nat) as [[| | | | |]|], (arg vals 1%nat) as [[| | | | |]|];
    try reflexivity; destruct H as [H|H]; destruct H.
Qed.

(* and: "Return true if all the arguments are true, nothing if there is a non boolean argument and
   false if there is a false argument."  The code scans from the left and stops at the first
   argument that is not `true`; so the FIRST such argument decides. *)
Definition jtrue : option json := Some (JBool true).
Definition jfalse : option json := Some (JBool false).

Lemma and_bools bs :
  pure_sem F_and (map (fun b => Some (JBool b)) bs) = Some (Some (JBool (forallb (fun b => b) bs))).
Proof.
  cbv [pure_sem core_fn core_sem]. f_equal.
  induction bs as [|[] t IH]; cbn [map and_sem forallb andb]; [reflexivity|exact IH|reflexivity].
Qed.
Lemma and_prefix_true pre rest : Forall (fun v => v = jtrue) pre ->
  pure_sem F_and (pre ++ rest) = pure_sem F_and rest.
Proof.
  intros H. cbv [pure_sem core_fn core_sem]. f_equal.
  induction H as [|v t Hv _ IH]; [reflexivity|]. subst v. exact IH.
Qed.
Lemma and_first_false pre rest : Forall (fun v => v = jtrue) pre ->
  pure_sem F_and (pre ++ jfalse :: rest) = Some (Some (JBool false)).
Proof. intros H. now rewrite and_prefix_true. Qed.
Lemma and_first_nonbool pre v rest : Forall (fun v => v = jtrue) pre -> not_bool v ->
  pure_sem F_and (pre ++ v :: rest) = Some None.
Proof.
  intros H Hv. rewrite and_prefix_true by exact H.
  destruct v as [[| | | | |]|]; try reflexivity. destruct Hv.
Qed.
Lemma and_wrong_type v rest : not_bool v -> pure_sem F_and (v :: rest) = Some None.
Proof. apply (and_first_nonbool [] v rest). constructor. Qed.

(* or: "Return true if any of the arguments are true, nothing if there is a non boolean argument
   and false if all the arguments are false."  Again the first argument that is not `false` decides. *)
Lemma or_bools bs :
  pure_sem F_or (map (fun b => Some (JBool b)) bs) = Some (Some (JBool (existsb (fun b => b) bs))).
Proof.
  cbv [pure_sem core_fn core_sem]. f_equal.
  induction bs as [|[] t IH]; cbn [map or_sem existsb orb]; [reflexivity|reflexivity|exact IH].
Qed.
Lemma or_prefix_false pre rest : Forall (fun v => v = jfalse) pre ->
  pure_sem F_or (pre ++ rest) = pure_sem F_or rest.
Proof.
  intros H. cbv [pure_sem core_fn core_sem]. f_equal.
  induction H as [|v t Hv _ IH]; [reflexivity|]. subst v. exact IH.
Qed.
Lemma or_first_true pre rest : Forall (fun v => v = jfalse) pre ->
  pure_sem F_or (pre ++ jtrue :: rest) = Some (Some (JBool true)).
Proof. intros H. now rewrite or_prefix_false. Qed.
Lemma or_first_nonbool pre v rest : Forall (fun v => v = jfalse) pre -> not_bool v ->
  pure_sem F_or (pre ++ v :: rest) = Some None.
Proof.
  intros H Hv. rewrite or_prefix_false by exact H.
  destruct v as [[| | | | |]|]; try reflexivity. destruct Hv.
Qed.
Lemma or_wrong_type v rest : not_bool v -> pure_sem F_or (v :: rest) = Some None.
Proof. apply (or_first_nonbool [] v rest). constructor. Qed.

(* The sentence "nothing if there is a non boolean argument" is FALSE as a universal statement:
   a non-boolean argument AFTER the deciding one is never looked at. *)
Example and_nonbool_after_false :
  pure_sem F_and [jfalse; Some (JNum (NPos 12))] = Some (Some (JBool false))
  /\ pure_sem F_and [Some (JNum (NPos 12)); jfalse] = Some None.
Proof. split; reflexivity. Qed.
Example or_nonbool_after_true :
  pure_sem F_or [jtrue; Some (JNum (NPos 12))] = Some (Some (JBool true))
  /\ pure_sem F_or [Some (JNum (NPos 12)); jtrue] = Some None.
Proof. split; reflexivity. Qed.

(* ? (if): "Return the second argument if the first argument is true. Return the third argument if
   the first is false. Return nothing if the first argument is not Boolean" *)
Lemma if_true a b : pure_sem F_if [jtrue; a; b] = Some a.
Proof. reflexivity. Qed.
Lemma if_false a b : pure_sem F_if [jfalse; a; b] = Some b.
Proof. reflexivity. Qed.
Lemma if_wrong_type vals : not_bool (arg vals 0%nat) -> pure_sem F_if vals = Some None.
Proof.
  intros H. cbv [pure_sem core_fn core_sem].
  destruct (arg vals 0%nat) as [[| | | | |]|]; try reflexivity; destruct H.
Qed.

(* default: "Get the first non empty value." *)
Lemma default_spec vals : pure_sem F_default vals = Some (hd_error (present vals)).
Proof.
  cbv [pure_sem core_fn core_sem]. f_equal.
  induction vals as [|[v|] t IH]; [reflexivity|reflexivity|exact IH].
Qed.
Lemma default_skips_absent n v rest :
  pure_sem F_default (repeat None n ++ Some v :: rest) = Some (Some v).
Proof. rewrite default_spec. induction n as [|n IH]; [reflexivity|exact IH]. Qed.
Lemma default_all_absent n : pure_sem F_default (repeat None n) = Some None.
Proof. rewrite default_spec. induction n as [|n IH]; [reflexivity|exact IH]. Qed.

End Booleans.

(* ====================================================================================== *)
(* 8. number: abs, ceil, floor, round, +, -, *, /, %, sum                                  *)
(* ====================================================================================== *)
Section Numbers.
Local Open Scope Z_scope.

(* ---- impl From<f64> for JsonValue: "numeric results with zero fractional part are integers" ---- *)
Lemma num_of_f_integral bits z : f_integral bits = Some z -> - p63 < z < p64 ->
  num_of_f bits = if f_is_neg_strict bits then NNeg z else NPos (Z.to_N z).
Proof.
  intros Hi [Hlo Hhi]. unfold num_of_f. rewrite Hi. destruct (f_is_neg_strict bits).
  - destruct (Z.ltb_spec (- p63) z); [reflexivity|lia].
  - destruct (Z.ltb_spec z p64); [reflexivity|lia].
Qed.

Lemma num_of_f_integral_is_integer bits z : f_integral bits = Some z -> - p63 < z < p64 ->
  match num_of_f bits with NFlt _ => False | _ => True end.
Proof. intros Hi Hr. rewrite (num_of_f_integral bits z Hi Hr). now destruct (f_is_neg_strict bits). Qed.

Lemma num_of_f_nonintegral bits : f_integral bits = None -> num_of_f bits = NFlt bits.
Proof. intros H. unfold num_of_f. now rewrite H. Qed.

(* a result stays a float only when it has a fractional part, is not finite, or is out of range *)
Lemma num_of_f_float_only_if bits b' : num_of_f bits = NFlt b' ->
  b' = bits /\ (f_integral bits = None \/ exists z, f_integral bits = Some z /\ (z <= - p63 \/ p64 <= z)).
Proof.
  unfold num_of_f. destruct (f_integral bits) as [z|] eqn:Hi.
  - destruct (f_is_neg_strict bits).
    + destruct (Z.ltb_spec (- p63) z) as [H|H]; [discriminate|].
      intros E. injection E as <-. split; [reflexivity|right]. exists z. split; [reflexivity|lia].
    + destruct (Z.ltb_spec z p64) as [H|H]; [discriminate|].
      intros E. injection E as <-. split; [reflexivity|right]. exists z. split; [reflexivity|lia].
  - intros E. injection E as <-. split; [reflexivity|now left].
Qed.

Lemma f_decode_fin_nonneg bits s m e : f_decode bits = FFin s m e -> 0 <= m.
Proof.
  unfold f_decode.
  assert (Hp : 0 < p52) by reflexivity.
  pose proof (Z.mod_pos_bound (f_mag (Z.of_N bits)) p52 Hp) as Hb.
  destruct (f_mag (Z.of_N bits) / p52 =? 2047).
  - destruct (f_mag (Z.of_N bits) mod p52 =? 0); discriminate.
  - destruct (f_mag (Z.of_N bits) / p52 =? 0); intros E; injection E as <- <- <-; lia.
Qed.

(* the integer constructors are canonical: NNeg carries a negative value (so -0.0 becomes 0) *)
Lemma num_of_f_sign bits :
  match num_of_f bits with NNeg z => z < 0 | _ => True end.
Proof.
  unfold num_of_f. destruct (f_integral bits) as [z|] eqn:Hi; [|exact I].
  destruct (f_is_neg_strict bits) eqn:Hn; [|now destruct (z <? p64)].
  destruct (- p63 <? z); [|exact I].
  unfold f_integral in Hi. unfold f_is_neg_strict in Hn.
  destruct (f_decode bits) as [| |s m e] eqn:Hd; try discriminate Hi.
  pose proof (f_decode_fin_nonneg bits s m e Hd) as Hm.
  destruct s; [|discriminate Hn].
  destruct (Z.eqb_spec m 0) as [->|Hm0]; [discriminate Hn|].
  destruct (Z.leb_spec 0 e) as [He|He].
  - injection Hi as <-. assert (Hp : 0 < 2 ^ e) by (apply Z.pow_pos_nonneg; lia).
    assert (Hmp : 0 < m * 2 ^ e) by (apply Z.mul_pos_pos; lia).
    fold (Z.opp m). rewrite Z.mul_opp_l. lia.
  - assert (Hd2 : 0 < 2 ^ (- e)) by (apply Z.pow_pos_nonneg; lia).
    destruct (Z.eqb_spec (m mod 2 ^ (- e)) 0) as [Hmod|Hmod]; [|discriminate Hi].
    injection Hi as <-.
    assert (Hq : 0 < m / 2 ^ (- e)).
    { apply Z.div_str_pos. split; [exact Hd2|].
      apply Z.divide_pos_le; [lia|]. apply Z.mod_divide; [lia|exact Hmod]. }
    fold (Z.opp (m / 2 ^ (- e))). lia.
Qed.

(* ---- unary functions: "If the argument is numeric, return it's absolute value / ceiling /
   floor / rounded." ---- *)
Lemma unary_spec n :
  pure_sem F_abs [Some (JNum n)] = Some (Some (JNum (num_of_f (f_abs (num_to_f n)))))
  /\ pure_sem F_ceil [Some (JNum n)] = Some (Some (JNum (num_of_f (f_ceil (num_to_f n)))))
  /\ pure_sem F_floor [Some (JNum n)] = Some (Some (JNum (num_of_f (f_floor (num_to_f n)))))
  /\ pure_sem F_round [Some (JNum n)] = Some (Some (JNum (num_of_f (f_round (num_to_f n))))).
Proof. repeat split; reflexivity. Qed.

Lemma unary_wrong_type f vals : In f [F_abs; F_ceil; F_floor; F_round] ->
  not_num (arg vals 0%nat) -> pure_sem f vals = Some None.
Proof.
  intros Hf H. cbv [In] in Hf.
  repeat (destruct Hf as [<-|Hf]; [cbv [pure_sem core_fn sem_coll sem_num unary_sem as_f];
    destruct (arg vals 0%nat) as [[| | | | |]|]; try reflexivity; destruct H|]).
  destruct Hf.
Qed.

(* ---- +, * : "If all the arguments are number, add / multiply them." ---- *)
Lemma fold_sem_nums op ns : forall acc,
  fold_sem op acc (map (fun n => Some (JNum n)) ns)
  = Some (JNum (num_of_f (fold_left op (map num_to_f ns) acc))).
Proof. induction ns as [|n t IH]; intros acc; [reflexivity|]. cbn [map fold_sem as_f fold_left]. apply IH. Qed.

Lemma fold_sem_not_num op vals : (exists v, In v vals /\ not_num v) -> forall acc, fold_sem op acc vals = None.
Proof.
  induction vals as [|x t IH]; intros (v & Hin & Hv) acc; [destruct Hin|].
  destruct Hin as [->|Hin].
  - destruct v as [[| | | | |]|]; try reflexivity. destruct Hv.
  - cbn [fold_sem]. destruct (as_f x); [|reflexivity]. apply IH. exists v. now split.
Qed.

Lemma add_spec ns :
  pure_sem F_add (map (fun n => Some (JNum n)) ns)
  = Some (Some (JNum (num_of_f (fold_left f_add (map num_to_f ns) (f_zero false))))).
Proof. cbv [pure_sem core_fn sem_coll sem_num]. now rewrite fold_sem_nums. Qed.
Lemma mul_spec ns :
  pure_sem F_mul (map (fun n => Some (JNum n)) ns)
  = Some (Some (JNum (num_of_f (fold_left f_mul (map num_to_f ns) f_one)))).
Proof. cbv [pure_sem core_fn sem_coll sem_num]. now rewrite fold_sem_nums. Qed.
(* examples: plus 1 3 false, times 2 true : nothing *)
Lemma add_wrong_type vals : (exists v, In v vals /\ not_num v) -> pure_sem F_add vals = Some None.
Proof. intros H. cbv [pure_sem core_fn sem_coll sem_num]. now rewrite fold_sem_not_num. Qed.
Lemma mul_wrong_type vals : (exists v, In v vals /\ not_num v) -> pure_sem F_mul vals = Some None.
Proof. intros H. cbv [pure_sem core_fn sem_coll sem_num]. now rewrite fold_sem_not_num. Qed.

(* ---- /, % : "Divide the firs argument by the second argument. If the second argument is 0 will
   return nothing" ---- *)
Lemma div_spec x y :
  pure_sem F_div [Some (JNum x); Some (JNum y)]
  = Some (if f_eqb (num_to_f y) (f_zero false) then None
          else Some (JNum (num_of_f (f_div (num_to_f x) (num_to_f y))))).
Proof. reflexivity. Qed.
Lemma rem_spec x y :
  pure_sem F_rem [Some (JNum x); Some (JNum y)]
  = Some (if f_eqb (num_to_f y) (f_zero false) then None
          else Some (JNum (num_of_f (f_rem (num_to_f x) (num_to_f y))))).
Proof. reflexivity. Qed.
Lemma div_by_zero x :
  pure_sem F_div [Some (JNum x); Some (JNum (NPos 0))] = Some None
  /\ pure_sem F_rem [Some (JNum x); Some (JNum (NPos 0))] = Some None
  /\ pure_sem F_div [Some (JNum x); Some (JNum (NFlt (f_zero true)))] = Some None.
Proof. repeat split; reflexivity. Qed.
Lemma div_rem_wrong_type f vals : In f [F_div; F_rem] ->
  not_num (arg vals 0%nat) \/ not_num (arg vals 1%nat) -> pure_sem f vals = Some None.
Proof.
  intros Hf H. cbv [In] in Hf.
  repeat (destruct Hf as [<-|Hf]; [cbv [pure_sem core_fn sem_coll sem_num guarded_sem as_f];
    destruct (arg vals 0%nat) as [[| | | | |]|], (arg vals 1%nat) as [[| | | | |]|];
    try reflexivity; destruct H as [H|H]; destruct H|]).
  destruct Hf.
Qed.

(* ---- - : "If there are two numeric arguments, substract the second argument from the first one.
   If there is one numeric arguments, return the negative of that number." ---- *)
Lemma sub_two x y :
  pure_sem F_sub_ [Some (JNum x); Some (JNum y)]
  = Some (Some (JNum (num_of_f (f_sub (num_to_f x) (num_to_f y))))).
Proof. reflexivity. Qed.
Lemma sub_one x :
  pure_sem F_sub_ [Some (JNum x)] = Some (Some (JNum (num_of_f (f_sub (f_zero false) (num_to_f x))))).
Proof. reflexivity. Qed.
Lemma sub_wrong_type_one v : not_num v -> pure_sem F_sub_ [v] = Some None.
Proof. intros H. destruct v as [[| | | | |]|]; try reflexivity; destruct H. Qed.
Lemma sub_wrong_type_two a b : not_num a \/ not_num b -> pure_sem F_sub_ [a; b] = Some None.
Proof.
  intros H. destruct a as [[| | | | |]|], b as [[| | | | |]|]; try reflexivity;
    destruct H as [H|H]; destruct H.
Qed.

(* ---- every numeric result is normalised through `num_of_f` ---- *)
Lemma fold_sem_shape op vals : forall acc,
  (exists bits, fold_sem op acc vals = Some (JNum (num_of_f bits))) \/ fold_sem op acc vals = None.
Proof.
  induction vals as [|v t IH]; intros acc; cbn [fold_sem]; [left; now eexists|].
  destruct (as_f v); [apply IH|now right].
Qed.

Theorem numeric_results_normalised f vals :
  In f [F_add; F_sub_; F_mul; F_div; F_rem; F_abs; F_floor; F_ceil; F_round] ->
  (exists bits, pure_sem f vals = Some (Some (JNum (num_of_f bits)))) \/ pure_sem f vals = Some None.
Proof.
  intros Hf. cbv [In] in Hf.
  destruct Hf as [<-|[<-|[<-|[<-|[<-|[<-|[<-|[<-|[<-|Hf]]]]]]]]]; [| | | | | | | | |destruct Hf];
    cbv [pure_sem core_fn sem_coll sem_num unary_sem guarded_sem FunsNum.sub_sem jflt].
  - destruct (fold_sem_shape f_add vals (f_zero false)) as [(b & ->)| ->]; [left; now eexists|now right].
  - destruct (Nat.eqb (length vals) 1);
      repeat match goal with |- context [as_f ?v] => destruct (as_f v) end;
      (left; now eexists) || now right.
  - destruct (fold_sem_shape f_mul vals f_one) as [(b & ->)| ->]; [left; now eexists|now right].
  - destruct (as_f (arg vals 0%nat)), (as_f (arg vals 1%nat)); try (now right).
    destruct (f_eqb _ _); [now right|left; now eexists].
  - destruct (as_f (arg vals 0%nat)), (as_f (arg vals 1%nat)); try (now right).
    destruct (f_eqb _ _); [now right|left; now eexists].
  - destruct (as_f (arg vals 0%nat)); [left; now eexists|now right].
  - destruct (as_f (arg vals 0%nat)); [left; now eexists|now right].
  - destruct (as_f (arg vals 0%nat)); [left; now eexists|now right].
  - destruct (as_f (arg vals 0%nat)); [left; now eexists|now right].
Qed.

(* hence: never a float with zero fractional part in i64/u64 range, never a "negative zero" *)
Corollary numeric_results_integral f vals n :
  In f [F_add; F_sub_; F_mul; F_div; F_rem; F_abs; F_floor; F_ceil; F_round] ->
  pure_sem f vals = Some (Some (JNum n)) ->
  match n with
  | NFlt b => f_integral b = None \/ exists z, f_integral b = Some z /\ (z <= - p63 \/ p64 <= z)
  | NNeg z => z < 0
  | NPos _ => True
  end.
Proof.
  intros Hf H. destruct (numeric_results_normalised f vals Hf) as [(bits & E)|E]; rewrite E in H;
    [|discriminate H].
  injection H as <-. pose proof (num_of_f_sign bits) as Hs.
  destruct (num_of_f bits) as [k|z|b] eqn:En; [exact I|exact Hs|].
  destruct (num_of_f_float_only_if bits b En) as [-> Hc]. exact Hc.
Qed.

(* sum: an exact integer sum, or the f64 sum normalised the same way *)
Lemma sum_result_shape vals :
  pure_sem F_sum vals = Some None
  \/ (exists z, pure_sem F_sum vals = Some (Some (JNum (if z <? 0 then NNeg z else NPos (Z.to_N z)))))
  \/ (exists bits, pure_sem F_sum vals = Some (Some (JNum (num_of_f bits)))).
Proof.
  cbv [pure_sem core_fn sem_coll FunsColl.sum_sem].
  destruct (arg vals 0%nat) as [[| | | | |l]|] eqn:E0; try (now left).
  destruct (negb (forallb is_num l)); [now left|].
  destruct (sum_exact l 0) as [z|]; [right; left; now exists z|].
  cbv [sem_num FunsNum.sum_sem]. rewrite E0.
  destruct (fold_sem_shape f_add (map Some l) (f_zero false)) as [(b & ->)| ->];
    [right; right; now exists b|now left].
Qed.

End Numbers.

(* ====================================================================================== *)
(* 9. the binders: map, filter, flat_map, sort_by, fold, group_by, filter_keys,             *)
(*    filter_values — stated on `eval` for any `opaque` and any macro fuel `mf`             *)
(* ====================================================================================== *)
Section Binders.
Variable opaque : fn -> list (option json) -> option json.
Notation ev := (eval opaque).

Definition opt_list (r : option json) : list json := match r with Some y => [y] | None => [] end.
Definition arr_items (r : option json) : list json := match r with Some (JArr y) => y | _ => [] end.
Definition is_jtrue (r : option json) : bool := match r with Some (JBool true) => true | _ => false end.

(* one unfolding of eval at a two-argument list binder (holds by computation for each fuel) *)
Definition list_binder_post (f : fn) (l : list json) (rs : list (option json)) : outcome :=
  match f with
  | F_map => Val (Some (JArr (flat_map opt_list rs)))
  | F_filter => Val (Some (JArr (map fst (filter (fun p => is_jtrue (snd p)) (combine l rs)))))
  | F_flat_map => Val (Some (JArr (flat_map arr_items rs)))
  | _ => Val (Some (JArr (map fst (ssort (fun a b => ojcmp (snd a) (snd b)) (combine l rs)))))
  end.

Lemma eval_list_binder mf f a b c :
  In f [F_map; F_filter; F_flat_map; F_sort_by] ->
  ev mf (ECall f [a; b]) c
  = match ev mf a c with
    | Val (Some (JArr l)) =>
        match all_vals (map (fun v => ev mf b (with_input c v)) l) with
        | None => OutOfFuel
        | Some rs => list_binder_post f l rs
        end
    | OutOfFuel => OutOfFuel
    | _ => Val None
    end.
Proof.
  intros Hf. cbv [In] in Hf.
  destruct Hf as [<-|[<-|[<-|[<-|[]]]]]; destruct mf; reflexivity.
Qed.

Lemma all_vals_Val {A} (r : A -> option json) l : all_vals (map (fun x => Val (r x)) l) = Some (map r l).
Proof. induction l as [|x t IH]; [reflexivity|]. cbn [map all_vals]. now rewrite IH. Qed.

Lemma all_vals_body mf b c l (r : json -> option json) :
  (forall x, In x l -> ev mf b (with_input c x) = Val (r x)) ->
  all_vals (map (fun v => ev mf b (with_input c v)) l) = Some (map r l).
Proof.
  intros H. rewrite (map_ext_in _ (fun x => Val (r x)) l H). apply all_vals_Val.
Qed.

Lemma flat_map_map {A B C} (f : B -> list C) (g : A -> B) l :
  flat_map f (map g l) = flat_map (fun x => f (g x)) l.
Proof. induction l as [|x t IH]; [reflexivity|]. cbn [map flat_map]. now rewrite IH. Qed.

Lemma filter_combine_map {A B} (test : B -> bool) (r : A -> B) l :
  map fst (filter (fun p => test (snd p)) (combine l (map r l))) = filter (fun x => test (r x)) l.
Proof.
  induction l as [|x t IH]; [reflexivity|]. cbn [map combine filter snd].
  destruct (test (r x)); cbn [map fst]; now rewrite IH.
Qed.

Lemma combine_map_self {A B} (r : A -> B) l : combine l (map r l) = map (fun x => (x, r x)) l.
Proof. induction l as [|x t IH]; [reflexivity|]. cbn [map combine]. now rewrite IH. Qed.

(* map: "If the first argument is a list, activate the second argument on each item and collect
   into a new list."  Items on which the function gives nothing are dropped; order is kept. *)
Theorem map_spec mf a b c l (r : json -> option json) :
  ev mf a c = Val (Some (JArr l)) ->
  (forall x, In x l -> ev mf b (with_input c x) = Val (r x)) ->
  ev mf (ECall F_map [a; b]) c = Val (Some (JArr (flat_map (fun x => opt_list (r x)) l))).
Proof.
  intros Ha Hb. rewrite eval_list_binder by (cbv [In]; tauto).
  rewrite Ha, (all_vals_body mf b c l r Hb). cbn [list_binder_post]. now rewrite flat_map_map.
Qed.

Corollary map_total_spec mf a b c l (g : json -> json) :
  ev mf a c = Val (Some (JArr l)) ->
  (forall x, In x l -> ev mf b (with_input c x) = Val (Some (g x))) ->
  ev mf (ECall F_map [a; b]) c = Val (Some (JArr (map g l))).
Proof.
  intros Ha Hb. rewrite (map_spec mf a b c l (fun x => Some (g x)) Ha Hb).
  cbn [opt_list]. now rewrite flat_map_singleton.
Qed.

(* filter: "return all the values for which the second argument is [true]" *)
Theorem filter_spec mf a b c l (r : json -> option json) :
  ev mf a c = Val (Some (JArr l)) ->
  (forall x, In x l -> ev mf b (with_input c x) = Val (r x)) ->
  ev mf (ECall F_filter [a; b]) c = Val (Some (JArr (filter (fun x => is_jtrue (r x)) l))).
Proof.
  intros Ha Hb. rewrite eval_list_binder by (cbv [In]; tauto).
  rewrite Ha, (all_vals_body mf b c l r Hb). cbn [list_binder_post].
  now rewrite (filter_combine_map is_jtrue r l).
Qed.

(* flat_map: "activate the second argument on each item, and if that returns a list, add all the
   items to a new list." *)
Theorem flat_map_spec mf a b c l (r : json -> option json) :
  ev mf a c = Val (Some (JArr l)) ->
  (forall x, In x l -> ev mf b (with_input c x) = Val (r x)) ->
  ev mf (ECall F_flat_map [a; b]) c = Val (Some (JArr (flat_map (fun x => arr_items (r x)) l))).
Proof.
  intros Ha Hb. rewrite eval_list_binder by (cbv [In]; tauto).
  rewrite Ha, (all_vals_body mf b c l r Hb). cbn [list_binder_post]. now rewrite flat_map_map.
Qed.

(* a first argument that is not a list gives nothing (examples `(map {} true)`, `(filter {} true)`) *)
Lemma list_binder_wrong_type mf f a b c v :
  In f [F_map; F_filter; F_flat_map; F_sort_by] ->
  ev mf a c = Val v -> not_arr v -> ev mf (ECall f [a; b]) c = Val None.
Proof.
  intros Hf Ha Hv. rewrite eval_list_binder by exact Hf. rewrite Ha.
  destruct v as [[| | | | |]|]; try reflexivity. destruct Hv.
Qed.

(* sort_by: "If the first argument is a list, return list sorted by the second argument."
   (nothing sorts first: example `(sort_by ["12345", "", 10] (len .))` = [10, "", "12345"]) *)
Lemma ojcmp_asym a b : ojcmp a b = Gt -> ojcmp b a <> Gt.
Proof. destruct a, b; cbn [ojcmp]; try discriminate. apply jcmpS_asym. Qed.

Lemma sorted_map_fst {A B} (R : B -> B -> Prop) (r : A -> B) (ps : list (A * B)) :
  Sorted (fun p q => R (snd p) (snd q)) ps -> Forall (fun p => snd p = r (fst p)) ps ->
  Sorted (fun x y => R (r x) (r y)) (map fst ps).
Proof.
  induction 1 as [|p ps Hs IH Hh]; intros Hf; [constructor|].
  inversion Hf as [|? ? Hp Hps]; subst. cbn [map]. constructor; [now apply IH|].
  destruct Hh as [|q ps' Hpq]; [constructor|]. cbn [map]. constructor.
  inversion Hps as [|? ? Hq _]; subst. now rewrite <- Hp, <- Hq.
Qed.

Theorem sort_by_spec mf a b c l (r : json -> option json) :
  ev mf a c = Val (Some (JArr l)) ->
  (forall x, In x l -> ev mf b (with_input c x) = Val (r x)) ->
  exists res, ev mf (ECall F_sort_by [a; b]) c = Val (Some (JArr res))
              /\ Permutation res l
              /\ Sorted (fun x y => ojcmp (r x) (r y) <> Gt) res.
Proof.
  intros Ha Hb. rewrite eval_list_binder by (cbv [In]; tauto).
  rewrite Ha, (all_vals_body mf b c l r Hb). cbn [list_binder_post].
  rewrite combine_map_self.
  set (cmp := fun a0 b0 : json * option json => ojcmp (snd a0) (snd b0)).
  set (ps := map (fun x => (x, r x)) l).
  assert (Hperm : Permutation (ssort cmp ps) ps) by apply ssort_perm.
  eexists. split; [reflexivity|]. split.
  - apply (Permutation_map fst) in Hperm. unfold ps in Hperm at 2.
    rewrite map_map in Hperm. cbn [fst] in Hperm. now rewrite map_id in Hperm.
  - apply (sorted_map_fst (fun u v => ojcmp u v <> Gt) r).
    + apply (ssort_sorted cmp). intros p q. apply ojcmp_asym.
    + eapply Permutation_Forall; [apply Permutation_sym, Hperm|].
      unfold ps. apply Forall_forall. intros p Hp. apply in_map_iff in Hp as (x & <- & _). reflexivity.
Qed.

(* ---- fold: "The function will accespt as input an hash with `value`, `index` and `so_far` keys
   (if the previous run returned nothing, the `so_far` will be empty)." ---- *)
Definition fold_input (cur : option json) (v : json) (idx : nat) : json :=
  JObj (match cur with Some s => [(key_so_far, s)] | None => [] end
        ++ [(key_value, v); (key_index, JNum (NPos (N.of_nat idx)))]).

Definition fold_loop (step : ctx -> outcome) (c : ctx) : list json -> nat -> option json -> outcome :=
  fix loop (l : list json) (idx : nat) (cur : option json) : outcome :=
    match l with
    | [] => Val cur
    | v :: t => match step (with_input c (fold_input cur v idx)) with
                | Val r => loop t (S idx) r
                | OutOfFuel => OutOfFuel
                end
    end.

Lemma eval_fold3 mf a i g c :
  ev mf (ECall F_fold [a; i; g]) c
  = match ev mf a c with
    | Val (Some (JArr l)) =>
        match ev mf i c with
        | OutOfFuel => OutOfFuel
        | Val init => fold_loop (ev mf g) c l O init
        end
    | OutOfFuel => OutOfFuel
    | _ => Val None
    end.
Proof. destruct mf; reflexivity. Qed.

Lemma eval_fold2 mf a g c :
  ev mf (ECall F_fold [a; g]) c
  = match ev mf a c with
    | Val (Some (JArr l)) => fold_loop (ev mf g) c l O None
    | OutOfFuel => OutOfFuel
    | _ => Val None
    end.
Proof. destruct mf; reflexivity. Qed.

Lemma fold_loop_spec (stepf : ctx -> outcome) c (step : option json -> json -> nat -> option json) :
  (forall cur v idx, stepf (with_input c (fold_input cur v idx)) = Val (step cur v idx)) ->
  forall l idx cur,
  fold_loop stepf c l idx cur
  = Val (fold_left (fun cur p => step cur (snd p) (fst p)) (combine (seq idx (length l)) l) cur).
Proof.
  intros Hs. induction l as [|v t IH]; intros idx cur; [reflexivity|].
  cbn [fold_loop length seq combine fold_left fst snd]. rewrite Hs. apply IH.
Qed.

(* a left fold over the items in order, with their indices, from the initial value *)
Theorem fold_spec mf a i g c l init (step : option json -> json -> nat -> option json) :
  ev mf a c = Val (Some (JArr l)) ->
  ev mf i c = Val init ->
  (forall cur v idx, ev mf g (with_input c (fold_input cur v idx)) = Val (step cur v idx)) ->
  ev mf (ECall F_fold [a; i; g]) c
  = Val (fold_left (fun cur p => step cur (snd p) (fst p)) (combine (seq 0 (length l)) l) init).
Proof.
  intros Ha Hi Hg. rewrite eval_fold3, Ha, Hi. now apply fold_loop_spec.
Qed.

(* "If the fuinction has only two arguments, the initial value will not be set." *)
Theorem fold_no_init_spec mf a g c l (step : option json -> json -> nat -> option json) :
  ev mf a c = Val (Some (JArr l)) ->
  (forall cur v idx, ev mf g (with_input c (fold_input cur v idx)) = Val (step cur v idx)) ->
  ev mf (ECall F_fold [a; g]) c
  = Val (fold_left (fun cur p => step cur (snd p) (fst p)) (combine (seq 0 (length l)) l) None).
Proof.
  intros Ha Hg. rewrite eval_fold2, Ha. now apply fold_loop_spec.
Qed.

Lemma fold_empty_list mf a i g c init :
  ev mf a c = Val (Some (JArr [])) -> ev mf i c = Val init ->
  ev mf (ECall F_fold [a; i; g]) c = Val init.
Proof. intros Ha Hi. now rewrite eval_fold3, Ha, Hi. Qed.

Lemma fold_wrong_type mf a i g c v :
  ev mf a c = Val v -> not_arr v -> ev mf (ECall F_fold [a; i; g]) c = Val None.
Proof.
  intros Ha Hv. rewrite eval_fold3, Ha. destruct v as [[| | | | |]|]; try reflexivity. destruct Hv.
Qed.

End Binders.

(* ---- group_by: "If the first argument is a list, return list grouped by the second argument."
   Keys appear in the order in which they are first seen, the members of a group in the order of
   the list (example: {"2":["11","23","ab"],"1":["5","1"],"0":["",{}],"3":["100"]}). ---- *)
Section GroupBy.
Variable opaque : fn -> list (option json) -> option json.
Notation ev := (eval opaque).
Variable k : json -> str.          (* the key of an item *)

Definition add_key (ks : list str) (key : str) : list str :=
  if existsb (str_eqb key) ks then ks else ks ++ [key].
Definition first_seen (ks : list str) : list str := fold_left add_key ks [].
Definition members (key : str) (l : list json) : list json := filter (fun x => str_eqb (k x) key) l.
Definition groups_of (l : list json) : list (str * list json) :=
  map (fun key => (key, members key l)) (first_seen (map k l)).
Definition push_all (l : list json) (acc : list (str * list json)) : list (str * list json) :=
  fold_left (fun acc x => group_push_v (k x) x acc) l acc.

Lemma existsb_str_In key ks : existsb (str_eqb key) ks = true <-> In key ks.
Proof.
  rewrite existsb_exists. split.
  - intros (y & Hy & E). apply str_eqb_eq in E. now subst.
  - intros H. exists key. split; [exact H|apply str_eqb_refl].
Qed.
Lemma first_seen_snoc ks key : first_seen (ks ++ [key]) = add_key (first_seen ks) key.
Proof. unfold first_seen. now rewrite fold_left_app. Qed.
Lemma first_seen_In ks key : In key (first_seen ks) <-> In key ks.
Proof.
  induction ks as [|x t IH] using rev_ind; [reflexivity|].
  rewrite first_seen_snoc, in_app_iff. unfold add_key.
  destruct (existsb (str_eqb x) (first_seen t)) eqn:E.
  - apply existsb_str_In in E. cbn [In]. split; [tauto|].
    intros [H|[<-|[]]]; [now apply IH|exact E].
  - rewrite in_app_iff. cbn [In]. tauto.
Qed.
Lemma first_seen_NoDup ks : NoDup (first_seen ks).
Proof.
  induction ks as [|x t IH] using rev_ind; [constructor|].
  rewrite first_seen_snoc. unfold add_key.
  destruct (existsb (str_eqb x) (first_seen t)) eqn:E; [exact IH|].
  eapply Permutation_NoDup; [apply Permutation_cons_append|]. constructor; [|exact IH].
  intros Hin. apply existsb_str_In in Hin. congruence.
Qed.
Lemma members_snoc key l x :
  members key (l ++ [x]) = members key l ++ (if str_eqb (k x) key then [x] else []).
Proof. unfold members. rewrite filter_app. reflexivity. Qed.
Lemma members_nil key l : ~ In key (map k l) -> members key l = [].
Proof.
  intros H. unfold members. induction l as [|y t IH]; [reflexivity|]. cbn [filter].
  rewrite str_eqb_neq; [apply IH|]; intros E; apply H; cbn [map In]; tauto.
Qed.

Lemma groups_other_keys l x K : (forall key, In key K -> key <> k x) ->
  map (fun key => (key, members key (l ++ [x]))) K = map (fun key => (key, members key l)) K.
Proof.
  intros H. apply map_ext_in. intros key Hk. rewrite members_snoc.
  rewrite (str_eqb_neq (k x) key); [now rewrite app_nil_r|]. intros E. now apply (H key Hk).
Qed.
Lemma push_absent l x K : ~ In (k x) K ->
  group_push_v (k x) x (map (fun key => (key, members key l)) K)
  = map (fun key => (key, members key l)) K ++ [(k x, [x])].
Proof.
  induction K as [|key K IH]; intros H; [reflexivity|]. cbn [map group_push_v app].
  rewrite str_eqb_neq by (intros E; apply H; now left).
  rewrite IH; [reflexivity|]. intros Hin. apply H. now right.
Qed.
Lemma push_present l x K : NoDup K -> In (k x) K ->
  group_push_v (k x) x (map (fun key => (key, members key l)) K)
  = map (fun key => (key, members key (l ++ [x]))) K.
Proof.
  induction K as [|key K IH]; intros Hnd Hin; [destruct Hin|]. cbn [map group_push_v].
  inversion Hnd as [|? ? Hnotin HndK]; subst.
  destruct (str_eqb (k x) key) eqn:E.
  - apply str_eqb_eq in E. subst key. rewrite members_snoc, str_eqb_refl. f_equal.
    symmetry. apply groups_other_keys. intros key Hk E. subst key. contradiction.
  - destruct Hin as [Hin|Hin]; [subst key; now rewrite str_eqb_refl in E|].
    rewrite (IH HndK Hin). f_equal. rewrite members_snoc, E. now rewrite app_nil_r.
Qed.

(* the IndexMap built by group_by is exactly: first-seen keys, each with its members in order *)
Lemma push_all_groups l : push_all l [] = groups_of l.
Proof.
  induction l as [|x t IH] using rev_ind; [reflexivity|].
  unfold push_all in *. rewrite fold_left_app. cbn [fold_left]. rewrite IH.
  unfold groups_of. rewrite map_app. cbn [map]. rewrite first_seen_snoc. unfold add_key.
  destruct (existsb (str_eqb (k x)) (first_seen (map k t))) eqn:E.
  - apply existsb_str_In in E. apply push_present; [apply first_seen_NoDup|exact E].
  - assert (Hnot : ~ In (k x) (first_seen (map k t))).
    { intros Hin. apply existsb_str_In in Hin. congruence. }
    rewrite push_absent by exact Hnot. rewrite map_app. cbn [map].
    rewrite groups_other_keys by (intros key Hk Ek; subst key; contradiction).
    rewrite members_snoc, str_eqb_refl, members_nil; [reflexivity|].
    intros Hin. apply Hnot. now apply first_seen_In.
Qed.

Definition grp_loop : list (json * option json) -> list (str * list json) -> outcome :=
  fix grp (prs : list (json * option json)) (acc : list (str * list json)) : outcome :=
    match prs with
    | [] => Val (Some (JObj (map (fun kl => (fst kl, JArr (snd kl))) acc)))
    | (item, Some (JStr key)) :: t => grp t (group_push_v key item acc)
    | _ => Val None
    end.

Lemma eval_group_by mf a b c :
  ev mf (ECall F_group_by [a; b]) c
  = match ev mf a c with
    | Val (Some (JArr l)) =>
        match all_vals (map (fun v => ev mf b (with_input c v)) l) with
        | None => OutOfFuel
        | Some rs => grp_loop (combine l rs) []
        end
    | OutOfFuel => OutOfFuel
    | _ => Val None
    end.
Proof. destruct mf; reflexivity. Qed.

Lemma grp_loop_strings l (r : json -> option json) :
  (forall x, In x l -> r x = Some (JStr (k x))) -> forall acc,
  grp_loop (combine l (map r l)) acc
  = Val (Some (JObj (map (fun kl => (fst kl, JArr (snd kl))) (push_all l acc)))).
Proof.
  induction l as [|x t IH]; intros H acc; [reflexivity|].
  cbn [map combine grp_loop]. rewrite (H x (or_introl eq_refl)).
  rewrite IH by (intros y Hy; apply H; now right). reflexivity.
Qed.

Theorem group_by_spec mf a b c l :
  ev mf a c = Val (Some (JArr l)) ->
  (forall x, In x l -> ev mf b (with_input c x) = Val (Some (JStr (k x)))) ->
  ev mf (ECall F_group_by [a; b]) c
  = Val (Some (JObj (map (fun key => (key, JArr (filter (fun x => str_eqb (k x) key) l)))
                         (first_seen (map k l))))).
Proof.
  intros Ha Hb. rewrite eval_group_by, Ha.
  rewrite (all_vals_body opaque mf b c l (fun x => Some (JStr (k x))) Hb).
  rewrite grp_loop_strings by reflexivity. rewrite push_all_groups.
  unfold groups_of. now rewrite map_map.
Qed.

(* every item lands in exactly the group of its key, and every group is non-empty *)
Lemma group_by_groups_nonempty l key : In key (first_seen (map k l)) -> members key l <> [].
Proof.
  intros H. apply (proj1 (first_seen_In _ _)) in H. apply in_map_iff in H as (x & <- & Hx).
  intros E. assert (Hin : In x (members (k x) l)).
  { unfold members. apply filter_In. split; [exact Hx|apply str_eqb_refl]. }
  rewrite E in Hin. destruct Hin.
Qed.

(* example `(group_by [...] (len .))` : a key that is not a string makes the whole result nothing *)
Lemma grp_loop_nonstring l (r : json -> option json) :
  (exists x, In x l /\ not_str (r x)) -> forall acc, grp_loop (combine l (map r l)) acc = Val None.
Proof.
  induction l as [|y t IH]; intros (x & Hin & Hx) acc; [destruct Hin|].
  cbn [map combine grp_loop]. destruct Hin as [->|Hin].
  - destruct (r x) as [[| | | | |]|]; try reflexivity. destruct Hx.
  - destruct (r y) as [[| | | | |]|]; try reflexivity. apply IH. exists x. now split.
Qed.
Theorem group_by_nonstring_key mf a b c l (r : json -> option json) :
  ev mf a c = Val (Some (JArr l)) ->
  (forall x, In x l -> ev mf b (with_input c x) = Val (r x)) ->
  (exists x, In x l /\ not_str (r x)) ->
  ev mf (ECall F_group_by [a; b]) c = Val None.
Proof.
  intros Ha Hb Hx. rewrite eval_group_by, Ha, (all_vals_body opaque mf b c l r Hb).
  now apply grp_loop_nonstring.
Qed.

End GroupBy.

(* ---- object/functional: filter_keys, filter_values keep the selected members in order ---- *)
Section ObjectBinders.
Variable opaque : fn -> list (option json) -> option json.
Notation ev := (eval opaque).

Lemma eval_filter_keys mf a b c :
  ev mf (ECall F_filter_keys [a; b]) c
  = match ev mf a c with
    | Val (Some (JObj m)) =>
        match all_vals (map (fun kv => ev mf b (with_input c (JStr (fst kv)))) m) with
        | None => OutOfFuel
        | Some rs => Val (Some (JObj (map fst (filter (fun p => is_jtrue (snd p)) (combine m rs)))))
        end
    | OutOfFuel => OutOfFuel
    | _ => Val None
    end.
Proof. destruct mf; reflexivity. Qed.

Lemma eval_filter_values mf a b c :
  ev mf (ECall F_filter_values [a; b]) c
  = match ev mf a c with
    | Val (Some (JObj m)) =>
        match all_vals (map (fun kv => ev mf b (with_input c (snd kv))) m) with
        | None => OutOfFuel
        | Some rs => Val (Some (JObj (map fst (filter (fun p => is_jtrue (snd p)) (combine m rs)))))
        end
    | OutOfFuel => OutOfFuel
    | _ => Val None
    end.
Proof. destruct mf; reflexivity. Qed.

(* filter_keys: "Filter an object by keys." *)
Theorem filter_keys_spec mf a b c m (r : str -> option json) :
  ev mf a c = Val (Some (JObj m)) ->
  (forall kv, In kv m -> ev mf b (with_input c (JStr (fst kv))) = Val (r (fst kv))) ->
  ev mf (ECall F_filter_keys [a; b]) c
  = Val (Some (JObj (filter (fun kv => is_jtrue (r (fst kv))) m))).
Proof.
  intros Ha Hb. rewrite eval_filter_keys, Ha.
  rewrite (map_ext_in _ (fun kv => Val (r (fst kv))) m Hb), all_vals_Val.
  now rewrite (filter_combine_map is_jtrue (fun kv => r (fst kv)) m).
Qed.

(* filter_values: "Filter an object by values." *)
Theorem filter_values_spec mf a b c m (r : json -> option json) :
  ev mf a c = Val (Some (JObj m)) ->
  (forall kv, In kv m -> ev mf b (with_input c (snd kv)) = Val (r (snd kv))) ->
  ev mf (ECall F_filter_values [a; b]) c
  = Val (Some (JObj (filter (fun kv => is_jtrue (r (snd kv))) m))).
Proof.
  intros Ha Hb. rewrite eval_filter_values, Ha.
  rewrite (map_ext_in _ (fun kv => Val (r (snd kv))) m Hb), all_vals_Val.
  now rewrite (filter_combine_map is_jtrue (fun kv => r (snd kv)) m).
Qed.

(* ---- every other call: the arguments are evaluated (left to right, all of them) and the
   function is applied to their values; this transports every `pure_sem` law above to `eval` ---- *)
Definition is_binder (f : fn) : bool :=
  match f with
  | F_pipe | F_set | F_define | F_at | F_colon | F_map | F_filter | F_flat_map | F_group_by
  | F_sort_by | F_filter_keys | F_map_keys | F_filter_values | F_map_values
  | F_sort_by_values_by | F_fold => true
  | _ => false
  end.

Definition evs_of (e : expr -> ctx -> outcome) : list expr -> ctx -> list outcome :=
  fix evs (l : list expr) (c : ctx) : list outcome :=
    match l with [] => [] | a :: t => e a c :: evs t c end.

Lemma evs_of_map e args c : evs_of e args c = map (fun a => e a c) args.
Proof. induction args as [|a t IH]; [reflexivity|]. cbn [evs_of map]. now rewrite <- IH. Qed.

Lemma eval_call_unfold mf f args c : is_binder f = false ->
  ev mf (ECall f args) c
  = match all_vals (map (fun a => ev mf a c) args) with
    | Some vals => Val (match pure_sem f vals with Some r => r | None => opaque f vals end)
    | None => OutOfFuel
    end.
Proof.
  intros H. rewrite <- evs_of_map.
  destruct f; try discriminate H; destruct mf; reflexivity.
Qed.

Lemma all_vals_Forall2 mf c args vals :
  Forall2 (fun a v => ev mf a c = Val v) args vals ->
  all_vals (map (fun a => ev mf a c) args) = Some vals.
Proof.
  induction 1 as [|a v args vals Hav _ IH]; [reflexivity|].
  cbn [map all_vals]. now rewrite Hav, IH.
Qed.

Theorem eval_pure mf f args c vals r :
  is_binder f = false ->
  Forall2 (fun a v => ev mf a c = Val v) args vals ->
  pure_sem f vals = Some r ->
  ev mf (ECall f args) c = Val r.
Proof.
  intros Hf Hargs Hr. rewrite eval_call_unfold by exact Hf.
  now rewrite (all_vals_Forall2 mf c args vals Hargs), Hr.
Qed.

(* e.g. (take e1 e2): a list and a count give the prefix, for any expressions e1 e2 *)
Corollary eval_take mf e1 e2 c l n :
  ev mf e1 c = Val (Some (JArr l)) -> ev mf e2 c = Val (Some (JNum (NPos n))) ->
  ev mf (ECall F_take [e1; e2]) c = Val (Some (JArr (firstn (N.to_nat n) l))).
Proof.
  intros H1 H2. eapply eval_pure; [reflexivity| |apply take_list].
  constructor; [exact H1|]. constructor; [exact H2|constructor].
Qed.

(* e.g. a wrong-typed argument gives nothing, never a failure, whatever the expressions are *)
Corollary eval_take_wrong_type mf e1 e2 c v1 v2 :
  ev mf e1 c = Val v1 -> ev mf e2 c = Val v2 -> not_coll v1 \/ not_usize v2 ->
  ev mf (ECall F_take [e1; e2]) c = Val None.
Proof.
  intros H1 H2 Hw. eapply eval_pure; [reflexivity| |].
  - constructor; [exact H1|]. constructor; [exact H2|constructor].
  - destruct Hw as [Hw|Hw]; [now apply take_wrong_coll|now apply take_wrong_count].
Qed.

End ObjectBinders.

(* ---- map_values: "Map an object values." — keys and member order are kept ---- *)
Section MapValues.
Variable opaque : fn -> list (option json) -> option json.
Notation ev := (eval opaque).

Lemma eval_map_values mf a b c :
  ev mf (ECall F_map_values [a; b]) c
  = match ev mf a c with
    | Val (Some (JObj m)) =>
        match all_vals (map (fun kv => ev mf b (with_input c (snd kv))) m) with
        | None => OutOfFuel
        | Some rs =>
            Val (Some (JObj (fold_left (fun acc p => match snd p with
                                                     | Some v => obj_insert (fst (fst p)) v acc
                                                     | None => acc
                                                     end) (combine m rs) [])))
        end
    | OutOfFuel => OutOfFuel
    | _ => Val None
    end.
Proof. destruct mf; reflexivity. Qed.

Lemma obj_has_map_values (g : json -> json) k m :
  obj_has k (map (fun kv => (fst kv, g (snd kv))) m) = obj_has k m.
Proof.
  unfold obj_has. induction m as [|[k' v'] t IH]; [reflexivity|]. cbn [map obj_get fst snd].
  destruct (str_eqb k k'); [reflexivity|exact IH].
Qed.
Lemma obj_has_false_iff k (m : list (str * json)) : obj_has k m = false <-> ~ In k (map fst m).
Proof.
  unfold obj_has. induction m as [|[k' v'] t IH]; cbn [obj_get map fst In]; [tauto|].
  destruct (str_eqb k k') eqn:E.
  - apply str_eqb_eq in E. subst k'. split; [discriminate|]. intros H. exfalso. apply H. now left.
  - rewrite IH. split; [|tauto]. intros H [Hk|Hk]; [|contradiction].
    subst k'. now rewrite str_eqb_refl in E.
Qed.

Lemma map_values_fold (g : json -> json) m : NoDup (map fst m) ->
  fold_left (fun acc p => match snd p with
                          | Some v => obj_insert (fst (fst p)) v acc
                          | None => acc
                          end) (map (fun kv => (kv, Some (g (snd kv)))) m) []
  = map (fun kv => (fst kv, g (snd kv))) m.
Proof.
  induction m as [|[k v] t IH] using rev_ind; intros Hnd; [reflexivity|].
  rewrite !map_app, fold_left_app. cbn [map fold_left fst snd].
  rewrite map_app in Hnd. cbn [map fst] in Hnd.
  assert (Hnd' : NoDup (k :: map fst t)).
  { eapply Permutation_NoDup; [apply Permutation_sym, Permutation_cons_append|exact Hnd]. }
  inversion Hnd' as [|? ? Hnotin Hndt]; subst.
  rewrite IH by exact Hndt. apply obj_insert_absent.
  rewrite obj_has_map_values. now apply obj_has_false_iff.
Qed.

Theorem map_values_spec mf a b c m (g : json -> json) :
  ev mf a c = Val (Some (JObj m)) -> NoDup (map fst m) ->
  (forall kv, In kv m -> ev mf b (with_input c (snd kv)) = Val (Some (g (snd kv)))) ->
  ev mf (ECall F_map_values [a; b]) c
  = Val (Some (JObj (map (fun kv => (fst kv, g (snd kv))) m))).
Proof.
  intros Ha Hnd Hb. rewrite eval_map_values, Ha.
  rewrite (map_ext_in _ (fun kv => Val (Some (g (snd kv)))) m Hb), all_vals_Val.
  rewrite combine_map_self. now rewrite (map_values_fold g m Hnd).
Qed.

End MapValues.

(* ====================================================================================== *)
(* 10. Non-vacuity: the documentation examples, by computation                             *)
(* ====================================================================================== *)
Section Examples.
Definition jn (n : N) : json := JNum (NPos n).
Definition jz (z : Z) : json := JNum (NNeg z).
Definition on (n : N) : option json := Some (jn n).
(* the number written as the decimal text `txt` *)
Definition jdec (txt : list N) : json :=
  JNum (match dec2flt txt with Some b => num_of_f b | None => NPos 0 end).
Definition s_one : str := [111; 110; 101].
Definition s_two : str := [116; 119; 111].
Definition s_three : str := [116; 104; 114; 101; 101].
Definition s_k1 : str := [107; 45; 49].         (* k-1 *)
Definition s_k2 : str := [107; 45; 50].
Definition s_k3 : str := [107; 45; 51].
Definition s_123456 : str := [49; 50; 51; 52; 53; 54].
Definition l1234 : json := JArr [jn 1; jn 2; jn 3; jn 4].
Definition o123 : json := JObj [(s_k1, jn 1); (s_k2, jn 2); (s_k3, jn 3)].

(* take / take_last / sub, N = 0, N = size, N > size, on lists, objects and strings *)
Example ex_take :
  pure_sem F_take [Some l1234; on 2] = Some (Some (JArr [jn 1; jn 2]))
  /\ pure_sem F_take [Some l1234; on 0] = Some (Some (JArr []))
  /\ pure_sem F_take [Some l1234; on 4] = Some (Some l1234)
  /\ pure_sem F_take [Some l1234; on 6] = Some (Some l1234)
  /\ pure_sem F_take [Some o123; on 1] = Some (Some (JObj [(s_k1, jn 1)]))
  /\ pure_sem F_take [Some (JStr s_123456); on 2] = Some (Some (JStr [49; 50]))
  /\ pure_sem F_take [on 50; on 10] = Some None
  /\ pure_sem F_take [Some (JStr s_123456); Some (JBool false)] = Some None
  /\ pure_sem F_take [Some l1234; Some (jz (-1))] = Some None
  /\ pure_sem F_take [Some l1234] = Some None.
Proof. vm_compute. repeat split; reflexivity. Qed.

Example ex_take_last :
  pure_sem F_take_last [Some l1234; on 2] = Some (Some (JArr [jn 3; jn 4]))
  /\ pure_sem F_take_last [Some l1234; on 0] = Some (Some (JArr []))
  /\ pure_sem F_take_last [Some l1234; on 6] = Some (Some l1234)
  /\ pure_sem F_take_last [Some o123; on 1] = Some (Some (JObj [(s_k3, jn 3)]))
  /\ pure_sem F_take_last [Some (JStr s_123456); on 2] = Some (Some (JStr [53; 54]))
  /\ pure_sem F_take_last [Some (JStr s_123456); on 18446744073709551615] = Some (Some (JStr s_123456)).
Proof. vm_compute. repeat split; reflexivity. Qed.

Example ex_sub :
  pure_sem F_sub [Some (JArr [jn 1; jn 2; jn 3; jn 4; jn 5; jn 6]); on 2; on 3] = Some (Some (JArr [jn 3; jn 4; jn 5]))
  /\ pure_sem F_sub [Some l1234; on 6; on 10] = Some (Some (JArr []))
  /\ pure_sem F_sub [Some l1234; on 1; on 10] = Some (Some (JArr [jn 2; jn 3; jn 4]))
  /\ pure_sem F_sub [Some o123; on 1; on 1] = Some (Some (JObj [(s_k2, jn 2)]))
  /\ pure_sem F_sub [Some (JStr s_123456); on 1; on 3] = Some (Some (JStr [50; 51; 52]))
  /\ pure_sem F_sub [Some (JStr s_123456); on 2; on 0] = Some (Some (JStr []))
  /\ pure_sem F_sub [on 50; on 0; on 10] = Some None
  /\ pure_sem F_sub [Some (JStr s_123456); on 10; Some (JObj [])] = Some None.
Proof. vm_compute. repeat split; reflexivity. Qed.

Example ex_size_get :
  pure_sem F_size [Some l1234] = Some (Some (jn 4))
  /\ pure_sem F_size [Some o123] = Some (Some (jn 3))
  /\ pure_sem F_size [on 50] = Some None
  /\ pure_sem F_get [Some l1234; on 1] = Some (Some (jn 2))
  /\ pure_sem F_get [Some l1234; on 100] = Some None
  /\ pure_sem F_get [Some o123; Some (JStr s_k2)] = Some (Some (jn 2))
  /\ pure_sem F_get [Some o123; on 1] = Some None.
Proof. vm_compute. repeat split; reflexivity. Qed.

Example ex_folding :
  pure_sem F_first [Some l1234] = Some (Some (jn 1))
  /\ pure_sem F_last [Some l1234] = Some (Some (jn 4))
  /\ pure_sem F_first [Some (JArr [])] = Some None
  /\ pure_sem F_all [Some (JArr [JBool true; JBool true; jn 1; JBool true])] = Some (Some (JBool false))
  /\ pure_sem F_all [Some (JArr [JBool true; JBool true])] = Some (Some (JBool true))
  /\ pure_sem F_all [Some (JArr [])] = Some (Some (JBool false))
  /\ pure_sem F_any [Some (JArr [jn 1; jn 2; JBool true; JBool false])] = Some (Some (JBool true))
  /\ pure_sem F_any [Some (JArr [])] = Some (Some (JBool false))
  /\ pure_sem F_join [Some (JArr [JStr s_one; JStr s_two; JStr s_three])]
     = Some (Some (JStr (s_one ++ [44; 32] ++ s_two ++ [44; 32] ++ s_three)))
  /\ pure_sem F_join [Some (JArr [JStr s_one; JStr s_two]); Some (JStr [59])]
     = Some (Some (JStr (s_one ++ [59] ++ s_two)))
  /\ pure_sem F_join [Some (JArr [JStr s_one; JStr s_two; jn 3])] = Some None
  /\ pure_sem F_join [Some (JArr [JStr s_one; JStr s_two]); on 5] = Some None
  /\ pure_sem F_sum [Some (JArr [jn 1; jn 5; jz (-7)])] = Some (Some (jz (-1)))
  /\ pure_sem F_sum [Some (JArr [jn 1; JStr s_one])] = Some None.
Proof. vm_compute. repeat split; reflexivity. Qed.

Example ex_manipulations :
  pure_sem F_pop [Some l1234] = Some (Some (JArr [jn 1; jn 2; jn 3]))
  /\ pure_sem F_pop_first [Some l1234] = Some (Some (JArr [jn 2; jn 3; jn 4]))
  /\ pure_sem F_pop [Some (JArr [])] = Some (Some (JArr []))
  /\ pure_sem F_push [Some (JArr []); on 1; on 2; None; on 3] = Some (Some (JArr [jn 1; jn 2; jn 3]))
  /\ pure_sem F_push_front [Some (JArr []); on 1; on 2; on 3; on 4] = Some (Some (JArr [jn 4; jn 3; jn 2; jn 1]))
  /\ pure_sem F_reverese [Some l1234] = Some (Some (JArr [jn 4; jn 3; jn 2; jn 1]))
  /\ pure_sem F_indexed [Some (JArr [JBool false; JNull])]
     = Some (Some (JArr [JObj [(k_value, JBool false); (k_index, jn 0)]; JObj [(k_value, JNull); (k_index, jn 1)]]))
  /\ pure_sem F_push [on 4; on 4] = Some None.
Proof. vm_compute. repeat split; reflexivity. Qed.

Example ex_sort :
  pure_sem F_sort [Some (JArr [JNull; JBool true; JBool false; JObj []; l1234; JStr s_two; JStr s_one; jn 7; jz (-2); o123])]
  = Some (Some (JArr [JNull; JBool false; JBool true; JStr s_one; JStr s_two; jz (-2); jn 7; JObj []; o123; l1234]))
  /\ pure_sem F_sort_unique [Some (JArr [jn 1; jn 2; jn 3; jn 2; jn 3; jn 3])] = Some (Some (JArr [jn 1; jn 2; jn 3]))
  /\ pure_sem F_sort [on 344] = Some None.
Proof. vm_compute. repeat split; reflexivity. Qed.

Example ex_producers :
  pure_sem F_range [on 4] = Some (Some (JArr [jn 0; jn 1; jn 2; jn 3]))
  /\ pure_sem F_range [Some (jz (-4))] = Some None
  /\ pure_sem F_zip [Some (JArr [JStr s_one; JStr s_two]); Some (JArr [jn 1; jn 2]); Some (JArr [JBool false])]
     = Some (Some (JArr [JObj [(dot_key 0, JStr s_one); (dot_key 1, jn 1); (dot_key 2, JBool false)];
                         JObj [(dot_key 0, JStr s_two); (dot_key 1, jn 2)]]))
  /\ pure_sem F_cross [Some (JArr [JStr s_one; JStr s_two]); Some (JArr [jn 1; jn 2])]
     = Some (Some (JArr [JObj [(dot_key 0, JStr s_one); (dot_key 1, jn 1)]; JObj [(dot_key 0, JStr s_two); (dot_key 1, jn 1)];
                         JObj [(dot_key 0, JStr s_one); (dot_key 1, jn 2)]; JObj [(dot_key 0, JStr s_two); (dot_key 1, jn 2)]]))
  /\ pure_sem F_zip [Some l1234; on 6] = Some None
  /\ dot_key 2 = [46; 50].
Proof. vm_compute. repeat split; reflexivity. Qed.

Example ex_objects :
  pure_sem F_keys [Some o123] = Some (Some (JArr [JStr s_k1; JStr s_k2; JStr s_k3]))
  /\ pure_sem F_values [Some o123] = Some (Some (JArr [jn 1; jn 2; jn 3]))
  /\ pure_sem F_entries [Some (JObj [(s_k1, jn 1)])] = Some (Some (JArr [JObj [(k_value, jn 1); (k_key, JStr s_k1)]]))
  /\ pure_sem F_put [Some o123; Some (JStr s_k1); Some (jz (-1))] = Some (Some (JObj [(s_k1, jz (-1)); (s_k2, jn 2); (s_k3, jn 3)]))
  /\ pure_sem F_put [Some (JObj []); Some (JStr s_k1); on 1] = Some (Some (JObj [(s_k1, jn 1)]))
  /\ pure_sem F_insert_if_absent [Some o123; Some (JStr s_k1); Some (jz (-1))] = Some (Some o123)
  /\ pure_sem F_replace_if_exists [Some (JObj []); Some (JStr s_k1); on 1] = Some (Some (JObj []))
  /\ pure_sem F_put [Some (JArr []); Some (JStr s_k1); on 1] = Some None
  /\ pure_sem F_put [Some (JObj []); on 1; on 1] = Some None
  /\ pure_sem F_put [Some (JObj []); Some (JStr s_k1); None] = Some None
  /\ pure_sem F_sort_by_keys [Some (JObj [(s_k3, jn 1); (s_k1, jn 2); (s_k2, JNull)])]
     = Some (Some (JObj [(s_k1, jn 2); (s_k2, JNull); (s_k3, jn 1)]))
  /\ pure_sem F_sort_by_values [Some (JObj [(s_k3, jn 5); (s_k1, jn 2); (s_k2, JNull)])]
     = Some (Some (JObj [(s_k2, JNull); (s_k1, jn 2); (s_k3, jn 5)])).
Proof. vm_compute. repeat split; reflexivity. Qed.

Example ex_strings :
  pure_sem F_concat [Some (JStr s_one); Some (JStr [32]); Some (JStr s_two)] = Some (Some (JStr (s_one ++ [32] ++ s_two)))
  /\ pure_sem F_concat [Some (JStr s_one); on 2] = Some None
  /\ pure_sem F_head [Some (JStr s_123456); on 4] = Some (Some (JStr [49; 50; 51; 52]))
  /\ pure_sem F_head [Some (JStr s_123456); on 20] = Some (Some (JStr s_123456))
  /\ pure_sem F_tail [Some (JStr s_123456); on 20] = Some (Some (JStr s_123456))
  /\ pure_sem F_head [on 20; on 20] = Some None
  /\ pure_sem F_head [Some (JStr s_123456); Some (jz (-5))] = Some None
  /\ pure_sem F_split [Some (JStr [97; 124; 98; 124; 99]); Some (JStr [124])] = Some (Some (JArr [JStr [97]; JStr [98]; JStr [99]]))
  /\ pure_sem F_split [Some (JStr [97; 44; 32; 98]); Some (JStr [44; 32])] = Some (Some (JArr [JStr [97]; JStr [98]])).
Proof. vm_compute. repeat split; reflexivity. Qed.

(* tail skips N characters: (tail "123456" 1) = "23456", whereas (take_last "123456" 1) = "6";
   the two agree on the documentation's own example because there N is half the length *)
Example ex_tail_is_not_take_last :
  pure_sem F_tail [Some (JStr s_123456); on 1] = Some (Some (JStr [50; 51; 52; 53; 54]))
  /\ pure_sem F_take_last [Some (JStr s_123456); on 1] = Some (Some (JStr [54]))
  /\ pure_sem F_tail [Some (JStr s_123456); on 3] = pure_sem F_take_last [Some (JStr s_123456); on 3].
Proof. vm_compute. repeat split; reflexivity. Qed.

Example ex_booleans :
  pure_sem F_lt [on 1; on 3] = Some (Some (JBool true))
  /\ pure_sem F_lt [on 31; on 1] = Some (Some (JBool false))
  /\ pure_sem F_gte [on 1; on 1] = Some (Some (JBool true))
  /\ pure_sem F_eq [Some (JStr [49]); on 1] = Some (Some (JBool false))
  /\ pure_sem F_lt [Some (JStr [49]); on 1] = Some (Some (JBool true))
  /\ pure_sem F_eq [on 1; None] = Some None
  /\ pure_sem F_not [Some (JBool true)] = Some (Some (JBool false))
  /\ pure_sem F_not [on 12] = Some None
  /\ pure_sem F_xor [Some (JBool true); Some (JBool false)] = Some (Some (JBool true))
  /\ pure_sem F_xor [Some JNull; Some (JBool false)] = Some None
  /\ pure_sem F_and [jtrue; jtrue; on 12; jtrue] = Some None
  /\ pure_sem F_or [jfalse; jfalse; jtrue; jfalse] = Some (Some (JBool true))
  /\ pure_sem F_if [jtrue; on 12; on 22] = Some (on 12)
  /\ pure_sem F_if [on 1; on 12; on 22] = Some None
  /\ pure_sem F_default [None; None; on 22; on 1] = Some (on 22).
Proof. vm_compute. repeat split; reflexivity. Qed.

(* numbers: results with zero fractional part are integers (7/2 = 3.5 stays a float, 100/25 = 4,
   floor 10.3 = 10, ceil -10.3 = -10, round -10.5 = -11, 10 % 7.5 = 2.5, 1 + 10 - 4.1 + 0.1 = 7) *)
Example ex_numbers :
  pure_sem F_div [on 100; on 25] = Some (Some (jn 4))
  /\ pure_sem F_div [on 7; on 2] = Some (Some (jdec [51; 46; 53]))
  /\ jdec [51; 46; 53] = JNum (NFlt 4615063718147915776)
  /\ pure_sem F_div [on 7; on 0] = Some None
  /\ pure_sem F_div [on 7; Some (JArr [])] = Some None
  /\ pure_sem F_rem [on 5; on 3] = Some (Some (jn 2))
  /\ pure_sem F_rem [on 10; Some (jdec [55; 46; 53])] = Some (Some (jdec [50; 46; 53]))
  /\ pure_sem F_rem [Some (jz (-10)); on 7] = Some (Some (jz (-3)))
  /\ pure_sem F_floor [Some (jdec [49; 48; 46; 51])] = Some (Some (jn 10))
  /\ pure_sem F_floor [Some (jdec [45; 49; 48; 46; 51])] = Some (Some (jz (-11)))
  /\ pure_sem F_ceil [Some (jdec [45; 49; 48; 46; 51])] = Some (Some (jz (-10)))
  /\ pure_sem F_ceil [Some (jdec [49; 48; 46; 57; 57])] = Some (Some (jn 11))
  /\ pure_sem F_round [Some (jdec [45; 49; 48; 46; 53])] = Some (Some (jz (-11)))
  /\ pure_sem F_round [Some (jdec [49; 48; 46; 53])] = Some (Some (jn 11))
  /\ pure_sem F_abs [Some (jz (-100))] = Some (Some (jn 100))
  /\ pure_sem F_abs [Some (JArr [jn 0])] = Some None
  /\ pure_sem F_add [on 1; on 10; Some (jdec [45; 52; 46; 49]); Some (jdec [48; 46; 49])] = Some (Some (jn 7))
  /\ pure_sem F_add [on 1; on 3; Some (JBool false)] = Some None
  /\ pure_sem F_mul [on 2; on 15; Some (jdec [48; 46; 49])] = Some (Some (jn 3))
  /\ pure_sem F_sub_ [on 100; on 3] = Some (Some (jn 97))
  /\ pure_sem F_sub_ [on 10] = Some (Some (jz (-10)))
  /\ pure_sem F_sub_ [on 0] = Some (Some (jn 0))
  /\ pure_sem F_sub_ [on 10; Some (JStr s_one)] = Some None
  /\ pure_sem F_sum [Some (JArr [jn 1; jn 5; jdec [49; 46; 49]])] = Some (Some (jdec [55; 46; 49])).
Proof. vm_compute. repeat split; reflexivity. Qed.

(* the binders on real expressions: `.` is (EExtract 0 None), `.k` is (EExtract 0 (Some [SKey k])) *)
Definition e_dot : expr := EExtract 0 None.
Definition e_key (k : str) : expr := EExtract 0 (Some [SKey k]).
Definition ctx0 : ctx := new_with_no_context JNull.

(* (map [1, 2, 3, "4"] (times . 2)) = [2, 4, 6] : the string is dropped, order is kept *)
Example ex_map :
  get (ECall F_map [EConst (JArr [jn 1; jn 2; jn 3; JStr [52]]); ECall F_mul [e_dot; EConst (jn 2)]]) ctx0
  = Some (JArr [jn 2; jn 4; jn 6]).
Proof. vm_compute. reflexivity. Qed.

(* (filter [1, 2, 3, 4, "one", null] (string? .)) = ["one"] *)
Example ex_filter :
  get (ECall F_filter [EConst (JArr [jn 1; jn 2; JStr s_one; JNull]); ECall F_is_string [e_dot]]) ctx0
  = Some (JArr [JStr s_one])
  /\ get (ECall F_filter [EConst (JObj []); EConst (JBool true)]) ctx0 = None.
Proof. vm_compute. split; reflexivity. Qed.

(* (flat_map ["a|b", 4, "c"] (split . "|")) = ["a", "b", "c"] *)
Example ex_flat_map :
  get (ECall F_flat_map [EConst (JArr [JStr [97; 124; 98]; jn 4; JStr [99]]); ECall F_split [e_dot; EConst (JStr [124])]]) ctx0
  = Some (JArr [JStr [97]; JStr [98]; JStr [99]]).
Proof. vm_compute. reflexivity. Qed.

(* (fold [1, 10, 5] 100 (+ .index .so_far .value)) = 100 + 1 + 10 + 5 + (0 + 1 + 2) = 119 *)
Example ex_fold :
  get (ECall F_fold [EConst (JArr [jn 1; jn 10; jn 5]); EConst (jn 100);
                     ECall F_add [e_key key_index; e_key key_so_far; e_key key_value]]) ctx0
  = Some (jn 119)
  /\ get (ECall F_fold [EConst (JArr [jn 1; jn 10; jn 5]);
                        ECall F_if [ECall F_is_number [e_key key_so_far];
                                    ECall F_add [e_key key_so_far; e_key key_value]; e_key key_value]]) ctx0
  = Some (jn 16).
Proof. vm_compute. split; reflexivity. Qed.

(* (group_by ["11", "5", "23", "ab", "1", "", "100", {}] (stringify (len .))) : keys in first-seen
   order "2", "1", "0", "3"; members in list order *)
Example ex_group_by :
  get (ECall F_group_by [EConst (JArr [JStr [49; 49]; JStr [53]; JStr [50; 51]; JStr [97; 98]; JStr [49]; JStr []; JStr [49; 48; 48]; JObj []]);
                         ECall F_stringify [ECall F_size [e_dot]]]) ctx0
  = Some (JObj [([50], JArr [JStr [49; 49]; JStr [50; 51]; JStr [97; 98]]);
                ([49], JArr [JStr [53]; JStr [49]]);
                ([48], JArr [JStr []; JObj []]);
                ([51], JArr [JStr [49; 48; 48]])])
  /\ get (ECall F_group_by [EConst (JArr [JStr [49; 49]; JStr [53]]); ECall F_size [e_dot]]) ctx0 = None.
Proof. vm_compute. split; reflexivity. Qed.

(* (sort_by ["12345", "", 10] (len .)) = [10, "", "12345"] : nothing sorts first *)
Example ex_sort_by :
  get (ECall F_sort_by [EConst (JArr [JStr [49; 50; 51; 52; 53]; JStr []; jn 10]); ECall F_size [e_dot]]) ctx0
  = Some (JArr [jn 10; JStr []; JStr [49; 50; 51; 52; 53]]).
Proof. vm_compute. reflexivity. Qed.

(* (filter_keys {"k-1": 1, "k-2": 2, "k-3": 3} (!= . "k-2")) keeps the member order *)
Example ex_filter_keys :
  get (ECall F_filter_keys [EConst o123; ECall F_neq [e_dot; EConst (JStr s_k2)]]) ctx0
  = Some (JObj [(s_k1, jn 1); (s_k3, jn 3)]).
Proof. vm_compute. reflexivity. Qed.

End Examples.

(* ====================================================================================== *)
(* 11. Axiom audit                                                                         *)
(* ====================================================================================== *)
Print Assumptions take_list.
Print Assumptions take_last_suffix.
Print Assumptions sub_wrong_len.
Print Assumptions join_sep.
Print Assumptions sort_strongly_sorted.
Print Assumptions sort_unique_subset.
Print Assumptions zip_two_spec.
Print Assumptions cross_two_spec.
Print Assumptions insert_if_absent_spec.
Print Assumptions split_then_join.
Print Assumptions lt_gt_dual.
Print Assumptions numeric_results_integral.
Print Assumptions sum_result_shape.
Print Assumptions map_spec.
Print Assumptions sort_by_spec.
Print Assumptions fold_spec.
Print Assumptions group_by_spec.
Print Assumptions eval_pure.
Print Assumptions ex_numbers.
Print Assumptions ex_group_by.
